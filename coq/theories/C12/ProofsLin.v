(** C12 proofs, part 3: linearizability.  Under the guard "on the values in play, the
    compare-and-set test succeeds only on the identical object" every event of the ghost
    history is a step of the sequential specification, so the history, read in commit
    order, is a sequential execution that produces the final value and every result. *)
From Coq Require Import List Bool Arith Lia.
Import ListNotations.
From Verif Require Import C12.Spec C12.Model C12.Proofs C12.ProofsHist.

Section Lin.
  Context {V F : Type}.
  Variable cas_ok : V -> V -> bool.
  Variable apply : F -> V -> option V.
  Variable valid : V -> bool.
  Variable nwatch : nat.
  Variable v0 : V.
  Variable progs : nat -> list (op V F).

  Notation op := (op V F).
  Notation res := (res V).
  Notation thread := (thread V F).
  Notation event := (event V F).
  Notation state := (state V F).
  Notation step := (@step V F cas_ok apply valid nwatch).
  Notation reach := (@reach V F cas_ok apply valid nwatch).
  Notation Inv := (@Inv V F cas_ok apply valid nwatch).
  Notation seq_step := (@seq_step V F cas_ok apply valid).
  Notation seq_run := (@seq_run V F cas_ok apply valid).

  (** the guard: a decidable class [P] of values, closed under the update functions, on
      which the CAS test is identity *)
  Variable P : V -> bool.
  Variable fP : F -> bool.
  Hypothesis P_apply : forall f a b, fP f = true -> P a = true -> apply f a = Some b -> P b = true.
  Hypothesis P_id : forall a b, P a = true -> P b = true -> cas_ok a b = true -> a = b.

  Definition opP (o : op) : bool :=
    match o with
    | OSwap _ f _ => fP f
    | OReset _ v _ => P v
    | OCas a b => P a && P b
    | ODeref => true
    end.

  Definition PInv (s : state) : Prop :=
    P (cell s) = true
    /\ forall t, P (t_old (thr s t)) = true /\ P (t_new (thr s t)) = true
                 /\ forallb opP (t_ops (thr s t)) = true.

  Lemma PInv_init : P v0 = true -> (forall t, forallb opP (progs t) = true) -> PInv (init v0 progs).
  Proof. intros H1 H2. split; simpl; auto. Qed.

  Lemma PInv_step s t s' : PInv s -> step t s = Some s' -> PInv s'.
  Proof.
    intros [P1 P2] H. destruct (P2 t) as (Po & Pn & Pops).
    step_destruct H; simpl.
    all: match goal with X : forallb opP (?o :: ?l) = true |- _ =>
           change (opP o && forallb opP l = true) in X; apply andb_true_iff in X;
           destruct X as [Pop Prest] end.
    all: try match goal with X : match ?o with _ => _ end = Some _ |- _ =>
               destruct o; try discriminate X; inversion X; subst; clear X end.
    all: simpl in Pop.
    all: unfold PInv; simpl; split; [solve [auto]|]; intro u; destruct (Nat.eq_dec u t) as [->|Hu];
      [ rewrite upd_same | rewrite (upd_other _ _ _ _ Hu); exact (P2 u) ]; simpl.
    all: try match goal with E : t_ops _ = _ :: _ |- _ => rewrite E end; simpl.
    all: try (apply andb_true_iff in Pop; destruct Pop).
    all: repeat split; auto; try (apply andb_true_iff; split; auto).
    all: try (eapply P_apply; [| |eassumption]; assumption).
    all: simpl; try (apply andb_true_iff; split; auto); try (apply andb_true_iff; split; auto).
  Qed.

  (** all values recorded in the history are in [P] *)
  Definition HPInv (s : state) : Prop :=
    forall e, In e (hist s) -> P (e_read e) = true /\ P (e_before e) = true /\ P (e_after e) = true.

  Lemma HPInv_step s t s' : PInv s -> HPInv s -> step t s = Some s' -> HPInv s'.
  Proof.
    intros [P1 P2] HP H. destruct (P2 t) as (Po & Pn & _).
    step_destruct H; unfold HPInv, log; simpl; try exact HP.
    all: repeat match goal with |- context [match ?x with _ => _ end] => destruct x end; try exact HP.
    all: intros e [<-|Hin]; [simpl; auto|exact (HP e Hin)].
  Qed.

  (** every event is a step of the sequential specification, and every install compared
      against the very object that was in the cell *)
  Definition SInv (s : state) : Prop :=
    forall e, In e (hist s) ->
      seq_step (e_op e) (e_before e) = (e_after e, e_res e)
      /\ (installs (e_op e) (e_res e) = true -> e_read e = e_before e).

  Lemma SInv_step s t s' : Inv s -> PInv s -> SInv s -> step t s = Some s' -> SInv s'.
  Proof.
    intros [IL IT] [P1 P2] S H. destruct (P2 t) as (Po & Pn & Pops).
    step_destruct H; pc_norm.
    all: pose proof (IT t) as L; unfold local_ok in L;
      match goal with E : t_ops _ = _ :: _ |- _ => rewrite E in L end;
      match goal with Hp : t_pc _ = _ |- _ => rewrite Hp in L end; simpl in L.
    all: unfold SInv, log, Model.prophecy; simpl; try exact S.
    all: try (exfalso; tauto).
    all: repeat match goal with |- context [match ?x with _ => _ end] => destruct x eqn:? end; try exact S.
    all: intros e [<-|Hin]; [|exact (S e Hin)]; simpl.
    all: unfold regs_ok in L; repeat match goal with X : _ /\ _ |- _ => destruct X end; subst.
    all: repeat match goal with
         | X : ?x = _ |- context [match ?x with _ => _ end] => rewrite X
         | X : ?x = _ |- context [if ?x then _ else _] => rewrite X
         end; simpl.
    all: try (split; [reflexivity|intro; discriminate || reflexivity]).
    all: try (split; [|reflexivity];
              try (destruct o; simpl in *; try tauto);
              repeat match goal with X : context [match ?x with _ => _ end] |- _ => destruct x eqn:? end;
              try discriminate;
              repeat match goal with X : Some _ = Some _ |- _ => inversion X; subst; clear X end;
              repeat match goal with
                     | X : ?x = _ |- context [match ?x with _ => _ end] => rewrite X
                     | X : ?x = _ |- context [if ?x then _ else _] => rewrite X
                     end; reflexivity).
    all: match goal with X : cas_ok _ _ = true |- _ => pose proof (P_id _ _ P1 Po X) as Hid end.
    all: destruct o; simpl in *; try tauto.
    all: repeat match goal with X : _ /\ _ |- _ => destruct X end; subst.
    all: try rewrite Hid.
    all: repeat match goal with
         | X : ?x = _ |- context [match ?x with _ => _ end] => rewrite X
         | X : ?x = _ |- context [if ?x then _ else _] => rewrite X
         end; simpl.
    all: try (destruct vals; split; auto).
    all: try (rewrite Hid in *; split; auto).
    all: rewrite H2; reflexivity.
  Qed.

  (** ---- assembling the sequential execution ---- *)
  Lemma seq_run_app c l1 l2 :
    seq_run c (l1 ++ l2) =
    let '(c1, r1) := seq_run c l1 in let '(c2, r2) := seq_run c1 l2 in (c2, r1 ++ r2).
  Proof.
    revert c; induction l1 as [|o l1 IH]; intro c; simpl.
    - destruct (seq_run c l2); reflexivity.
    - destruct (seq_step o c) as [c1 x]. rewrite IH.
      destruct (seq_run c1 l1) as [c2 r1]. destruct (seq_run c2 l2). reflexivity.
  Qed.

  Lemma chain_seq_run (h : list event) :
    chain v0 h ->
    (forall e, In e h -> seq_step (e_op e) (e_before e) = (e_after e, e_res e)) ->
    seq_run v0 (map (@e_op V F) (rev h)) = (last_after v0 h, map (@e_res V F) (rev h)).
  Proof.
    induction h as [|e h IH]; simpl; intros C S; [reflexivity|].
    destruct C as [C1 C2]. rewrite !map_app, seq_run_app.
    rewrite IH by auto. simpl. rewrite <- C1, (S e) by auto. reflexivity.
  Qed.

  (** Everything together, for every reachable state. *)
  Definition AllInv (s : state) : Prop :=
    Inv s /\ HInv v0 s /\ RInv apply valid progs s /\ PInv s /\ SInv s /\ HPInv s.

  Lemma AllInv_reach s :
    P v0 = true -> (forall t, forallb opP (progs t) = true) ->
    reach (init v0 progs) s -> AllInv s.
  Proof.
    intros H1 H2 R. induction R as [|s t s' R IH St].
    - split; [apply Inv_init|]. split; [split; simpl; auto|]. split; [apply RInv_init|].
      split; [apply PInv_init; auto|]. split; intros e [].
    - destruct IH as (I1 & I2 & I3 & I4 & I5 & I6).
      split; [eapply Inv_step; eauto|]. split; [eapply HInv_step; eauto|].
      split; [eapply RInv_step; eauto|]. split; [eapply PInv_step; eauto|].
      split; [eapply SInv_step; eauto|]. eapply HPInv_step; eauto.
  Qed.
End Lin.
