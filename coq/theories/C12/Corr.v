(** C12 correspondence interface: concrete values, update functions, validators; cases,
    observable outputs, [spec_ok], [model], [out_eqb], [tag].  Does not import the proofs. *)
From Coq Require Import List Bool Arith ZArith NArith.
Import ListNotations.
From Verif Require Import Common.ListX Gen.Tables.
From Verif Require Export C12.Spec C12.Model.

(** Python values of the test universe.  Leibniz equality of [val] = identity of the Python
    object for the identity-sensitive kinds (each (kind, k) is ONE object in the worker);
    for int/float/str/None two equal model values may be distinct objects, which no test
    of the code can tell apart because their [==] is reflexive. *)
Inductive val :=
| VNone
| VInt (z : Z)
| VFlt (z : Z)              (* the float z.0 *)
| VNaN (k : N)              (* float('nan'), object number k *)
| VStr (s : list N)
| VOpq (k : N)              (* basilisp vector holding NaN: equal only to itself *)
| VW (k : N) (always : bool)  (* object whose __eq__ answers [always] to everything *)
| VUnk.                     (* anything the harness could not encode *)

Inductive fn := FInc | FStr | FId | FThrow | FConst (v : val).

Definition val_eqb (a b : val) : bool :=
  match a, b with
  | VNone, VNone => true
  | VInt x, VInt y => Z.eqb x y
  | VFlt x, VFlt y => Z.eqb x y
  | VNaN x, VNaN y => N.eqb x y
  | VStr x, VStr y => str_eqb x y
  | VOpq x, VOpq y => N.eqb x y
  | VW x p, VW y q => N.eqb x y && Bool.eqb p q
  | VUnk, VUnk => true
  | _, _ => false
  end.

(** Python [cur == old] as evaluated by [cur != old] in _compare_and_set: the left
    operand's __eq__/__ne__ first, the reflected one when it answers NotImplemented. *)
Definition py_eq (a b : val) : bool :=
  match a, b with
  | VW _ p, _ => p
  | _, VW _ p => p
  | VInt x, VInt y | VInt x, VFlt y | VFlt x, VInt y | VFlt x, VFlt y => Z.eqb x y
  | VStr x, VStr y => str_eqb x y
  | VNone, VNone => true
  | VOpq x, VOpq y => N.eqb x y
  | _, _ => false
  end.

(** the test of Atom._compare_and_set, by the shape regenerated from atom.py *)
Definition cas_test (mode : N) (cur old : val) : bool :=
  match mode with
  | 0%N => py_eq cur old
  | 1%N => val_eqb cur old || py_eq cur old
  | _ => val_eqb cur old
  end.
Definition cas_ok : val -> val -> bool := cas_test atom_cas_mode.

Fixpoint digits (fuel : nat) (n : N) (acc : list N) : list N :=
  match fuel with
  | O => acc
  | S k => let d := (48 + n mod 10)%N in
           if (n <? 10)%N then d :: acc else digits k (n / 10)%N (d :: acc)
  end.
Definition Z_str (z : Z) : list N :=
  match z with
  | Z0 => [48%N]
  | Zpos p => digits 60 (Npos p) []
  | Zneg p => 45%N :: digits 60 (Npos p) []
  end.

Definition py_str (v : val) : val :=
  match v with
  | VNone => VStr [78; 111; 110; 101]%N
  | VInt z => VStr (Z_str z)
  | VFlt z => VStr (Z_str z ++ [46; 48]%N)
  | VNaN _ => VStr [110; 97; 110]%N
  | VStr s => VStr s
  | _ => VStr [60; 111; 98; 106; 62]%N
  end.

Definition apply (f : fn) (v : val) : option val :=
  match f with
  | FInc => match v with VInt z => Some (VInt (z + 1)) | _ => None end
  | FStr => Some (py_str v)
  | FId => Some v
  | FThrow => None
  | FConst c => Some c
  end.

(** validator: None, or "an int below n" *)
Definition valid (vld : option Z) (v : val) : bool :=
  match vld with
  | None => true
  | Some n => match v with VInt z => (z <? n)%Z | _ => false end
  end.

Record case := mkCase {
  c_init : val;
  c_vld : option Z;
  c_nwatch : nat;
  c_threads : list (list (op val fn));
  c_sched : list (nat * lab * bool)
}.

Inductive ores := ORes (r : res val) | OBudget | OErr.

Inductive out :=
| OObs (results : list (list ores)) (final : val) (wl : list (nat * val * val))
       (sched : list (nat * lab * bool))
| OFail (code : N).     (* 1 deadlock, 2 hang/timeout, 3 unmapped line, 4 diverged,
                           5 the constructor rejected the initial value (no atom), 9 other *)

Definition res_veqb := @res_eqb val val_eqb.

Definition ores_eqb (a b : ores) : bool :=
  match a, b with
  | ORes x, ORes y => res_veqb x y
  | OBudget, OBudget | OErr, OErr => true
  | _, _ => false
  end.

Definition ev_eqb (a b : nat * lab * bool) : bool :=
  let '(t1, l1, b1) := a in let '(t2, l2, b2) := b in
  Nat.eqb t1 t2 && lab_eqb l1 l2 && Bool.eqb b1 b2.
Definition w_eqb (a b : nat * val * val) : bool :=
  let '(k1, o1, n1) := a in let '(k2, o2, n2) := b in
  Nat.eqb k1 k2 && val_eqb o1 o2 && val_eqb n1 n2.

Definition out_eqb (a b : out) : bool :=
  match a, b with
  | OObs r1 f1 w1 s1, OObs r2 f2 w2 s2 =>
      list_eqb (list_eqb ores_eqb) r1 r2 && val_eqb f1 f2 && list_eqb w_eqb w1 w2
      && list_eqb ev_eqb s1 s2
  | OFail x, OFail y => N.eqb x y
  | _, _ => false
  end.

(** ---- the model of the code, run on the observed schedule ---- *)
Definition progs_of (l : list (list (op val fn))) (t : nat) : list (op val fn) := nth t l [].

Definition init_state (c : case) : state val fn :=
  init (c_init c) (progs_of (c_threads c)).

Definition run_case (c : case) : option (state val fn) :=
  run_schedule cas_ok apply (valid (c_vld c)) (c_nwatch c) (c_sched c) (init_state c).

Definition thread_results (th : thread val fn) : list ores :=
  map (fun d : op val fn * res val * nat => ORes (snd (fst d))) (rev (t_done th))
  ++ match t_ops th with [] => [] | _ => [OBudget] end.

(** Atom.__init__: [if validator is not None: self._validate(state)] -- an initial value the
    validator rejects raises "Invalid reference state": no atom exists, nothing is scheduled. *)
Definition ctor_rejects (c : case) : bool := negb (valid (c_vld c) (c_init c)).

Definition model (c : case) : out :=
  if ctor_rejects c then OFail 5 else
  match run_case c with
  | None => OFail 9
  | Some s =>
      OObs (map (fun t => thread_results (thr s t)) (seq 0 (length (c_threads c))))
           (cell s) (rev (wlog s)) (c_sched c)
  end.

(** defect tag: 1 when some compare-and-set succeeded on a cell that was not the object the
    thread had read (equal but not identical) -- the signature of finding F-12b *)
Definition tag (c : case) : N :=
  match run_case c with
  | Some s => if existsb (fun e => negb (val_eqb (e_before e) (e_read e))) (hist s) then 1%N else 0%N
  | None => 0%N
  end.

(** ---- what the property prescribes for the observed outcome ---- *)
Definition same_value (cur old : val) : bool := val_eqb cur old || py_eq cur old.

Definition ores_res (o : ores) : option (res val) := match o with ORes r => Some r | _ => None end.

Fixpoint zip_prog (p : list (op val fn)) (r : list ores) : option (list (op val fn * res val)) :=
  match p, r with
  | [], [] => Some []
  | o :: p', ORes x :: r' => match zip_prog p' r' with Some l => Some ((o, x) :: l) | None => None end
  | _, _ => None
  end.

Fixpoint zip_all (ps : list (list (op val fn))) (rs : list (list ores))
  : option (list (list (op val fn * res val))) :=
  match ps, rs with
  | [], [] => Some []
  | p :: ps', r :: rs' =>
      match zip_prog p r, zip_all ps' rs' with
      | Some x, Some l => Some (x :: l)
      | _, _ => None
      end
  | _, _ => None
  end.

Definition res_vals (r : res val) : list val := match r with RVals l => l | _ => [] end.

Definition spec_ok (c : case) (o : out) : bool :=
  (* an initial value the validator rejects is never observable: construction must fail *)
  if ctor_rejects c then match o with OFail code => N.eqb code 5 | OObs _ _ _ _ => false end else
  match o with
  | OFail _ => false
  | OObs results final wl _ =>
      match zip_all (c_threads c) results with
      | None => false        (* an operation did not complete (budget) or returned garbage *)
      | Some progs =>
          let vld := valid (c_vld c) in
          let n := length (concat progs) in
          (* a rejected value is never observable (the initial value is valid here) *)
          (vld final
           && forallb (fun w : nat * val * val => vld (snd w) && vld (snd (fst w))) wl
           && forallb (fun p : op val fn * res val =>
                         match fst p with
                         | OCas _ _ => true
                         | _ => forallb vld (res_vals (snd p)) end) (concat progs))
          (* linearizable, and every watch saw exactly the transitions *)
          && match c_nwatch c with
             | O => lin_search same_value apply vld val_eqb (S n) false (c_init c) final progs []
                    && match wl with [] => true | _ => false end
             | S _ =>
                 forallb (fun w => lin_search same_value apply vld val_eqb (S n) true (c_init c) final progs
                                     (map (fun x : nat * val * val => (snd (fst x), snd x))
                                          (filter (fun x : nat * val * val => Nat.eqb (fst (fst x)) w) wl)))
                         (seq 0 (c_nwatch c))
                 && forallb (fun x : nat * val * val => Nat.ltb (fst (fst x)) (c_nwatch c)) wl
             end
      end
  end.
