(** C12 proofs, part 4: termination of an operation that runs alone.  If the
    compare-and-set test is reflexive ([cas_ok v v = true]: identity-first test) every
    operation started with the lock free finishes within [9 + nwatch] of its own steps,
    without a single retry, and does exactly what the sequential specification says.  If
    the test is plain [==] and the cell holds a value not equal to itself, [reset] started
    alone never finishes (the defect repaired in atom.py). *)
From Coq Require Import List Bool Arith Lia.
Import ListNotations.
From Verif Require Import C12.Spec C12.Model C12.Proofs.

Section Term.
  Context {V F : Type}.
  Variable cas_ok : V -> V -> bool.
  Variable apply : F -> V -> option V.
  Variable valid : V -> bool.
  Variable nwatch : nat.

  Notation op := (op V F).
  Notation res := (res V).
  Notation thread := (thread V F).
  Notation state := (state V F).
  Notation step := (@step V F cas_ok apply valid nwatch).
  Notation solo := (@solo V F cas_ok apply valid nwatch).
  Notation seq_step := (@seq_step V F cas_ok apply valid).

  (** thread [t] alone finishes its current operation [o] within [k] steps, with result [r],
      leaving [c'] in the cell, the lock free, and the retry counter untouched *)
  Definition Fin (s : state) (t : nat) (rest : list op) (o : op) (r : res) (c' : V) (k : nat) : Prop :=
    exists n s', n <= k /\ solo t n s = Some s'
      /\ t_ops (thr s' t) = rest /\ t_pc (thr s' t) = PIdle
      /\ t_done (thr s' t) = (o, r, t_iters (thr s t)) :: t_done (thr s t)
      /\ cell s' = c' /\ lock s' = None.

  Lemma Fin_step s s1 t rest o r c' k :
    step t s = Some s1 ->
    t_iters (thr s1 t) = t_iters (thr s t) -> t_done (thr s1 t) = t_done (thr s t) ->
    Fin s1 t rest o r c' k -> Fin s t rest o r c' (S k).
  Proof.
    intros H Hi Hd (n & s' & Hn & Hs & H1 & H2 & H3 & H4 & H5).
    exists (S n), s'. simpl. rewrite H. repeat split; auto; try lia.
    rewrite H3, Hi, Hd. reflexivity.
  Qed.

  Lemma Fin_now s s1 t rest o r c' :
    step t s = Some s1 ->
    t_ops (thr s1 t) = rest -> t_pc (thr s1 t) = PIdle ->
    t_done (thr s1 t) = (o, r, t_iters (thr s t)) :: t_done (thr s t) ->
    cell s1 = c' -> lock s1 = None -> Fin s t rest o r c' 1.
  Proof.
    intros H H1 H2 H3 H4 H5. exists 1, s1. simpl. rewrite H. repeat split; auto.
  Qed.

  Lemma Fin_le s t rest o r c' k k' : k <= k' -> Fin s t rest o r c' k -> Fin s t rest o r c' k'.
  Proof. intros L (n & s' & H & R). exists n, s'. split; [lia|exact R]. Qed.

  Ltac one_step Hops Hpc :=
    unfold Model.step; rewrite Hops; unfold cur_pc; rewrite Hpc; try rewrite Hops; simpl.

  Ltac after := cbn [thr cell lock]; rewrite ?upd_same; cbn;
    try match goal with H : t_ops _ = _ :: _ |- _ => rewrite ?H end; cbn.

  Ltac use_lemma L :=
    match goal with |- Fin ?s1 _ _ _ _ _ _ =>
      let X := fresh "X" in pose proof (L s1) as X; revert X; after; intro X end.

  Section Solo.
    Variables (t : nat) (o : op) (rest : list op).

    Lemma L_notify : forall k s,
      t_ops (thr s t) = o :: rest -> t_pc (thr s t) = PNotify (S k) -> lock s = None ->
      Fin s t rest o (inst_res o (t_old (thr s t)) (t_new (thr s t))) (cell s) (S k).
    Proof.
      induction k as [|k IH]; intros s Hops Hpc Hl.
      - eapply Fin_now; [one_step Hops Hpc; reflexivity|..]; after; auto.
      - eapply Fin_step; [one_step Hops Hpc; reflexivity|..]; after; auto.
        use_lemma IH. apply X; auto.
    Qed.

    Lemma L_relT s :
      t_ops (thr s t) = o :: rest -> t_pc (thr s t) = PRel true ->
      Fin s t rest o (inst_res o (t_old (thr s t)) (t_new (thr s t))) (cell s) (1 + nwatch).
    Proof.
      intros Hops Hpc. destruct nwatch as [|k] eqn:En.
      - eapply Fin_now; [one_step Hops Hpc; rewrite En; reflexivity|..]; after; auto.
      - eapply Fin_step; [one_step Hops Hpc; rewrite En; reflexivity|..]; after; auto.
        pose proof (L_notify k) as L.
        use_lemma L. apply X; auto.
    Qed.

    Lemma L_set s :
      t_ops (thr s t) = o :: rest -> t_pc (thr s t) = PSet ->
      Fin s t rest o (inst_res o (t_old (thr s t)) (t_new (thr s t))) (t_new (thr s t)) (2 + nwatch).
    Proof.
      intros Hops Hpc. eapply Fin_step; [one_step Hops Hpc; reflexivity|..]; after; auto.
      use_lemma L_relT. apply X; auto.
    Qed.

    Lemma L_cmp s :
      t_ops (thr s t) = o :: rest -> t_pc (thr s t) = PCmp ->
      cas_ok (cell s) (t_old (thr s t)) = true ->
      Fin s t rest o (inst_res o (t_old (thr s t)) (t_new (thr s t))) (t_new (thr s t)) (3 + nwatch).
    Proof.
      intros Hops Hpc Hc. eapply Fin_step; [one_step Hops Hpc; rewrite Hc; reflexivity|..]; after; auto.
      use_lemma L_set. apply X; auto.
    Qed.

    Lemma L_acq s :
      t_ops (thr s t) = o :: rest -> t_pc (thr s t) = PAcq -> lock s = None ->
      cas_ok (cell s) (t_old (thr s t)) = true ->
      Fin s t rest o (inst_res o (t_old (thr s t)) (t_new (thr s t))) (t_new (thr s t)) (4 + nwatch).
    Proof.
      intros Hops Hpc Hl Hc. eapply Fin_step; [one_step Hops Hpc; rewrite Hl; reflexivity|..]; after; auto.
      use_lemma L_cmp. apply X; auto.
    Qed.

  End Solo.

  Definition not_cas (o : op) : Prop := match o with OCas _ _ => False | _ => True end.

  Lemma L_val t o rest s :
    t_ops (thr s t) = o :: rest -> t_pc (thr s t) = PValidate -> not_cas o -> lock s = None ->
    cas_ok (cell s) (t_old (thr s t)) = true ->
    (valid (t_new (thr s t)) = true ->
     Fin s t rest o (inst_res o (t_old (thr s t)) (t_new (thr s t))) (t_new (thr s t)) (5 + nwatch))
    /\ (valid (t_new (thr s t)) = false -> Fin s t rest o RInvalid (cell s) 1).
  Proof.
    intros Hops Hpc Hn Hl Hc. split; intro Hv.
    - destruct o; try (exfalso; exact Hn).
      all: eapply Fin_step; [one_step Hops Hpc; rewrite Hv; reflexivity|..]; after; auto.
      all: match goal with |- Fin ?s1 _ _ ?o' _ _ _ =>
             pose proof (L_acq t o' rest s1) as X; revert X; after; intro X end; apply X; auto.
    - destruct o; try (exfalso; exact Hn).
      all: eapply Fin_now; [one_step Hops Hpc; rewrite Hv; reflexivity|..]; after; auto.
  Qed.

  Hypothesis cas_refl : forall v, cas_ok v v = true.

  Lemma L_compute t a f vals rest s :
    t_ops (thr s t) = OSwap a f vals :: rest -> t_pc (thr s t) = PCompute -> lock s = None ->
    t_old (thr s t) = cell s ->
    Fin s t rest (OSwap a f vals) (snd (seq_step (OSwap a f vals) (cell s)))
        (fst (seq_step (OSwap a f vals) (cell s))) (6 + nwatch).
  Proof.
    intros Hops Hpc Hl Ho. simpl. destruct (apply f (cell s)) as [n|] eqn:Ea.
    - eapply Fin_step; [one_step Hops Hpc; rewrite Ho, Ea; reflexivity|..]; after; auto.
      match goal with |- Fin ?s1 _ _ _ _ _ _ =>
        pose proof (L_val t (OSwap a f vals) rest s1) as X; revert X; after; rewrite Ho; intro X end.
      destruct X as [X1 X2]; auto.
      destruct (valid n) eqn:Ev; simpl.
      + apply X1; reflexivity.
      + eapply Fin_le; [|apply X2; reflexivity]. lia.
    - eapply Fin_le; [|eapply Fin_now; [one_step Hops Hpc; rewrite Ho, Ea; reflexivity|..]; after; auto]. lia.
  Qed.

  Ltac go Hops Hpc := eapply Fin_step; [one_step Hops Hpc; reflexivity|..]; after; auto.
  Ltac go_l Hops Hpc Hl := eapply Fin_step; [one_step Hops Hpc; rewrite Hl; reflexivity|..]; after; auto.
  Ltac go_rec tac :=
    eapply Fin_step; [unfold Model.step; after; tac; reflexivity|..]; after; auto.

  Theorem terminates_solo s t o rest :
    t_ops (thr s t) = o :: rest -> t_pc (thr s t) = PIdle -> lock s = None ->
    Fin s t rest o (snd (seq_step o (cell s))) (fst (seq_step o (cell s))) (9 + nwatch).
  Proof.
    intros Hops Hpc Hl.
    destruct o as [[] f vals|[] v vals|o' n'|].
    - (* Atom.swap *)
      eapply Fin_le; [|go Hops Hpc]; [|
        match goal with |- Fin ?s1 _ _ _ _ _ _ =>
          pose proof (L_compute t Py f vals rest s1) as X; revert X; after; intro X end;
        apply X; auto]. lia.
    - (* swap! / swap-vals! *)
      go_l Hops Hpc Hl.
      go_rec idtac. go_rec idtac.
      match goal with |- Fin ?s1 _ _ _ _ _ _ =>
        pose proof (L_compute t Core f vals rest s1) as X; revert X; after; intro X end.
      apply X; auto.
    - (* Atom.reset *)
      eapply Fin_le with (k := 6 + nwatch); [lia|]. go Hops Hpc.
      match goal with |- Fin ?s1 _ _ _ _ _ _ =>
        pose proof (L_val t (OReset Py v vals) rest s1) as X; revert X; after; intro X end.
      destruct X as [X1 X2]; simpl; auto.
      destruct (valid v) eqn:Ev; simpl.
      + apply X1; reflexivity.
      + eapply Fin_le; [|apply X2; reflexivity]. lia.
    - (* reset! / reset-vals! *)
      eapply Fin_le with (k := 8 + nwatch); [lia|].
      go_l Hops Hpc Hl.
      go_rec idtac. go_rec idtac.
      match goal with |- Fin ?s1 _ _ _ _ _ _ =>
        pose proof (L_val t (OReset Core v vals) rest s1) as X; revert X; after; intro X end.
      destruct X as [X1 X2]; simpl; auto.
      destruct (valid v) eqn:Ev; simpl.
      + apply X1; reflexivity.
      + eapply Fin_le; [|apply X2; reflexivity]. lia.
    - (* compare-and-set! *)
      simpl. destruct (valid n') eqn:Ev.
      + eapply Fin_le with (k := 5 + nwatch); [lia|].
        eapply Fin_step; [one_step Hops Hpc; rewrite Ev; reflexivity|..]; after; auto.
        go_rec ltac:(rewrite Hl).
        destruct (cas_ok (cell s) o') eqn:Ec.
        * match goal with |- Fin ?s1 _ _ _ _ _ _ =>
            pose proof (L_cmp t (OCas o' n') rest s1) as X; revert X; after; intro X end.
          apply X; auto.
        * eapply Fin_le with (k := 2); [lia|].
          go_rec ltac:(rewrite Ec).
          eapply Fin_now; [unfold Model.step; after; reflexivity|..]; after; auto.
      + eapply Fin_le with (k := 1); [lia|].
        eapply Fin_now; [one_step Hops Hpc; rewrite Ev; reflexivity|..]; after; auto.
    - (* deref *)
      eapply Fin_le with (k := 3); [lia|].
      go_l Hops Hpc Hl.
      go_rec idtac.
      eapply Fin_now; [unfold Model.step; after; reflexivity|..]; after; auto.
  Qed.
End Term.

(** The retry loop with a test that is not reflexive on the value in the cell. *)
Section Spin.
  Context {V F : Type}.
  Variable cas_ok : V -> V -> bool.
  Variable apply : F -> V -> option V.
  Variable valid : V -> bool.
  Variable nwatch : nat.
  Notation step := (@step V F cas_ok apply valid nwatch).
  Notation solo := (@solo V F cas_ok apply valid nwatch).

  Variables (t : nat) (v w : V) (vals : bool) (rest : list (op V F)).
  Hypothesis not_refl : cas_ok v v = false.
  Hypothesis w_valid : valid w = true.

  Definition Spin (s : state V F) : Prop :=
    cell s = v /\ t_ops (thr s t) = OReset Py w vals :: rest
    /\ (   (t_pc (thr s t) = PIdle /\ lock s = None)
         \/ (t_pc (thr s t) = PValidate /\ lock s = None /\ t_new (thr s t) = w /\ t_old (thr s t) = v)
         \/ (t_pc (thr s t) = PAcq /\ lock s = None /\ t_old (thr s t) = v)
         \/ (t_pc (thr s t) = PCmp /\ t_old (thr s t) = v)
         \/ (t_pc (thr s t) = PRel false)).

  Lemma Spin_step s : Spin s -> exists s', step t s = Some s' /\ Spin s'.
  Proof.
    intros (Hc & Hops & [[Hpc Hl]|[[Hpc [Hl [Hn Ho]]]|[[Hpc [Hl Ho]]|[[Hpc Ho]|Hpc]]]]);
      unfold Model.step; rewrite Hops; unfold cur_pc; rewrite Hpc; try rewrite Hops; simpl.
    - eexists; split; [reflexivity|]. unfold Spin; simpl. rewrite upd_same; simpl.
      intuition auto.
    - rewrite Hn, w_valid. eexists; split; [reflexivity|]. unfold Spin; simpl. rewrite upd_same; simpl.
      intuition auto.
    - rewrite Hl. eexists; split; [reflexivity|]. unfold Spin; simpl. rewrite upd_same; simpl.
      intuition auto.
    - rewrite Hc, Ho, not_refl. eexists; split; [reflexivity|]. unfold Spin; simpl. rewrite upd_same; simpl.
      intuition auto.
    - eexists; split; [reflexivity|]. unfold Spin; simpl. rewrite upd_same; simpl.
      intuition auto.
  Qed.

  Theorem reset_never_finishes s :
    cell s = v -> t_ops (thr s t) = OReset Py w vals :: rest -> t_pc (thr s t) = PIdle -> lock s = None ->
    forall n, exists s', solo t n s = Some s' /\ t_ops (thr s' t) = OReset Py w vals :: rest.
  Proof.
    intros Hc Hops Hpc Hl n.
    assert (Sp : Spin s) by (repeat split; auto).
    clear Hc Hops Hpc Hl. revert s Sp. induction n as [|n IH]; intros s Sp.
    - exists s. split; [reflexivity|]. apply Sp.
    - destruct (Spin_step s Sp) as (s1 & H1 & Sp1). destruct (IH s1 Sp1) as (s' & H2 & H3).
      exists s'. simpl. rewrite H1. auto.
  Qed.
End Spin.
