(** C12 witnesses: concrete executions of the model (closed computations). *)
From Coq Require Import List Bool Arith ZArith NArith Lia.
Import ListNotations.
From Verif Require Import Common.ListX Gen.Tables.
From Verif Require Import C12.Spec C12.Model C12.Corr.
From Verif Require Import C12.Proofs C12.ProofsHist C12.ProofsLin C12.ProofsTerm C12.ProofsConc.

Notation mreach vld nw := (@reach val fn cas_ok apply (valid vld) nw).

(** helpers to extract facts about a concrete run from a closed computation *)
Lemma run_case_chk (c : case) (chk : state val fn -> bool) :
  match run_case c with Some s => chk s | None => false end = true ->
  exists s, run_case c = Some s /\ chk s = true.
Proof. destruct (run_case c) as [s|]; intro H; [eauto|discriminate]. Qed.

Lemma run_case_reach (c : case) s :
  run_case c = Some s -> mreach (c_vld c) (c_nwatch c) (init_state c) s.
Proof. intro E. eapply run_schedule_reach; [apply reach_refl|exact E]. Qed.

(** the guard is satisfiable on a non-trivial execution: two racing swap! inc, one retry *)
Definition inc_inc_case : case :=
  mkCase (VInt 0) None 0 [[OSwap Py FInc false]; [OSwap Core FInc true]]
    [(0, LRead, false); (0, LCompute, false); (1, LDL, false); (1, LDRead, false); (1, LDL, false);
     (1, LCompute, false); (1, LVal, false); (1, LCL, false); (1, LCmp, false); (1, LSet, false);
     (1, LCL, false); (0, LVal, false); (0, LCL, false); (0, LCmp, false); (0, LCL, false);
     (0, LRead, false); (0, LCompute, false); (0, LVal, false); (0, LCL, false); (0, LCmp, false);
     (0, LSet, false); (0, LCL, false)].

Lemma guard_inhabited :
  exists s, mreach (c_vld inc_inc_case) (c_nwatch inc_inc_case) (init_state inc_inc_case) s
            /\ cell s = VInt 2 /\ length (hist s) = 2
            /\ (exists d, t_done (thr s 0) = [d] /\ snd d = 1)      (* thread 0 retried once *)
            /\ plain (c_init inc_inc_case) = true
            /\ forallb (forallb (opP plain fn_plain)) (c_threads inc_inc_case) = true.
Proof.
  pose (chk := fun s : state val fn =>
          val_eqb (cell s) (VInt 2) && Nat.eqb (length (hist s)) 2
          && match t_done (thr s 0) with [d] => Nat.eqb (snd d) 1 | _ => false end).
  destruct (run_case_chk inc_inc_case chk) as (s & E & H); [vm_compute; reflexivity|].
  exists s. split; [apply run_case_reach; exact E|].
  unfold chk in H. apply andb_true_iff in H as [H H3]. apply andb_true_iff in H as [H1 H2].
  split; [apply val_eqb_eq; exact H1|]. split; [apply Nat.eqb_eq; exact H2|].
  split; [|split; reflexivity].
  destruct (t_done (thr s 0)) as [|d [|? ?]]; try discriminate H3.
  exists d. split; [reflexivity|apply Nat.eqb_eq; exact H3].
Qed.

(** Without the guard the clause is false for the code as it is: 1 and 1.0.  Thread 0 runs
    (swap! a str), thread 1 (reset! a 1.0) on an atom holding 1; thread 0 reads 1, thread 1
    installs 1.0, thread 0's compare-and-set succeeds because 1.0 == 1 and installs "1":
    neither order of the two calls gives "1" as the final value. *)
Definition aba_case : case :=
  mkCase (VInt 1) None 0 [[OSwap Py FStr false]; [OReset Py (VFlt 1) false]]
    [(0, LRead, false); (0, LCompute, false); (0, LVal, false);
     (1, LRead, false); (1, LVal, false); (1, LCL, false); (1, LCmp, false); (1, LSet, false); (1, LCL, false);
     (0, LCL, false); (0, LCmp, false); (0, LSet, false); (0, LCL, false)].

Lemma eq_aba_refuted :
  exists c s, run_case c = Some s
    /\ mreach (c_vld c) (c_nwatch c) (init_state c) s
    /\ (forall t, t < length (c_threads c) -> t_ops (thr s t) = [])   (* every call has returned *)
    /\ cell s = VStr [49%N]                                           (* final value "1" *)
    /\ (exists e, In e (hist s) /\ e_read e <> e_before e /\ installs (e_op e) (e_res e) = true)
    /\ spec_ok c (model c) = false.                       (* no sequential order explains it *)
Proof.
  exists aba_case.
  pose (chk := fun s : state val fn =>
          forallb (fun t => match t_ops (thr s t) with [] => true | _ => false end) (seq 0 2)
          && val_eqb (cell s) (VStr [49%N])
          && existsb (fun e => negb (val_eqb (e_read e) (e_before e)) && installs (e_op e) (e_res e)) (hist s)).
  destruct (run_case_chk aba_case chk) as (s & E & H); [vm_compute; reflexivity|].
  exists s. split; [exact E|].
  split; [apply run_case_reach; exact E|].
  unfold chk in H. apply andb_true_iff in H as [H H3]. apply andb_true_iff in H as [H1 H2].
  split; [|split; [apply val_eqb_eq; exact H2|split]].
  - intros t Ht. rewrite forallb_forall in H1. specialize (H1 t).
    assert (In t (seq 0 2)) as Hin by (apply in_seq; simpl in Ht; lia).
    specialize (H1 Hin). destruct (t_ops (thr s t)); [reflexivity|discriminate H1].
  - apply existsb_exists in H3 as (e & He & Hc). apply andb_true_iff in Hc as [Hc1 Hc2].
    exists e. split; [exact He|]. split; [|exact Hc2].
    intro Heq. rewrite Heq, val_eqb_refl in Hc1. discriminate Hc1.
  - vm_compute. reflexivity.
Qed.
