(** C12 specification: the sequential atom.

    An atom is a cell holding one value.  Operations (the vocabulary shared with the model
    of the code) and what each of them does when it runs alone, atomically:
    [seq_step o c = (c', r)]: on a cell holding [c], operation [o] leaves [c'] and returns
    [r].  A concurrent execution is *linearizable* when some interleaving of the threads'
    programs, run sequentially with [seq_step], produces exactly the results every call
    returned, the final value observed, and -- for the watches -- exactly the (old, new)
    transitions that were notified.

    The parameters: [apply f v] the update function ([None]: it throws), [valid] the validator
    ([fun _ => true] when there is none), [same_value cur old] the test compare-and-set!
    prescribes ("old-val is the current value of the atom"). *)
From Coq Require Import List Bool Arith.
Import ListNotations.

Inductive api := Py | Core.     (* Atom.swap/.reset methods  |  core.lpy swap!/reset! loops *)

Inductive op {V F : Type} :=
| OSwap (a : api) (f : F) (vals : bool)      (* vals: swap-vals! (returns [new old]) *)
| OReset (a : api) (v : V) (vals : bool)     (* vals: reset-vals! *)
| OCas (o n : V)
| ODeref.
Arguments op : clear implicits.

Inductive res {V : Type} :=
| RVals (l : list V)
| RBool (b : bool)
| RExc                  (* the update function threw *)
| RInvalid.             (* "Invalid reference state" *)
Arguments res : clear implicits.

Section Spec.
  Context {V F : Type}.
  Variable same_value : V -> V -> bool.
  Variable apply : F -> V -> option V.
  Variable valid : V -> bool.

  Definition seq_step (o : op V F) (c : V) : V * res V :=
    match o with
    | OSwap _ f vals =>
        match apply f c with
        | None => (c, RExc)
        | Some n => if valid n then (n, RVals (if vals then [n; c] else [n])) else (c, RInvalid)
        end
    | OReset _ v vals =>
        if valid v then (v, RVals (if vals then [v; c] else [v])) else (c, RInvalid)
    | OCas o n =>
        if valid n then (if same_value c o then (n, RBool true) else (c, RBool false))
        else (c, RInvalid)
    | ODeref => (c, RVals [c])
    end.

  (** running a list of operations one after the other *)
  Fixpoint seq_run (c : V) (l : list (op V F)) : V * list (res V) :=
    match l with
    | [] => (c, [])
    | o :: r => let '(c1, x) := seq_step o c in
                let '(c2, xs) := seq_run c1 r in (c2, x :: xs)
    end.

  (** the transitions (old, new) made by a sequential run: one per operation that installs *)
  Definition installs (o : op V F) (r : res V) : bool :=
    match o, r with
    | ODeref, _ => false
    | OCas _ _, RBool true => true
    | OCas _ _, _ => false
    | _, RVals _ => true
    | _, _ => false
    end.

  (** Executable search for a linearization (used by the correspondence check on concrete
      outcomes).  [progs]: per thread, the operations still to place, each with the result
      the implementation returned.  [trans]: the transitions still to be explained, i.e.
      the (old, new) pairs one watch was notified with (when [check_w] is set).  Values are
      compared with [veq] (identity of the model values). *)
  Variable veq : V -> V -> bool.

  Definition res_eqb (a b : res V) : bool :=
    match a, b with
    | RVals x, RVals y => (fix go x y := match x, y with
                                          | [], [] => true
                                          | p :: x', q :: y' => veq p q && go x' y'
                                          | _, _ => false end) x y
    | RBool x, RBool y => Bool.eqb x y
    | RExc, RExc => true
    | RInvalid, RInvalid => true
    | _, _ => false
    end.

  Fixpoint remove_trans (o n : V) (l : list (V * V)) : option (list (V * V)) :=
    match l with
    | [] => None
    | (a, b) :: r => if veq a o && veq b n then Some r
                     else match remove_trans o n r with Some r' => Some ((a, b) :: r') | None => None end
    end.

  (** all ways of taking the head of one thread's list *)
  Fixpoint picks {A} (pre : list (list A)) (l : list (list A)) : list (A * list (list A)) :=
    match l with
    | [] => []
    | [] :: r => picks (pre ++ [[]]) r
    | (x :: xs) :: r => (x, pre ++ xs :: r) :: picks (pre ++ [x :: xs]) r
    end.

  Fixpoint lin_search (fuel : nat) (check_w : bool) (c final : V)
           (progs : list (list (op V F * res V))) (trans : list (V * V)) : bool :=
    match fuel with
    | O => false
    | S k =>
        if forallb (fun p => match p with [] => true | _ => false end) progs
        then veq c final && (negb check_w || match trans with [] => true | _ => false end)
        else existsb (fun pk : (op V F * res V) * list (list (op V F * res V)) =>
               let '((o, r), rest) := pk in
               let '(c', r') := seq_step o c in
               res_eqb r r' &&
               (if check_w && installs o r
                then match remove_trans c c' trans with
                     | Some tr' => lin_search k check_w c' final rest tr'
                     | None => false end
                else lin_search k check_w c' final rest trans))
             (picks [] progs)
    end.
End Spec.
