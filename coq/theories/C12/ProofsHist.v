(** C12 proofs, part 2: the ghost history is a sequential execution (linearization), every
    operation returns the result recorded at its linearization point, watch notifications
    are committed installs, the validator is never violated.  All statements are
    invariants of [reach], i.e. hold under every interleaving of any number of threads. *)
From Coq Require Import List Bool Arith Lia.
Import ListNotations.
From Verif Require Import C12.Spec C12.Model C12.Proofs.

Section Hist.
  Context {V F : Type}.
  Variable cas_ok : V -> V -> bool.
  Variable apply : F -> V -> option V.
  Variable valid : V -> bool.
  Variable nwatch : nat.
  Variable v0 : V.
  Variable progs : nat -> list (op V F).

  Notation op := (op V F).
  Notation res := (res V).
  Notation thread := (thread V F).
  Notation event := (event V F).
  Notation state := (state V F).
  Notation step := (@step V F cas_ok apply valid nwatch).
  Notation reach := (@reach V F cas_ok apply valid nwatch).
  Notation Inv := (@Inv V F cas_ok apply valid nwatch).
  Notation prophecy := (@prophecy V F apply valid).
  Notation seq_step := (@seq_step V F cas_ok apply valid).
  Notation seq_run := (@seq_run V F cas_ok apply valid).

  (** ---- the history is a chain of cell values ---- *)
  Definition last_after (h : list event) : V :=
    match h with [] => v0 | e :: _ => e_after e end.
  Fixpoint chain (h : list event) : Prop :=
    match h with [] => True | e :: r => e_before e = last_after r /\ chain r end.
  Definition HInv (s : state) : Prop := cell s = last_after (hist s) /\ chain (hist s).

  Lemma HInv_step s t s' : HInv s -> step t s = Some s' -> HInv s'.
  Proof.
    intros [H1 H2] H. step_destruct H; unfold HInv, log; simpl;
      repeat match goal with |- context [match ?x with _ => _ end] => destruct x end;
      simpl; auto.
  Qed.

  (** ---- per-thread results ---- *)
  Definition evs (t : nat) (h : list event) : list (op * res) :=
    map (fun e => (e_op e, e_res e)) (filter (fun e => Nat.eqb (e_tid e) t) h).
  Definition dones (th : thread) : list (op * res) :=
    map (fun d : op * res * nat => (fst (fst d), snd (fst d))) (t_done th).

  (** the operation in flight has already taken effect with this result *)
  Definition pend (th : thread) : list (op * res) :=
    match t_ops th with
    | [] => []
    | o :: _ =>
        match t_pc th with
        | PRdRel | PCompute | PValidate =>
            match prophecy o (t_old th) with Some r => [(o, r)] | None => [] end
        | PRel true | PNotify _ => [(o, inst_res o (t_old th) (t_new th))]
        | PRel false => match o with OCas _ _ => [(o, RBool false)] | _ => [] end
        | _ => []
        end
    end.

  Definition RInv (s : state) : Prop :=
    forall t, evs t (hist s) = pend (thr s t) ++ dones (thr s t)
              /\ progs t = rev (map fst (dones (thr s t))) ++ t_ops (thr s t).

  Lemma evs_cons_same t e h : e_tid e = t -> evs t (e :: h) = (e_op e, e_res e) :: evs t h.
  Proof. intro H. unfold evs. simpl. rewrite H, Nat.eqb_refl. reflexivity. Qed.
  Lemma evs_cons_other t e h : e_tid e <> t -> evs t (e :: h) = evs t h.
  Proof. intro H. unfold evs. simpl. apply Nat.eqb_neq in H. rewrite H. reflexivity. Qed.

  Lemma RInv_init : RInv (init v0 progs).
  Proof. intro t. simpl. unfold pend, dones, init_thread; simpl. destruct (progs t); auto. Qed.

  Lemma RInv_step s t s' : Inv s -> RInv s -> step t s = Some s' -> RInv s'.
  Proof.
    intros [IL IT] R H. step_destruct H; pc_norm.
    all: pose proof (IT t) as L; unfold local_ok in L;
      match goal with E : t_ops _ = _ :: _ |- _ => rewrite E in L end;
      match goal with Hp : t_pc _ = _ |- _ => rewrite Hp in L end; simpl in L.
    all: intro u; destruct (Nat.eq_dec u t) as [->|Hu]; simpl;
      [ rewrite upd_same | rewrite (upd_other _ _ _ _ Hu) ].
    (* other threads: their events are untouched *)
    all: try (unfold log; repeat match goal with |- context [match ?x with _ => _ end] => destruct x end;
              try rewrite evs_cons_other by (simpl; congruence); exact (R u)).
    (* the stepping thread *)
    all: destruct (R t) as [R1 R2]; unfold pend, dones in *; simpl in *;
      repeat match goal with E : t_ops _ = _ :: _ |- _ => rewrite E in * end;
      repeat match goal with Hp : t_pc _ = _ |- _ => rewrite Hp in * end; simpl in *.
    all: try (split; assumption).
    all: try (exfalso; tauto).
    all: unfold log, Model.prophecy, regs_ok in *; simpl in *.
    all: repeat match goal with
         | X : _ /\ _ |- _ => destruct X
         end; subst.
    all: repeat match goal with
         | X : ?x = _ |- context [match ?x with _ => _ end] => rewrite X
         | X : ?x = _, Y : context [match ?x with _ => _ end] |- _ => rewrite X in Y
         end; simpl in *.
    all: repeat match goal with |- context [match ?x with _ => _ end] => destruct x eqn:? end; simpl in *.
    all: try rewrite evs_cons_same by reflexivity.
    all: try (split; [congruence|]).
    all: try (rewrite <- app_assoc; simpl; assumption).
    all: try assumption.
    all: cbn [e_op e_res]; try (split; [f_equal; assumption|]); try assumption.
    all: repeat split; try rewrite <- app_assoc; simpl; auto; try congruence.
    all: match goal with X : PRel _ = PRel _ |- _ => inversion X; subst end; assumption.
  Qed.

  (** ---- the validator is never violated ---- *)
  Definition VInv (s : state) : Prop :=
    valid (cell s) = true
    /\ forall e, In e (hist s) -> valid (e_before e) = true /\ valid (e_after e) = true.

  Lemma VInv_step s t s' : Inv s -> VInv s -> step t s = Some s' -> VInv s'.
  Proof.
    intros [IL IT] [V1 V2] H. step_destruct H; pc_norm.
    all: pose proof (IT t) as L; unfold local_ok in L;
      match goal with E : t_ops _ = _ :: _ |- _ => rewrite E in L end;
      match goal with Hp : t_pc _ = _ |- _ => rewrite Hp in L end; simpl in L.
    all: unfold VInv, log; simpl; try (split; assumption).
    all: repeat match goal with |- context [match ?x with _ => _ end] => destruct x end.
    all: try (split; assumption).
    all: split; [tauto|]; intros e [<-|Hin]; simpl; auto; tauto.
  Qed.

  (** ---- watch notifications are committed installs ---- *)
  Definition committed (s : state) (t : nat) (o n : V) : Prop :=
    exists e, In e (hist s) /\ e_tid e = t /\ e_read e = o /\ e_after e = n
              /\ cas_ok (e_before e) o = true.

  Definition notifying (p : pc) : bool :=
    match p with PRel true | PNotify _ => true | _ => false end.

  Definition WInv (s : state) : Prop :=
    (forall t, notifying (t_pc (thr s t)) = true ->
               committed s t (t_old (thr s t)) (t_new (thr s t)))
    /\ (forall k o n, In (k, o, n) (wlog s) -> k < nwatch /\ exists t, committed s t o n).

  Lemma committed_mono s s' t o n :
    (forall e, In e (hist s) -> In e (hist s')) -> committed s t o n -> committed s' t o n.
  Proof. intros M (e & H & R). exists e. split; auto. Qed.

  Lemma WInv_step s t s' : Inv s -> WInv s -> step t s = Some s' -> WInv s'.
  Proof.
    intros [IL IT] [W1 W2] H.
    assert (M : forall e, In e (hist s) -> In e (hist s')).
    { clear - H. step_destruct H; unfold log; simpl; auto;
        repeat match goal with |- context [match ?x with _ => _ end] => destruct x end;
        simpl; auto. }
    step_destruct H; pc_norm.
    all: pose proof (IT t) as L; unfold local_ok in L;
      match goal with E : t_ops _ = _ :: _ |- _ => rewrite E in L end;
      match goal with Hp : t_pc _ = _ |- _ => rewrite Hp in L end; simpl in L.
    all: pose proof (W1 t) as Wt;
      match goal with Hp : t_pc _ = _ |- _ => rewrite Hp in Wt end; simpl in Wt.
    all: split;
      [ intro u; destruct (Nat.eq_dec u t) as [->|Hu]; simpl;
        [ rewrite upd_same | rewrite (upd_other _ _ _ _ Hu) ]; simpl; intro Hn;
        try discriminate Hn
      | simpl ].
    all: try (eapply committed_mono; [exact M|]; auto; fail).
    all: try (intros k o' n' Hin; destruct (W2 k o' n' Hin) as [Hk [t' Hc]]; split; [exact Hk|];
              exists t'; eapply committed_mono; [exact M|exact Hc]).
    all: try (exfalso; tauto).
    all: try (eexists; split; [left; reflexivity|]; simpl; tauto).
    all: intros k o' n' Hin; simpl in Hin.
    all: try (destruct Hin as [Heq|Hin];
              [ inversion Heq; subst; clear Heq; split;
                [ destruct o; simpl in L; lia
                | exists t; eapply committed_mono; [exact M|]; apply Wt; reflexivity ] | ]).
    all: destruct (W2 k o' n' Hin) as [Hk [t' Hc]]; (split; [lia|]);
      exists t'; eapply committed_mono; [exact M|exact Hc].
  Qed.

  Lemma reach_hist s :
    reach (init v0 progs) s ->
    Inv s /\ HInv s /\ RInv s /\ WInv s /\ (valid v0 = true -> VInv s).
  Proof.
    intro R. induction R as [|s t s' R IH St].
    - split; [apply Inv_init|]. split; [split; simpl; auto|]. split; [apply RInv_init|].
      split; [split; simpl; [intros t H; discriminate|intros k o n []]|].
      intro Hv. split; simpl; [exact Hv|intros e []].
    - destruct IH as (I1 & I2 & I3 & I4 & I5).
      split; [eapply Inv_step; eauto|]. split; [eapply HInv_step; eauto|].
      split; [eapply RInv_step; eauto|]. split; [eapply WInv_step; eauto|].
      intro Hv. eapply VInv_step; eauto.
  Qed.
End Hist.
