(** C12 proofs, part 5: facts about the concrete value universe of Corr.v (Python [==] on
    it, the regenerated compare-and-set test, the update functions). *)
From Coq Require Import List Bool Arith ZArith NArith Lia.
Import ListNotations.
From Verif Require Import Common.ListX Gen.Tables C12.Spec C12.Model C12.Corr.

Lemma val_eqb_eq a b : val_eqb a b = true <-> a = b.
Proof.
  destruct a, b; simpl; split; intro H; try discriminate; try reflexivity; try congruence.
  - apply Z.eqb_eq in H; congruence.
  - inversion H; apply Z.eqb_refl.
  - apply Z.eqb_eq in H; congruence.
  - inversion H; apply Z.eqb_refl.
  - apply N.eqb_eq in H; congruence.
  - inversion H; apply N.eqb_refl.
  - apply str_eqb_eq in H; congruence.
  - inversion H; apply str_eqb_refl.
  - apply N.eqb_eq in H; congruence.
  - inversion H; apply N.eqb_refl.
  - apply andb_true_iff in H as [H1 H2]. apply N.eqb_eq in H1. apply Bool.eqb_prop in H2. congruence.
  - inversion H. rewrite N.eqb_refl, Bool.eqb_reflx. reflexivity.
Qed.

Lemma val_eqb_refl a : val_eqb a a = true.
Proof. apply val_eqb_eq; reflexivity. Qed.

(** the guard of the linearizability theorem: values whose [==] coincides with identity
    (no float equal to an int, no object with a pathological __eq__) *)
Definition plain (v : val) : bool :=
  match v with
  | VNone | VInt _ | VStr _ | VNaN _ | VOpq _ => true
  | VFlt _ | VW _ _ | VUnk => false
  end.

Definition fn_plain (f : fn) : bool := match f with FConst c => plain c | _ => true end.

Lemma plain_apply f a b : fn_plain f = true -> plain a = true -> apply f a = Some b -> plain b = true.
Proof.
  destruct f; simpl; intros Hf Ha H.
  - destruct a; try discriminate; inversion H; reflexivity.
  - inversion H. destruct a; reflexivity.
  - inversion H; subst; exact Ha.
  - discriminate.
  - inversion H; subst; exact Hf.
Qed.

Lemma plain_id_any mode a b : plain a = true -> plain b = true -> cas_test mode a b = true -> a = b.
Proof.
  intros Ha Hb H.
  assert (E : val_eqb a b = true \/ py_eq a b = true).
  { unfold cas_test in H. destruct mode as [|[p|p|]]; auto; try (apply orb_true_iff in H; exact H). }
  destruct E as [E|E]; [apply val_eqb_eq; exact E|].
  destruct a, b; simpl in *; try discriminate; try reflexivity.
  - apply Z.eqb_eq in E; congruence.
  - apply str_eqb_eq in E; congruence.
  - apply N.eqb_eq in E; congruence.
Qed.

Lemma plain_id a b : plain a = true -> plain b = true -> cas_ok a b = true -> a = b.
Proof. apply plain_id_any. Qed.

(** the compare-and-set test of the current atom.py is reflexive *)
Lemma cas_mode_is_1 : atom_cas_mode = 1%N.
Proof. reflexivity. Qed.

Lemma cas_ok_refl v : cas_ok v v = true.
Proof. unfold cas_ok. rewrite cas_mode_is_1. simpl. rewrite val_eqb_refl. reflexivity. Qed.

(** ... and the one it replaced was not: NaN is not equal to itself *)
Lemma eq_only_not_refl k : cas_test 0 (VNaN k) (VNaN k) = false.
Proof. reflexivity. Qed.
