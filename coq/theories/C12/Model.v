(** C12 model of the code as it is: src/basilisp/lang/atom.py (Atom._compare_and_set,
    compare_and_set, deref, reset, swap), reference.py (RefBase._validate,
    _notify_watches) and the retry loops of core.lpy (swap! reset! swap-vals! reset-vals!
    compare-and-set!), as per-thread small-step programs over one shared cell.

    Granularity = the source lines that touch shared state (these are the program points
    [pc]; the remaining lines are thread-local and silent):

      Python methods swap / reset               core.lpy  swap! / reset! (and -vals!)
        PRead      oldval = self._state           PRdAcq   (deref) with self._lock:
        PCompute   newval = f(oldval, ...)        PRdRead          return self._state
        PValidate  self._validate(newval)         PRdRel           (leave the with block)
        PAcq       with self._lock:               PCompute  (apply f current args)
        PCmp         if <test>: return False      PValidate (.compare-and-set atom current new)
        PSet         self._state = new            PAcq PCmp PSet PRel as on the left
        PRel b     (leave the with block)         failed CAS: recur -> PRdAcq
        PNotify k  wf(k, self, old, new)  for each watch
        failed CAS: next iteration of `while True` -> PRead

    The lock is explicit ([lock : option tid]); a thread at PAcq/PRdAcq cannot step while
    another thread owns it.  The test of _compare_and_set is the parameter [cas_ok cur old]
    (instantiated from the regenerated [Gen.Tables.atom_cas_mode] in Corr.v); Python's [==]
    is therefore NOT assumed to be Leibniz equality.  Identity of Python objects is
    Leibniz equality of model values.

    Ghost state (not in the code): [hist], the linearization events in commit order
    (newest first), one per operation, appended at the step where the operation takes
    effect; used only by the theorems. *)
From Coq Require Import List Bool Arith Lia.
Import ListNotations.
From Verif Require Export C12.Spec.

Inductive pc :=
| PIdle
| PRdAcq | PRdRead | PRdRel
| PRead | PCompute | PValidate
| PAcq | PCmp | PSet | PRel (ok : bool)
| PNotify (k : nat).

(** labels of the line events of the real code (harness/tr/tr_conc.py LABELS) *)
Inductive lab := LRead | LCompute | LVal | LCL | LCmp | LSet | LDL | LDRead | LNotify.

Definition lab_of_pc (p : pc) : option lab :=
  match p with
  | PIdle => None
  | PRdAcq | PRdRel => Some LDL
  | PRdRead => Some LDRead
  | PRead => Some LRead
  | PCompute => Some LCompute
  | PValidate => Some LVal
  | PAcq | PRel _ => Some LCL
  | PCmp => Some LCmp
  | PSet => Some LSet
  | PNotify _ => Some LNotify
  end.

Definition lab_eqb (a b : lab) : bool :=
  match a, b with
  | LRead, LRead | LCompute, LCompute | LVal, LVal | LCL, LCL | LCmp, LCmp | LSet, LSet
  | LDL, LDL | LDRead, LDRead | LNotify, LNotify => true
  | _, _ => false
  end.

Section Machine.
  Context {V F : Type}.
  Variable cas_ok : V -> V -> bool.          (* cas_ok cur old: the CAS test passes *)
  Variable apply : F -> V -> option V.
  Variable valid : V -> bool.
  Variable nwatch : nat.

  Notation op := (op V F).
  Notation res := (res V).

  Record thread := mkT {
    t_ops : list op;        (* operations still to run; the head is the current one *)
    t_pc : pc;              (* PIdle: the head operation has not started (or is retrying) *)
    t_old : V;              (* oldval / current / old *)
    t_new : V;              (* newval / v / new *)
    t_iters : nat;          (* failed compare-and-set attempts of the current operation *)
    t_done : list (op * res * nat)   (* finished operations, newest first: result, retries *)
  }.

  Record event := mkE { e_tid : nat; e_op : op; e_read : V; e_before : V; e_after : V; e_res : res }.
  (* e_read: the value the thread had read (what it compared the cell against);
     e_before / e_after: the cell just before / after the event *)

  Record state := mkS {
    cell : V;
    lock : option nat;
    thr : nat -> thread;
    hist : list event;                 (* ghost; newest first *)
    wlog : list (nat * V * V)          (* watch calls (watch index, old, new); newest first *)
  }.

  Definition entry (o : op) : pc :=
    match o with
    | OSwap Py _ _ | OReset Py _ _ => PRead
    | OSwap Core _ _ | OReset Core _ _ | ODeref => PRdAcq
    | OCas _ _ => PValidate
    end.

  Definition cur_pc (th : thread) : pc :=
    match t_pc th with
    | PIdle => match t_ops th with o :: _ => entry o | [] => PIdle end
    | p => p
    end.

  Definition with_pc (th : thread) (p : pc) : thread :=
    mkT (t_ops th) p (t_old th) (t_new th) (t_iters th) (t_done th).
  Definition with_old (th : thread) (v : V) : thread :=
    mkT (t_ops th) (t_pc th) v (t_new th) (t_iters th) (t_done th).
  Definition with_new (th : thread) (v : V) : thread :=
    mkT (t_ops th) (t_pc th) (t_old th) v (t_iters th) (t_done th).
  Definition retry (th : thread) : thread :=
    mkT (t_ops th) PIdle (t_old th) (t_new th) (S (t_iters th)) (t_done th).
  Definition finish (th : thread) (o : op) (r : res) : thread :=
    mkT (tl (t_ops th)) PIdle (t_old th) (t_new th) 0 ((o, r, t_iters th) :: t_done th).

  Definition upd (f : nat -> thread) (t : nat) (th : thread) : nat -> thread :=
    fun i => if Nat.eqb i t then th else f i.

  (** what the operation will return although it has not finished: decided at the read *)
  Definition prophecy (o : op) (c : V) : option res :=
    match o with
    | OSwap _ f _ => match apply f c with
                     | None => Some RExc
                     | Some n => if valid n then None else Some RInvalid
                     end
    | OReset _ v _ => if valid v then None else Some RInvalid
    | ODeref => Some (RVals [c])
    | OCas _ _ => None
    end.

  Definition inst_res (o : op) (old new : V) : res :=
    match o with
    | OSwap _ _ vals | OReset _ _ vals => RVals (if vals then [new; old] else [new])
    | OCas _ _ => RBool true
    | ODeref => RVals []
    end.

  Definition log (t : nat) (o : op) (c : V) (r : option res) (h : list event) : list event :=
    match r with Some x => mkE t o c c c x :: h | None => h end.

  Definition after_read (o : op) (th : thread) : option thread :=
    match o with
    | OSwap _ _ _ => Some (with_pc th PCompute)
    | OReset _ v _ => Some (with_pc (with_new th v) PValidate)
    | _ => None
    end.

  Definition step (t : nat) (s : state) : option state :=
    let th := thr s t in
    let c := cell s in
    match t_ops th with
    | [] => None
    | o :: _ =>
      match cur_pc th with
      | PIdle => None
      | PRdAcq =>
          match lock s with
          | Some _ => None
          | None => Some (mkS c (Some t) (upd (thr s) t (with_pc th PRdRead)) (hist s) (wlog s))
          end
      | PRdRead =>
          Some (mkS c (lock s) (upd (thr s) t (with_pc (with_old th c) PRdRel))
                    (log t o c (prophecy o c) (hist s)) (wlog s))
      | PRdRel =>
          match o with
          | ODeref => Some (mkS c None (upd (thr s) t (finish th o (RVals [t_old th]))) (hist s) (wlog s))
          | _ => match after_read o th with
                 | Some th' => Some (mkS c None (upd (thr s) t th') (hist s) (wlog s))
                 | None => None
                 end
          end
      | PRead =>
          match after_read o (with_old th c) with
          | Some th' => Some (mkS c (lock s) (upd (thr s) t th') (log t o c (prophecy o c) (hist s)) (wlog s))
          | None => None
          end
      | PCompute =>
          match o with
          | OSwap _ f _ =>
              match apply f (t_old th) with
              | None => Some (mkS c (lock s) (upd (thr s) t (finish th o RExc)) (hist s) (wlog s))
              | Some n => Some (mkS c (lock s) (upd (thr s) t (with_pc (with_new th n) PValidate)) (hist s) (wlog s))
              end
          | _ => None
          end
      | PValidate =>
          let th1 := match o with OCas o' n' => with_new (with_old th o') n' | _ => th end in
          if valid (t_new th1)
          then Some (mkS c (lock s) (upd (thr s) t (with_pc th1 PAcq)) (hist s) (wlog s))
          else Some (mkS c (lock s) (upd (thr s) t (finish th1 o RInvalid))
                         (match o with OCas _ _ => mkE t o c c c RInvalid :: hist s | _ => hist s end)
                         (wlog s))
      | PAcq =>
          match lock s with
          | Some _ => None
          | None => Some (mkS c (Some t) (upd (thr s) t (with_pc th PCmp)) (hist s) (wlog s))
          end
      | PCmp =>
          if cas_ok c (t_old th)
          then Some (mkS c (lock s) (upd (thr s) t (with_pc th PSet)) (hist s) (wlog s))
          else Some (mkS c (lock s) (upd (thr s) t (with_pc th (PRel false)))
                         (match o with OCas _ _ => mkE t o (t_old th) c c (RBool false) :: hist s | _ => hist s end)
                         (wlog s))
      | PSet =>
          Some (mkS (t_new th) (lock s) (upd (thr s) t (with_pc th (PRel true)))
                    (mkE t o (t_old th) c (t_new th) (inst_res o (t_old th) (t_new th)) :: hist s) (wlog s))
      | PRel true =>
          Some (mkS c None
                    (upd (thr s) t (match nwatch with
                                    | O => finish th o (inst_res o (t_old th) (t_new th))
                                    | S _ => with_pc th (PNotify nwatch) end))
                    (hist s) (wlog s))
      | PRel false =>
          Some (mkS c None
                    (upd (thr s) t (match o with
                                    | OCas _ _ => finish th o (RBool false)
                                    | _ => retry th end))
                    (hist s) (wlog s))
      | PNotify O => None
      | PNotify (S k) =>
          Some (mkS c (lock s)
                    (upd (thr s) t (match k with
                                    | O => finish th o (inst_res o (t_old th) (t_new th))
                                    | S _ => with_pc th (PNotify k) end))
                    (hist s) ((nwatch - S k, t_old th, t_new th) :: wlog s))
      end
    end.

  (** initial state: cell [v0], every thread idle with its program *)
  Definition init_thread (v0 : V) (p : list op) : thread := mkT p PIdle v0 v0 0 [].
  Definition init (v0 : V) (progs : nat -> list op) : state :=
    mkS v0 None (fun t => init_thread v0 (progs t)) [] [].

  (** all interleavings: any thread that can step may step *)
  Inductive reach (s0 : state) : state -> Prop :=
  | reach_refl : reach s0 s0
  | reach_step : forall s t s', reach s0 s -> step t s = Some s' -> reach s0 s'.

  (** one thread running alone for [n] steps *)
  Fixpoint solo (t : nat) (n : nat) (s : state) : option state :=
    match n with
    | O => Some s
    | S k => match step t s with Some s' => solo t k s' | None => None end
    end.

  (** the schedule observed on the real code: (thread, label of the line it executed,
      whether the step was a blocked attempt to take the lock).  Fail-closed: a label that
      does not match the thread's program point, or a step that is not enabled, is [None]. *)
  Definition is_acq (p : pc) : bool := match p with PAcq | PRdAcq => true | _ => false end.

  Fixpoint run_schedule (sch : list (nat * lab * bool)) (s : state) : option state :=
    match sch with
    | [] => Some s
    | (t, l, blocked) :: r =>
        let p := cur_pc (thr s t) in
        match lab_of_pc p with
        | None => None
        | Some l' =>
            if negb (lab_eqb l l') then None
            else if blocked
            then (if is_acq p && match lock s with Some u => negb (Nat.eqb u t) | None => false end
                       && match t_ops (thr s t) with [] => false | _ => true end
                  then run_schedule r s else None)
            else match step t s with Some s' => run_schedule r s' | None => None end
        end
    end.

  Lemma run_schedule_reach s0 : forall sch s s', reach s0 s -> run_schedule sch s = Some s' -> reach s0 s'.
  Proof.
    induction sch as [|[[t l] b] r IH]; simpl; intros s s' R H.
    - inversion H; subst; exact R.
    - destruct (lab_of_pc (cur_pc (thr s t))); [|discriminate].
      destruct (negb (lab_eqb l l0)); [discriminate|].
      destruct b.
      + destruct (is_acq _ && _ && _); [|discriminate]. eapply IH; eauto.
      + destruct (step t s) eqn:E; [|discriminate]. eapply IH; [|exact H]. econstructor; eauto.
  Qed.
End Machine.

Arguments thread : clear implicits.
Arguments event : clear implicits.
Arguments state : clear implicits.
