(** C12 proofs, part 1: mutual exclusion and the per-thread facts (invariant [Inv]) that
    hold in every state reachable under any interleaving. *)
From Coq Require Import List Bool Arith Lia.
Import ListNotations.
From Verif Require Import C12.Spec C12.Model.

  Ltac step_destruct H :=
    unfold Model.step, after_read in H;
    repeat match type of H with
           | context [match ?x with _ => _ end] =>
               let E := fresh "E" in destruct x eqn:E; try discriminate
           end;
    inversion H; subst; clear H.

  Ltac pc_norm :=
    match goal with
    | E : t_ops ?th = ?o :: _, E0 : cur_pc ?th = _ |- _ =>
        let Hpc := fresh "Hpc" in
        unfold cur_pc in E0; rewrite E in E0;
        destruct (t_pc th) eqn:Hpc; try discriminate E0;
        [ unfold entry in E0;
          repeat match type of E0 with
                 | context [match ?x with _ => _ end] => is_var x; destruct x
                 end; try discriminate E0
        | inversion E0; subst; clear E0 .. ]
    end;
    simpl in *;
    repeat match goal with
           | X : Some _ = Some _ |- _ => inversion X; subst; clear X
           | X : None = Some _ |- _ => discriminate X
           end.

Section Proofs.
  Context {V F : Type}.
  Variable cas_ok : V -> V -> bool.
  Variable apply : F -> V -> option V.
  Variable valid : V -> bool.
  Variable nwatch : nat.

  Notation op := (op V F).
  Notation res := (res V).
  Notation thread := (thread V F).
  Notation state := (state V F).
  Notation step := (@step V F cas_ok apply valid nwatch).
  Notation reach := (@reach V F cas_ok apply valid nwatch).

  Definition in_cs (p : pc) : bool :=
    match p with PRdRead | PRdRel | PCmp | PSet | PRel _ => true | _ => false end.

  Definition regs_ok (o : op) (th : thread) : Prop :=
    match o with
    | OSwap _ f _ => apply f (t_old th) = Some (t_new th)
    | OReset _ v _ => t_new th = v
    | OCas o' n' => t_old th = o' /\ t_new th = n'
    | ODeref => False
    end.

  Definition pc_ok (o : op) (p : pc) : Prop :=
    match p with
    | PIdle => True
    | PRdAcq | PRead => False
    | PRdRead | PRdRel => match o with OSwap Core _ _ | OReset Core _ _ | ODeref => True | _ => False end
    | PCompute => match o with OSwap _ _ _ => True | _ => False end
    | PValidate => match o with OSwap _ _ _ | OReset _ _ _ => True | _ => False end
    | PAcq | PCmp | PSet | PRel _ => match o with ODeref => False | _ => True end
    | PNotify k => match o with ODeref => False | _ => 1 <= k <= nwatch end
    end.

  Definition local_ok (c : V) (th : thread) : Prop :=
    match t_ops th with
    | [] => t_pc th = PIdle
    | o :: _ =>
        pc_ok o (t_pc th)
        /\ match t_pc th with
           | PValidate | PAcq | PCmp | PSet | PRel _ | PNotify _ => regs_ok o th
           | _ => True end
        /\ match t_pc th with PAcq | PCmp | PSet => valid (t_new th) = true | _ => True end
        /\ match t_pc th with PSet => cas_ok c (t_old th) = true | _ => True end
    end.

  Definition Inv (s : state) : Prop :=
    (forall t, in_cs (t_pc (thr s t)) = true <-> lock s = Some t)
    /\ (forall t, local_ok (cell s) (thr s t)).

  Lemma upd_same (f : nat -> thread) t th : upd f t th t = th.
  Proof. unfold upd. rewrite Nat.eqb_refl. reflexivity. Qed.
  Lemma upd_other (f : nat -> thread) t th u : u <> t -> upd f t th u = f u.
  Proof. unfold upd. intro H. apply Nat.eqb_neq in H. rewrite H. reflexivity. Qed.

  Lemma Inv_init v0 progs : Inv (init v0 progs).
  Proof.
    split; intro t; simpl.
    - split; intro H; discriminate.
    - unfold local_ok, init_thread; simpl. destruct (progs t); simpl; auto.
  Qed.

  Lemma step_other s t s' :
    step t s = Some s' -> forall u, u <> t -> thr s' u = thr s u.
  Proof.
    intros H u Hu. step_destruct H; simpl; apply upd_other; assumption.
  Qed.

  Lemma local_ok_cell c c' (th : thread) : t_pc th <> PSet -> local_ok c th -> local_ok c' th.
  Proof.
    unfold local_ok. intros H. destruct (t_ops th); auto.
    destruct (t_pc th); try congruence; auto.
  Qed.

  Lemma Inv_step s t s' : Inv s -> step t s = Some s' -> Inv s'.
  Proof.
    intros [IL IT] H. step_destruct H; pc_norm.
    all: pose proof (IT t) as L; unfold local_ok in L;
      match goal with E : t_ops _ = _ :: _ |- _ => rewrite E in L end;
      match goal with Hp : t_pc _ = _ |- _ => rewrite Hp in L end; simpl in L.
    all: pose proof (IL t) as Lt;
      match goal with Hp : t_pc _ = _ |- _ => rewrite Hp in Lt end; simpl in Lt.
    all: split; intro u; destruct (Nat.eq_dec u t) as [->|Hu]; simpl;
      [ rewrite upd_same | rewrite (upd_other _ _ _ _ Hu) | rewrite upd_same | rewrite (upd_other _ _ _ _ Hu) ].
    (* 1: lock <-> critical section, stepping thread *)
    all: try (simpl; intuition (try congruence); fail).
    (* 2: the same for the other threads *)
    all: try (pose proof (IL u) as Lu; simpl in *;
              try (assert (lock s = Some t) as Hl by (apply Lt; reflexivity); rewrite Hl in * );
              split; intro X; [apply Lu in X; congruence | try congruence; apply Lu; congruence]).
    (* 4: local facts of the other threads *)
    all: try exact (IT u).
    all: try (apply local_ok_cell with (c := cell s); [|exact (IT u)];
              intro Hp; pose proof (IL u) as Lu; rewrite Hp in Lu; simpl in Lu;
              assert (lock s = Some t) as Hl by (apply Lt; reflexivity);
              assert (lock s = Some u) as Hl2 by (apply Lu; reflexivity); congruence).
    (* 3: local facts of the stepping thread *)
    all: unfold local_ok; simpl;
      try match goal with E : t_ops _ = _ :: _ |- _ => rewrite E end; simpl.
    all: try match goal with |- match ?l with [] => _ | _ :: _ => _ end => destruct l; simpl; auto; fail end.
    all: try (repeat split; simpl; intuition (try congruence; try lia); fail).
    all: match goal with o : Spec.op V F |- _ => destruct o end; simpl in *; intuition (try lia).
  Qed.

  Theorem reach_Inv s0 s : Inv s0 -> reach s0 s -> Inv s.
  Proof. intros I R; induction R; eauto using Inv_step. Qed.
End Proofs.
