(** C12: the statements of Properties/C12.v assembled from the invariants. *)
From Coq Require Import List Bool Arith ZArith NArith Lia.
Import ListNotations.
From Verif Require Import Common.ListX Gen.Tables.
From Verif Require Import C12.Spec C12.Model C12.Corr.
From Verif Require Import C12.Proofs C12.ProofsHist C12.ProofsLin C12.ProofsTerm C12.ProofsConc C12.Witness.

Lemma mutual_exclusion : forall vld nw v0 progs s t u,
  mreach vld nw (init v0 progs) s ->
  in_cs (t_pc (thr s t)) = true -> in_cs (t_pc (thr s u)) = true -> t = u.
Proof.
  intros vld nw v0 progs s t u R Ht Hu.
  destruct (reach_Inv cas_ok apply (valid vld) nw _ s (Inv_init _ _ _ _ v0 progs) R) as [IL _].
  apply IL in Ht. apply IL in Hu. congruence.
Qed.

Lemma linearizable_partial : forall vld nw v0 progs s,
  plain v0 = true -> (forall t, forallb (opP plain fn_plain) (progs t) = true) ->
  mreach vld nw (init v0 progs) s ->
  let lin := rev (hist s) in
  seq_run cas_ok apply (valid vld) v0 (map (@e_op val fn) lin) = (cell s, map (@e_res val fn) lin)
  /\ (forall t, evs t (hist s) = pend apply (valid vld) (thr s t) ++ dones (thr s t)
                /\ progs t = rev (map fst (dones (thr s t))) ++ t_ops (thr s t))
  /\ (forall e, In e (hist s) -> installs (e_op e) (e_res e) = true -> e_read e = e_before e).
Proof.
  intros vld nw v0 progs s Hv Hp R lin.
  destruct (AllInv_reach cas_ok apply (valid vld) nw v0 progs plain fn_plain plain_apply plain_id s Hv Hp R)
    as (I1 & [H1 H2] & I3 & I4 & I5 & _).
  split; [|split].
  - unfold lin. rewrite (chain_seq_run cas_ok apply (valid vld) v0 (hist s) H2).
    + rewrite <- H1. reflexivity.
    + intros e He. apply (I5 e He).
  - exact I3.
  - intros e He. apply (I5 e He).
Qed.

Lemma validator_never_visible : forall vld nw v0 progs s,
  valid vld v0 = true -> mreach vld nw (init v0 progs) s ->
  valid vld (cell s) = true
  /\ (forall e, In e (hist s) -> valid vld (e_before e) = true /\ valid vld (e_after e) = true)
  /\ (forall k o n, In (k, o, n) (wlog s) -> valid vld n = true).
Proof.
  intros vld nw v0 progs s Hv R.
  destruct (reach_hist cas_ok apply (valid vld) nw v0 progs s R) as (_ & _ & _ & [_ W2] & I5).
  destruct (I5 Hv) as [V1 V2]. split; [exact V1|split; [exact V2|]].
  intros k o n Hin. destruct (W2 k o n Hin) as [_ [t (e & He & _ & _ & Ha & _)]].
  rewrite <- Ha. apply (V2 e He).
Qed.

Lemma watch_pairs_are_commits : forall vld nw v0 progs s k o n,
  mreach vld nw (init v0 progs) s -> In (k, o, n) (wlog s) ->
  k < nw /\ exists e, In e (hist s) /\ e_read e = o /\ e_after e = n
                      /\ cas_ok (e_before e) o = true.
Proof.
  intros vld nw v0 progs s k o n R Hin.
  destruct (reach_hist cas_ok apply (valid vld) nw v0 progs s R) as (_ & _ & _ & [_ W2] & _).
  destruct (W2 k o n Hin) as [Hk [t (e & He & _ & Hr & Ha & Hc)]].
  split; [exact Hk|]. exists e. auto.
Qed.

Lemma watch_pairs_are_transitions_partial : forall vld nw v0 progs s k o n,
  plain v0 = true -> (forall t, forallb (opP plain fn_plain) (progs t) = true) ->
  mreach vld nw (init v0 progs) s -> In (k, o, n) (wlog s) ->
  exists e, In e (hist s) /\ e_before e = o /\ e_after e = n.
Proof.
  intros vld nw v0 progs s k o n Hv Hp R Hin.
  destruct (watch_pairs_are_commits vld nw v0 progs s k o n R Hin) as [_ (e & He & Hr & Ha & Hc)].
  exists e. split; [exact He|]. split; [|exact Ha].
  destruct (AllInv_reach cas_ok apply (valid vld) nw v0 progs plain fn_plain plain_apply plain_id s Hv Hp R)
    as (_ & _ & _ & _ & _ & HP).
  destruct (HP e He) as (Pr & Pb & _).
  apply plain_id; [exact Pb|rewrite <- Hr; exact Pr|exact Hc].
Qed.

Lemma terminates_solo : forall vld nw s t o rest,
  t_ops (thr s t) = o :: rest -> t_pc (thr s t) = PIdle -> lock s = None ->
  Fin cas_ok apply (valid vld) nw s t rest o
      (snd (seq_step cas_ok apply (valid vld) o (cell s)))
      (fst (seq_step cas_ok apply (valid vld) o (cell s))) (9 + nw).
Proof. intros vld nw. exact (terminates_solo cas_ok apply (valid vld) nw cas_ok_refl). Qed.

Lemma terminates_solo_on_nan :
  exists n s', n <= 9
    /\ solo cas_ok apply (valid None) 0 0 n (init (VNaN 0) (progs_of [[OReset Py (VInt 1) false]])) = Some s'
    /\ cell s' = VInt 1 /\ t_ops (thr s' 0) = [].
Proof.
  destruct (terminates_solo None 0 (init (VNaN 0) (progs_of [[OReset Py (VInt 1) false]])) 0
              (OReset Py (VInt 1) false) [] eq_refl eq_refl eq_refl)
    as (n & s' & Hn & Hs & H1 & H2 & H3 & H4 & H5).
  exists n, s'. repeat split; auto.
Qed.

Lemma eq_only_cas_spins : forall k w vals rest t nw (s : state val fn),
  cell s = VNaN k -> t_ops (thr s t) = OReset Py w vals :: rest -> t_pc (thr s t) = PIdle ->
  lock s = None ->
  forall n, exists s', solo (cas_test 0) apply (valid None) nw t n s = Some s'
                       /\ t_ops (thr s' t) = OReset Py w vals :: rest.
Proof.
  intros k w vals rest t nw s. 
  exact (reset_never_finishes (cas_test 0) apply (valid None) nw t (VNaN k) w vals rest
           (eq_only_not_refl k) eq_refl s).
Qed.

