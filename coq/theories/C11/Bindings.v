(** C11 model: dynamic Var bindings of basilisp's runtime.py, as the code is.

    Per thread (threading.local is the modelled hypothesis: every thread owns one [tstate]):
      - [stk v]   = Var._tl.bindings of Var v in this thread (head = top = list[-1]);
      - [frames]  = _THREAD_BINDINGS._bindings (head = most recent frame); a frame is the set
                    of Vars one push_thread_bindings pushed (a list without duplicates).
    A binding map is a list of (Var, value) pairs IN THE ORDER [m.items()] YIELDS THEM: the
    iteration order of a hash map is arbitrary, so every theorem quantifies over that list.
    Python maps have distinct keys: histories are restricted to [NoDup (keys m)].

    [push_thread_bindings shape]: shape 0 is the code before the repair (a failure in the
    middle of the loop leaves the Vars pushed so far bound, no frame recorded), shape 1 the
    repaired code (undoes what it pushed, then re-raises).  The shape of the real function is
    re-read from runtime.py on every check (Gen.Tables.push_thread_bindings_shape). *)
From Coq Require Import List NArith ZArith Bool.
Import ListNotations.

Definition var := N.
Definition val := Z.

(** Static facts about the Vars (not changed by the histories considered): which are
    ^:dynamic, their validator, their root value. *)
Record cfg := { dyn : var -> bool; valid : var -> val -> bool; root : var -> val }.

Definition stacks := var -> list val.
Definition upd (s : stacks) (v : var) (l : list val) : stacks :=
  fun u => if N.eqb u v then l else s u.

Record tstate := { stk : stacks; frames : list (list var) }.
Definition clean : tstate := {| stk := fun _ => []; frames := [] |}.

(** result codes: 0 ok, 1 RuntimeException, 2 ExceptionInfo (validator), 3 other (IndexError) *)
Definition keys (m : list (var * val)) : list var := map fst m.

Section Local.
  Variable c : cfg.

  (** Var.value *)
  Definition value (st : tstate) (v : var) : val :=
    if dyn c v then match stk st v with x :: _ => x | [] => root c v end else root c v.

  (** Var.is_thread_bound *)
  Definition thread_bound (st : tstate) (v : var) : bool :=
    dyn c v && match stk st v with [] => false | _ => true end.

  (** The loop of push_thread_bindings: `if not var.dynamic: raise`, `var.push_bindings(val)`
      (dynamic check again, validator, append), `bindings.add(var)`.  Returns the stacks, the
      Vars pushed so far (most recent first) and the result code. *)
  Fixpoint push_loop (m : list (var * val)) (s : stacks) (pushed : list var)
    : stacks * list var * N :=
    match m with
    | [] => (s, pushed, 0%N)
    | (v, x) :: r =>
        if negb (dyn c v) then (s, pushed, 1%N)
        else if negb (valid c v x) then (s, pushed, 2%N)
        else push_loop r (upd s v (x :: s v)) (v :: pushed)
    end.

  (** `for var in frame: var.pop_bindings()` ; list.pop() of an empty list raises IndexError *)
  Fixpoint pop_vars (l : list var) (s : stacks) : stacks * N :=
    match l with
    | [] => (s, 0%N)
    | v :: r => match s v with
                | [] => (s, 3%N)
                | _ :: t => pop_vars r (upd s v t)
                end
    end.

  Definition push_thread_bindings (shape : N) (m : list (var * val)) (st : tstate) : tstate * N :=
    match push_loop m (stk st) [] with
    | (s, pushed, 0%N) =>
        ({| stk := s; frames := nodup N.eq_dec pushed :: frames st |}, 0%N)
    | (s, pushed, code) =>
        if N.eqb shape 0 then ({| stk := s; frames := frames st |}, code)
        else (* repaired: `for var in bindings: var.pop_bindings()` then `raise` *)
          ({| stk := fst (pop_vars (nodup N.eq_dec pushed) s); frames := frames st |}, code)
    end.

  Definition pop_thread_bindings (st : tstate) : tstate * N :=
    match frames st with
    | [] => (st, 1%N)                  (* IndexError -> RuntimeException, nothing changed *)
    | f :: fs => let '(s, code) := pop_vars f (stk st) in ({| stk := s; frames := fs |}, code)
    end.

  (** compiled `(set! v x)`: `if not var.is_thread_bound: raise RuntimeException`, then
      Var.set_value: validate, replace the top of this thread's stack. *)
  Definition set_bang (v : var) (x : val) (st : tstate) : tstate * N :=
    if negb (thread_bound st v) then (st, 1%N)
    else if negb (valid c v x) then (st, 2%N)
    else ({| stk := upd (stk st) v (x :: tl (stk st v)); frames := frames st |}, 0%N).

  (** get_thread_bindings: oldest frame first, `{var: var.value for var in frame}`; the
      result is a map, so each Var occurs once (with its current value). *)
  Definition snapshot (st : tstate) : list (var * val) :=
    map (fun v => (v, value st v)) (nodup N.eq_dec (concat (rev (frames st)))).

  (** One step of a history inside one thread. [WLeave b]: the binding form is left normally
      (b = false) or by an exception thrown in its body (b = true); both run the `finally`. *)
  Inductive wop :=
  | WEnter (m : list (var * val))
  | WLeave (exc : bool)
  | WSet (v : var) (x : val)
  | WNoop.

  Variable shape : N.

  Definition lstep (st : tstate) (o : wop) : tstate * N :=
    match o with
    | WEnter m => push_thread_bindings shape m st
    | WLeave _ => pop_thread_bindings st
    | WSet v x => set_bang v x st
    | WNoop => (st, 0%N)
    end.

  Fixpoint run (h : list wop) (st : tstate) : tstate :=
    match h with [] => st | o :: r => run r (fst (lstep st o)) end.

  (** [run] with the observations made after every step: result code and the value of each
      Var of [obs] *)
  Fixpoint run_obs (obs : list var) (h : list wop) (st : tstate) : tstate * list (N * list val) :=
    match h with
    | [] => (st, [])
    | o :: r => let '(st1, code) := lstep st o in
                let '(st2, l) := run_obs obs r st1 in
                (st2, (code, map (value st1) obs) :: l)
    end.

  (** Threads: an indexed family of thread states. *)
  Definition gstate := N -> tstate.
  Definition gupd (g : gstate) (t : N) (st : tstate) : gstate :=
    fun u => if N.eqb u t then st else g u.

  (** A global step is made by thread [t].  [GSpawn conv w work]: thread t hands [work] to
      thread w and waits for it.  conv = true: through `bound-fn*` (what `future`, `pmap`
      do): `(get-thread-bindings)` is taken in t, then w runs
      `(with-bindings* snapshot work)` = push, try work, finally pop.  conv = false: a plain
      Python thread, no conveyance.  w = t is `((bound-fn* f))` called in the same thread. *)
  Inductive gop :=
  | GLocal (o : wop)
  | GSpawn (conv : bool) (w : N) (work : list wop).

  Definition spawn_hist (conv : bool) (snap : list (var * val)) (work : list wop) : list wop :=
    if conv then WEnter snap :: work ++ [WLeave false] else work.

  Definition gstep (g : gstate) (t : N) (o : gop) : gstate :=
    match o with
    | GLocal o => gupd g t (fst (lstep (g t) o))
    | GSpawn conv w work => gupd g w (run (spawn_hist conv (snapshot (g t)) work) (g w))
    end.

  (** the thread whose state a step may change *)
  Definition target (t : N) (o : gop) : N :=
    match o with GLocal _ => t | GSpawn _ w _ => w end.

  Fixpoint grun (sched : list (N * gop)) (g : gstate) : gstate :=
    match sched with [] => g | (t, o) :: r => grun r (gstep g t o) end.
End Local.

