(** C11 proofs, part 2: well-nested histories of any depth restore the entry state; failed
    pushes; set!; threads; conveyance.  All for the repaired shape (1) of
    push_thread_bindings; the old shape (0) is refuted at the end. *)
From Coq Require Import List NArith ZArith Bool Lia Permutation.
Import ListNotations.
From Verif Require Import C11.Bindings C11.Spec C11.Proofs.

Section H.
  Variable c : cfg.
  Notation run := (run c 1).
  Notation lstep := (lstep c 1).

  (** Well-nested histories of one thread: every binding form that was entered is left
      (normally or by exception) after a well-nested body; a form whose establishment fails
      opens no level.  Any depth, any number of Vars. *)
  Inductive balanced : list wop -> Prop :=
  | bal_nil : balanced []
  | bal_noop h : balanced h -> balanced (WNoop :: h)
  | bal_set v x h : balanced h -> balanced (WSet v x :: h)
  | bal_fail m h : NoDup (keys m) -> push_okb c m = false -> balanced h ->
                   balanced (WEnter m :: h)
  | bal_form m body b h : NoDup (keys m) -> push_okb c m = true ->
                          balanced body -> balanced h ->
                          balanced (WEnter m :: body ++ WLeave b :: h).

  (** the Vars a history applies set! to *)
  Definition setvars (h : list wop) : list var :=
    flat_map (fun o => match o with WSet v _ => [v] | _ => [] end) h.

  Lemma setvars_app h1 h2 : setvars (h1 ++ h2) = setvars h1 ++ setvars h2.
  Proof. unfold setvars. apply flat_map_app. Qed.

  (** [b] is [a] except that the tops of the stacks of Vars in S may have been replaced *)
  Definition same_shape (S : list var) (a b : tstate) : Prop :=
    frames b = frames a /\
    forall u, length (stk b u) = length (stk a u) /\ tl (stk b u) = tl (stk a u) /\
              (~ In u S -> stk b u = stk a u).

  Lemma same_shape_refl S a : same_shape S a a.
  Proof. split; [reflexivity|]. intros; repeat split; reflexivity. Qed.

  Lemma same_shape_trans S1 S2 S a b d :
    incl S1 S -> incl S2 S -> same_shape S1 a b -> same_shape S2 b d -> same_shape S a d.
  Proof.
    intros I1 I2 [F1 P1] [F2 P2]. split; [congruence|]. intros u.
    destruct (P1 u) as [L1 [T1 E1]]. destruct (P2 u) as [L2 [T2 E2]].
    repeat split; try congruence.
    intros NI. rewrite E2, E1; auto.
  Qed.

  Definition good (h : list wop) (st : tstate) : Prop :=
    inv c (run h st) /\ same_shape (setvars h) st (run h st).

  (** one binding form around a body that behaves *)
  Lemma form_step m body b st :
    inv c st -> NoDup (keys m) -> push_okb c m = true ->
    (forall st1, inv c st1 -> good body st1) ->
    let st3 := run (WEnter m :: body ++ [WLeave b]) st in
    inv c st3 /\ frames st3 = frames st /\
    forall u, length (stk st3 u) = length (stk st u) /\ tl (stk st3 u) = tl (stk st u) /\
              (memb u (keys m) = true \/ ~ In u (setvars body) -> stk st3 u = stk st u).
  Proof.
    intros I ND OK B. simpl.
    destruct (enter_ok_char c 1 m st ND OK) as [st1 [E1 [F1 S1]]]. rewrite E1. simpl.
    assert (I1 : inv c st1) by (eapply inv_enter; eauto).
    rewrite run_app. destruct (B st1 I1) as [I2 [F2 P2]].
    set (st2 := run body st1) in *. simpl.
    assert (F2' : frames st2 = rev (keys m) :: frames st) by congruence.
    destruct (leave_char c st2 _ _ I2 F2') as [st3 [E3 [F3 S3]]]. rewrite E3. simpl.
    split; [eapply inv_leave; eauto|]. split; [exact F3|].
    intros u. rewrite S3, memb_rev. destruct (P2 u) as [L [T NS]].
    pose proof (assoc_memb u m) as A. rewrite S1 in L, T, NS.
    destruct (assoc u m) as [x|]; rewrite <- A.
    - simpl in T. rewrite T. repeat split; reflexivity.
    - repeat split; try assumption. intros [H|H]; [discriminate | apply NS; exact H].
  Qed.

  Lemma balanced_good h : balanced h -> forall st, inv c st -> good h st.
  Proof.
    induction 1 as [|h B IH|v x h B IH|m h ND OK B IH|m body b h ND OK Bb IHb Bh IHh]; intros st I.
    - split; [exact I | apply same_shape_refl].
    - simpl. destruct (IH st I) as [I' P]. split; assumption.
    - unfold good. simpl.
      assert (I1 : inv c (fst (set_bang c v x st))) by (apply (inv_step c st (WSet v x)); simpl; auto).
      destruct (IH _ I1) as [I2 P2]. split; [exact I2|].
      apply (same_shape_trans [v] (setvars h) _ _ (fst (set_bang c v x st)));
        [intros u [H|[]]; left; exact H | intros u H; right; exact H | | exact P2].
      destruct (set_char c v x st) as [[TB [V [st' [E [F [Sv Su]]]]]]|[code [E _]]]; rewrite E; simpl;
        [|apply same_shape_refl].
      split; [exact F|]. intros u. destruct (N.eq_dec u v) as [->|Huv].
      + rewrite Sv. unfold thread_bound in TB. apply andb_true_iff in TB. destruct TB as [_ NE].
        destruct (stk st v); [discriminate|]. repeat split; try reflexivity.
        intros NI. exfalso. apply NI. left. reflexivity.
      + rewrite (Su u Huv). repeat split; reflexivity.
    - unfold good. simpl.
      destruct (enter_fail_char c m st ND OK) as [st' [code [E [R _]]]]. rewrite E. simpl.
      assert (I1 : inv c st').
      { apply (inv_steq c st); [|exact I]. destruct R as [R1 R2]. split; [symmetry; exact R1|].
        intros u. symmetry. apply R2. }
      destruct (IH _ I1) as [I2 P2]. split; [exact I2|].
      apply (same_shape_trans [] (setvars h) _ _ st');
        [intros u [] | intros u H; exact H | | exact P2].
      destruct R as [R1 R2]. split; [exact R1|]. intros u. rewrite R2. repeat split; reflexivity.
    - unfold good.
      replace (WEnter m :: body ++ WLeave b :: h) with ((WEnter m :: body ++ [WLeave b]) ++ h)
        by (simpl; rewrite <- app_assoc; reflexivity).
      rewrite run_app.
      destruct (form_step m body b st I ND OK IHb) as [I3 [F3 P3]].
      set (st3 := run (WEnter m :: body ++ [WLeave b]) st) in *.
      destruct (IHh st3 I3) as [I4 P4]. split; [exact I4|].
      apply (same_shape_trans (setvars body) (setvars h) _ _ st3); [| | |exact P4].
      + intros u H. simpl. rewrite !setvars_app. apply in_or_app. left. apply in_or_app. left. exact H.
      + intros u H. simpl. rewrite !setvars_app. apply in_or_app. right. exact H.
      + split; [exact F3|]. intros u. destruct (P3 u) as [L [T E]]. repeat split; auto.
  Qed.

  (** ** C11_well_nested_restores *)
  Theorem well_nested_restores m body b st :
    inv c st -> NoDup (keys m) -> push_okb c m = true -> balanced body ->
    let st' := run (WEnter m :: body ++ [WLeave b]) st in
    inv c st' /\ frames st' = frames st /\
    (forall u, length (stk st' u) = length (stk st u) /\ tl (stk st' u) = tl (stk st u)) /\
    (forall u, memb u (keys m) = true \/ ~ In u (setvars body) ->
               stk st' u = stk st u /\ value c st' u = value c st u).
  Proof.
    intros I ND OK B st'.
    pose proof (form_step m body b st I ND OK (balanced_good body B)) as X. cbv zeta in X.
    fold st' in X. destruct X as [I3 [F3 P3]].
    split; [exact I3|]. split; [exact F3|]. split.
    - intros u. destruct (P3 u) as [L [T _]]. split; assumption.
    - intros u H. destruct (P3 u) as [_ [_ E]]. specialize (E H). split; [exact E|].
      unfold value. rewrite E. reflexivity.
  Qed.

  (** a history without set! on outer Vars: the whole thread state is restored *)
  Corollary well_nested_restores_all m body b st :
    inv c st -> NoDup (keys m) -> push_okb c m = true -> balanced body ->
    (forall u, In u (setvars body) -> In u (keys m)) ->
    steq (run (WEnter m :: body ++ [WLeave b]) st) st.
  Proof.
    intros I ND OK B S.
    destruct (well_nested_restores m body b st I ND OK B) as [_ [F [_ P]]].
    split; [exact F|]. intros u. apply P.
    destruct (memb u (keys m)) eqn:M; [left; reflexivity|]. right. intros H.
    apply S in H. apply memb_In in H. congruence.
  Qed.

  (** ** C11_failed_push_restores: whatever the iteration order (m IS the order), whichever
      position the offending Var has, and whatever was pushed before it *)
  Theorem failed_push_restores m st :
    NoDup (keys m) -> push_okb c m = false ->
    exists st' code, push_thread_bindings c 1 m st = (st', code) /\ code <> 0%N /\
      frames st' = frames st /\
      forall u, stk st' u = stk st u /\ value c st' u = value c st u.
  Proof.
    intros ND OK. destruct (enter_fail_char c m st ND OK) as [st' [code [E [[F S] K]]]].
    exists st', code. split; [exact E|]. split.
    - destruct K as [[-> _]|[-> _]]; discriminate.
    - split; [exact F|]. intros u. split; [apply S|]. unfold value. rewrite S. reflexivity.
  Qed.

  (** ** C11_set_bang_innermost *)
  Theorem set_bang_innermost v x st :
    let st' := fst (set_bang c v x st) in
    frames st' = frames st /\
    (forall u, u <> v -> stk st' u = stk st u) /\
    tl (stk st' v) = tl (stk st v) /\
    (snd (set_bang c v x st) = 0%N ->
       thread_bound c st v = true /\ valid c v x = true /\ value c st' v = x) /\
    (snd (set_bang c v x st) <> 0%N -> st' = st).
  Proof.
    destruct (set_char c v x st) as [[TB [V [st' [E [F [Sv Su]]]]]]|[code [E [NZ _]]]]; rewrite E; simpl.
    - split; [exact F|]. split; [exact Su|]. split; [rewrite Sv; reflexivity|].
      split; [|intros HH; exfalso; apply HH; reflexivity].
      intros _. split; [exact TB|]. split; [exact V|].
      unfold value. rewrite Sv. unfold thread_bound in TB. apply andb_true_iff in TB.
      destruct TB as [D _]. rewrite D. reflexivity.
    - split; [reflexivity|]. split; [reflexivity|]. split; [reflexivity|].
      split; [intros HH; exfalso; apply NZ; exact HH | reflexivity].
  Qed.

  (** ** C11_thread_isolation: steps of other threads never change a thread's state *)
  Theorem thread_isolation_step g t o u : u <> target t o -> gstep c 1 g t o u = g u.
  Proof.
    intros H. destruct o; simpl in *; unfold gupd; apply N.eqb_neq in H; rewrite H; reflexivity.
  Qed.

  Theorem thread_isolation sched : forall g u,
    (forall t o, In (t, o) sched -> target t o <> u) -> grun c 1 sched g u = g u.
  Proof.
    induction sched as [|[t o] r IH]; intros g u H; simpl; [reflexivity|].
    rewrite IH.
    - apply thread_isolation_step. intros E. apply (H t o); [left; reflexivity | congruence].
    - intros t' o' I. apply (H t' o'). right. exact I.
  Qed.

  (** ** conveyance *)
  Lemma nframes_pos u fs : (0 < nframes u fs)%nat <-> In u (concat fs).
  Proof.
    unfold nframes. induction fs as [|f r IH]; simpl; [split; [lia | tauto]|].
    rewrite in_app_iff. destruct (memb u f) eqn:M; simpl.
    - split; [intros _; left; apply memb_In; exact M | lia].
    - rewrite IH. split; [tauto|]. intros [H|H]; [|exact H].
      apply memb_In in H. congruence.
  Qed.

  Lemma bound_iff_in_frames st u : inv c st -> (stk st u <> [] <-> In u (concat (frames st))).
  Proof.
    intros I. rewrite <- nframes_pos, <- (inv_len c st I).
    destruct (stk st u); simpl; split; intros; try lia; try congruence.
  Qed.

  Lemma snapshot_keys st : keys (snapshot c st) = nodup N.eq_dec (concat (rev (frames st))).
  Proof. unfold keys, snapshot. rewrite map_map. simpl. apply map_id. Qed.

  Lemma in_concat_rev (u : var) fs : In u (concat (rev fs)) <-> In u (concat fs).
  Proof.
    rewrite !in_concat. split; intros [f [H1 H2]]; exists f; (split; [|exact H2]);
      [apply in_rev in H1 | apply in_rev; rewrite rev_involutive]; exact H1.
  Qed.

  Lemma snapshot_assoc st u : inv c st ->
    assoc u (snapshot c st) = if thread_bound c st u then Some (value c st u) else None.
  Proof.
    intros I. unfold snapshot.
    assert (G : forall l, assoc u (map (fun v => (v, value c st v)) l)
                          = if memb u l then Some (value c st u) else None).
    { induction l as [|a l IH]; simpl; [reflexivity|].
      destruct (N.eqb u a) eqn:E; simpl; [apply N.eqb_eq in E; subst; reflexivity | exact IH]. }
    rewrite G. unfold thread_bound.
    destruct (memb u (nodup N.eq_dec (concat (rev (frames st))))) eqn:M.
    - apply memb_In in M. apply nodup_In in M. rewrite in_concat_rev in M.
      rewrite <- (bound_iff_in_frames st u I) in M.
      rewrite (inv_dyn c st I u M). destruct (stk st u); [congruence | reflexivity].
    - apply memb_false in M. rewrite nodup_In, in_concat_rev, <- (bound_iff_in_frames st u I) in M.
      destruct (stk st u); [rewrite andb_false_r; reflexivity|]. exfalso. apply M. discriminate.
  Qed.

  Lemma snapshot_ok st : inv c st -> NoDup (keys (snapshot c st)) /\ push_okb c (snapshot c st) = true.
  Proof.
    intros I. split; [rewrite snapshot_keys; apply NoDup_nodup|].
    unfold push_okb. apply forallb_forall. intros [v x] H. simpl.
    unfold snapshot in H. apply in_map_iff in H. destruct H as [v' [E H]]. inversion E. subst v' x.
    apply nodup_In in H. rewrite in_concat_rev in H. rewrite <- (bound_iff_in_frames st v I) in H.
    pose proof (inv_dyn c st I v H) as D. rewrite D. simpl. unfold value. rewrite D.
    destruct (stk st v) as [|y t] eqn:S; [congruence|].
    apply (inv_valid c st I v y). rewrite S. left. reflexivity.
  Qed.

  (** Work created in a thread whose state is [cr] (by bound-fn*, hence by future / pmap) and
      run in a thread whose state is [wk]: establishing the conveyed bindings never fails, and
      the work then sees, for every Var the creator had bound, the creator's value at the
      time of creation; a worker without bindings of its own sees the creator's value of
      EVERY Var. *)
  Theorem conveyance cr wk : inv c cr ->
    exists st1, push_thread_bindings c 1 (snapshot c cr) wk = (st1, 0%N) /\
      (forall v, value c st1 v = if thread_bound c cr v then value c cr v else value c wk v) /\
      ((forall u, stk wk u = []) -> forall v, value c st1 v = value c cr v).
  Proof.
    intros I. destruct (snapshot_ok cr I) as [ND OK].
    destruct (enter_ok_char c 1 _ wk ND OK) as [st1 [E [F S]]].
    exists st1. split; [exact E|].
    assert (V : forall v, value c st1 v = if thread_bound c cr v then value c cr v else value c wk v).
    { intros v. unfold value at 1. rewrite S, (snapshot_assoc cr v I).
      destruct (thread_bound c cr v) eqn:TB.
      - unfold thread_bound in TB. apply andb_true_iff in TB. destruct TB as [D _]. rewrite D.
        reflexivity.
      - reflexivity. }
    split; [exact V|]. intros CL v. rewrite V. destruct (thread_bound c cr v) eqn:TB; [reflexivity|].
    unfold value, thread_bound in *. rewrite CL. destruct (dyn c v); [|reflexivity].
    simpl in TB. destruct (stk cr v); [reflexivity | discriminate].
  Qed.

  (** the thread that ran conveyed work is exactly as before, when it is the creator itself
      or a thread without bindings (pool worker, new thread) *)
  Theorem conveyed_work_restores g t w work :
    inv c (g t) -> inv c (g w) -> balanced work ->
    (w = t \/ forall u, stk (g w) u = []) ->
    steq (gstep c 1 g t (GSpawn true w work) w) (g w).
  Proof.
    intros It Iw B H. simpl. unfold gupd. rewrite N.eqb_refl. unfold spawn_hist.
    destruct (snapshot_ok (g t) It) as [ND OK].
    destruct (well_nested_restores _ work false (g w) Iw ND OK B) as [_ [F [LT P]]].
    split; [exact F|]. intros u.
    destruct (memb u (keys (snapshot c (g t)))) eqn:M; [apply (P u (or_introl M))|].
    assert (Z : stk (g w) u = []).
    { destruct H as [->|H]; [|apply H].
      apply memb_false in M. rewrite snapshot_keys, nodup_In, in_concat_rev,
        <- (bound_iff_in_frames (g t) u It) in M.
      destruct (stk (g t) u); [reflexivity|]. exfalso. apply M. discriminate. }
    destruct (LT u) as [L _]. rewrite Z in *. simpl in L.
    match goal with |- ?l = [] => destruct l; [reflexivity | discriminate] end.
  Qed.

  (** ** the iteration order of the map does not matter *)
  Lemma assoc_perm u m m' : NoDup (keys m) -> Permutation m m' -> assoc u m = assoc u m'.
  Proof.
    intros ND P.
    assert (ND' : NoDup (keys m')).
    { apply (Permutation_NoDup (l := keys m)); [|exact ND]. apply Permutation_map. exact P. }
    destruct (assoc u m) as [x|] eqn:A.
    - symmetry. apply in_assoc; [exact ND'|]. apply (Permutation_in _ P). apply assoc_in. exact A.
    - destruct (assoc u m') as [y|] eqn:A'; [|reflexivity].
      apply assoc_in in A'. apply (Permutation_in _ (Permutation_sym P)) in A'.
      apply (in_assoc _ _ _ ND) in A'. congruence.
  Qed.

  Theorem push_order_irrelevant m m' st : NoDup (keys m) -> Permutation m m' ->
    let r := push_thread_bindings c 1 m st in
    let r' := push_thread_bindings c 1 m' st in
    (snd r = 0%N <-> snd r' = 0%N) /\
    (forall u, stk (fst r) u = stk (fst r') u) /\
    (forall u, value c (fst r) u = value c (fst r') u) /\
    Permutation (concat (frames (fst r))) (concat (frames (fst r'))).
  Proof.
    intros ND P.
    assert (ND' : NoDup (keys m')).
    { apply (Permutation_NoDup (l := keys m)); [|exact ND]. apply Permutation_map. exact P. }
    assert (OKP : push_okb c m = push_okb c m').
    { unfold push_okb. destruct (forallb _ m') eqn:E'.
      - apply forallb_forall. intros q Hq. rewrite forallb_forall in E'. apply E'.
        apply (Permutation_in _ P). exact Hq.
      - destruct (forallb _ m) eqn:E; [|reflexivity]. rewrite <- E'. symmetry.
        apply forallb_forall. intros q Hq. rewrite forallb_forall in E. apply E.
        apply (Permutation_in _ (Permutation_sym P)). exact Hq. }
    destruct (push_okb c m) eqn:OK.
    - destruct (enter_ok_char c 1 m st ND OK) as [s1 [E1 [F1 S1]]].
      destruct (enter_ok_char c 1 m' st ND' (eq_sym OKP)) as [s2 [E2 [F2 S2]]].
      simpl. rewrite E1, E2. simpl. split; [tauto|].
      assert (SS : forall u, stk s1 u = stk s2 u).
      { intros u. rewrite S1, S2, (assoc_perm u m m' ND P). reflexivity. }
      split; [exact SS|]. split; [intros u; unfold value; rewrite SS; reflexivity|].
      rewrite F1, F2. simpl. apply Permutation_app_tail.
      rewrite <- !Permutation_rev. apply Permutation_map. exact P.
    - destruct (failed_push_restores m st ND OK) as [s1 [c1 [E1 [N1 [F1 S1]]]]].
      destruct (failed_push_restores m' st ND' (eq_sym OKP)) as [s2 [c2 [E2 [N2 [F2 S2]]]]].
      simpl. rewrite E1, E2. simpl. split; [tauto|].
      split; [intros u; destruct (S1 u), (S2 u); congruence|].
      split; [intros u; destruct (S1 u), (S2 u); congruence|].
      rewrite F1, F2. apply Permutation_refl.
  Qed.
End H.

(** ** the shape before the repair leaks: `(binding [*d* 1 not-dynamic 2] ...)` with the
    dynamic Var first in iteration order *)
Definition cfg_w : cfg :=
  {| dyn := fun v => negb (N.eqb v 3); valid := fun v x => if N.eqb v 4 then (x <? 1000)%Z else true;
     root := fun v => (100 * (Z.of_N v + 1))%Z |}.

Lemma partial_push_leak_refuted :
  exists (m : list (var * val)) (v : var),
    NoDup (keys m) /\ push_okb cfg_w m = false /\
    snd (push_thread_bindings cfg_w 0 m clean) <> 0%N /\
    value cfg_w (fst (push_thread_bindings cfg_w 0 m clean)) v <> value cfg_w clean v.
Proof.
  exists [(0%N, 1%Z); (3%N, 2%Z)], 0%N. split.
  - repeat constructor; simpl; intuition discriminate.
  - vm_compute. repeat split; discriminate.
Qed.

(** non-vacuity: a depth-3 history with a failing form, an escaping set! and an exceptional
    exit is balanced, starts in a state satisfying the invariant, and is restored *)
Definition ex_body : list wop :=
  [WSet 0%N 5%Z; WEnter [(1%N, 7%Z); (4%N, 8%Z)];
     WEnter [(2%N, 1%Z); (3%N, 2%Z)];               (* fails: Var 3 is not dynamic *)
     WEnter [(0%N, 9%Z)]; WSet 1%N 11%Z; WSet 0%N 12%Z; WLeave true;
   WLeave false].

Lemma ex_balanced : balanced cfg_w ex_body.
Proof.
  unfold ex_body. apply bal_set.
  apply (bal_form cfg_w [(1%N, 7%Z); (4%N, 8%Z)]
           [WEnter [(2%N, 1%Z); (3%N, 2%Z)]; WEnter [(0%N, 9%Z)]; WSet 1%N 11%Z; WSet 0%N 12%Z; WLeave true]
           false []).
  - repeat constructor; simpl; intuition discriminate.
  - reflexivity.
  - apply bal_fail; [repeat constructor; simpl; intuition discriminate | reflexivity|].
    apply (bal_form cfg_w [(0%N, 9%Z)] [WSet 1%N 11%Z; WSet 0%N 12%Z] true []).
    + repeat constructor; simpl; intuition discriminate.
    + reflexivity.
    + repeat constructor.
    + constructor.
  - constructor.
Qed.

Lemma nonvacuous :
  inv cfg_w clean /\ balanced cfg_w ex_body /\
  map (value cfg_w (Bindings.run cfg_w 1 (WEnter [(0%N, 1%Z)] :: ex_body ++ [WLeave false]) clean))
      [0%N; 1%N; 2%N; 4%N] = [100%Z; 200%Z; 300%Z; 500%Z].
Proof. split; [apply inv_clean|]. split; [apply ex_balanced|]. vm_compute. reflexivity. Qed.
