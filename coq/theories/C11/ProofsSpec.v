(** C11 proofs, part 3: the model of runtime.py (per-Var stacks + frame stack, repaired push)
    refines the lexical-discipline reference of Spec.v, for every history. *)
From Coq Require Import List NArith ZArith Bool Lia.
Import ListNotations.
From Verif Require Import C11.Bindings C11.Spec C11.Proofs.

Section S.
  Variable c : cfg.
  Notation svalue := (Spec.svalue (dyn c) (root c)).
  Notation sstep := (Spec.sstep (dyn c) (valid c)).
  Notation srun := (Spec.srun (dyn c) (valid c)).

  (** the cells of Var u, innermost first *)
  Fixpoint cells (u : var) (th : sthread) : list val :=
    match th with
    | [] => []
    | f :: r => match assoc u f with Some x => x :: cells u r | None => cells u r end
    end.

  Definition R (st : tstate) (th : sthread) : Prop :=
    frames st = map (fun f => rev (keys f)) th /\ forall u, stk st u = cells u th.

  Definition wfth (th : sthread) : Prop := Forall (fun f => NoDup (keys f)) th.

  Definition erase (o : wop) : sop :=
    match o with
    | WEnter m => SEnter m
    | WLeave _ => SLeave
    | WSet v x => SSet v x
    | WNoop => SNoop
    end.

  Lemma R_clean : R clean [].
  Proof. split; reflexivity. Qed.

  Lemma lookup_cells v th : lookup v th = hd_error (cells v th).
  Proof.
    induction th as [|f r IH]; simpl; [reflexivity|].
    destruct (assoc v f); [reflexivity | exact IH].
  Qed.

  Lemma value_R st th v : R st th -> value c st v = svalue th v.
  Proof.
    intros [_ S]. unfold value, Spec.svalue. rewrite S, lookup_cells.
    destruct (cells v th); reflexivity.
  Qed.

  Lemma enter_ok_eq m : enter_ok (dyn c) (valid c) m = push_okb c m.
  Proof.
    unfold enter_ok, has_nondyn, has_invalid, push_okb.
    induction m as [|[v x] r IH]; simpl; [reflexivity|].
    rewrite <- IH. destruct (dyn c v), (valid c v x); simpl;
      destruct (existsb _ r), (existsb _ r); reflexivity.
  Qed.

  Lemma assoc_set_form u v x f :
    assoc u (set_form v x f) =
      if N.eqb u v then match assoc v f with Some _ => Some x | None => None end else assoc u f.
  Proof.
    induction f as [|[w y] r IH]; simpl.
    - destruct (N.eqb u v); reflexivity.
    - destruct (N.eqb v w) eqn:Evw; simpl.
      + apply N.eqb_eq in Evw. subst w. destruct (N.eqb u v); reflexivity.
      + rewrite IH. destruct (N.eqb u v) eqn:Euv; [|reflexivity].
        apply N.eqb_eq in Euv. subst u. rewrite Evw. reflexivity.
  Qed.

  Lemma keys_set_form v x f : keys (set_form v x f) = keys f.
  Proof.
    induction f as [|[w y] r IH]; simpl; [reflexivity|].
    destruct (N.eqb v w); simpl; [reflexivity | rewrite IH; reflexivity].
  Qed.

  Lemma cells_set u v x th :
    cells u (set_thread v x th) =
      if N.eqb u v then match cells v th with [] => [] | _ :: t => x :: t end else cells u th.
  Proof.
    destruct (N.eqb u v) eqn:E.
    - apply N.eqb_eq in E. subst u. induction th as [|f r IH]; simpl; [reflexivity|].
      destruct (assoc v f) as [y|] eqn:A; simpl.
      + rewrite assoc_set_form, N.eqb_refl, A. reflexivity.
      + rewrite A. exact IH.
    - induction th as [|f r IH]; simpl; [reflexivity|].
      destruct (assoc v f) as [y|] eqn:A; simpl.
      + rewrite assoc_set_form, E. reflexivity.
      + rewrite IH. reflexivity.
  Qed.

  Lemma frames_set v x th :
    map (fun f => rev (keys f)) (set_thread v x th) = map (fun f => rev (keys f)) th.
  Proof.
    induction th as [|f r IH]; simpl; [reflexivity|].
    destruct (assoc v f); simpl; [rewrite keys_set_form; reflexivity | rewrite IH; reflexivity].
  Qed.

  Lemma wfth_set v x th : wfth th -> wfth (set_thread v x th).
  Proof.
    induction 1 as [|f r Hf Hr IH]; simpl; [constructor|].
    destruct (assoc v f); constructor; try assumption. rewrite keys_set_form. exact Hf.
  Qed.

  (** one step: the states stay related and the result code is one the reference allows *)
  Theorem refines_step st th o : R st th -> wfth th -> wfop o ->
    let r := lstep c 1 st o in
    let s := sstep th (erase o) in
    R (fst r) (fst s) /\ wfth (fst s) /\
    (snd s = [] -> snd r = 0%N) /\ (snd s <> [] -> In (snd r) (snd s)).
  Proof.
    intros [F S] W WO. destruct o as [m|b|v x|]; simpl.
    - simpl in WO. rewrite enter_ok_eq. destruct (push_okb c m) eqn:OK.
      + destruct (enter_ok_char c 1 m st WO OK) as [st' [E [F' S']]]. rewrite E. simpl.
        split; [|split; [constructor; assumption | split; [reflexivity | tauto]]].
        split; [rewrite F', F; reflexivity|]. intros u. rewrite S', S. reflexivity.
      + destruct (enter_fail_char c m st WO OK) as [st' [code [E [[F' S'] K]]]]. rewrite E. simpl.
        split; [split; [congruence | intros u; rewrite S'; apply S]|].
        split; [exact W|]. split.
        * intros Z. exfalso.
          destruct K as [[_ [q [Q1 Q2]]]|[_ [q [Q1 Q2]]]].
          -- assert (HN : has_nondyn (dyn c) m = true).
             { unfold has_nondyn, has_invalid. apply existsb_exists. exists q. split; [exact Q1|].
               simpl. apply negb_true_iff. exact Q2. }
             rewrite HN in Z. discriminate.
          -- assert (HI : has_invalid (valid c) m = true).
             { unfold has_nondyn, has_invalid. apply existsb_exists. exists q. split; [exact Q1|].
               simpl. apply negb_true_iff. exact Q2. }
             rewrite HI in Z. destruct (has_nondyn (dyn c) m); discriminate.
        * intros _. destruct K as [[-> [q [Q1 Q2]]]|[-> [q [Q1 Q2]]]].
          -- assert (HN : has_nondyn (dyn c) m = true).
             { unfold has_nondyn, has_invalid. apply existsb_exists. exists q. split; [exact Q1|].
               simpl. apply negb_true_iff. exact Q2. }
             rewrite HN. left. reflexivity.
          -- assert (HI : has_invalid (valid c) m = true).
             { unfold has_nondyn, has_invalid. apply existsb_exists. exists q. split; [exact Q1|].
               simpl. apply negb_true_iff. exact Q2. }
             rewrite HI. apply in_or_app. right. left. reflexivity.
    - destruct th as [|f r]; simpl in *.
      + unfold pop_thread_bindings. rewrite F. simpl.
        split; [split; assumption|]. split; [exact W|]. split; [discriminate|].
        intros _. left. reflexivity.
      + inversion W as [|? ? Wf Wr]. subst.
        unfold pop_thread_bindings. rewrite F.
        destruct (pop_vars_char (rev (keys f)) (stk st)) as [s' [E C]].
        * apply NoDup_rev. exact Wf.
        * intros u Hu. apply in_rev in Hu. rewrite S. simpl.
          destruct (assoc_some u f Hu) as [y Hy]. rewrite Hy. discriminate.
        * rewrite E. simpl. split; [|split; [exact Wr | split; [reflexivity | tauto]]].
          split; [reflexivity|]. intros u. simpl. rewrite C, memb_rev, S. simpl.
          pose proof (assoc_memb u f) as A. destruct (assoc u f); rewrite <- A; reflexivity.
    - unfold set_bang, thread_bound. rewrite S, lookup_cells.
      destruct (dyn c v) eqn:D; simpl.
      + destruct (cells v th) as [|y t] eqn:Cv; simpl.
        * split; [split; assumption|]. split; [exact W|]. split; [discriminate|].
          intros _. left. reflexivity.
        * destruct (valid c v x) eqn:V; simpl.
          -- split; [|split; [apply wfth_set; exact W | split; [reflexivity | tauto]]].
             split; [simpl; rewrite frames_set; exact F|]. intros u. simpl.
             rewrite cells_set, Cv. unfold upd. destruct (N.eqb u v); [reflexivity | apply S].
          -- split; [split; assumption|]. split; [exact W|]. split; [discriminate|].
             intros _. left. reflexivity.
      + split; [split; assumption|]. split; [exact W|]. split; [discriminate|].
        intros _. left. reflexivity.
    - split; [split; assumption|]. split; [exact W|]. split; [reflexivity | tauto].
  Qed.

  (** every history, from related states: related states, hence the same value of every
      Var, after every prefix *)
  Theorem refines_run h : forall st th, R st th -> wfth th -> Forall wfop h ->
    R (run c 1 h st) (srun (map erase h) th) /\
    forall v, value c (run c 1 h st) v = svalue (srun (map erase h) th) v.
  Proof.
    induction h as [|o r IH]; intros st th HR W WO; simpl.
    - split; [exact HR | intros v; apply value_R; exact HR].
    - inversion WO as [|? ? Wo Wr]. subst.
      destruct (refines_step st th o HR W Wo) as [R' [W' _]].
      apply IH; assumption.
  Qed.
End S.
