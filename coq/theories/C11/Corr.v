(** C11 correspondence interface.  A case is a number of threads (1-3) and a schedule: the
    list of (thread, operation) in the order the steps are executed.  After every step the
    implementation reports the result code of the step, what conveyed/spawned work observed,
    and the value of Vars 0..4 in every history thread.

    Vars: 0 1 2 dynamic; 3 NOT dynamic; 4 dynamic with validator (< x 1000); roots 100..500.
    The model follows the shape of push_thread_bindings read from runtime.py on this run. *)
From Coq Require Import List Bool ZArith NArith.
Import ListNotations.
From Verif Require Export Common.ListX C11.Bindings C11.Spec.
From Verif Require Import Gen.Tables.

Definition corr_cfg : cfg :=
  {| dyn := fun v => negb (N.eqb v 3); valid := fun v x => if N.eqb v 4 then (x <? 1000)%Z else true;
     root := fun v => (100 * (Z.of_N v + 1))%Z |}.

Definition obs_vars : list var := [0; 1; 2; 3; 4]%N.
Definition threads (n : N) : list N := firstn (N.to_nat n) [0; 1; 2]%N.

Inductive case := CCase (nthreads : N) (sched : list (N * gop)).

Record stepout := mkSO {
  so_code : N;                       (* 0 ok, 1 RuntimeException, 2 ExceptionInfo, 3 other *)
  so_work : list (N * list Z);       (* spawn: (0, values at start of the work), then per work op *)
  so_view : list (list Z) }.         (* per history thread, the value of each of obs_vars *)

Inductive out := OSteps (l : list stepout) | OErr (n : N).

Definition vals_eqb := list_eqb Z.eqb.
Definition work_eqb := list_eqb (fun a b : N * list Z => N.eqb (fst a) (fst b) && vals_eqb (snd a) (snd b)).
Definition so_eqb (a b : stepout) : bool :=
  N.eqb (so_code a) (so_code b) && work_eqb (so_work a) (so_work b)
  && list_eqb vals_eqb (so_view a) (so_view b).
Definition out_eqb (a b : out) : bool :=
  match a, b with
  | OSteps l1, OSteps l2 => list_eqb so_eqb l1 l2
  | OErr a, OErr b => N.eqb a b
  | _, _ => false
  end.

(** ** model *)
Definition shape := push_thread_bindings_shape.
Definition mview (n : N) (g : gstate) : list (list Z) :=
  map (fun t => map (value corr_cfg (g t)) obs_vars) (threads n).

Definition mstep (g : gstate) (t : N) (o : gop) : gstate * N * list (N * list Z) :=
  match o with
  | GLocal lo => let '(st', code) := lstep corr_cfg shape (g t) lo in (gupd g t st', code, [])
  | GSpawn true w work =>
      match push_thread_bindings corr_cfg shape (snapshot corr_cfg (g t)) (g w) with
      | (st1, 0%N) =>
          let '(st2, obs) := run_obs corr_cfg shape obs_vars work st1 in
          let '(st3, code) := pop_thread_bindings st2 in
          (gupd g w st3, code, (0%N, map (value corr_cfg st1) obs_vars) :: obs)
      | (st1, code) => (gupd g w st1, code, [])
      end
  | GSpawn false w work =>
      let '(st2, obs) := run_obs corr_cfg shape obs_vars work (g w) in
      (gupd g w st2, 0%N, (0%N, map (value corr_cfg (g w)) obs_vars) :: obs)
  end.

Fixpoint mrun (n : N) (s : list (N * gop)) (g : gstate) : list stepout :=
  match s with
  | [] => []
  | (t, o) :: r => let '(g', code, work) := mstep g t o in
                   mkSO code work (mview n g') :: mrun n r g'
  end.

Definition model (c : case) : out :=
  match c with CCase n s => OSteps (mrun n s (fun _ => clean)) end.

(** ** specification: the lexical reference of Spec.v, run in lockstep with the reported
    output (a failing form may report any failure kind it contains) *)
Notation sdyn := (dyn corr_cfg).
Notation svalid := (valid corr_cfg).
Notation sroot := (root corr_cfg).

Definition erase (o : wop) : sop :=
  match o with
  | WEnter m => SEnter m
  | WLeave _ => SLeave
  | WSet v x => SSet v x
  | WNoop => SNoop
  end.

Definition sgstate := N -> sthread.
Definition sgupd (G : sgstate) (t : N) (th : sthread) : sgstate :=
  fun u => if N.eqb u t then th else G u.
Definition svals (th : sthread) : list Z := map (svalue sdyn sroot th) obs_vars.
Definition sview (n : N) (G : sgstate) : list (list Z) := map (fun t => svals (G t)) (threads n).

Definition code_ok (allowed : list N) (code : N) : bool :=
  match allowed with [] => N.eqb code 0 | _ => existsb (N.eqb code) allowed end.

(** the work's own steps: reported (code, values) against the reference *)
Fixpoint swork (work : list wop) (obs : list (N * list Z)) (th : sthread) : bool * sthread :=
  match work, obs with
  | [], [] => (true, th)
  | o :: r, (code, vs) :: obs' =>
      let '(th', allowed) := sstep sdyn svalid th (erase o) in
      let '(ok, th'') := swork r obs' th' in
      (code_ok allowed code && vals_eqb vs (svals th') && ok, th'')
  | _, _ => (false, th)
  end.

Definition sspawn (G : sgstate) (t : N) (conv : bool) (w : N) (work : list wop) (so : stepout)
  : bool * sgstate :=
  let start := if conv then sconveyed sdyn sroot (G t) :: G w else G w in
  match so_work so with
  | (c0, v0) :: obs =>
      let '(ok, th') := swork work obs start in
      let th'' := if conv then tl th' else th' in
      (N.eqb (so_code so) 0 && N.eqb c0 0 && vals_eqb v0 (svals start) && ok, sgupd G w th'')
  | [] => (false, G)
  end.

Fixpoint spec_steps (n : N) (s : list (N * gop)) (outs : list stepout) (G : sgstate) : bool :=
  match s, outs with
  | [], [] => true
  | (t, o) :: r, so :: outs' =>
      match o with
      | GLocal lo =>
          let '(th', allowed) := sstep sdyn svalid (G t) (erase lo) in
          let G' := sgupd G t th' in
          code_ok allowed (so_code so) && match so_work so with [] => true | _ => false end
          && list_eqb vals_eqb (so_view so) (sview n G') && spec_steps n r outs' G'
      | GSpawn conv w work =>
          let '(ok, G') := sspawn G t conv w work so in
          ok && list_eqb vals_eqb (so_view so) (sview n G') && spec_steps n r outs' G'
      end
  | _, _ => false
  end.

Definition spec_ok (c : case) (o : out) : bool :=
  match c, o with
  | CCase n s, OSteps l => spec_steps n s l (fun _ => [])
  | _, _ => false
  end.
