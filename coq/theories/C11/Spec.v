(** C11 specification: the lexical discipline of dynamic binding ("deep binding").

    Independent of the model: a thread is a stack of *binding forms* (innermost first); each
    form owns one cell per Var it binds.  A Var's value is the cell of the innermost form that
    binds it, else the root.  Entering a form is all-or-nothing: if any Var is not dynamic or
    any value is rejected by its validator, nothing is established.  Leaving a form - however
    it is left - discards its cells, so every Var is again what the enclosing forms (or the
    root) say.  set! writes the cell of the innermost form binding the Var and nothing else;
    without such a form it is an error.  Conveyed work starts under one form holding the
    creator's current bindings. *)
From Coq Require Import List NArith ZArith Bool.
Import ListNotations.

Definition svar := N.
Definition sval := Z.
Definition sform := list (svar * sval).
Definition sthread := list sform.

Section Spec.
  Variable dyn : svar -> bool.
  Variable valid : svar -> sval -> bool.
  Variable root : svar -> sval.

  Fixpoint assoc (v : svar) (f : sform) : option sval :=
    match f with [] => None | (u, x) :: r => if N.eqb v u then Some x else assoc v r end.

  Fixpoint lookup (v : svar) (th : sthread) : option sval :=
    match th with
    | [] => None
    | f :: r => match assoc v f with Some x => Some x | None => lookup v r end
    end.

  Definition svalue (th : sthread) (v : svar) : sval :=
    if dyn v then match lookup v th with Some x => x | None => root v end else root v.

  Definition has_nondyn (m : sform) : bool := existsb (fun p => negb (dyn (fst p))) m.
  Definition has_invalid (m : sform) : bool := existsb (fun p => negb (valid (fst p) (snd p))) m.
  Definition enter_ok (m : sform) : bool := negb (has_nondyn m) && negb (has_invalid m).

  Fixpoint set_form (v : svar) (x : sval) (f : sform) : sform :=
    match f with
    | [] => []
    | (u, y) :: r => if N.eqb v u then (u, x) :: r else (u, y) :: set_form v x r
    end.

  (** write the innermost cell of v *)
  Fixpoint set_thread (v : svar) (x : sval) (th : sthread) : sthread :=
    match th with
    | [] => []
    | f :: r => match assoc v f with
                | Some _ => set_form v x f :: r
                | None => f :: set_thread v x r
                end
    end.

  Inductive sop :=
  | SEnter (m : sform)
  | SLeave
  | SSet (v : svar) (x : sval)
  | SNoop.

  (** kinds of failure: 1 = not allowed (non-dynamic Var, set! without a binding, leave without
      a form), 2 = value rejected by the validator.  [sstep] returns the new thread and the
      list of failure kinds the form may report (empty = must succeed); a form binding both a
      non-dynamic Var and an invalid value may report either. *)
  Definition sstep (th : sthread) (o : sop) : sthread * list N :=
    match o with
    | SEnter m =>
        if enter_ok m then (m :: th, [])
        else (th, (if has_nondyn m then [1%N] else []) ++ (if has_invalid m then [2%N] else []))
    | SLeave => match th with [] => (th, [1%N]) | _ :: r => (r, []) end
    | SSet v x =>
        if negb (dyn v) then (th, [1%N])
        else match lookup v th with
             | None => (th, [1%N])
             | Some _ => if valid v x then (set_thread v x th, []) else (th, [2%N])
             end
    | SNoop => (th, [])
    end.

  Fixpoint srun (h : list sop) (th : sthread) : sthread :=
    match h with [] => th | o :: r => srun r (fst (sstep th o)) end.

  (** the bindings conveyed to work created now: every Var bound by some form, with its
      current value *)
  Fixpoint bound_vars (th : sthread) : list svar :=
    match th with [] => [] | f :: r => map fst f ++ bound_vars r end.
  Definition sconveyed (th : sthread) : sform :=
    map (fun v => (v, svalue th v)) (nodup N.eq_dec (bound_vars th)).
End Spec.
