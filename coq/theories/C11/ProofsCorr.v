(** C11 proofs, part 4: the executable model evaluated by the correspondence check
    (Corr.mstep, which also collects observations) moves the thread states exactly as the
    [gstep] the theorems are about. *)
From Coq Require Import List NArith ZArith Bool.
Import ListNotations.
From Verif Require Import Gen.Tables C11.Bindings C11.Spec C11.Proofs C11.ProofsHist C11.Corr.

Lemma shape_is_repaired : shape = 1%N.
Proof. reflexivity. Qed.

Lemma run_obs_fst c s obs h : forall st, fst (run_obs c s obs h st) = run c s h st.
Proof.
  induction h as [|o r IH]; intros st; simpl; [reflexivity|].
  destruct (lstep c s st o) as [st1 code] eqn:E. simpl.
  specialize (IH st1). destruct (run_obs c s obs r st1) as [st2 l]. simpl in *. exact IH.
Qed.

Theorem mstep_is_gstep g t o : inv corr_cfg (g t) ->
  forall u, fst (fst (mstep g t o)) u = gstep corr_cfg 1 g t o u.
Proof.
  intros I u. rewrite <- shape_is_repaired. destruct o as [lo|[|] w work]; simpl.
  - destruct (lstep corr_cfg shape (g t) lo) as [st' code]. reflexivity.
  - destruct (snapshot_ok corr_cfg (g t) I) as [ND OK].
    destruct (enter_ok_char corr_cfg shape _ (g w) ND OK) as [st1 [E _]]. rewrite E.
    pose proof (run_obs_fst corr_cfg shape obs_vars work st1) as RO.
    destruct (run_obs corr_cfg shape obs_vars work st1) as [st2 obs]. simpl in RO. subst st2.
    rewrite shape_is_repaired in *.
    rewrite (run_app corr_cfg work [WLeave false]). simpl.
    destruct (pop_thread_bindings (run corr_cfg 1 work st1)) as [st3 code]. reflexivity.
  - pose proof (run_obs_fst corr_cfg shape obs_vars work (g w)) as RO.
    destruct (run_obs corr_cfg shape obs_vars work (g w)) as [st2 obs]. simpl in RO. subst st2.
    reflexivity.
Qed.
