(** C11 proofs, part 1: characterisation of the loops, the invariant of reachable thread
    states, and restoration of the entry state by every binding form (repaired shape 1). *)
From Coq Require Import List NArith ZArith Bool Lia Permutation.
Import ListNotations.
From Verif Require Import C11.Bindings C11.Spec.

Definition memb (u : var) (l : list var) : bool := existsb (N.eqb u) l.

Lemma memb_In u l : memb u l = true <-> In u l.
Proof.
  unfold memb. rewrite existsb_exists. split.
  - intros [x [H E]]. apply N.eqb_eq in E. subst. exact H.
  - intros H. exists u. split; [exact H | apply N.eqb_refl].
Qed.

Lemma memb_false u l : memb u l = false <-> ~ In u l.
Proof.
  rewrite <- memb_In. destruct (memb u l); split; intros; try congruence; try tauto.
Qed.

Lemma memb_rev u l : memb u (rev l) = memb u l.
Proof.
  destruct (memb u l) eqn:E.
  - apply memb_In. apply in_rev. rewrite rev_involutive. apply memb_In. exact E.
  - apply memb_false. intros H. apply in_rev in H. apply memb_In in H. congruence.
Qed.

Lemma assoc_memb u m : match assoc u m with Some _ => true | None => false end = memb u (keys m).
Proof.
  induction m as [|[v x] r IH]; simpl; [reflexivity|].
  destruct (N.eqb u v); simpl; [reflexivity | exact IH].
Qed.

Lemma assoc_none u m : ~ In u (keys m) -> assoc u m = None.
Proof.
  intros H. apply memb_false in H. pose proof (assoc_memb u m) as A. rewrite H in A.
  destruct (assoc u m); [discriminate | reflexivity].
Qed.

Lemma assoc_some u m : In u (keys m) -> exists x, assoc u m = Some x.
Proof.
  intros H. apply memb_In in H. pose proof (assoc_memb u m) as A. rewrite H in A.
  destruct (assoc u m) as [x|]; [exists x; reflexivity | discriminate].
Qed.

Lemma assoc_in u m x : assoc u m = Some x -> In (u, x) m.
Proof.
  induction m as [|[v y] r IH]; simpl; [discriminate|].
  destruct (N.eqb u v) eqn:E.
  - intros H. inversion H. apply N.eqb_eq in E. subst. left. reflexivity.
  - intros H. right. apply IH. exact H.
Qed.

Lemma in_assoc u m x : NoDup (keys m) -> In (u, x) m -> assoc u m = Some x.
Proof.
  induction m as [|[v y] r IH]; simpl; [tauto|].
  intros ND [H|H].
  - inversion H. subst. rewrite N.eqb_refl. reflexivity.
  - inversion ND as [|? ? NI ND']. subst.
    destruct (N.eqb u v) eqn:E.
    + apply N.eqb_eq in E. subst. exfalso. apply NI. change v with (fst (v, x)).
      apply in_map. exact H.
    + apply IH; assumption.
Qed.

Section P.
  Variable c : cfg.

  Definition push_okb (m : list (var * val)) : bool :=
    forallb (fun p => dyn c (fst p) && valid c (fst p) (snd p)) m.

  (** ** pop_vars *)
  Lemma pop_vars_char : forall l s, NoDup l -> (forall u, In u l -> s u <> []) ->
    exists s', pop_vars l s = (s', 0%N) /\
               forall u, s' u = if memb u l then tl (s u) else s u.
  Proof.
    induction l as [|v r IH]; intros s ND NE; simpl.
    - exists s. split; reflexivity.
    - inversion ND as [|? ? NI ND']. subst.
      destruct (s v) as [|y t] eqn:Sv.
      + exfalso. apply (NE v); [left; reflexivity | exact Sv].
      + destruct (IH (upd s v t) ND') as [s' [E C]].
        * intros u Hu. unfold upd. destruct (N.eqb u v) eqn:Euv.
          -- apply N.eqb_eq in Euv. subst. tauto.
          -- apply NE. right. exact Hu.
        * exists s'. split; [exact E|]. intros u. rewrite C. unfold upd.
          destruct (N.eqb u v) eqn:Euv; simpl.
          -- apply N.eqb_eq in Euv. subst.
             replace (memb v r) with false by (symmetry; apply memb_false; exact NI).
             rewrite Sv. reflexivity.
          -- reflexivity.
  Qed.

  (** ** push_loop *)
  Lemma push_loop_ok : forall m s p, NoDup (keys m) -> push_okb m = true ->
    exists s', push_loop c m s p = (s', rev (keys m) ++ p, 0%N) /\
               forall u, s' u = match assoc u m with Some x => x :: s u | None => s u end.
  Proof.
    induction m as [|[v x] r IH]; intros s p ND OK; simpl.
    - exists s. split; reflexivity.
    - simpl in OK. apply andb_true_iff in OK. destruct OK as [OK1 OK2].
      apply andb_true_iff in OK1. destruct OK1 as [D V]. simpl in D, V.
      rewrite D, V. simpl.
      inversion ND as [|? ? NI ND']. subst.
      destruct (IH (upd s v (x :: s v)) (v :: p) ND' OK2) as [s' [E C]].
      exists s'. split.
      + rewrite E. rewrite <- app_assoc. reflexivity.
      + intros u. rewrite C. unfold upd. destruct (N.eqb u v) eqn:Euv.
        * apply N.eqb_eq in Euv. subst. rewrite (assoc_none v r NI). reflexivity.
        * reflexivity.
  Qed.

  Lemma push_loop_fail : forall m s p, NoDup (keys m) -> push_okb m = false ->
    exists m1 m2 s' code, m = m1 ++ m2 /\
      push_loop c m s p = (s', rev (keys m1) ++ p, code) /\
      (forall u, s' u = match assoc u m1 with Some x => x :: s u | None => s u end) /\
      ((code = 1%N /\ exists q, In q m /\ dyn c (fst q) = false) \/
       (code = 2%N /\ exists q, In q m /\ valid c (fst q) (snd q) = false)).
  Proof.
    induction m as [|[v x] r IH]; intros s p ND OK; simpl in *.
    - discriminate.
    - inversion ND as [|? ? NI ND']. subst.
      destruct (dyn c v) eqn:D; simpl.
      + destruct (valid c v x) eqn:V; simpl.
        * simpl in OK.
          destruct (IH (upd s v (x :: s v)) (v :: p) ND' OK) as [m1 [m2 [s' [code [E [PL [C K]]]]]]].
          exists ((v, x) :: m1), m2, s', code. split; [simpl; rewrite E; reflexivity|].
          split; [rewrite PL; simpl; rewrite <- app_assoc; reflexivity|].
          split.
          -- intros u. rewrite C. simpl. unfold upd. destruct (N.eqb u v) eqn:Euv.
             ++ apply N.eqb_eq in Euv. subst.
                assert (NI1 : ~ In v (keys m1)).
                { intros H. apply NI. unfold keys. rewrite map_app. apply in_or_app.
                  left. exact H. }
                rewrite (assoc_none v m1 NI1). reflexivity.
             ++ reflexivity.
          -- destruct K as [[K1 [q [Q1 Q2]]]|[K1 [q [Q1 Q2]]]]; [left|right];
               (split; [exact K1 | exists q; split; [right; exact Q1 | exact Q2]]).
        * exists [], ((v, x) :: r), s, 2%N. simpl. repeat split; try reflexivity.
          right. split; [reflexivity|]. exists (v, x). split; [left; reflexivity | exact V].
      + exists [], ((v, x) :: r), s, 1%N. simpl. repeat split; try reflexivity.
        left. split; [reflexivity|]. exists (v, x). split; [left; reflexivity | exact D].
  Qed.

  (** ** thread states up to extensionality *)
  Definition steq (a b : tstate) : Prop := frames a = frames b /\ forall u, stk a u = stk b u.

  Lemma steq_refl a : steq a a.
  Proof. split; reflexivity. Qed.

  Lemma steq_value a b v : steq a b -> value c a v = value c b v.
  Proof. intros [_ H]. unfold value. rewrite H. reflexivity. Qed.

  Lemma NoDup_keys_app_l (m1 m2 : list (var * val)) : NoDup (keys (m1 ++ m2)) -> NoDup (keys m1).
  Proof.
    unfold keys. rewrite map_app. induction (map fst m1) as [|a l IH]; simpl; intros H.
    - constructor.
    - inversion H as [|? ? NI ND]. subst. constructor.
      + intros X. apply NI. apply in_or_app. left. exact X.
      + apply IH. exact ND.
  Qed.

  (** ** characterisation of the four operations *)
  Lemma enter_ok_char shape m st : NoDup (keys m) -> push_okb m = true ->
    exists st', push_thread_bindings c shape m st = (st', 0%N) /\
      frames st' = rev (keys m) :: frames st /\
      forall u, stk st' u = match assoc u m with Some x => x :: stk st u | None => stk st u end.
  Proof.
    intros ND OK. destruct (push_loop_ok m (stk st) [] ND OK) as [s' [E C]].
    unfold push_thread_bindings. rewrite E. rewrite app_nil_r.
    eexists. split; [reflexivity|]. simpl. split; [|exact C].
    rewrite nodup_fixed_point; [reflexivity | apply NoDup_rev; exact ND].
  Qed.

  (** the repaired push_thread_bindings leaves nothing behind when it fails *)
  Lemma enter_fail_char m st : NoDup (keys m) -> push_okb m = false ->
    exists st' code, push_thread_bindings c 1 m st = (st', code) /\ steq st' st /\
      ((code = 1%N /\ exists q, In q m /\ dyn c (fst q) = false) \/
       (code = 2%N /\ exists q, In q m /\ valid c (fst q) (snd q) = false)).
  Proof.
    intros ND OK.
    destruct (push_loop_fail m (stk st) [] ND OK) as [m1 [m2 [s' [code [E [PL [C K]]]]]]].
    unfold push_thread_bindings. rewrite PL. rewrite app_nil_r.
    assert (ND1 : NoDup (rev (keys m1))).
    { apply NoDup_rev. apply (NoDup_keys_app_l m1 m2). rewrite <- E. exact ND. }
    rewrite (nodup_fixed_point N.eq_dec ND1).
    destruct (pop_vars_char (rev (keys m1)) s' ND1) as [s'' [PE PC]].
    { intros u Hu. apply in_rev in Hu. rewrite C. destruct (assoc_some u m1 Hu) as [x Hx].
      rewrite Hx. discriminate. }
    assert (R : steq {| stk := fst (pop_vars (rev (keys m1)) s'); frames := frames st |} st).
    { split; [reflexivity|]. intros u. simpl. rewrite PE. simpl. rewrite PC, memb_rev, C.
      pose proof (assoc_memb u m1) as A. destruct (assoc u m1); rewrite <- A; reflexivity. }
    destruct K as [[K1 Q]|[K1 Q]]; subst code; simpl;
      eexists; eexists; (split; [reflexivity|]); (split; [exact R|]); [left|right]; tauto.
  Qed.

  (** ** the invariant of reachable thread states *)
  Definition nframes (u : var) (fs : list (list var)) : nat := length (filter (memb u) fs).

  Record inv (st : tstate) : Prop := {
    inv_nodup : forall f, In f (frames st) -> NoDup f;
    inv_len : forall u, length (stk st u) = nframes u (frames st);
    inv_dyn : forall u, stk st u <> [] -> dyn c u = true;
    inv_valid : forall u x, In x (stk st u) -> valid c u x = true }.

  Lemma inv_clean : inv clean.
  Proof. constructor; simpl; intros; try reflexivity; try tauto. Qed.

  Lemma inv_steq a b : steq a b -> inv a -> inv b.
  Proof.
    intros [F S] [I1 I2 I3 I4]. constructor; intros.
    - apply I1. rewrite F. assumption.
    - rewrite <- S, <- F. apply I2.
    - apply I3. rewrite S. assumption.
    - apply I4. rewrite S. assumption.
  Qed.

  Lemma leave_char st f fs : inv st -> frames st = f :: fs ->
    exists st', pop_thread_bindings st = (st', 0%N) /\ frames st' = fs /\
      forall u, stk st' u = if memb u f then tl (stk st u) else stk st u.
  Proof.
    intros I F. unfold pop_thread_bindings. rewrite F.
    destruct (pop_vars_char f (stk st)) as [s' [E C]].
    - apply (inv_nodup _ I). rewrite F. left. reflexivity.
    - intros u Hu Z. pose proof (inv_len _ I u) as L. rewrite Z, F in L. unfold nframes in L.
      simpl in L. apply memb_In in Hu. rewrite Hu in L. simpl in L. discriminate.
    - rewrite E. eexists. split; [reflexivity|]. simpl. split; [reflexivity | exact C].
  Qed.

  Lemma set_char v x st :
    (thread_bound c st v = true /\ valid c v x = true /\
     exists st', set_bang c v x st = (st', 0%N) /\ frames st' = frames st /\
       stk st' v = x :: tl (stk st v) /\ forall u, u <> v -> stk st' u = stk st u)
    \/ (exists code, set_bang c v x st = (st, code) /\ code <> 0%N /\
        (code = 1%N <-> thread_bound c st v = false)).
  Proof.
    unfold set_bang. destruct (thread_bound c st v) eqn:TB; simpl.
    - destruct (valid c v x) eqn:V; simpl.
      + left. repeat split; try reflexivity. eexists. split; [reflexivity|]. simpl.
        split; [reflexivity|]. split.
        * unfold upd. rewrite N.eqb_refl. reflexivity.
        * intros u Hu. unfold upd. apply N.eqb_neq in Hu. rewrite Hu. reflexivity.
      + right. exists 2%N. repeat split; try discriminate.
    - right. exists 1%N. repeat split; try discriminate.
  Qed.

  (** ** every step preserves the invariant (maps have distinct keys) *)
  Definition wfop (o : wop) : Prop := match o with WEnter m => NoDup (keys m) | _ => True end.

  Lemma inv_enter m st st' : inv st -> NoDup (keys m) -> push_okb m = true ->
    frames st' = rev (keys m) :: frames st ->
    (forall u, stk st' u = match assoc u m with Some x => x :: stk st u | None => stk st u end) ->
    inv st'.
  Proof.
    intros [I1 I2 I3 I4] ND OK F S. constructor.
    - intros f. rewrite F. intros [H|H]; [subst; apply NoDup_rev; exact ND | apply I1; exact H].
    - intros u. rewrite S, F. unfold nframes. simpl. rewrite memb_rev.
      pose proof (assoc_memb u m) as A. destruct (assoc u m); rewrite <- A; simpl;
        [f_equal|]; apply I2.
    - intros u. rewrite S. destruct (assoc u m) as [x|] eqn:A; [|apply I3].
      intros _. apply assoc_in in A. unfold push_okb in OK. rewrite forallb_forall in OK.
      apply OK in A. simpl in A. apply andb_true_iff in A. tauto.
    - intros u x. rewrite S. destruct (assoc u m) as [y|] eqn:A; [|apply I4].
      intros [H|H]; [|apply I4; exact H]. subst y.
      apply assoc_in in A. unfold push_okb in OK. rewrite forallb_forall in OK.
      apply OK in A. simpl in A. apply andb_true_iff in A. tauto.
  Qed.

  Lemma inv_leave st st' f fs : inv st -> frames st = f :: fs -> frames st' = fs ->
    (forall u, stk st' u = if memb u f then tl (stk st u) else stk st u) -> inv st'.
  Proof.
    intros [I1 I2 I3 I4] F F' S. constructor.
    - intros g Hg. apply I1. rewrite F. right. rewrite <- F'. exact Hg.
    - intros u. rewrite S, F'. pose proof (I2 u) as L. rewrite F in L. unfold nframes in *.
      simpl in L. destruct (memb u f); simpl in *.
      + destruct (stk st u); simpl in *; lia.
      + exact L.
    - intros u. rewrite S. intros H. apply I3. destruct (memb u f); [|exact H].
      intros Z. rewrite Z in H. apply H. reflexivity.
    - intros u x. rewrite S. intros H. apply I4. destruct (memb u f); [|exact H].
      destruct (stk st u); [exact H | right; exact H].
  Qed.

  Lemma inv_step st o : inv st -> wfop o -> inv (fst (lstep c 1 st o)).
  Proof.
    intros I W. destruct o as [m|b|v x|]; simpl.
    - simpl in W. destruct (push_okb m) eqn:OK.
      + destruct (enter_ok_char 1 m st W OK) as [st' [E [F S]]]. rewrite E. simpl.
        eapply inv_enter; eauto.
      + destruct (enter_fail_char m st W OK) as [st' [code [E [R _]]]]. rewrite E. simpl.
        apply (inv_steq st); [|exact I]. destruct R as [R1 R2]. split; [symmetry; exact R1|].
        intros u. symmetry. apply R2.
    - destruct (frames st) as [|f fs] eqn:F.
      + unfold pop_thread_bindings. rewrite F. exact I.
      + destruct (leave_char st f fs I F) as [st' [E [F' S]]]. rewrite E. simpl.
        eapply inv_leave; eauto.
    - destruct (set_char v x st) as [[TB [V [st' [E [F [Sv Su]]]]]]|[code [E _]]];
        rewrite E; simpl; [|exact I].
      destruct I as [I1 I2 I3 I4].
      unfold thread_bound in TB. apply andb_true_iff in TB. destruct TB as [D NE].
      constructor.
      + intros f. rewrite F. apply I1.
      + intros u. rewrite F. destruct (N.eq_dec u v) as [->|Huv].
        * rewrite Sv, <- I2. destruct (stk st v); [discriminate | reflexivity].
        * rewrite (Su u Huv). apply I2.
      + intros u. destruct (N.eq_dec u v) as [->|Huv]; [intros _; exact D|].
        rewrite (Su u Huv). apply I3.
      + intros u y. destruct (N.eq_dec u v) as [->|Huv].
        * rewrite Sv. intros [H|H]; [subst; exact V|]. apply I4.
          destruct (stk st v); [exact H | right; exact H].
        * rewrite (Su u Huv). apply I4.
    - exact I.
  Qed.

  Lemma run_app h1 h2 st : run c 1 (h1 ++ h2) st = run c 1 h2 (run c 1 h1 st).
  Proof. revert st. induction h1; simpl; intros; [reflexivity | apply IHh1]. Qed.

  Lemma inv_run h st : inv st -> Forall wfop h -> inv (run c 1 h st).
  Proof.
    revert st. induction h as [|o r IH]; simpl; intros st I W; [exact I|].
    inversion W. subst. apply IH; [apply inv_step; assumption | assumption].
  Qed.
End P.
