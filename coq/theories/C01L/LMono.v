(** Fuel monotonicity of the Python semantics and sequencing lemmas. *)
From Coq Require Import List ZArith NArith Bool Lia Arith.
Import ListNotations.
From Verif Require Import C01L.LPy.

Definition ext (f g : frame -> lstmt -> option (sout * frame * trace)) : Prop :=
  forall F s r, f F s = Some r -> g F s = Some r.

Lemma lexecs_ext f g : ext f g -> forall l F r, lexecs f F l = Some r -> lexecs g F l = Some r.
Proof.
  intros E. induction l as [|s l IH]; intros F r H; simpl in *; [exact H|].
  destruct (f F s) as [[[o F1] t1]|] eqn:E1; [|discriminate].
  rewrite (E _ _ _ E1).
  destruct o; try exact H.
  destruct (lexecs f F1 l) as [[[o2 F2] t2]|] eqn:E2; [|discriminate].
  rewrite (IH _ _ E2). exact H.
Qed.

Lemma mono_step : forall m,
  (forall F s r, lexec1 m F s = Some r -> lexec1 (S m) F s = Some r) /\
  (forall F b r, lwhile m F b = Some r -> lwhile (S m) F b = Some r).
Proof.
  induction m as [|m [IH1 IH2]]; [split; intros; discriminate|].
  assert (E : ext (lexec1 m) (lexec1 (S m))) by (intros F s r; apply IH1).
  split.
  - intros F s r H. destruct s; try exact H.
    + (* if *) cbn [lexec1] in *. destruct (F test) as [v|]; [|discriminate].
      eapply lexecs_ext; [exact E|exact H].
    + (* while *) cbn [lexec1] in *. apply IH2. exact H.
  - intros F b r H. cbn [lwhile] in H. 
    destruct (lexecs (lexec1 m) F b) as [[[o F1] t1]|] eqn:Eb; [|discriminate].
    change (lwhile (S (S m)) F b) with
      (match lexecs (lexec1 (S m)) F b with
       | Some (Brk, F1, t1) => Some (Normal, F1, t1)
       | Some (_, F1, t1) =>
           match lwhile (S m) F1 b with Some (o, F2, t2) => Some (o, F2, t1 ++ t2) | None => None end
       | None => None
       end).
    rewrite (lexecs_ext _ _ E _ _ _ Eb).
    destruct o; try exact H;
      (destruct (lwhile m F1 b) as [[[o2 F2] t2]|] eqn:Ew; [|discriminate];
       rewrite (IH2 _ _ _ Ew); exact H).
Qed.

Lemma lexec1_mono m m' F s r : m <= m' -> lexec1 m F s = Some r -> lexec1 m' F s = Some r.
Proof.
  intros L H. induction L as [|m' L IH]; [exact H|]. apply (proj1 (mono_step m')). exact IH.
Qed.

Lemma lwhile_mono m m' F b r : m <= m' -> lwhile m F b = Some r -> lwhile m' F b = Some r.
Proof.
  intros L H. induction L as [|m' L IH]; [exact H|]. apply (proj2 (mono_step m')). exact IH.
Qed.

Lemma lexec_mono m m' F l r : m <= m' -> lexec m F l = Some r -> lexec m' F l = Some r.
Proof.
  intros L. unfold lexec. apply lexecs_ext. intros F0 s r0. apply lexec1_mono. exact L.
Qed.

Lemma lexec_nil m F : lexec m F [] = Some (Normal, F, []).
Proof. reflexivity. Qed.

Lemma lexec_cons m F s r :
  lexec m F (s :: r) =
    match lexec1 m F s with
    | Some (Normal, F1, t1) =>
        match lexec m F1 r with Some (o, F2, t2) => Some (o, F2, t1 ++ t2) | None => None end
    | other => other
    end.
Proof. reflexivity. Qed.

Lemma lexec_app m F l1 l2 :
  lexec m F (l1 ++ l2) =
    match lexec m F l1 with
    | Some (Normal, F1, t1) =>
        match lexec m F1 l2 with Some (o, F2, t2) => Some (o, F2, t1 ++ t2) | None => None end
    | other => other
    end.
Proof.
  revert F. induction l1 as [|s r IH]; intro F.
  - cbn [app]. rewrite lexec_nil. destruct (lexec m F l2) as [[[o F2] t2]|]; reflexivity.
  - rewrite <- app_comm_cons, !lexec_cons.
    destruct (lexec1 m F s) as [[[o F1] t1]|]; [|reflexivity].
    destruct o; try reflexivity.
    rewrite IH. destruct (lexec m F1 r) as [[[o2 F2] t2]|]; [|reflexivity].
    destruct o2; try reflexivity.
    destruct (lexec m F2 l2) as [[[o3 F3] t3]|]; [|reflexivity].
    rewrite app_assoc. reflexivity.
Qed.

(** sequencing with different fuels *)
Lemma lexec_seq m1 m2 F l1 l2 F1 t1 o F2 t2 :
  lexec m1 F l1 = Some (Normal, F1, t1) -> lexec m2 F1 l2 = Some (o, F2, t2) ->
  lexec (Nat.max m1 m2) F (l1 ++ l2) = Some (o, F2, t1 ++ t2).
Proof.
  intros H1 H2. rewrite lexec_app.
  rewrite (lexec_mono m1 (Nat.max m1 m2) _ _ _ (Nat.le_max_l _ _) H1).
  rewrite (lexec_mono m2 (Nat.max m1 m2) _ _ _ (Nat.le_max_r _ _) H2). reflexivity.
Qed.

Lemma lexec_stop m F l1 l2 o F1 t1 :
  o <> Normal -> lexec m F l1 = Some (o, F1, t1) -> lexec m F (l1 ++ l2) = Some (o, F1, t1).
Proof.
  intros Hn H. rewrite lexec_app, H. destruct o; congruence.
Qed.

Lemma lexec1_S_assign m F x e v t :
  peval F e = Some (v, t) -> lexec1 (S m) F (LAssign x e) = Some (Normal, set F x v, t).
Proof. intro H. cbn [lexec1]. rewrite H. reflexivity. Qed.

Lemma lexec1_S_expr m F e v t :
  peval F e = Some (v, t) -> lexec1 (S m) F (LExpr e) = Some (Normal, F, t).
Proof. intro H. cbn [lexec1]. rewrite H. reflexivity. Qed.

Lemma lexec1_S_if m F tst fb tb v :
  F tst = Some v -> lexec1 (S m) F (LSIf tst fb tb) = lexec m F (if falsey v then fb else tb).
Proof. intro H. cbn [lexec1]. rewrite H. reflexivity. Qed.
