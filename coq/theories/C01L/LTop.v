(** Whole-program theorem for the first-order core with loop*/recur. *)
From Coq Require Import List ZArith NArith Bool Lia Arith.
Import ListNotations.
From Verif Require Import C01.Sim C01L.LLisp C01L.LPy C01L.LGen C01L.LMono C01L.LSim.
Local Open Scope N_scope.

Lemma R2_empty : R2 (fun _ => None) (fun _ => None) (fun _ => None) 0.
Proof. split; [intros x v H; discriminate|intros x p H; discriminate]. Qed.

(** If the evaluation rules give a value and a trace for a closed hazard-free program, then
    for every sufficiently large fuel the compiled code yields exactly them: loop locals are
    rebound simultaneously by recur, each iteration of the source loop is one iteration of
    `while True`, effects happen in source order. *)
Theorem lcompile_correct fuel e v tr :
  leval fuel (fun _ => None) e = Some (OVal v, tr) -> hazard_free e = true ->
  exists m, forall m', (m <= m')%nat -> lrun m' e = Some (v, tr).
Proof.
  intros He Hh. unfold hazard_free, lrun in *.
  destruct (lgen (fun _ => None) [] 0 e) as [[[d pe] n'] k] eqn:G. subst k.
  destruct (lsim_all fuel e _ _ _ _ _ _ _ _ _ _ R2_empty He G) as (_ & m & F' & t1 & t2 & X & P & T & _).
  exists m. intros m' Hm. rewrite (lexec_mono m m' _ _ _ Hm X), P, T. reflexivity.
Qed.

(** recur rebinds all loop locals simultaneously: (loop* [a 1 b 2 c nil] (if c [a b] (recur b a 7))) = [2 1] *)
Definition swap_loop : lexpr :=
  LLoop [(0, LConst (VInt 1)); (1, LConst (VInt 2)); (2, LConst VNil)]
        (LIf (LLocal 2) (LCall PVec [LLocal 0; LLocal 1]) (LRecur [LLocal 1; LLocal 0; LConst (VInt 7)])).

Example swap_loop_ok :
  hazard_free swap_loop = true /\
  leval 20 (fun _ => None) swap_loop = Some (OVal (VVec [VInt 2; VInt 1]), []) /\
  lrun 20 swap_loop = Some (VVec [VInt 2; VInt 1], []).
Proof. repeat split; vm_compute; reflexivity. Qed.

(** a counting loop with effects in the recur arguments:
    (loop* [i 0 acc []] (if (< i 3) (recur (inc i) (conj acc (t i))) acc)) *)
Definition count_loop : lexpr :=
  LLoop [(0, LConst (VInt 0)); (1, LConst (VVec []))]
        (LIf (LCall PLt [LLocal 0; LConst (VInt 3)])
             (LRecur [LCall PInc [LLocal 0]; LCall PConj [LLocal 1; LCall PTrace [LLocal 0]]])
             (LLocal 1)).

Example count_loop_ok :
  hazard_free count_loop = true /\
  leval 40 (fun _ => None) count_loop = Some (OVal (VVec [VInt 0; VInt 1; VInt 2]), [VInt 0; VInt 1; VInt 2]) /\
  lrun 40 count_loop = Some (VVec [VInt 0; VInt 1; VInt 2], [VInt 0; VInt 1; VInt 2]).
Proof. repeat split; vm_compute; reflexivity. Qed.
