(** Python subset for the loop extension: C01/Py.v's statements plus tuple assignment,
    `while True`, break and continue; semantics on explicit fuel (only `while` consumes
    it), monotone in the fuel. *)
From Coq Require Import List ZArith NArith Bool Lia.
Import ListNotations.
From Verif Require Export C01.Lisp C01.Py.

Inductive lstmt :=
| LAssign (n : pname) (e : pexpr)
| LAssignTuple (ns : list pname) (es : list pexpr)
| LExpr (e : pexpr)
| LSIf (test : pname) (fb tb : list lstmt)
| LWhile (body : list lstmt)
| LBreak
| LContinue.

Inductive sout := Normal | Brk | Cont.

Fixpoint set_all (F : frame) (ns : list pname) (vs : list value) : option frame :=
  match ns, vs with
  | [], [] => Some F
  | n :: ns', v :: vs' => set_all (set F n v) ns' vs'
  | _, _ => None
  end.

Section Stmts.
  Variable ex1 : frame -> lstmt -> option (sout * frame * trace).
  Fixpoint lexecs (F : frame) (l : list lstmt) : option (sout * frame * trace) :=
    match l with
    | [] => Some (Normal, F, [])
    | s :: r =>
        match ex1 F s with
        | Some (Normal, F1, t1) =>
            match lexecs F1 r with Some (o, F2, t2) => Some (o, F2, t1 ++ t2) | None => None end
        | other => other
        end
    end.
End Stmts.

Fixpoint lexec1 (fuel : nat) (F : frame) (s : lstmt) : option (sout * frame * trace) :=
  match fuel with
  | O => None
  | S n =>
      match s with
      | LAssign x e => match peval F e with Some (v, t) => Some (Normal, set F x v, t) | None => None end
      | LAssignTuple xs es =>
          match peval_list F es with
          | Some (vs, t) => match set_all F xs vs with Some F' => Some (Normal, F', t) | None => None end
          | None => None
          end
      | LExpr e => match peval F e with Some (_, t) => Some (Normal, F, t) | None => None end
      | LSIf t fb tb =>
          match F t with
          | Some v => lexecs (lexec1 n) F (if falsey v then fb else tb)
          | None => None
          end
      | LWhile body => lwhile n F body
      | LBreak => Some (Brk, F, [])
      | LContinue => Some (Cont, F, [])
      end
  end

with lwhile (fuel : nat) (F : frame) (body : list lstmt) : option (sout * frame * trace) :=
  match fuel with
  | O => None
  | S n =>
      match lexecs (lexec1 n) F body with
      | Some (Brk, F1, t1) => Some (Normal, F1, t1)
      | Some (_, F1, t1) =>
          match lwhile n F1 body with Some (o, F2, t2) => Some (o, F2, t1 ++ t2) | None => None end
      | None => None
      end
  end.

Definition lexec (fuel : nat) := lexecs (lexec1 fuel).
