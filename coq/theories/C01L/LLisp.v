(** First-order core extended with loop*/recur: source language and evaluation rules.
    Outcomes: a value, or a pending `recur` (only legal in tail position of a loop body:
    a recur anywhere else makes evaluation stuck, as the analyzer rejects such programs). *)
From Coq Require Import List ZArith NArith Bool.
Import ListNotations.
From Verif Require Export C01.Lisp.

Inductive lexpr :=
| LConst (v : value)
| LLocal (x : N)
| LIf (c t e : lexpr)
| LDo (s r : lexpr)
| LLet (x : N) (i b : lexpr)
| LCall (f : prim) (args : list lexpr)
| LLoop (binds : list (N * lexpr)) (body : lexpr)
| LRecur (args : list lexpr).

Inductive outcome := OVal (v : value) | ORec (vs : list value).

Fixpoint rebind (xs : list N) (vs : list value) (rho : env) : option env :=
  match xs, vs with
  | [], [] => Some rho
  | x :: xs', v :: vs' => rebind xs' vs' (upd rho x v)
  | _, _ => None
  end.

Section Lists.
  Variable ev : env -> lexpr -> option (outcome * trace).
  Fixpoint evals (rho : env) (l : list lexpr) : option (list value * trace) :=
    match l with
    | [] => Some ([], [])
    | a :: r =>
        match ev rho a with
        | Some (OVal v, t1) =>
            match evals rho r with Some (vs, t2) => Some (v :: vs, t1 ++ t2) | None => None end
        | _ => None
        end
    end.
  (** loop bindings are sequential: each init sees the previous ones *)
  Fixpoint evbinds (rho : env) (l : list (N * lexpr)) : option (env * trace) :=
    match l with
    | [] => Some (rho, [])
    | (x, i) :: r =>
        match ev rho i with
        | Some (OVal v, t1) =>
            match evbinds (upd rho x v) r with Some (rho', t2) => Some (rho', t1 ++ t2) | None => None end
        | _ => None
        end
    end.
End Lists.

Fixpoint leval (fuel : nat) (rho : env) (e : lexpr) : option (outcome * trace) :=
  match fuel with
  | O => None
  | S n =>
      match e with
      | LConst v => Some (OVal v, [])
      | LLocal x => match rho x with Some v => Some (OVal v, []) | None => None end
      | LIf c t e =>
          match leval n rho c with
          | Some (OVal vc, t1) =>
              match (if falsey vc then leval n rho e else leval n rho t) with
              | Some (o, t2) => Some (o, t1 ++ t2)
              | None => None
              end
          | _ => None
          end
      | LDo s r =>
          match leval n rho s with
          | Some (OVal _, t1) =>
              match leval n rho r with Some (o, t2) => Some (o, t1 ++ t2) | None => None end
          | _ => None
          end
      | LLet x i b =>
          match leval n rho i with
          | Some (OVal vi, t1) =>
              match leval n (upd rho x vi) b with Some (o, t2) => Some (o, t1 ++ t2) | None => None end
          | _ => None
          end
      | LCall f args =>
          match evals (leval n) rho args with
          | Some (vs, t1) =>
              match apply_prim f vs with Some (v, t2) => Some (OVal v, t1 ++ t2) | None => None end
          | None => None
          end
      | LLoop binds body =>
          match evbinds (leval n) rho binds with
          | Some (rho1, t1) =>
              match lloop n (map fst binds) rho1 body with
              | Some (v, t2) => Some (OVal v, t1 ++ t2)
              | None => None
              end
          | None => None
          end
      | LRecur args =>
          match evals (leval n) rho args with
          | Some (vs, t1) => Some (ORec vs, t1)
          | None => None
          end
      end
  end

(** iterate the loop body; recur rebinds all loop locals simultaneously *)
with lloop (fuel : nat) (xs : list N) (rho : env) (body : lexpr) : option (value * trace) :=
  match fuel with
  | O => None
  | S n =>
      match leval n rho body with
      | Some (OVal v, t1) => Some (v, t1)
      | Some (ORec vs, t1) =>
          match rebind xs vs rho with
          | Some rho1 =>
              match lloop n xs rho1 body with Some (v, t2) => Some (v, t1 ++ t2) | None => None end
          | None => None
          end
      | None => None
      end
  end.
