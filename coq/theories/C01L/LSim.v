(** Forward simulation for the first-order core extended with loop*/recur. *)
From Coq Require Import List ZArith NArith Bool Lia Arith.
Import ListNotations.
From Verif Require Import C01.Sim C01L.LLisp C01L.LPy C01L.LGen C01L.LMono.
Local Open Scope N_scope.

Lemma lquiet_cons s r : lquiet (s :: r) = lquiet1 s && lquiet r.
Proof. reflexivity. Qed.

Lemma lquiet_app a b : lquiet (a ++ b) = lquiet a && lquiet b.
Proof.
  induction a as [|s r IH]; [reflexivity|].
  rewrite <- app_comm_cons, !lquiet_cons, IH, andb_assoc. reflexivity.
Qed.

Lemma atomic_quiet e : atomic e = true -> forall F v t, peval F e = Some (v, t) -> t = [].
Proof. intros A F v t H. eapply atomic_no_trace; eauto. Qed.

(** ---- tuple assignment vs rebinding ---- *)
Lemma set_all_length F ns vs F' : set_all F ns vs = Some F' -> length ns = length vs.
Proof.
  revert F vs. induction ns as [|n r IH]; intros F [|v vs] H; simpl in *; try discriminate; auto.
  f_equal. eapply IH; eauto.
Qed.

Lemma set_all_total F ns vs : length ns = length vs -> exists F', set_all F ns vs = Some F'.
Proof.
  revert F vs. induction ns as [|n r IH]; intros F [|v vs] H; simpl in *; try discriminate.
  - eexists; reflexivity.
  - apply IH. lia.
Qed.

Lemma set_all_other F ns vs F' q : set_all F ns vs = Some F' -> ~ In q ns -> F' q = F q.
Proof.
  revert F vs. induction ns as [|n r IH]; intros F [|v vs] H Hq; simpl in *; try discriminate.
  - inversion H; reflexivity.
  - rewrite (IH _ _ H) by tauto. apply set_other. intro E; subst; tauto.
Qed.

Lemma exec_assign_all m F lp es vs t F' :
  peval_list F es = Some (vs, t) -> set_all F lp vs = Some F' ->
  lexec1 (S m) F (assign_all lp es) = Some (Normal, F', t).
Proof.
  intros Hp Hs. unfold assign_all.
  destruct lp as [|x [|y r]]; try (cbn [lexec1]; rewrite Hp, Hs; reflexivity).
  destruct es as [|e1 [|e2 er]]; try (cbn [lexec1]; rewrite Hp, Hs; reflexivity).
  simpl in Hp. destruct (peval F e1) as [[v1 t1]|] eqn:E1; [|discriminate].
  inversion Hp; subst. simpl in Hs. inversion Hs; subst.
  cbn [lexec1]. rewrite E1, app_nil_r. reflexivity.
Qed.

(** R is preserved by rebinding the loop locals (binders and Python names pairwise distinct) *)
Lemma R_rebind : forall xs names vs rho sg F n rho2 F2,
  R rho sg F n ->
  Forall2 (fun x p => sg x = Some p /\ idx p < n) xs names ->
  NoDup names ->
  (forall y q, ~ In y xs -> sg y = Some q -> ~ In q names) ->
  rebind xs vs rho = Some rho2 -> set_all F names vs = Some F2 ->
  R rho2 sg F2 n.
Proof.
  induction xs as [|x xs IH]; intros names vs rho sg F n rho2 F2 HR HF ND Hout Hr Hs.
  - inversion HF; subst. destruct vs; [|discriminate]. simpl in *. inversion Hr; inversion Hs; subst. exact HR.
  - inversion HF as [|? p ? names' [Hsx Hix] HF']; subst.
    destruct vs as [|v vs]; [discriminate|]. simpl in Hr, Hs.
    inversion ND as [|? ? Hnin ND']; subst.
    assert (HR1 : R (upd rho x v) sg (set F p v) n).
    { intros y vy Hy. unfold upd in Hy. destruct (N.eqb y x) eqn:Eyx.
      - apply N.eqb_eq in Eyx. subst y. inversion Hy; subst. exists p. repeat split; auto. apply set_same.
      - destruct (HR y vy Hy) as (q & Hq1 & Hq2 & Hq3). exists q. repeat split; auto.
        rewrite set_other; auto. intro E; subst q.
        destruct (in_dec N.eq_dec y xs) as [Hin|Hnin'].
        + (* y is another loop local: its name is in names', but p is not *)
          clear - HF' Hin Hq1 Hnin.
          induction HF' as [|a b l l' [Ha _] HF'' IHf]; [destruct Hin|].
          destruct Hin as [->|Hin].
          * rewrite Hq1 in Ha. inversion Ha; subst. apply Hnin. left; reflexivity.
          * apply IHf; auto. intro X. apply Hnin. right; exact X.
        + apply (Hout y p); [|exact Hq1|left; reflexivity].
          intros [->|X]; [apply N.eqb_neq in Eyx; congruence|contradiction]. }
    eapply (IH names' vs (upd rho x v) sg (set F p v) n rho2 F2 HR1 HF' ND'); eauto.
    (* side condition for the remaining binders: relative to xs only *)
    intros y q Hy Hq Hin.
    destruct (N.eq_dec y x) as [->|Hne].
    + rewrite Hsx in Hq. inversion Hq; subst. contradiction.
    + apply (Hout y q); [|exact Hq|right; exact Hin]. intros [->|X]; [congruence|contradiction].
Qed.

Lemma R_let rho sg F n x v p n1 F1 :
  R rho sg F n -> n <= n1 -> agree_below n F F1 -> p = NLocal x n1 ->
  R (upd rho x v) (upd sg x p) (set F1 p v) (n1 + 1).
Proof.
  intros HR L A ->. intros y vy Hy. unfold upd in *. destruct (N.eqb y x) eqn:Eyx.
  - inversion Hy; subst. eexists. repeat split; [simpl; lia|]. apply set_same.
  - destruct (HR y vy Hy) as (q & Hs & Hi & Hf). exists q. repeat split; auto; [lia|].
    rewrite set_other; [rewrite A; auto|]. intro E; subst q. simpl in Hi. lia.
Qed.

(** the invariant of C01/Sim.v strengthened with: every Python name in the symbol table was
    generated below the current counter *)
Definition R2 (rho : env) (sg : senv) (F : frame) (n : N) : Prop :=
  R rho sg F n /\ (forall x p, sg x = Some p -> idx p < n).

Lemma R2_mono rho sg F F' n m : R2 rho sg F n -> n <= m -> agree_below n F F' -> R2 rho sg F' m.
Proof.
  intros [HR HB] L A. split; [eapply R_mono; eauto|]. intros x p Hx. specialize (HB x p Hx). lia.
Qed.

Lemma R2_let rho sg F n x v p n1 F1 :
  R2 rho sg F n -> n <= n1 -> agree_below n F F1 -> p = NLocal x n1 ->
  R2 (upd rho x v) (upd sg x p) (set F1 p v) (n1 + 1).
Proof.
  intros [HR HB] L A ->. split; [eapply R_let; eauto|].
  intros y q Hy. unfold upd in Hy. destruct (N.eqb y x).
  - inversion Hy; subst. simpl. lia.
  - specialize (HB y q Hy). lia.
Qed.

Lemma R2_rebind xs names vs rho sg F n rho2 F2 :
  R2 rho sg F n ->
  Forall2 (fun x p => sg x = Some p /\ idx p < n) xs names ->
  NoDup names ->
  (forall y q, ~ In y xs -> sg y = Some q -> ~ In q names) ->
  rebind xs vs rho = Some rho2 -> set_all F names vs = Some F2 ->
  R2 rho2 sg F2 n.
Proof. intros [HR HB] HF ND Hout Hr Hs. split; [eapply R_rebind; eauto|exact HB]. Qed.

(** ---- the simulation statement ---- *)
Definition lsim (fuel : nat) : Prop :=
  forall e sg lp n rho F o tr d pe n',
    R2 rho sg F n -> leval fuel rho e = Some (o, tr) -> lgen sg lp n e = (d, pe, n', true) ->
    n <= n' /\
    match o with
    | OVal v =>
        exists m F' t1 t2,
          lexec m F d = Some (Normal, F', t1) /\ peval F' pe = Some (v, t2) /\ tr = t1 ++ t2 /\
          agree_below n F F' /\ nb n' pe = true /\ (lquiet d = true -> t1 = [])
    | ORec vs =>
        length vs = length lp ->
        exists m F' F'', lexec m F d = Some (Cont, F'', tr) /\ agree_below n F F' /\ set_all F' lp vs = Some F''
    end.

Definition lsim_list (fuel : nat) : Prop :=
  forall l sg lp n rho F vs tr ds es n',
    R2 rho sg F n -> evals (leval fuel) rho l = Some (vs, tr) -> lgen_list sg lp n l = (ds, es, n', true) ->
    exists m F' t1 t2,
      lexec m F ds = Some (Normal, F', t1) /\ peval_list F' es = Some (vs, t2) /\ tr = t1 ++ t2 /\
      n <= n' /\ agree_below n F F' /\ forallb (nb n') es = true /\ (lquiet ds = true -> t1 = []).

Lemma lsim_list_of fuel : lsim fuel -> lsim_list fuel.
Proof.
  intros HS l. induction l as [|a r IH]; intros sg lp n rho F vs tr ds es n' HR He Hg.
  - simpl in He. inversion He; subst. cbv in Hg. inversion Hg; subst.
    exists 1%nat, F, [], []. repeat split; auto using agree_refl; lia.
  - simpl in He.
    destruct (leval fuel rho a) as [[[va|?] ta]|] eqn:Ea; try discriminate.
    destruct (evals (leval fuel) rho r) as [[vr trr]|] eqn:Er; [|discriminate].
    inversion He; subst; clear He.
    rewrite lgen_list_cons in Hg.
    destruct (lgen sg lp n a) as [[[d e] n1] k1] eqn:Ga.
    destruct (lgen_list sg lp n1 r) as [[[ds' es'] n2] k2] eqn:Gr.
    cbv beta iota in Hg. injection Hg as Hg1 Hg2 Hg3 Hk. subst.
    apply andb_true_iff in Hk as [Hk Hhz]. apply andb_true_iff in Hk as [Hk1 Hk2]. subst.
    destruct (HS a sg lp n rho F (OVal va) ta d e n1 HR Ea Ga) as (L1 & m1 & F1 & ta1 & ta2 & X1 & P1 & T1 & A1 & N1 & Q1).
    assert (HR1 : R2 rho sg F1 n1) by (eapply R2_mono; eauto).
    destruct (IH sg lp n1 rho F1 vr trr ds' es' n' HR1 Er Gr)
      as (m2 & F2 & ts1 & ts2 & X2 & P2 & T2 & L2 & A2 & N2 & Q2).
    exists (Nat.max m1 m2), F2, (ta1 ++ ts1), (ta2 ++ ts2).
    split; [eapply lexec_seq; eauto|].
    split; [simpl; rewrite (peval_agree n1 F1 F2 e N1 A2), P1, P2; reflexivity|].
    split.
    { subst. apply orb_true_iff in Hhz as [Hat|Hq].
      - rewrite (atomic_no_trace _ _ _ _ Hat P1). rewrite !app_nil_r, ?app_nil_l. apply app_assoc.
      - rewrite (Q2 Hq). rewrite !app_nil_r, ?app_nil_l. rewrite app_assoc. reflexivity. }
    split; [lia|].
    split; [eapply agree_trans; eauto|].
    split; [simpl; rewrite (nb_mono n1 n' e L2 N1); exact N2|].
    intro Hq. rewrite lquiet_app in Hq. apply andb_true_iff in Hq as [Hq1 Hq2].
    rewrite (Q1 Hq1), (Q2 Hq2). reflexivity.
Qed.

(** loop bindings *)
Definition lsim_binds (fuel : nat) : Prop :=
  forall l sg lp n rho F rho1 tr dbs names sg1 n1,
    R2 rho sg F n -> evbinds (leval fuel) rho l = Some (rho1, tr) ->
    lgen_binds sg lp n l = (dbs, names, sg1, n1, true) -> NoDup (map fst l) ->
    exists m F1,
      lexec m F dbs = Some (Normal, F1, tr) /\ R2 rho1 sg1 F1 n1 /\ agree_below n F F1 /\ n <= n1 /\
      Forall2 (fun x p => sg1 x = Some p /\ idx p < n1) (map fst l) names /\
      Forall (fun p => n <= idx p) names /\ NoDup names /\
      (forall y, ~ In y (map fst l) -> sg1 y = sg y).


Lemma lsim_binds_of fuel : lsim fuel -> lsim_binds fuel.
Proof.
  intros HS l. induction l as [|[x i] r IH]; intros sg lp n rho F rho1 tr dbs names sg1 n1 HR He Hg ND.
  - simpl in He. inversion He; subst. cbv in Hg. inversion Hg; subst.
    exists 1%nat, F. split; [reflexivity|]. split; [exact HR|]. repeat split; auto using agree_refl; try lia; constructor.
  - simpl in He.
    destruct (leval fuel rho i) as [[[v|?] t1]|] eqn:Ei; try discriminate.
    destruct (evbinds (leval fuel) (upd rho x v) r) as [[rho' t2]|] eqn:Er; [|discriminate].
    inversion He; subst; clear He.
    rewrite lgen_binds_cons in Hg.
    destruct (lgen sg lp n i) as [[[di ei] n1'] k1] eqn:Gi.
    cbv zeta in Hg.
    destruct (lgen_binds (upd sg x (NLocal x n1')) lp (n1' + 1) r) as [[[[ds ps] sg2] n2] k2] eqn:Gr.
    cbv beta iota in Hg. injection Hg as Hg1 Hg2 Hg3 Hg4 Hk. subst.
    apply andb_true_iff in Hk as [Hk1 Hk2]. subst.
    simpl in ND. inversion ND as [|? ? Hnin ND']; subst.
    destruct (HS i sg lp n rho F (OVal v) t1 di ei n1' HR Ei Gi)
      as (L1 & m1 & F1 & ti1 & ti2 & X1 & P1 & T1 & A1 & N1 & Q1).
    set (p := NLocal x n1') in *.
    assert (HR1 : R2 (upd rho x v) (upd sg x p) (set F1 p v) (n1' + 1)) by (eapply R2_let; eauto).
    destruct (IH (upd sg x p) lp (n1' + 1) (upd rho x v) (set F1 p v) rho1 t2 ds ps sg1 n1 HR1 Er Gr ND')
      as (m2 & F2 & X2 & HR2 & A2 & L2 & FA & FN & NDp & Hout).
    exists (Nat.max m1 (Nat.max 1 m2)), F2.
    split.
    { assert (Xa : lexec 1 F1 [LAssign p ei] = Some (Normal, set F1 p v, ti2)).
      { rewrite lexec_cons, (lexec1_S_assign 0 F1 p ei v ti2 P1), lexec_nil, app_nil_r. reflexivity. }
      pose proof (lexec_seq 1 m2 F1 [LAssign p ei] ds _ _ _ _ _ Xa X2) as X3.
      pose proof (lexec_seq m1 (Nat.max 1 m2) F di ([LAssign p ei] ++ ds) _ _ _ _ _ X1 X3) as X4.
      rewrite T1, <- app_assoc. exact X4. }
    split; [exact HR2|].
    split.
    { apply (agree_trans n n F F1 F2); [apply N.le_refl|exact A1|].
      apply (agree_trans n n F1 (set F1 p v) F2); [apply N.le_refl|apply agree_set; unfold p; simpl; lia|].
      apply (agree_weaken n (n1' + 1)); [lia|exact A2]. }
    split; [lia|].
    split.
    { constructor; [|exact FA]. split; [|unfold p; simpl; lia].
      rewrite Hout by exact Hnin. unfold upd. rewrite N.eqb_refl. reflexivity. }
    split.
    { constructor; [unfold p; simpl; lia|]. eapply Forall_impl; [|exact FN]. intros q Hq. cbv beta in *. lia. }
    split.
    { constructor; [|exact NDp]. intro Hin. rewrite Forall_forall in FN. specialize (FN _ Hin). unfold p in FN. simpl in FN. lia. }
    intros y Hy. rewrite Hout by (intro X; apply Hy; right; exact X).
    unfold upd. destruct (N.eqb y x) eqn:E; [|reflexivity].
    apply N.eqb_eq in E. subst. exfalso. apply Hy. left; reflexivity.
Qed.

Lemma nodupb_NoDup l : nodupb l = true -> NoDup l.
Proof.
  induction l as [|x r IH]; simpl; intro H; [constructor|].
  apply andb_true_iff in H as [H1 H2]. constructor; [|apply IH; exact H2].
  intro Hin. apply negb_true_iff in H1.
  assert (E : existsb (N.eqb x) r = true) by (apply existsb_exists; exists x; split; [exact Hin|apply N.eqb_refl]).
  congruence.
Qed.

Lemma rebind_length xs vs rho rho' : rebind xs vs rho = Some rho' -> length xs = length vs.
Proof.
  revert vs rho. induction xs as [|x r IH]; intros [|v vs] rho H; simpl in *; try discriminate; auto.
  f_equal. eapply IH; eauto.
Qed.

Lemma Forall2_length {A B} (P : A -> B -> Prop) l1 l2 : Forall2 P l1 l2 -> length l1 = length l2.
Proof. induction 1; simpl; auto. Qed.

(** one loop: every iteration of the source loop is one iteration of `while True` *)
Lemma loop_sim fuel0 : (forall k, (k < fuel0)%nat -> lsim k) ->
  forall k, (k <= fuel0)%nat ->
  forall xs rho1 body v t sg1 names n1 F1 db eb n2 res,
    lloop k xs rho1 body = Some (v, t) ->
    R2 rho1 sg1 F1 n1 -> lgen sg1 names n1 body = (db, eb, n2, true) ->
    Forall2 (fun x p => sg1 x = Some p /\ idx p < n1) xs names -> NoDup names ->
    (forall y q, ~ In y xs -> sg1 y = Some q -> ~ In q names) ->
    Forall (fun p => idx res < idx p) names -> idx res < n1 ->
    exists m F2, lwhile m F1 (db ++ [LAssign res eb; LBreak]) = Some (Normal, F2, t) /\
                 F2 res = Some v /\ agree_below (idx res) F1 F2.
Proof.
  intros HS. induction k as [|k IHk]; intros Hk xs rho1 body v t sg1 names n1 F1 db eb n2 res
                                        Hl HR Hg HF ND Hout Hres Hres2; [discriminate|].
  cbn [lloop] in Hl.
  destruct (leval k rho1 body) as [[[vb|vs] t1]|] eqn:Eb; try discriminate.
  - (* the body returns a value: assign the result and break *)
    inversion Hl; subst; clear Hl.
    destruct (HS k ltac:(lia) body sg1 names n1 rho1 F1 (OVal v) t db eb n2 HR Eb Hg)
      as (L1 & m & F' & tb1 & tb2 & X & P & T & A & Nb & Q).
    exists (S (Nat.max m 1)), (set F' res v).
    split.
    { cbn [lwhile].
      assert (Xr : lexec 1 F' [LAssign res eb; LBreak] = Some (Brk, set F' res v, tb2)).
      { rewrite lexec_cons, (lexec1_S_assign 0 F' res eb v tb2 P), lexec_cons. cbn [lexec1].
        rewrite app_nil_r. reflexivity. }
      pose proof (lexec_seq m 1 F1 db _ _ _ _ _ _ X Xr) as X2. unfold lexec in X2. rewrite X2, T. reflexivity. }
    split; [apply set_same|].
    apply (agree_trans (idx res) (idx res) F1 F' (set F' res v)); [apply N.le_refl| |apply agree_set; apply N.le_refl].
    apply (agree_weaken (idx res) n1); [lia|exact A].
  - (* recur: rebind all loop locals, next iteration *)
    destruct (rebind xs vs rho1) as [rho2|] eqn:Er; [|discriminate].
    destruct (lloop k xs rho2 body) as [[v2 t2]|] eqn:El; [|discriminate].
    inversion Hl; subst; clear Hl.
    assert (Hlen : length vs = length names).
    { rewrite <- (rebind_length _ _ _ _ Er). apply (Forall2_length _ _ _ HF). }
    destruct (HS k ltac:(lia) body sg1 names n1 rho1 F1 (ORec vs) t1 db eb n2 HR Eb Hg) as (L1 & Hrec).
    destruct (Hrec Hlen) as (m & F' & F'' & X & A & Sa).
    assert (HR' : R2 rho1 sg1 F' n1) by (eapply R2_mono; [exact HR|apply N.le_refl|exact A]).
    assert (HR2 : R2 rho2 sg1 F'' n1) by (eapply R2_rebind; eauto).
    destruct (IHk ltac:(lia) xs rho2 body v t2 sg1 names n1 F'' db eb n2 res El HR2 Hg HF ND Hout Hres Hres2)
      as (m2 & F2 & W & Fr & A2).
    exists (S (Nat.max m m2)), F2.
    split.
    { cbn [lwhile].
      assert (X' : lexec (Nat.max m m2) F1 (db ++ [LAssign res eb; LBreak]) = Some (Cont, F'', t1)).
      { apply lexec_stop; [discriminate|]. eapply lexec_mono; [apply Nat.le_max_l|exact X]. }
      unfold lexec in X'. rewrite X'.
      rewrite (lwhile_mono m2 (Nat.max m m2) _ _ _ (Nat.le_max_r _ _) W). reflexivity. }
    split; [exact Fr|].
    apply (agree_trans (idx res) (idx res) F1 F'' F2); [apply N.le_refl| |exact A2].
    intros q Hq. rewrite (set_all_other _ _ _ _ q Sa).
    + apply A. lia.
    + intro Hin. rewrite Forall_forall in Hres. specialize (Hres _ Hin). lia.
Qed.

Lemma lquiet_while a b body : lquiet (a ++ b ++ [LWhile body]) = false.
Proof.
  rewrite !lquiet_app, lquiet_cons. cbn [lquiet1]. rewrite andb_false_r, andb_false_r. reflexivity.
Qed.

Lemma lquiet_has_while l body : In (LWhile body) l -> lquiet l = false.
Proof.
  induction l as [|s r IH]; intros H; [destruct H|].
  rewrite lquiet_cons. destruct H as [->|H]; [reflexivity|]. rewrite (IH H). apply andb_false_r.
Qed.

Lemma lquiet_if_parts dc test ec fb tb :
  lquiet (dc ++ [LAssign test ec; LSIf test fb tb]) = true ->
  lquiet dc = true /\ atomic ec = true /\ lquiet fb = true /\ lquiet tb = true.
Proof.
  rewrite lquiet_app, !lquiet_cons. cbn [lquiet1].
  change (lquiet_with lquiet1 fb) with (lquiet fb). change (lquiet_with lquiet1 tb) with (lquiet tb).
  intro H. repeat (apply andb_true_iff in H as [H ?]).
  repeat match goal with X : _ && _ = true |- _ => apply andb_true_iff in X as [? ?] end.
  auto.
Qed.

Lemma lquiet_snoc_assign d p e : lquiet (d ++ [LAssign p e]) = true -> lquiet d = true /\ atomic e = true.
Proof.
  rewrite lquiet_app, lquiet_cons. cbn [lquiet1]. intro H.
  apply andb_true_iff in H as [H1 H2]. apply andb_true_iff in H2 as [H2 _]. auto.
Qed.

Lemma lquiet_recur a x : lquiet (a ++ [x; LContinue]) = false.
Proof.
  rewrite lquiet_app, !lquiet_cons. cbn [lquiet1]. rewrite !andb_false_r. reflexivity.
Qed.

Section LexprInd.
  Variable P : lexpr -> Prop.
  Hypothesis HConst : forall v, P (LConst v).
  Hypothesis HLocal : forall x, P (LLocal x).
  Hypothesis HIf : forall c t e, P c -> P t -> P e -> P (LIf c t e).
  Hypothesis HDo : forall s r, P s -> P r -> P (LDo s r).
  Hypothesis HLet : forall x i b, P i -> P b -> P (LLet x i b).
  Hypothesis HCall : forall f args, Forall P args -> P (LCall f args).
  Hypothesis HLoop : forall binds body, Forall (fun xb => P (snd xb)) binds -> P body -> P (LLoop binds body).
  Hypothesis HRecur : forall args, Forall P args -> P (LRecur args).
  Fixpoint lexpr_ind' (e : lexpr) : P e :=
    match e with
    | LConst v => HConst v
    | LLocal x => HLocal x
    | LIf c t e => HIf c t e (lexpr_ind' c) (lexpr_ind' t) (lexpr_ind' e)
    | LDo s r => HDo s r (lexpr_ind' s) (lexpr_ind' r)
    | LLet x i b => HLet x i b (lexpr_ind' i) (lexpr_ind' b)
    | LCall f args =>
        HCall f args ((fix go (l : list lexpr) : Forall P l :=
                         match l with [] => Forall_nil P | a :: r => Forall_cons a (lexpr_ind' a) (go r) end) args)
    | LLoop binds body =>
        HLoop binds body
          ((fix go (l : list (N * lexpr)) : Forall (fun xb => P (snd xb)) l :=
              match l with
              | [] => Forall_nil _
              | xb :: r => Forall_cons xb (lexpr_ind' (snd xb)) (go r)
              end) binds)
          (lexpr_ind' body)
    | LRecur args =>
        HRecur args ((fix go (l : list lexpr) : Forall P l :=
                        match l with [] => Forall_nil P | a :: r => Forall_cons a (lexpr_ind' a) (go r) end) args)
    end.
End LexprInd.

Lemma lgen_mono : forall e sg lp n d pe n' k, lgen sg lp n e = (d, pe, n', k) -> n <= n'.
Proof.
  assert (LL : forall args, Forall (fun e => forall sg lp n d pe n' k, lgen sg lp n e = (d, pe, n', k) -> n <= n') args ->
               forall sg lp n ds es n' k, lgen_list sg lp n args = (ds, es, n', k) -> n <= n').
  { induction args as [|a r IHr]; intros HF sg lp n ds es n' k G.
    - cbv in G. inversion G; lia.
    - rewrite lgen_list_cons in G.
      destruct (lgen sg lp n a) as [[[? ?] b1] ?] eqn:Ga.
      destruct (lgen_list sg lp b1 r) as [[[? ?] b2] ?] eqn:Gr.
      cbv beta iota in G. inversion G; subst. inversion HF as [|? ? Pa Pr]; subst.
      apply Pa in Ga. apply (IHr Pr) in Gr. lia. }
  induction e as [c|x|c t e IHc IHt IHe|s r IHs IHr|x i b IHi IHb|f args IHargs|binds body IHbinds IHbody|args IHargs]
    using lexpr_ind'; intros sg lp n d pe n' k G; cbn [lgen] in G.
  - inversion G; lia.
  - inversion G; lia.
  - destruct (lgen sg lp n c) as [[[? ?] a1] ?] eqn:G1.
    destruct (lgen sg lp (a1 + 2) t) as [[[? ?] a2] ?] eqn:G2.
    destruct (lgen sg lp a2 e) as [[[? ?] a3] ?] eqn:G3. cbv beta iota zeta in G. inversion G; subst.
    apply IHc in G1. apply IHt in G2. apply IHe in G3. lia.
  - destruct (lgen sg lp n s) as [[[? ?] a1] ?] eqn:G1.
    destruct (lgen sg lp a1 r) as [[[? ?] a2] ?] eqn:G2. cbv beta iota in G. inversion G; subst.
    apply IHs in G1. apply IHr in G2. lia.
  - destruct (lgen sg lp n i) as [[[? ?] a1] ?] eqn:G1. cbv zeta in G.
    destruct (lgen (upd sg x (NLocal x a1)) lp (a1 + 1) b) as [[[? ?] a2] ?] eqn:G2. cbv beta iota in G. inversion G; subst.
    apply IHi in G1. apply IHb in G2. lia.
  - change (lgen_args (fun n a => lgen sg lp n a) args n) with (lgen_list sg lp n args) in G.
    destruct (lgen_list sg lp n args) as [[[ds es] a1] ka] eqn:G1. cbv beta iota in G. inversion G; subst.
    eapply LL; eauto.
  - change (lgen_binds_with (fun sg n i => lgen sg lp n i) binds sg (n + 1)) with (lgen_binds sg lp (n + 1) binds) in G.
    cbv zeta in G.
    destruct (lgen_binds sg lp (n + 1) binds) as [[[[dbs names] sg1] n1] k1] eqn:Gb.
    destruct (lgen sg1 names n1 body) as [[[db eb] n2] k2] eqn:Gbody. cbv beta iota in G. inversion G; subst.
    apply IHbody in Gbody.
    assert (n + 1 <= n1).
    { clear - Gb IHbinds. revert sg dbs names sg1 n1 k1 Gb. generalize (n + 1).
      induction binds as [|[x i] r IHr]; intros m sg dbs names sg1 n1 k1 Gb.
      - cbv in Gb. inversion Gb; lia.
      - rewrite lgen_binds_cons in Gb.
        destruct (lgen sg lp m i) as [[[? ?] b1] ?] eqn:Gi. cbv zeta in Gb.
        destruct (lgen_binds (upd sg x (NLocal x b1)) lp (b1 + 1) r) as [[[[? ?] ?] b2] ?] eqn:Gr.
        cbv beta iota in Gb. inversion Gb; subst.
        inversion IHbinds as [|? ? Pi Pr]; subst. simpl in Pi. apply Pi in Gi. apply (IHr Pr) in Gr. lia. }
    lia.
  - change (lgen_args (fun n a => lgen sg lp n a) args n) with (lgen_list sg lp n args) in G.
    destruct (lgen_list sg lp n args) as [[[ds es] a1] ka] eqn:G1. cbv beta iota in G. inversion G; subst.
    eapply LL; eauto.
Qed.

Theorem lsim_all : forall fuel, lsim fuel.
Proof.
  induction fuel as [fuel IH] using lt_wf_ind.
  destruct fuel as [|fuel]; [intros e sg lp n rho F o tr d pe n' HR He; discriminate|].
  assert (HS : lsim fuel) by (apply IH; lia).
  pose proof (lsim_list_of fuel HS) as HL.
  pose proof (lsim_binds_of fuel HS) as HB.
  intros e sg lp n rho F o tr d pe n' HR He Hg.
  destruct e as [c|x|c t e|s r|x i b|f args|binds body|args]; cbn [leval] in He.
  - (* const *)
    inversion He; subst. cbn [lgen] in Hg. inversion Hg; subst.
    split; [lia|]. exists 1%nat, F, [], []. simpl. repeat split; auto using agree_refl.
  - (* local *)
    destruct (rho x) as [vx|] eqn:Ex; [|discriminate]. inversion He; subst; clear He.
    cbn [lgen] in Hg. inversion Hg; subst; clear Hg.
    destruct (proj1 HR x vx Ex) as (p & Hs & Hi & Hf). rewrite Hs.
    split; [lia|]. exists 1%nat, F, [], []. simpl. rewrite Hf. repeat split; auto using agree_refl.
    apply N.ltb_lt. exact Hi.
  - (* if *)
    destruct (leval fuel rho c) as [[[vc|?] tc]|] eqn:Ec; try discriminate.
    cbn [lgen] in Hg.
    destruct (lgen sg lp n c) as [[[dc ec] n1] k1] eqn:Gc.
    destruct (lgen sg lp (n1 + 2) t) as [[[dt et] n2] k2] eqn:Gt.
    destruct (lgen sg lp n2 e) as [[[de ee] n3] k3] eqn:Ge.
    cbv beta iota zeta in Hg. injection Hg as Hg1 Hg2 Hg3 Hk. subst.
    apply andb_true_iff in Hk as [Hk Hk3]. apply andb_true_iff in Hk as [Hk1 Hk2]. subst.
    destruct (HS c sg lp n rho F (OVal vc) tc dc ec n1 HR Ec Gc)
      as (L1 & m1 & F1 & tc1 & tc2 & X1 & P1 & T1 & A1 & N1 & Q1).
    set (test := NTemp n1) in *. set (res := NTemp (n1 + 1)) in *.
    set (F1' := set F1 test vc).
    assert (A1' : agree_below n F F1').
    { apply (agree_trans n n F F1 F1'); [apply N.le_refl|exact A1|]. apply agree_set. unfold test. simpl. lia. }
    assert (Xt : lexec (Nat.max m1 1) F (dc ++ [LAssign test ec]) = Some (Normal, F1', tc1 ++ tc2)).
    { eapply lexec_seq; [exact X1|].
      rewrite lexec_cons, (lexec1_S_assign 0 F1 test ec vc tc2 P1), lexec_nil, app_nil_r. reflexivity. }
    (* monotonicity of the counter through both branches: from the branch that runs, and
       syntactically (gen is monotone) for the other one -- obtained from the simulation
       itself is impossible for the untaken branch, so prove it separately below *)
    assert (Lt : n1 + 2 <= n2 /\ n2 <= n').
    { split; [eapply (lgen_mono t)|eapply (lgen_mono e)]; eauto. }
    destruct Lt as [Lt Le].
    destruct (falsey vc) eqn:Fv.
    + (* falsey: e *)
      destruct (leval fuel rho e) as [[oe te]|] eqn:Ee; [|discriminate]. inversion He; subst; clear He.
      assert (HRe : R2 rho sg F1' n2) by (eapply R2_mono; [exact HR|lia|exact A1']).
      destruct (HS e sg lp n2 rho F1' o te de ee n' HRe Ee Ge) as (L3 & Hrest).
      split; [lia|].
      destruct o as [v|vs].
      * destruct Hrest as (m2 & F2 & te1 & te2 & X2 & P2 & T2 & A2 & N2 & Q2).
        exists (Nat.max (Nat.max m1 1) (S (Nat.max m2 1))), (set F2 res v), (tc1 ++ tc2 ++ te1 ++ te2), [].
        split.
        { assert (Xb : lexec (Nat.max m2 1) F1' (de ++ [LAssign res ee]) = Some (Normal, set F2 res v, te1 ++ te2)).
          { eapply lexec_seq; [exact X2|].
            rewrite lexec_cons, (lexec1_S_assign 0 F2 res ee v te2 P2), lexec_nil, app_nil_r. reflexivity. }
          assert (Xi : lexec (S (Nat.max m2 1)) F1' [LSIf test (de ++ [LAssign res ee]) (dt ++ [LAssign res et])]
                       = Some (Normal, set F2 res v, te1 ++ te2)).
          { rewrite lexec_cons, (lexec1_S_if _ F1' test _ _ vc) by (unfold F1'; apply set_same).
            rewrite Fv, Xb, lexec_nil, app_nil_r. reflexivity. }
          pose proof (lexec_seq _ _ F (dc ++ [LAssign test ec]) _ _ _ _ _ _ Xt Xi) as X3.
          rewrite <- app_assoc in X3. cbn [app] in X3. rewrite <- !app_assoc in X3. exact X3. }
        split; [simpl; rewrite set_same; reflexivity|].
        split; [subst; rewrite ?app_nil_r, <- ?app_assoc; reflexivity|].
        split.
        { apply (agree_trans n n F F1' (set F2 res v)); [apply N.le_refl|exact A1'|].
          apply (agree_trans n n F1' F2 (set F2 res v)); [apply N.le_refl|apply (agree_weaken n n2); [lia|exact A2]|].
          apply agree_set. unfold res. simpl. lia. }
        split; [simpl; apply N.ltb_lt; unfold res; simpl; lia|].
        intro Hq. apply lquiet_if_parts in Hq as (Hq1 & Hq2 & Hq3 & Hq4).
        apply lquiet_snoc_assign in Hq3 as (Hq3 & Hq5).
        rewrite (Q1 Hq1), (atomic_no_trace _ _ _ _ Hq2 P1), (atomic_no_trace _ _ _ _ Hq5 P2), (Q2 Hq3). reflexivity.
      * intro Hlen. destruct (Hrest Hlen) as (m2 & F2 & F2' & X2 & A2 & Sa).
        exists (Nat.max (Nat.max m1 1) (S m2)), F2, F2'.
        split.
        { assert (Xb : lexec m2 F1' (de ++ [LAssign res ee]) = Some (Cont, F2', te)).
          { apply lexec_stop; [discriminate|exact X2]. }
          assert (Xi : lexec (S m2) F1' [LSIf test (de ++ [LAssign res ee]) (dt ++ [LAssign res et])]
                       = Some (Cont, F2', te)).
          { rewrite lexec_cons, (lexec1_S_if _ F1' test _ _ vc) by (unfold F1'; apply set_same).
            rewrite Fv, Xb. reflexivity. }
          pose proof (lexec_seq _ _ F (dc ++ [LAssign test ec]) _ _ _ _ _ _ Xt Xi) as X3.
          rewrite <- app_assoc in X3. cbn [app] in X3. rewrite <- ?app_assoc. rewrite <- ?app_assoc in X3. exact X3. }
        split; [|exact Sa].
        apply (agree_trans n n F F1' F2); [apply N.le_refl|exact A1'|apply (agree_weaken n n2); [lia|exact A2]].
    + (* truthy: t *)
      destruct (leval fuel rho t) as [[ot tt]|] eqn:Et; [|discriminate]. inversion He; subst; clear He.
      assert (HRt : R2 rho sg F1' (n1 + 2)) by (eapply R2_mono; [exact HR|lia|exact A1']).
      destruct (HS t sg lp (n1 + 2) rho F1' o tt dt et n2 HRt Et Gt) as (L3 & Hrest).
      split; [lia|].
      destruct o as [v|vs].
      * destruct Hrest as (m2 & F2 & tt1 & tt2 & X2 & P2 & T2 & A2 & N2 & Q2).
        exists (Nat.max (Nat.max m1 1) (S (Nat.max m2 1))), (set F2 res v), (tc1 ++ tc2 ++ tt1 ++ tt2), [].
        split.
        { assert (Xb : lexec (Nat.max m2 1) F1' (dt ++ [LAssign res et]) = Some (Normal, set F2 res v, tt1 ++ tt2)).
          { eapply lexec_seq; [exact X2|].
            rewrite lexec_cons, (lexec1_S_assign 0 F2 res et v tt2 P2), lexec_nil, app_nil_r. reflexivity. }
          assert (Xi : lexec (S (Nat.max m2 1)) F1' [LSIf test (de ++ [LAssign res ee]) (dt ++ [LAssign res et])]
                       = Some (Normal, set F2 res v, tt1 ++ tt2)).
          { rewrite lexec_cons, (lexec1_S_if _ F1' test _ _ vc) by (unfold F1'; apply set_same).
            rewrite Fv, Xb, lexec_nil, app_nil_r. reflexivity. }
          pose proof (lexec_seq _ _ F (dc ++ [LAssign test ec]) _ _ _ _ _ _ Xt Xi) as X3.
          rewrite <- app_assoc in X3. cbn [app] in X3. rewrite <- !app_assoc in X3. exact X3. }
        split; [simpl; rewrite set_same; reflexivity|].
        split; [subst; rewrite ?app_nil_r, <- ?app_assoc; reflexivity|].
        split.
        { apply (agree_trans n n F F1' (set F2 res v)); [apply N.le_refl|exact A1'|].
          apply (agree_trans n n F1' F2 (set F2 res v)); [apply N.le_refl|apply (agree_weaken n (n1 + 2)); [lia|exact A2]|].
          apply agree_set. unfold res. simpl. lia. }
        split; [simpl; apply N.ltb_lt; unfold res; simpl; lia|].
        intro Hq. apply lquiet_if_parts in Hq as (Hq1 & Hq2 & Hq3 & Hq4).
        apply lquiet_snoc_assign in Hq4 as (Hq4 & Hq5).
        rewrite (Q1 Hq1), (atomic_no_trace _ _ _ _ Hq2 P1), (atomic_no_trace _ _ _ _ Hq5 P2), (Q2 Hq4). reflexivity.
      * intro Hlen. destruct (Hrest Hlen) as (m2 & F2 & F2' & X2 & A2 & Sa).
        exists (Nat.max (Nat.max m1 1) (S m2)), F2, F2'.
        split.
        { assert (Xb : lexec m2 F1' (dt ++ [LAssign res et]) = Some (Cont, F2', tt)).
          { apply lexec_stop; [discriminate|exact X2]. }
          assert (Xi : lexec (S m2) F1' [LSIf test (de ++ [LAssign res ee]) (dt ++ [LAssign res et])]
                       = Some (Cont, F2', tt)).
          { rewrite lexec_cons, (lexec1_S_if _ F1' test _ _ vc) by (unfold F1'; apply set_same).
            rewrite Fv, Xb. reflexivity. }
          pose proof (lexec_seq _ _ F (dc ++ [LAssign test ec]) _ _ _ _ _ _ Xt Xi) as X3.
          rewrite <- app_assoc in X3. cbn [app] in X3. rewrite <- ?app_assoc. rewrite <- ?app_assoc in X3. exact X3. }
        split; [|exact Sa].
        apply (agree_trans n n F F1' F2); [apply N.le_refl|exact A1'|apply (agree_weaken n (n1 + 2)); [lia|exact A2]].
  - (* do *)
    destruct (leval fuel rho s) as [[[vs0|?] ts]|] eqn:Es; try discriminate.
    destruct (leval fuel rho r) as [[orr trr]|] eqn:Er; [|discriminate]. inversion He; subst; clear He.
    cbn [lgen] in Hg.
    destruct (lgen sg lp n s) as [[[ds es] n1] k1] eqn:Gs.
    destruct (lgen sg lp n1 r) as [[[dr er] n2] k2] eqn:Gr.
    cbv beta iota in Hg. injection Hg as Hg1 Hg2 Hg3 Hk. subst.
    apply andb_true_iff in Hk as [Hk1 Hk2]. subst.
    destruct (HS s sg lp n rho F (OVal vs0) ts ds es n1 HR Es Gs)
      as (L1 & m1 & F1 & ts1 & ts2 & X1 & P1 & T1 & A1 & N1 & Q1).
    assert (HR1 : R2 rho sg F1 n1) by (eapply R2_mono; eauto).
    destruct (HS r sg lp n1 rho F1 o trr dr pe n' HR1 Er Gr) as (L2 & Hrest).
    split; [lia|].
    assert (Xs : lexec (Nat.max m1 1) F (ds ++ [LExpr es]) = Some (Normal, F1, ts1 ++ ts2)).
    { eapply lexec_seq; [exact X1|].
      rewrite lexec_cons, (lexec1_S_expr 0 F1 es vs0 ts2 P1), lexec_nil, app_nil_r. reflexivity. }
    destruct o as [v|vs].
    + destruct Hrest as (m2 & F2 & tr1 & tr2 & X2 & P2 & T2 & A2 & N2 & Q2).
      exists (Nat.max (Nat.max m1 1) m2), F2, (ts1 ++ ts2 ++ tr1), tr2.
      split.
      { pose proof (lexec_seq _ _ F (ds ++ [LExpr es]) dr _ _ _ _ _ Xs X2) as X3.
        rewrite <- !app_assoc in X3. exact X3. }
      split; [exact P2|].
      split; [subst; rewrite <- ?app_assoc; reflexivity|].
      split; [eapply agree_trans; eauto|].
      split; [exact N2|].
      intro Hq. rewrite lquiet_app in Hq. cbn [app] in Hq. rewrite lquiet_cons in Hq. cbn [lquiet1] in Hq.
      apply andb_true_iff in Hq as [Hq1 Hq]. apply andb_true_iff in Hq as [Hqe Hq2].
      rewrite (Q1 Hq1), (atomic_no_trace _ _ _ _ Hqe P1), (Q2 Hq2). reflexivity.
    + intro Hlen. destruct (Hrest Hlen) as (m2 & F2 & F2' & X2 & A2 & Sa).
      exists (Nat.max (Nat.max m1 1) m2), F2, F2'.
      split.
      { pose proof (lexec_seq _ _ F (ds ++ [LExpr es]) dr _ _ _ _ _ Xs X2) as X3.
        rewrite <- !app_assoc in X3. subst. rewrite <- ?app_assoc. exact X3. }
      split; [eapply agree_trans; eauto|exact Sa].
  - (* let *)
    destruct (leval fuel rho i) as [[[vi|?] ti]|] eqn:Ei; try discriminate.
    destruct (leval fuel (upd rho x vi) b) as [[ob tb]|] eqn:Eb; [|discriminate]. inversion He; subst; clear He.
    cbn [lgen] in Hg.
    destruct (lgen sg lp n i) as [[[di ei] n1] k1] eqn:Gi. cbv zeta in Hg.
    destruct (lgen (upd sg x (NLocal x n1)) lp (n1 + 1) b) as [[[db eb] n2] k2] eqn:Gb.
    cbv beta iota in Hg. injection Hg as Hg1 Hg2 Hg3 Hk. subst.
    apply andb_true_iff in Hk as [Hk1 Hk2]. subst.
    destruct (HS i sg lp n rho F (OVal vi) ti di ei n1 HR Ei Gi)
      as (L1 & m1 & F1 & ti1 & ti2 & X1 & P1 & T1 & A1 & N1 & Q1).
    set (p := NLocal x n1) in *.
    assert (HR1 : R2 (upd rho x vi) (upd sg x p) (set F1 p vi) (n1 + 1)) by (eapply R2_let; eauto).
    destruct (HS b (upd sg x p) lp (n1 + 1) (upd rho x vi) (set F1 p vi) o tb db pe n' HR1 Eb Gb) as (L2 & Hrest).
    split; [lia|].
    assert (Xs : lexec (Nat.max m1 1) F (di ++ [LAssign p ei]) = Some (Normal, set F1 p vi, ti1 ++ ti2)).
    { eapply lexec_seq; [exact X1|].
      rewrite lexec_cons, (lexec1_S_assign 0 F1 p ei vi ti2 P1), lexec_nil, app_nil_r. reflexivity. }
    assert (Ap : agree_below n F (set F1 p vi)).
    { apply (agree_trans n n F F1 (set F1 p vi)); [apply N.le_refl|exact A1|]. apply agree_set. unfold p. simpl. lia. }
    destruct o as [v|vs].
    + destruct Hrest as (m2 & F2 & tb1 & tb2 & X2 & P2 & T2 & A2 & N2 & Q2).
      exists (Nat.max (Nat.max m1 1) m2), F2, (ti1 ++ ti2 ++ tb1), tb2.
      split.
      { pose proof (lexec_seq _ _ F (di ++ [LAssign p ei]) db _ _ _ _ _ Xs X2) as X3.
        rewrite <- !app_assoc in X3. exact X3. }
      split; [exact P2|].
      split; [subst; rewrite <- ?app_assoc; reflexivity|].
      split; [apply (agree_trans n n F (set F1 p vi) F2); [apply N.le_refl|exact Ap|apply (agree_weaken n (n1 + 1)); [lia|exact A2]]|].
      split; [exact N2|].
      intro Hq. rewrite lquiet_app in Hq. cbn [app] in Hq. rewrite lquiet_cons in Hq. cbn [lquiet1] in Hq.
      apply andb_true_iff in Hq as [Hq1 Hq]. apply andb_true_iff in Hq as [Hqe Hq2].
      rewrite (Q1 Hq1), (atomic_no_trace _ _ _ _ Hqe P1), (Q2 Hq2). reflexivity.
    + intro Hlen. destruct (Hrest Hlen) as (m2 & F2 & F2' & X2 & A2 & Sa).
      exists (Nat.max (Nat.max m1 1) m2), F2, F2'.
      split.
      { pose proof (lexec_seq _ _ F (di ++ [LAssign p ei]) db _ _ _ _ _ Xs X2) as X3.
        rewrite <- !app_assoc in X3. subst. rewrite <- ?app_assoc. exact X3. }
      split; [|exact Sa].
      apply (agree_trans n n F (set F1 p vi) F2); [apply N.le_refl|exact Ap|apply (agree_weaken n (n1 + 1)); [lia|exact A2]].
  - (* call *)
    destruct (evals (leval fuel) rho args) as [[vs ta]|] eqn:Ea; [|discriminate].
    destruct (apply_prim f vs) as [[vr tp]|] eqn:Ep; [|discriminate]. inversion He; subst; clear He.
    cbn [lgen] in Hg.
    change (lgen_args (fun n a => lgen sg lp n a) args n) with (lgen_list sg lp n args) in Hg.
    destruct (lgen_list sg lp n args) as [[[ds es] n1] k1] eqn:Gl.
    cbv beta iota in Hg. injection Hg as Hg1 Hg2 Hg3 Hk. subst.
    destruct (HL args sg lp n rho F vs ta d es n' HR Ea Gl)
      as (m & F1 & t1 & t2 & X1 & P1 & T1 & L1 & A1 & N1 & Q1).
    split; [exact L1|].
    exists m, F1, t1, (t2 ++ tp).
    split; [exact X1|].
    split; [rewrite peval_call, P1, Ep; reflexivity|].
    split; [subst; rewrite app_assoc; reflexivity|].
    split; [exact A1|]. split; [exact N1|exact Q1].
  - (* loop *)
    destruct (evbinds (leval fuel) rho binds) as [[rho1 t1]|] eqn:Ebd; [|discriminate].
    destruct (lloop fuel (map fst binds) rho1 body) as [[v t2]|] eqn:El; [|discriminate].
    inversion He; subst; clear He.
    rewrite lgen_loop in Hg. cbv zeta in Hg.
    destruct (lgen_binds sg lp (n + 1) binds) as [[[[dbs names] sg1] n1] k1] eqn:Gb.
    destruct (lgen sg1 names n1 body) as [[[db eb] n2] k2] eqn:Gbody.
    cbv beta iota in Hg. injection Hg as Hg1 Hg2 Hg3 Hk. subst.
    apply andb_true_iff in Hk as [Hk Hnd]. apply andb_true_iff in Hk as [Hk1 Hk2]. subst.
    apply nodupb_NoDup in Hnd.
    set (res := NTemp n) in *.
    set (F0 := set F res VNil).
    assert (A0 : agree_below n F F0) by (apply agree_set; unfold res; simpl; lia).
    assert (HR0 : R2 rho sg F0 (n + 1)) by (eapply R2_mono; [exact HR|lia|exact A0]).
    destruct (HB binds sg lp (n + 1) rho F0 rho1 t1 dbs names sg1 n1 HR0 Ebd Gb Hnd)
      as (m1 & F1 & X1 & HR1 & A1 & L1 & FA & FN & NDn & Hout).
    assert (Hout' : forall y q, ~ In y (map fst binds) -> sg1 y = Some q -> ~ In q names).
    { intros y q Hy Hq Hin. rewrite (Hout y Hy) in Hq.
      rewrite Forall_forall in FN. specialize (FN _ Hin).
      pose proof (proj2 HR0 y q Hq). lia. }
    assert (Hres : Forall (fun p => idx res < idx p) names).
    { eapply Forall_impl; [|exact FN]. intros q Hq. cbv beta in *. unfold res. simpl. lia. }
    assert (Hres2 : idx res < n1) by (unfold res; simpl; lia).
    destruct (loop_sim (S fuel) (fun k Hk => IH k Hk) fuel ltac:(lia) (map fst binds) rho1 body v t2 sg1 names n1 F1
                       db eb n' res El HR1 Gbody FA NDn Hout' Hres Hres2) as (m2 & F2 & W & Fr & A2).
    pose proof (lgen_mono body sg1 names n1 db eb n' true Gbody) as Lb.
    split; [lia|].
    exists (Nat.max 1 (Nat.max m1 (S m2))), F2, (t1 ++ t2), [].
    split.
    { assert (X0 : lexec 1 F [LAssign res (PConst VNil)] = Some (Normal, F0, [])).
      { rewrite lexec_cons. cbn [lexec1 peval]. rewrite lexec_nil. reflexivity. }
      assert (Xw : lexec (S m2) F1 [LWhile (db ++ [LAssign res eb; LBreak])] = Some (Normal, F2, t2)).
      { rewrite lexec_cons. cbn [lexec1]. rewrite W, lexec_nil, app_nil_r. reflexivity. }
      pose proof (lexec_seq _ _ F0 dbs _ _ _ _ _ _ X1 Xw) as X2.
      pose proof (lexec_seq _ _ F [LAssign res (PConst VNil)] _ _ _ _ _ _ X0 X2) as X3.
      exact X3. }
    split; [simpl; rewrite Fr; reflexivity|].
    split; [rewrite app_nil_r; reflexivity|].
    split.
    { apply (agree_trans n n F F0 F2); [apply N.le_refl|exact A0|].
      apply (agree_trans n n F0 F1 F2); [apply N.le_refl|apply (agree_weaken n (n + 1)); [lia|exact A1]|].
      exact A2. }
    split; [simpl; apply N.ltb_lt; unfold res; simpl; lia|].
    intro Hq. rewrite (lquiet_has_while _ (db ++ [LAssign res eb; LBreak])) in Hq; [discriminate|].
    right. apply in_or_app. right. left. reflexivity.
  - (* recur *)
    destruct (evals (leval fuel) rho args) as [[vs ta]|] eqn:Ea; [|discriminate]. inversion He; subst; clear He.
    cbn [lgen] in Hg.
    change (lgen_args (fun n a => lgen sg lp n a) args n) with (lgen_list sg lp n args) in Hg.
    destruct (lgen_list sg lp n args) as [[[ds es] n1] k1] eqn:Gl.
    cbv beta iota in Hg. injection Hg as Hg1 Hg2 Hg3 Hk. subst.
    destruct (HL args sg lp n rho F vs tr ds es n' HR Ea Gl)
      as (m & F1 & t1 & t2 & X1 & P1 & T1 & L1 & A1 & N1 & Q1).
    split; [exact L1|]. intro Hlen.
    destruct (set_all_total F1 lp vs (eq_sym Hlen)) as [F'' Sa].
    exists (Nat.max m 2), F1, F''.
    split; [|split; [exact A1|exact Sa]].
    assert (Xr : lexec 2 F1 [assign_all lp es; LContinue] = Some (Cont, F'', t2)).
    { rewrite lexec_cons, (exec_assign_all 1 F1 lp es vs t2 F'' P1 Sa), lexec_cons. cbn [lexec1].
      rewrite app_nil_r. reflexivity. }
    pose proof (lexec_seq _ _ F ds _ _ _ _ _ _ X1 Xr) as X2. rewrite T1. exact X2.
Qed.
