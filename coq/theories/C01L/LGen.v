(** Generator model for the loop extension (generator.py: _loop_to_py_ast,
    __loop_recur_to_py_ast on top of the first-order core of C01/Gen.v). *)
From Coq Require Import List ZArith NArith Bool.
Import ListNotations.
From Verif Require Import C01L.LLisp C01L.LPy.
From Verif Require C01.Gen.
Local Open Scope N_scope.

Definition senv := N -> option pname.
Definition atomic := Verif.C01.Gen.atomic.

Definition lquiet_with (q : lstmt -> bool) : list lstmt -> bool :=
  fix go (l : list lstmt) : bool := match l with [] => true | s :: r => q s && go r end.

(** statements whose execution has no effect but assignments of atoms (no call, no jump) *)
Fixpoint lquiet1 (s : lstmt) : bool :=
  match s with
  | LAssign _ e | LExpr e => atomic e
  | LSIf _ fb tb => lquiet_with lquiet1 fb && lquiet_with lquiet1 tb
  | _ => false
  end.
Definition lquiet := lquiet_with lquiet1.

Definition lout := (list lstmt * pexpr * N * bool)%type.

Definition lgen_args (g : N -> lexpr -> lout) : list lexpr -> N -> list lstmt * list pexpr * N * bool :=
  fix go (l : list lexpr) (n : N) :=
    match l with
    | [] => ([], [], n, true)
    | a :: r =>
        let '(d, e, n1, k1) := g n a in
        let '(ds, es, n2, k2) := go r n1 in
        (d ++ ds, e :: es, n2, k1 && k2 && (atomic e || lquiet ds))
    end.

Definition assign_all (names : list pname) (es : list pexpr) : lstmt :=
  match names, es with
  | [x], [e1] => LAssign x e1
  | _, _ => LAssignTuple names es
  end.

(** loop binders pairwise distinct (the guard of the theorem; `(loop* [x 1 x 2] ...)` is legal
    but outside it) *)
Fixpoint nodupb (l : list N) : bool :=
  match l with [] => true | x :: r => negb (existsb (N.eqb x) r) && nodupb r end.

Definition lgen_binds_with (g : senv -> N -> lexpr -> lout)
  : list (N * lexpr) -> senv -> N -> list lstmt * list pname * senv * N * bool :=
  fix go (l : list (N * lexpr)) (sg : senv) (n : N) :=
    match l with
    | [] => ([], [], sg, n, true)
    | (x, i) :: r =>
        let '(di, ei, n1, k1) := g sg n i in
        let p := NLocal x n1 in
        let '(ds, ps, sg2, n2, k2) := go r (upd sg x p) (n1 + 1) in
        (di ++ [LAssign p ei] ++ ds, p :: ps, sg2, n2, k1 && k2)
    end.

(** [lp] = Python names of the locals of the innermost enclosing loop (the recur point) *)
Fixpoint lgen (sg : senv) (lp : list pname) (n : N) (e : lexpr) : lout :=
  match e with
  | LConst v => ([], PConst v, n, true)
  | LLocal x => ([], PName (match sg x with Some p => p | None => NLocal x 0 end), n, true)
  | LIf c t e =>
      let '(dc, ec, n1, k1) := lgen sg lp n c in
      let test := NTemp n1 in
      let res := NTemp (n1 + 1) in
      let '(dt, et, n2, k2) := lgen sg lp (n1 + 2) t in
      let '(de, ee, n3, k3) := lgen sg lp n2 e in
      (dc ++ [LAssign test ec; LSIf test (de ++ [LAssign res ee]) (dt ++ [LAssign res et])],
       PName res, n3, k1 && k2 && k3)
  | LDo s r =>
      let '(ds, es, n1, k1) := lgen sg lp n s in
      let '(dr, er, n2, k2) := lgen sg lp n1 r in
      (ds ++ [LExpr es] ++ dr, er, n2, k1 && k2)
  | LLet x i b =>
      let '(di, ei, n1, k1) := lgen sg lp n i in
      let p := NLocal x n1 in
      let '(db, eb, n2, k2) := lgen (upd sg x p) lp (n1 + 1) b in
      (di ++ [LAssign p ei] ++ db, eb, n2, k1 && k2)
  | LCall f args =>
      let '(ds, es, n', k) := lgen_args (fun n a => lgen sg lp n a) args n in
      (ds, PCall f es, n', k)
  | LLoop binds body =>
      let res := NTemp n in
      let '(dbs, names, sg1, n1, k1) := lgen_binds_with (fun sg n i => lgen sg lp n i) binds sg (n + 1) in
      let '(db, eb, n2, k2) := lgen sg1 names n1 body in
      ([LAssign res (PConst VNil)] ++ dbs ++ [LWhile (db ++ [LAssign res eb; LBreak])], PName res, n2,
       k1 && k2 && nodupb (map fst binds))
  | LRecur args =>
      let '(ds, es, n', k) := lgen_args (fun n a => lgen sg lp n a) args n in
      (ds ++ [assign_all lp es; LContinue], PConst VNil, n', k)
  end.

Definition lgen_list (sg : senv) (lp : list pname) (n : N) (l : list lexpr) := lgen_args (lgen sg lp) l n.

Definition lgen_binds (sg : senv) (lp : list pname) (n : N) (l : list (N * lexpr)) :=
  lgen_binds_with (fun sg n i => lgen sg lp n i) l sg n.

Lemma lgen_binds_cons sg lp n x i r :
  lgen_binds sg lp n ((x, i) :: r) =
    let '(di, ei, n1, k1) := lgen sg lp n i in
    let p := NLocal x n1 in
    let '(ds, ps, sg2, n2, k2) := lgen_binds (upd sg x p) lp (n1 + 1) r in
    (di ++ [LAssign p ei] ++ ds, p :: ps, sg2, n2, k1 && k2).
Proof. reflexivity. Qed.

Lemma lgen_loop sg lp n binds body :
  lgen sg lp n (LLoop binds body) =
    let res := NTemp n in
    let '(dbs, names, sg1, n1, k1) := lgen_binds sg lp (n + 1) binds in
    let '(db, eb, n2, k2) := lgen sg1 names n1 body in
    ([LAssign res (PConst VNil)] ++ dbs ++ [LWhile (db ++ [LAssign res eb; LBreak])], PName res, n2,
     k1 && k2 && nodupb (map fst binds)).
Proof. reflexivity. Qed.

Lemma lgen_list_cons sg lp n a r :
  lgen_list sg lp n (a :: r) =
    let '(d, e, n1, k1) := lgen sg lp n a in
    let '(ds, es, n2, k2) := lgen_list sg lp n1 r in
    (d ++ ds, e :: es, n2, k1 && k2 && (atomic e || lquiet ds)).
Proof. reflexivity. Qed.

Definition hazard_free (e : lexpr) : bool :=
  let '(_, _, _, k) := lgen (fun _ => None) [] 0 e in k.

Definition lrun (fuel : nat) (e : lexpr) : option (value * trace) :=
  let '(d, pe, _, _) := lgen (fun _ => None) [] 0 e in
  match lexec fuel (fun _ => None) d with
  | Some (Normal, F, t1) => match peval F pe with Some (v, t2) => Some (v, t1 ++ t2) | None => None end
  | _ => None
  end.
