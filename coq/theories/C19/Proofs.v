(** C19 proofs: one file per codec. *)
From Verif Require Export C19.BencodeProofs C19.EdnProofs C19.JsonProofs.
