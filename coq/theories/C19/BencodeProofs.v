(** C19, bencode: proofs about the model in [Bencode.v]. *)
From Coq Require Import List NArith ZArith Bool Lia.
Import ListNotations.
From Verif Require Import Common.ListX Common.Sort C19.Bencode.
Local Open Scope N_scope.

(** * Lists *)
Lemma firstn_length_app {A} (l r : list A) : firstn (length l) (l ++ r) = l.
Proof. induction l; simpl; congruence. Qed.

Lemma skipn_length_app {A} (l r : list A) : skipn (length l) (l ++ r) = r.
Proof. induction l; simpl; congruence. Qed.

Lemma index_of_none c l : (forall x, In x l -> x <> c) -> index_of c l = None.
Proof.
  induction l as [|x t IH]; simpl; intro H; [reflexivity|].
  destruct (N.eqb_spec x c) as [E|_]; [exfalso; apply (H x); auto|].
  rewrite IH; auto.
Qed.

Lemma index_of_app c l r : (forall x, In x l -> x <> c) -> index_of c (l ++ c :: r) = Some (length l).
Proof.
  induction l as [|x t IH]; simpl; intro H.
  - rewrite N.eqb_refl. reflexivity.
  - destruct (N.eqb_spec x c) as [E|_]; [exfalso; apply (H x); auto|].
    rewrite IH; auto.
Qed.

(** * Decimal numerals: [py_int (dec_Z z) = Some z] *)
Definition uval_acc (acc : N) (l : bytes) : N := fold_left (fun a c => 10 * a + (c - 48)) l acc.

Lemma udigits_S f n :
  udigits (S f) n = if n <? 10 then [48 + n] else udigits f (n / 10) ++ [48 + n mod 10].
Proof. reflexivity. Qed.

Lemma udigits_spec f : forall n, n < 2 ^ N.of_nat f ->
  uval_acc 0 (udigits (S f) n) = n /\ forallb is_digit (udigits (S f) n) = true /\ udigits (S f) n <> [].
Proof.
  induction f as [|f IH]; intros n Hn.
  - change (N.of_nat 0) with 0 in Hn. rewrite N.pow_0_r in Hn. assert (n = 0) by lia. subst. simpl. repeat split; congruence.
  - rewrite (udigits_S (S f)). destruct (N.ltb_spec n 10) as [L|L].
    + repeat split; try congruence.
      * unfold uval_acc. cbn [fold_left]. lia.
      * cbn [forallb]. unfold is_digit. rewrite andb_true_r.
        apply andb_true_iff; split; apply N.leb_le; lia.
    + assert (Hd : n / 10 < 2 ^ N.of_nat f).
      { apply N.div_lt_upper_bound; [lia|].
        rewrite Nat2N.inj_succ, N.pow_succ_r' in Hn. lia. }
      destruct (IH _ Hd) as (V & D & NE).
      repeat split.
      * unfold uval_acc in *. rewrite fold_left_app. rewrite V. cbn [fold_left].
        assert (n = 10 * (n / 10) + n mod 10) by (apply N.div_mod; lia). generalize dependent (n / 10); generalize dependent (n mod 10); intros; lia.
      * rewrite forallb_app, D. cbn [forallb andb]. rewrite andb_true_r. unfold is_digit.
        assert (M : n mod 10 < 10) by (apply N.mod_lt; lia).
        generalize dependent (n mod 10); intros m M.
        apply andb_true_iff; split; apply N.leb_le; lia.
      * intro E. apply app_eq_nil in E. destruct E; discriminate.
Qed.

Lemma dec_N_spec n :
  uval_acc 0 (dec_N n) = n /\ forallb is_digit (dec_N n) = true /\ dec_N n <> [].
Proof.
  unfold dec_N. apply udigits_spec. rewrite N2Nat.id. apply N.size_gt.
Qed.

Lemma scan_digits_all l : forall acc, forallb is_digit l = true -> scan_digits 1 acc l = Some (uval_acc acc l).
Proof.
  induction l as [|c t IH]; intros acc H; simpl in *; [reflexivity|].
  apply andb_true_iff in H as [Hc Ht]. rewrite Hc. apply IH, Ht.
Qed.

Lemma scan_digits_start l : l <> [] -> forallb is_digit l = true -> scan_digits 0 0 l = Some (uval_acc 0 l).
Proof.
  destruct l as [|c t]; [congruence|]. intros _ H. simpl in *.
  apply andb_true_iff in H as [Hc Ht]. rewrite Hc. apply scan_digits_all, Ht.
Qed.

Lemma digit_range c : is_digit c = true -> 48 <= c <= 57.
Proof. unfold is_digit. intro H. apply andb_true_iff in H as [A B]. apply N.leb_le in A, B. lia. Qed.

Lemma digit_not_space c : is_digit c = true -> is_space c = false.
Proof.
  intro H. apply digit_range in H. unfold is_space.
  destruct (N.eqb_spec c 32); [lia|]. destruct (N.leb_spec 9 c), (N.leb_spec c 13); simpl; try reflexivity; lia.
Qed.

Lemma py_int_digits l : l <> [] -> forallb is_digit l = true -> py_int l = Some (Z.of_N (uval_acc 0 l)).
Proof.
  intros NE H. unfold py_int. destruct l as [|c t]; [congruence|].
  pose proof H as H0. simpl in H0. apply andb_true_iff in H0 as [Hc _].
  simpl drop_spaces. rewrite (digit_not_space _ Hc).
  apply digit_range in Hc.
  destruct (N.eqb_spec c 45); [lia|]. destruct (N.eqb_spec c 43); [lia|].
  rewrite scan_digits_start; auto.
Qed.

Lemma py_int_dec_N n : py_int (dec_N n) = Some (Z.of_N n).
Proof.
  destruct (dec_N_spec n) as (V & D & NE). rewrite py_int_digits; auto. rewrite V. reflexivity.
Qed.

Lemma py_int_dec_Z z : py_int (dec_Z z) = Some z.
Proof.
  unfold dec_Z. destruct (Z.ltb_spec z 0) as [L|L].
  - destruct (dec_N_spec (Z.abs_N z)) as (V & D & NE).
    unfold py_int. simpl drop_spaces. change (is_space 45) with false. cbn iota.
    change (45 =? 45) with true. cbn iota.
    rewrite scan_digits_start; auto. rewrite V. simpl. f_equal. rewrite N2Z.inj_abs_N. lia.
  - rewrite py_int_dec_N. f_equal. rewrite N2Z.inj_abs_N. lia.
Qed.

Lemma dec_N_chars n x : In x (dec_N n) -> 48 <= x <= 57.
Proof.
  destruct (dec_N_spec n) as (_ & D & _). intro I.
  rewrite forallb_forall in D. apply digit_range, D, I.
Qed.

Lemma dec_Z_chars z x : In x (dec_Z z) -> x = 45 \/ 48 <= x <= 57.
Proof.
  unfold dec_Z. destruct (z <? 0)%Z; simpl; intro I.
  - destruct I as [E|I]; [left; congruence|right; eapply dec_N_chars; eauto].
  - right; eapply dec_N_chars; eauto.
Qed.

Lemma dec_N_head n : exists c t, dec_N n = c :: t /\ 48 <= c <= 57.
Proof.
  destruct (dec_N_spec n) as (_ & _ & NE). destruct (dec_N n) as [|c t] eqn:E; [congruence|].
  exists c, t. split; auto. apply (dec_N_chars n). rewrite E. left; reflexivity.
Qed.

(** the decimal numerals [dec_N] prints are canonical: no leading zero *)
Lemma udigits_nonzero_head f : forall n, 0 < n -> n < 2 ^ N.of_nat f ->
  exists c t, udigits (S f) n = c :: t /\ c <> 48.
Proof.
  induction f as [|f IH]; intros n P Hn.
  - change (N.of_nat 0) with 0 in Hn. rewrite N.pow_0_r in Hn. lia.
  - rewrite (udigits_S (S f)). destruct (N.ltb_spec n 10) as [L|L].
    + exists (48 + n), []. split; [reflexivity|lia].
    + assert (Hd : n / 10 < 2 ^ N.of_nat f).
      { apply N.div_lt_upper_bound; [lia|]. rewrite Nat2N.inj_succ, N.pow_succ_r' in Hn. lia. }
      assert (Pd : 0 < n / 10) by (apply N.div_str_pos; lia).
      destruct (IH _ Pd Hd) as (c & t & E & NZ). rewrite E. exists c, (t ++ [48 + n mod 10]). auto.
Qed.


Lemma dec_N_canonical n : n <> 0 -> exists c t, dec_N n = c :: t /\ c <> 48 /\ forallb is_digit (c :: t) = true.
Proof.
  intro NZ. destruct (dec_N_spec n) as (_ & D & _).
  assert (B : n < 2 ^ N.of_nat (N.to_nat (N.size n))) by (rewrite N2Nat.id; apply N.size_gt).
  destruct (udigits_nonzero_head _ n ltac:(lia) B) as (c & t & E & NZc).
  exists c, t. unfold dec_N in *. rewrite E in *. auto.
Qed.

(** * Induction over nested values *)
Section BvalInd.
  Variable P : bval -> Prop.
  Hypothesis Hnil : P BNil.
  Hypothesis Hint : forall z, P (BInt z).
  Hypothesis Hstr : forall s, P (BStr s).
  Hypothesis Hlist : forall l, Forall P l -> P (BList l).
  Hypothesis Hdict : forall m, Forall (fun kv => P (snd kv)) m -> P (BDict m).
  Fixpoint bval_ind' (v : bval) : P v :=
    match v with
    | BNil => Hnil
    | BInt z => Hint z
    | BStr s => Hstr s
    | BList l => Hlist l ((fix go (l : list bval) : Forall P l :=
                             match l with
                             | [] => Forall_nil _
                             | x :: t => Forall_cons x (bval_ind' x) (go t)
                             end) l)
    | BDict m => Hdict m ((fix go (m : list (bytes * bval)) : Forall (fun kv => P (snd kv)) m :=
                             match m with
                             | [] => Forall_nil _
                             | kv :: t => Forall_cons kv (bval_ind' (snd kv)) (go t)
                             end) m)
    end.
End BvalInd.

Definition upto {A} (r expected : res A) : Prop := r = Fuel \/ r = expected.
Definition bad {A} (r : res A) : Prop := r = Fuel \/ r = Exc.

Lemma prefix_split {A} (l1 l2 p q : list A) :
  l1 ++ l2 = p ++ q -> (exists t, t <> [] /\ l1 = p ++ t) \/ (exists t, p = l1 ++ t /\ l2 = t ++ q).
Proof.
  intro E. apply app_eq_app in E as (l & [[E1 E2]|[E1 E2]]).
  - destruct l as [|a l].
    + right. exists []. rewrite app_nil_r in *. subst. split; reflexivity.
    + left. exists (a :: l). split; [discriminate|assumption].
  - right. exists l. auto.
Qed.

(** * Shape of encodings *)
Definition encp (kv : bytes * bval) : bytes := enc_bstr (fst kv) ++ encode (snd kv).

Lemma enc_bstr_head s : exists c t, enc_bstr s = c :: t /\ 48 <= c <= 57.
Proof.
  unfold enc_bstr. destruct (dec_N_head (N.of_nat (length s))) as (c & t & E & R).
  exists c, (t ++ 58 :: s). rewrite E. split; auto.
Qed.

Lemma encode_head v : exists c t, encode v = c :: t /\ c <> 101.
Proof.
  destruct v; simpl.
  - exists 48, [58]. split; [reflexivity|lia].
  - eexists _, _. split; [reflexivity|lia].
  - destruct (enc_bstr_head s) as (c & t & E & R). exists c, t. split; [assumption|lia].
  - eexists _, _. split; [reflexivity|lia].
  - eexists _, _. split; [reflexivity|lia].
Qed.

Lemma sort_pairs_sorted (l : list (bytes * bytes)) : keys_sorted (map fst l) = true -> sort_pairs l = l.
Proof.
  induction l as [|x l IH]; simpl; [reflexivity|].
  intro H. apply andb_true_iff in H as [Hx Hl].
  unfold sort_pairs in *. simpl. rewrite IH by assumption.
  destruct l as [|y r]; simpl; [reflexivity|].
  simpl in Hx. apply andb_true_iff in Hx as [Hxy _].
  unfold key_lt. rewrite (str_ltb_asym _ _ Hxy). reflexivity.
Qed.

Lemma encode_dict_sorted m : keys_sorted (map fst m) = true ->
  encode (BDict m) = 100 :: concat (map encp m) ++ [101].
Proof.
  intro H. simpl. rewrite sort_pairs_sorted.
  - rewrite map_map. reflexivity.
  - rewrite map_map. simpl. exact H.
Qed.

(** * Byte strings *)
Lemma skipn_S_length_app {A} (l r : list A) x : skipn (S (length l)) (l ++ x :: r) = r.
Proof. induction l; simpl in *; auto. Qed.

Lemma to_nat_of_N_of_nat k : Z.to_nat (Z.of_N (N.of_nat k)) = k.
Proof. rewrite nat_N_Z. apply Nat2Z.id. Qed.

Lemma dec_N_no (c : N) n : ~ (48 <= c <= 57) -> forall x, In x (dec_N n) -> x <> c.
Proof. intros H x I E. subst. apply H. eapply dec_N_chars; eauto. Qed.

Lemma decode_bstr_rt s r : decode_bstr (enc_bstr s ++ r) = Ok (BStr s, r).
Proof.
  unfold enc_bstr, decode_bstr. rewrite <- app_assoc. simpl app.
  rewrite index_of_app by (apply dec_N_no; lia).
  rewrite firstn_length_app, py_int_dec_N, skipn_S_length_app.
  destruct s as [|a s].
  - reflexivity.
  - destruct (Z.eqb_spec (Z.of_N (N.of_nat (length (a :: s)))) 0) as [E|_]; [simpl in E; lia|].
    unfold slice_to, slice_from. simpl app.
    destruct (Z.ltb_spec (Z.of_nat (length (a :: s ++ r))) (Z.of_N (N.of_nat (length (a :: s))))) as [L|_].
    { rewrite nat_N_Z in L. simpl length in L. rewrite app_length in L. lia. }
    destruct (Z.leb_spec 0 (Z.of_N (N.of_nat (length (a :: s))))) as [_|L]; [|lia].
    rewrite to_nat_of_N_of_nat.
    change (a :: s ++ r) with ((a :: s) ++ r). rewrite firstn_length_app, skipn_length_app. reflexivity.
Qed.

Lemma index_of_lt c l i : index_of c l = Some i -> (i < length l)%nat.
Proof.
  revert i. induction l as [|x t IH]; simpl; intros i H; [discriminate|].
  destruct (x =? c).
  - inversion H. lia.
  - destruct (index_of c t) eqn:E; simpl in H; [|discriminate]. inversion H. specialize (IH _ eq_refl). lia.
Qed.

Lemma decode_bstr_prefix s p q : q <> [] -> enc_bstr s = p ++ q -> decode_bstr p = Exc.
Proof.
  intros Q E. unfold enc_bstr in E. apply prefix_split in E as [(t & T & E)|(t & E1 & E2)].
  - (* cut inside the length digits *)
    unfold decode_bstr. rewrite index_of_none; [reflexivity|].
    intros x I. apply (dec_N_no 58 (N.of_nat (length s))); [lia|]. rewrite E. apply in_or_app. auto.
  - destruct t as [|c t].
    + rewrite app_nil_r in E1. subst p. unfold decode_bstr. rewrite index_of_none; [reflexivity|].
      apply dec_N_no. lia.
    + simpl in E2. inversion E2; subst c. subst p.
      unfold decode_bstr. rewrite index_of_app by (apply dec_N_no; lia).
      rewrite firstn_length_app, py_int_dec_N, skipn_S_length_app.
      assert (L : (length s = length t + length q)%nat) by (rewrite H1, app_length; reflexivity).
      assert (0 < length q)%nat by (destruct q; [congruence|simpl; lia]).
      destruct (Z.eqb_spec (Z.of_N (N.of_nat (length s))) 0) as [E|_]; [lia|].
      unfold slice_to. destruct t as [|a t]; [reflexivity|].
      destruct (Z.ltb_spec (Z.of_nat (length (a :: t))) (Z.of_N (N.of_nat (length s)))) as [_|L']; [reflexivity|].
      rewrite nat_N_Z in L'. lia.
Qed.

(** * One step of the list and dict loops *)
Lemma decode_star_digit f c t : 48 <= c <= 57 -> decode_star (S f) (c :: t) = decode_bstr (c :: t).
Proof.
  intro R. simpl.
  destruct (N.eqb_spec c 105); [lia|]. destruct (N.eqb_spec c 108); [lia|]. destruct (N.eqb_spec c 100); [lia|].
  reflexivity.
Qed.

Lemma decode_list_step f data acc c t : data = c :: t -> c <> 101 ->
  decode_list (S f) data acc =
  match decode_star f data with
  | Ok (v, d) => decode_list f d (acc ++ [v])
  | Exc => Exc
  | Fuel => Fuel
  end.
Proof. intros -> H. simpl. destruct (N.eqb_spec c 101); [congruence|reflexivity]. Qed.

Lemma decode_dict_step f data m c t : data = c :: t -> c <> 101 ->
  decode_dict (S f) data m =
  match decode_bstr data with
  | Ok (BStr k, d) =>
      match decode_star f d with
      | Ok (v, d') => decode_dict f d' (dict_assoc k v m)
      | Exc => Exc
      | Fuel => Fuel
      end
  | Ok (_, _) => Exc
  | Exc => Exc
  | Fuel => Fuel
  end.
Proof. intros -> H. simpl. destruct (N.eqb_spec c 101); [congruence|reflexivity]. Qed.

(** * The map built by the dict loop *)
Lemma keys_sorted_app_lt l1 k l2 :
  keys_sorted (l1 ++ k :: l2) = true -> Forall (fun a => str_ltb a k = true) l1.
Proof.
  induction l1 as [|a l1 IH]; simpl; intro H; [constructor|].
  apply andb_true_iff in H as [Ha Hl]. constructor; [|apply IH, Hl].
  rewrite forallb_app in Ha. apply andb_true_iff in Ha as [_ Ha]. simpl in Ha.
  apply andb_true_iff in Ha as [Ha _]. exact Ha.
Qed.

Lemma dict_assoc_append k v acc :
  Forall (fun a => str_ltb a k = true) (map fst acc) -> dict_assoc k v acc = acc ++ [(k, v)].
Proof.
  induction acc as [|[k' v'] acc IH]; simpl; intro H; [reflexivity|].
  inversion H; subst. rewrite (str_ltb_asym _ _ H2).
  destruct (str_eqb k k') eqn:E.
  - apply str_eqb_eq in E. subst. rewrite str_ltb_irrefl in H2. discriminate.
  - rewrite IH by assumption. reflexivity.
Qed.

(** * Round trip, for every fuel: the result is the value or out-of-fuel *)
Definition rt_at (v : bval) : Prop :=
  wf v = true -> forall f r, upto (decode_star f (encode v ++ r)) (Ok (v, r)).

Lemma rt_list l : Forall rt_at l -> forallb wf l = true ->
  forall f acc r, upto (decode_list f (concat (map encode l) ++ 101 :: r) acc) (Ok (BList (acc ++ l), r)).
Proof.
  induction l as [|x l IH]; intros HF W f acc r.
  - destruct f; [left; reflexivity|]. right. simpl. rewrite app_nil_r. reflexivity.
  - inversion HF as [|? ? Hx Hl]; subst. simpl in W. apply andb_true_iff in W as [Wx Wl].
    destruct f as [|f]; [left; reflexivity|].
    simpl concat. rewrite <- app_assoc.
    destruct (encode_head x) as (c & t & E & Hc).
    rewrite (decode_list_step f _ acc c (t ++ concat (map encode l) ++ 101 :: r)) by (rewrite ?E; auto).
    destruct (Hx Wx f (concat (map encode l) ++ 101 :: r)) as [R|R]; rewrite R; [left; reflexivity|].
    replace (acc ++ x :: l) with ((acc ++ [x]) ++ l) by (rewrite <- app_assoc; reflexivity).
    apply IH; assumption.
Qed.

Lemma rt_dict m : Forall (fun kv => rt_at (snd kv)) m -> forallb (fun kv => wf (snd kv)) m = true ->
  forall f acc r, keys_sorted (map fst (acc ++ m)) = true ->
  upto (decode_dict f (concat (map encp m) ++ 101 :: r) acc) (Ok (BDict (acc ++ m), r)).
Proof.
  induction m as [|[k v] m IH]; intros HF W f acc r KS.
  - destruct f; [left; reflexivity|]. right. simpl. rewrite app_nil_r. reflexivity.
  - inversion HF as [|? ? Hx Hl]; subst. simpl in W, Hx. apply andb_true_iff in W as [Wx Wl].
    destruct f as [|f]; [left; reflexivity|].
    simpl concat. unfold encp at 1. simpl fst; simpl snd. rewrite <- !app_assoc.
    destruct (enc_bstr_head k) as (c & t & E & Hc).
    rewrite (decode_dict_step f _ acc c (t ++ encode v ++ concat (map encp m) ++ 101 :: r))
      by (rewrite ?E; auto; lia).
    rewrite decode_bstr_rt.
    destruct (Hx Wx f (concat (map encp m) ++ 101 :: r)) as [R|R]; rewrite R; [left; reflexivity|].
    rewrite dict_assoc_append.
    + replace (acc ++ (k, v) :: m) with ((acc ++ [(k, v)]) ++ m) by (rewrite <- app_assoc; reflexivity).
      apply IH; try assumption. rewrite <- app_assoc. exact KS.
    + rewrite map_app in KS. simpl in KS. eapply keys_sorted_app_lt; eauto.
Qed.

Lemma rt_all v : rt_at v.
Proof.
  induction v using bval_ind'; intros W f r; simpl in W.
  - discriminate.
  - destruct f; [left; reflexivity|]. right. simpl.
    unfold decode_int. rewrite <- app_assoc. simpl app.
    rewrite index_of_app.
    + rewrite firstn_length_app, py_int_dec_Z, skipn_S_length_app. reflexivity.
    + intros x I E. apply dec_Z_chars in I. lia.
  - destruct f; [left; reflexivity|]. right.
    destruct (enc_bstr_head s) as (c & t & E & R). simpl encode. rewrite E. simpl app.
    rewrite decode_star_digit by assumption.
    change (c :: t ++ r) with ((c :: t) ++ r). rewrite <- E. apply decode_bstr_rt.
  - destruct f; [left; reflexivity|]. simpl encode. simpl app. rewrite <- app_assoc. simpl.
    apply (rt_list l H W f [] r).
  - apply andb_true_iff in W as [KS W].
    destruct f; [left; reflexivity|]. rewrite encode_dict_sorted by assumption.
    simpl app. rewrite <- app_assoc. simpl.
    apply (rt_dict m H W f [] r). exact KS.
Qed.

(** * Prefix freeness, for every fuel: an exception or out-of-fuel, never a value *)
Definition pf_at (v : bval) : Prop :=
  wf v = true -> forall p q f, q <> [] -> encode v = p ++ q -> bad (decode_star f p).

Lemma bad_nil_star f : bad (decode_star f []).
Proof. destruct f; [left|right]; reflexivity. Qed.
Lemma bad_nil_list f acc : bad (decode_list f [] acc).
Proof. destruct f; [left|right]; reflexivity. Qed.
Lemma bad_nil_dict f acc : bad (decode_dict f [] acc).
Proof. destruct f; [left|right]; reflexivity. Qed.

Lemma pf_list l : Forall pf_at l -> forallb wf l = true ->
  forall p q f acc, q <> [] -> concat (map encode l) ++ [101] = p ++ q -> bad (decode_list f p acc).
Proof.
  induction l as [|x l IH]; intros HF W p q f acc Q E.
  - simpl in E. destruct p as [|a p]; [apply bad_nil_list|].
    inversion E. destruct p; [|discriminate]. simpl in *. congruence.
  - inversion HF as [|? ? Hx Hl]; subst. simpl in W. apply andb_true_iff in W as [Wx Wl].
    simpl concat in E. rewrite <- app_assoc in E.
    destruct (encode_head x) as (c & t & Ex & Hc).
    apply prefix_split in E as [(u & U & E)|(u & E1 & E2)].
    + destruct p as [|a p]; [apply bad_nil_list|].
      destruct f as [|f]; [left; reflexivity|].
      assert (a = c) by (rewrite Ex in E; inversion E; reflexivity). subst a.
      rewrite (decode_list_step f _ acc c p) by auto.
      destruct (Hx Wx (c :: p) u f U E) as [R|R]; rewrite R; [left|right]; reflexivity.
    + subst p. destruct f as [|f]; [left; reflexivity|].
      rewrite (decode_list_step f _ acc c (t ++ u)) by (rewrite ?Ex; auto).
      destruct (rt_all x Wx f u) as [R|R]; rewrite R; [left; reflexivity|].
      eapply IH; eauto.
Qed.

Lemma pf_dict m : Forall (fun kv => pf_at (snd kv)) m -> forallb (fun kv => wf (snd kv)) m = true ->
  forall p q f acc, q <> [] -> concat (map encp m) ++ [101] = p ++ q -> bad (decode_dict f p acc).
Proof.
  induction m as [|[k v] m IH]; intros HF W p q f acc Q E.
  - simpl in E. destruct p as [|a p]; [apply bad_nil_dict|].
    inversion E. destruct p; [|discriminate]. simpl in *. congruence.
  - inversion HF as [|? ? Hx Hl]; subst. simpl in W, Hx. apply andb_true_iff in W as [Wx Wl].
    simpl concat in E. unfold encp at 1 in E. simpl fst in E; simpl snd in E. rewrite <- !app_assoc in E.
    destruct (enc_bstr_head k) as (c & t & Ek & Hc).
    apply prefix_split in E as [(u & U & E)|(u & E1 & E2)].
    + (* cut inside the key *)
      destruct p as [|a p]; [apply bad_nil_dict|].
      destruct f as [|f]; [left; reflexivity|].
      assert (a = c) by (rewrite Ek in E; inversion E; reflexivity). subst a.
      rewrite (decode_dict_step f _ acc c p) by (auto; lia).
      rewrite (decode_bstr_prefix k (c :: p) u U E). right; reflexivity.
    + subst p. destruct f as [|f]; [left; reflexivity|].
      rewrite (decode_dict_step f _ acc c (t ++ u)) by (rewrite ?Ek; auto; lia).
      rewrite decode_bstr_rt.
      apply prefix_split in E2 as [(w & Wn & E)|(w & E1 & E2)].
      * (* cut inside the value *)
        destruct (Hx Wx u w f Wn E) as [R|R]; rewrite R; [left|right]; reflexivity.
      * subst u. destruct (rt_all v Wx f w) as [R|R]; rewrite R; [left; reflexivity|].
        eapply IH; eauto.
Qed.

Lemma pf_all v : pf_at v.
Proof.
  induction v using bval_ind'; intros W p q f Q E; simpl in W.
  - discriminate.
  - destruct p as [|a p]; [apply bad_nil_star|]. destruct f; [left; reflexivity|]. right.
    simpl in E. inversion E; subst a. simpl. unfold decode_int.
    rewrite index_of_none; [reflexivity|].
    intros x I Ex. subst x.
    apply prefix_split in H1 as [(u & U & E1)|(u & E1 & E2)].
    + assert (In 101 (dec_Z z)) by (rewrite E1; apply in_or_app; auto).
      apply dec_Z_chars in H. lia.
    + destruct u as [|b u].
      * rewrite app_nil_r in E1. subst p. apply dec_Z_chars in I. lia.
      * simpl in E2. assert (Eq : u ++ q = []) by (inversion E2; auto).
        apply app_eq_nil in Eq. destruct Eq; congruence.
  - destruct p as [|a p]; [apply bad_nil_star|]. destruct f; [left; reflexivity|]. right.
    simpl in E. destruct (enc_bstr_head s) as (c & t & Es & R).
    assert (a = c) by (rewrite Es in E; inversion E; reflexivity). subst a.
    rewrite decode_star_digit by assumption. eapply decode_bstr_prefix; eauto.
  - destruct p as [|a p]; [apply bad_nil_star|]. destruct f; [left; reflexivity|].
    simpl in E. inversion E; subst a. simpl. eapply pf_list; eauto.
  - apply andb_true_iff in W as [KS W].
    destruct p as [|a p]; [apply bad_nil_star|]. destruct f; [left; reflexivity|].
    rewrite encode_dict_sorted in E by assumption.
    simpl in E. inversion E; subst a. simpl. eapply pf_dict; eauto.
Qed.

(** * Every successful step consumes input; the supplied fuel is sufficient *)
Lemma decode_int_len data v d : decode_int data = Ok (v, d) -> (length d <= length data)%nat.
Proof.
  unfold decode_int. destruct (index_of 101 data) as [i|]; [|discriminate].
  destruct (py_int (firstn i data)); [|discriminate]. intro H.
  assert (E : d = skipn (S i) data) by congruence. rewrite E, skipn_length. lia.
Qed.

Lemma slice_from_len d n : (length (slice_from d n) <= length d)%nat.
Proof. unfold slice_from. destruct (0 <=? n)%Z; rewrite skipn_length; lia. Qed.

Lemma decode_bstr_len data v d : decode_bstr data = Ok (v, d) -> (length d < length data)%nat.
Proof.
  unfold decode_bstr. destruct (index_of 58 data) as [i|] eqn:I; [|discriminate].
  apply index_of_lt in I.
  destruct (py_int (firstn i data)) as [n|]; [|discriminate].
  assert (L : (length (skipn (S i) data) < length data)%nat) by (rewrite skipn_length; lia).
  destruct (n =? 0)%Z.
  - intro H. assert (E : d = skipn (S i) data) by congruence. rewrite E. exact L.
  - destruct (slice_to (skipn (S i) data) n); [|discriminate].
    intro H. assert (E : d = slice_from (skipn (S i) data) n) by congruence. rewrite E.
    pose proof (slice_from_len (skipn (S i) data) n). lia.
Qed.

Lemma consumes f :
  (forall data v d, decode_star f data = Ok (v, d) -> (length d < length data)%nat) /\
  (forall data acc v d, decode_list f data acc = Ok (v, d) -> (length d < length data)%nat) /\
  (forall data m v d, decode_dict f data m = Ok (v, d) -> (length d < length data)%nat).
Proof.
  induction f as [|f (IHs & IHl & IHd)]; [repeat split; intros; discriminate|].
  repeat split.
  - intros [|c tl] v d; simpl; [discriminate|].
    destruct (c =? 105); [intro H; apply decode_int_len in H; lia|].
    destruct (c =? 108); [intro H; apply IHl in H; lia|].
    destruct (c =? 100); [intro H; apply IHd in H; lia|].
    intro H. apply decode_bstr_len in H. exact H.
  - intros [|c tl] acc v d; simpl; [discriminate|].
    destruct (c =? 101); [intro H; inversion H; subst; lia|].
    destruct (decode_star f (c :: tl)) as [[v1 d1]| |] eqn:E; try discriminate.
    apply IHs in E. intro H. apply IHl in H. simpl in *. lia.
  - intros [|c tl] m v d; simpl; [discriminate|].
    destruct (c =? 101); [intro H; inversion H; subst; lia|].
    destruct (decode_bstr (c :: tl)) as [[k1 d1]| |] eqn:E; try discriminate.
    apply decode_bstr_len in E.
    destruct k1; try discriminate.
    destruct (decode_star f d1) as [[v2 d2]| |] eqn:E2; try discriminate.
    apply IHs in E2. intro H. apply IHd in H. simpl in *. lia.
Qed.

Lemma enough f :
  (forall data, (2 * length data < f)%nat -> decode_star f data <> Fuel) /\
  (forall data acc, (2 * length data + 1 < f)%nat -> decode_list f data acc <> Fuel) /\
  (forall data m, (2 * length data + 1 < f)%nat -> decode_dict f data m <> Fuel).
Proof.
  induction f as [|f (IHs & IHl & IHd)]; [repeat split; intros; lia|].
  destruct (consumes f) as (Cs & Cl & Cd).
  repeat split.
  - intros [|c tl] L; simpl; [discriminate|]. simpl in L.
    destruct (c =? 105).
    { unfold decode_int. destruct (index_of 101 tl); [|discriminate].
      destruct (py_int _); discriminate. }
    destruct (c =? 108); [apply IHl; lia|].
    destruct (c =? 100); [apply IHd; lia|].
    unfold decode_bstr. destruct (index_of 58 (c :: tl)); [|discriminate].
    destruct (py_int _); [|discriminate]. destruct (_ =? 0)%Z; [discriminate|].
    destruct (slice_to _ _); discriminate.
  - intros [|c tl] acc L; simpl; [discriminate|].
    destruct (c =? 101); [discriminate|].
    destruct (decode_star f (c :: tl)) as [[v1 d1]| |] eqn:E.
    + apply Cs in E. apply IHl. simpl in *. lia.
    + discriminate.
    + exfalso. revert E. apply IHs. simpl in *. lia.
  - intros [|c tl] m L; simpl; [discriminate|].
    destruct (c =? 101); [discriminate|].
    destruct (decode_bstr (c :: tl)) as [[k1 d1]| |] eqn:E.
    + apply decode_bstr_len in E. destruct k1; try discriminate.
      destruct (decode_star f d1) as [[v2 d2]| |] eqn:E2.
      * apply Cs in E2. apply IHd. simpl in *. lia.
      * discriminate.
      * exfalso. revert E2. apply IHs. simpl in *. lia.
    + discriminate.
    + exfalso. revert E. unfold decode_bstr. destruct (index_of 58 (c :: tl)); [|discriminate].
      destruct (py_int _); [|discriminate]. destruct (_ =? 0)%Z; [discriminate|].
      destruct (slice_to _ _); discriminate.
Qed.

Theorem decode_star_fuel data : decode_star (fuel_for data) data <> Fuel.
Proof. apply (proj1 (enough (fuel_for data))). unfold fuel_for. lia. Qed.

Theorem decode_fuel data : decode data <> DFuel.
Proof.
  unfold decode. pose proof (decode_star_fuel data).
  destruct (decode_star (fuel_for data) data) as [[[] ?]| |]; congruence.
Qed.

Lemma decode_val_len data v rest : decode data = DVal v rest -> (length rest < length data)%nat.
Proof.
  unfold decode. destruct (decode_star (fuel_for data) data) as [[v1 d1]| |] eqn:E; try discriminate.
  apply (proj1 (consumes _)) in E. destruct v1; intro H; inversion H; subst; exact E.
Qed.

Lemma decode_all_loop_fuel n : forall items data, (length data < n)%nat -> decode_all_loop n items data <> None.
Proof.
  induction n as [|n IH]; intros items data L; [lia|]. simpl.
  destruct (decode data) as [v rest|rest|] eqn:E.
  - apply decode_val_len in E. apply IH. lia.
  - discriminate.
  - exfalso. revert E. apply decode_fuel.
Qed.

Theorem decode_all_fuel data : decode_all data <> None.
Proof. apply decode_all_loop_fuel. lia. Qed.

(** * The three theorems *)
Theorem bencode_roundtrip v r : wf v = true -> decode (encode v ++ r) = DVal v r.
Proof.
  intro W. unfold decode.
  destruct (rt_all v W (fuel_for (encode v ++ r)) r) as [R|R].
  - exfalso. revert R. apply decode_star_fuel.
  - rewrite R. destruct v; try reflexivity. discriminate.
Qed.

Definition proper_prefix (p e : bytes) : Prop := exists q, q <> [] /\ e = p ++ q.

Theorem bencode_prefix_free v p : wf v = true -> proper_prefix p (encode v) -> decode p = DInc p.
Proof.
  intros W (q & Q & E). unfold decode.
  destruct (pf_all v W p q (fuel_for p) Q E) as [R|R].
  - exfalso. revert R. apply decode_star_fuel.
  - rewrite R. reflexivity.
Qed.

(** * The model's [encode] is the reference encoding on the canonical domain *)
From Verif Require Import C19.Spec.

Lemma encode_ref v : wf v = true -> encode v = ref_encode v.
Proof.
  induction v using bval_ind'; intro W; simpl in W; try discriminate; try reflexivity.
  - simpl. f_equal. f_equal. f_equal.
    induction l as [|x l IHl]; [reflexivity|]. simpl in W. apply andb_true_iff in W as [Wx Wl].
    inversion H; subst. simpl. rewrite H2 by assumption. rewrite IHl by assumption. reflexivity.
  - apply andb_true_iff in W as [KS W]. rewrite encode_dict_sorted by assumption.
    simpl. f_equal. f_equal. f_equal. clear KS.
    induction m as [|[k x] m IHm]; [reflexivity|]. simpl in W. apply andb_true_iff in W as [Wx Wl].
    inversion H; subst. simpl in *. unfold encp at 1. simpl. rewrite H2 by assumption.
    rewrite IHm by assumption. reflexivity.
Qed.

Lemma encode_nonempty v : (0 < length (encode v))%nat.
Proof. destruct (encode_head v) as (c & t & E & _). rewrite E. simpl. lia. Qed.

Lemma decode_nil : decode [] = DInc [].
Proof. reflexivity. Qed.

Lemma stream_loop msgs : forallb wf msgs = true -> forall k n items,
  (length (firstn k (concat (map encode msgs))) < n)%nat ->
  decode_all_loop n items (firstn k (concat (map encode msgs))) =
  Some (items ++ fst (split_stream msgs k), snd (split_stream msgs k)).
Proof.
  induction msgs as [|m t IH]; intros W k n items L.
  - simpl. rewrite firstn_nil. destruct n; [simpl in L; lia|]. simpl. rewrite app_nil_r. reflexivity.
  - simpl in W. apply andb_true_iff in W as [Wm Wt].
    simpl map in *. simpl concat in *. rewrite firstn_app in *.
    cbn [split_stream]. rewrite <- (encode_ref m Wm).
    destruct n as [|n]; [lia|]. cbn [decode_all_loop].
    destruct (Nat.leb_spec (length (encode m)) k) as [Le|Gt].
    + rewrite firstn_all2 in * by assumption.
      rewrite bencode_roundtrip by assumption.
      rewrite IH; try assumption.
      * cbn [fst snd]. rewrite <- app_assoc. reflexivity.
      * rewrite app_length in L. pose proof (encode_nonempty m). lia.
    + replace (k - length (encode m))%nat with 0%nat by lia. rewrite firstn_O, app_nil_r.
      rewrite (bencode_prefix_free m) ; try assumption.
      * cbn [fst snd]. rewrite app_nil_r. reflexivity.
      * exists (skipn k (encode m)). split.
        -- intro E. apply (f_equal (@length N)) in E. rewrite skipn_length in E. simpl in E. lia.
        -- symmetry. apply firstn_skipn.
Qed.

Theorem bencode_stream msgs k : forallb wf msgs = true ->
  decode_all (firstn k (concat (map encode msgs))) = Some (split_stream msgs k).
Proof.
  intro W. unfold decode_all. rewrite stream_loop by (auto; lia).
  simpl. destruct (split_stream msgs k); reflexivity.
Qed.

Lemma bencode_nonvacuous :
  let m1 := BDict [([97], BList [BInt (-7); BStr []]); ([98], BStr [101])] in
  let m2 := BInt 10 in
  wf m1 = true /\ wf m2 = true /\
  decode_all (firstn 21 (concat (map encode [m1; m2]))) = Some ([m1], [105; 49]).
Proof. vm_compute. auto. Qed.

(** * The numerals [encode] prints are canonical BEP-3 numerals with the right value *)
Lemma numeral_canonical z : canonical_numeral (dec_Z z) = true /\ numeral_value (dec_Z z) = z.
Proof.
  unfold dec_Z. destruct (Z.ltb_spec z 0) as [L|L].
  - assert (NZ : Z.abs_N z <> 0) by lia.
    destruct (dec_N_canonical _ NZ) as (c & t & E & NZc & D).
    destruct (dec_N_spec (Z.abs_N z)) as (V & _ & _).
    rewrite E in *. split.
    + unfold canonical_numeral. change (45 =? 48) with false. change (45 =? 45) with true. cbv iota.
      simpl in D. apply andb_true_iff in D as [Dc Dt]. rewrite Dc, Dt.
      apply N.eqb_neq in NZc. rewrite NZc. reflexivity.
    + unfold numeral_value. change (45 =? 45) with true. cbv iota.
      change (digits_value (c :: t)) with (uval_acc 0 (c :: t)). rewrite V, N2Z.inj_abs_N. lia.
  - destruct (dec_N_spec (Z.abs_N z)) as (V & D & NE).
    destruct (N.eq_dec (Z.abs_N z) 0) as [Z0|NZ].
    + rewrite Z0 in *. split; [reflexivity|]. vm_compute. lia.
    + destruct (dec_N_canonical _ NZ) as (c & t & E & NZc & _). rewrite E in *.
      pose proof D as D'. simpl in D'. apply andb_true_iff in D' as [Dc Dt].
      pose proof (digit_range c Dc) as R.
      assert (N45 : (c =? 45) = false) by (apply N.eqb_neq; lia).
      apply N.eqb_neq in NZc. split.
      * unfold canonical_numeral. rewrite NZc, N45, Dc, Dt. reflexivity.
      * unfold numeral_value. rewrite N45.
        change (digits_value (c :: t)) with (uval_acc 0 (c :: t)). rewrite V, N2Z.inj_abs_N. lia.
Qed.

(** * Dict entries in any order: [decode (encode v ++ r)] is the key-sorted form of [v] *)
From Coq Require Import Permutation Sorted.

Section SortFacts.
  Context {A : Type}.
  Variable lt : A -> A -> bool.
  Hypothesis lt_asym : forall a b, lt a b = true -> lt b a = false.

  Fixpoint lsorted (l : list A) : bool :=
    match l with
    | a :: ((b :: _) as t) => negb (lt b a) && lsorted t
    | _ => true
    end.

  Lemma sort_id l : lsorted l = true -> Sort.sort lt l = l.
  Proof.
    induction l as [|x l IH]; [reflexivity|]. intro H. simpl.
    destruct l as [|y r]; [reflexivity|].
    cbn [lsorted] in H. apply andb_true_iff in H as [Hxy Hl].
    rewrite (IH Hl). simpl. apply negb_true_iff in Hxy. rewrite Hxy. reflexivity.
  Qed.

  Lemma insert_lsorted x l : lsorted l = true -> lsorted (Sort.insert lt x l) = true.
  Proof.
    induction l as [|y r IH]; intro H; [reflexivity|].
    simpl. destruct (lt y x) eqn:E.
    - specialize (IH ltac:(destruct r; [reflexivity|cbn [lsorted] in H; apply andb_true_iff in H as [_ H]; exact H])).
      destruct r as [|z r'].
      + simpl. rewrite (lt_asym _ _ E). reflexivity.
      + cbn [lsorted] in H. apply andb_true_iff in H as [Hyz Hr].
        simpl in *. destruct (lt z x) eqn:E2.
        * cbn [lsorted]. rewrite Hyz. exact IH.
        * cbn [lsorted]. rewrite (lt_asym _ _ E). simpl. exact IH.
    - cbn [lsorted]. rewrite E. simpl. exact H.
  Qed.

  Lemma sort_lsorted l : lsorted (Sort.sort lt l) = true.
  Proof. induction l as [|x l IH]; [reflexivity|]. simpl. apply insert_lsorted, IH. Qed.

  Lemma sort_idem l : Sort.sort lt (Sort.sort lt l) = Sort.sort lt l.
  Proof. apply sort_id, sort_lsorted. Qed.
End SortFacts.

(** sorting commutes with a map that preserves the order *)
Lemma insert_map {A B} (ltA : A -> A -> bool) (ltB : B -> B -> bool) (g : A -> B) :
  (forall a b, ltB (g a) (g b) = ltA a b) ->
  forall x l, map g (Sort.insert ltA x l) = Sort.insert ltB (g x) (map g l).
Proof.
  intros H x l. induction l as [|y r IH]; [reflexivity|]. simpl. rewrite H.
  destruct (ltA y x); simpl; [rewrite IH|]; reflexivity.
Qed.

Lemma sort_map {A B} (ltA : A -> A -> bool) (ltB : B -> B -> bool) (g : A -> B) :
  (forall a b, ltB (g a) (g b) = ltA a b) ->
  forall l, map g (Sort.sort ltA l) = Sort.sort ltB (map g l).
Proof.
  intros H l. induction l as [|x l IH]; [reflexivity|]. simpl.
  rewrite (insert_map ltA ltB g H), IH. reflexivity.
Qed.

Lemma key_lt_asym a b : key_lt a b = true -> key_lt b a = false.
Proof. apply str_ltb_asym. Qed.
Lemma val_lt_asym a b : val_lt a b = true -> val_lt b a = false.
Proof. apply str_ltb_asym. Qed.

Lemma encode_norm v : encode (norm v) = encode v.
Proof.
  induction v using bval_ind'; try reflexivity.
  - simpl. f_equal. f_equal. f_equal. rewrite map_map. apply map_ext_in.
    intros x I. rewrite Forall_forall in H. auto.
  - simpl. f_equal. f_equal. f_equal. f_equal.
    unfold sort_vals, sort_pairs.
    rewrite (sort_map val_lt key_lt (fun kv => (fst kv, encode (snd kv)))) by reflexivity.
    rewrite map_map. simpl.
    rewrite (map_ext_in _ (fun kv => (fst kv, encode (snd kv)))).
    + apply (sort_idem key_lt key_lt_asym).
    + intros kv I. rewrite Forall_forall in H. rewrite (H kv I). reflexivity.
Qed.

(** sorted with distinct keys is strictly sorted *)
Lemma distinctb_perm l1 l2 : Permutation l1 l2 -> distinctb l1 = true -> distinctb l2 = true.
Proof.
  assert (EX : forall x l l', Permutation l l' -> existsb (str_eqb x) l = existsb (str_eqb x) l').
  { intros x l l' P. induction P; simpl; try congruence.
    destruct (str_eqb x y), (str_eqb x x0); reflexivity. }
  intro P. induction P; simpl; intro H; auto.
  - apply andb_true_iff in H as [H1 H2]. rewrite <- (EX x _ _ P), H1. simpl. auto.
  - apply andb_true_iff in H as [H1 H2]. apply andb_true_iff in H2 as [H2 H3].
    simpl in H1. apply negb_true_iff in H1. apply orb_false_iff in H1 as [H0 H1].
    rewrite H1, H3. apply negb_true_iff in H2. rewrite H2.
    assert (E : str_eqb x y = false).
    { destruct (str_eqb x y) eqn:E; [|reflexivity]. apply str_eqb_eq in E. subst.
      rewrite str_eqb_refl in H0. discriminate. }
    rewrite E. reflexivity.
Qed.

Lemma keys_sorted_of ks : lsorted str_ltb ks = true -> distinctb ks = true -> keys_sorted ks = true.
Proof.
  induction ks as [|k t IH]; [reflexivity|]. intros S D.
  simpl in D. apply andb_true_iff in D as [D1 D2].
  assert (St : lsorted str_ltb t = true).
  { destruct t; [reflexivity|]. cbn [lsorted] in S. apply andb_true_iff in S as [_ S]. exact S. }
  specialize (IH St D2). simpl. rewrite IH, andb_true_r.
  (* k below every later key: below the next one, which is below the rest *)
  destruct t as [|k2 t2]; [reflexivity|].
  cbn [lsorted] in S. apply andb_true_iff in S as [S1 _]. apply negb_true_iff in S1.
  simpl in D1. apply negb_true_iff in D1. apply orb_false_iff in D1 as [D1 _].
  assert (L : str_ltb k k2 = true).
  { destruct (str_ltb k k2) eqn:E; [reflexivity|].
    pose proof (str_ltb_total k k2 E S1). subst. rewrite str_eqb_refl in D1. discriminate. }
  simpl. rewrite L. simpl.
  simpl in IH. apply andb_true_iff in IH as [IH _].
  rewrite forallb_forall in *. intros x I. eapply str_ltb_trans; eauto.
Qed.

Lemma lsorted_map_fst (l : list (bytes * bval)) : lsorted val_lt l = lsorted str_ltb (map fst l).
Proof.
  induction l as [|a l IH]; [reflexivity|]. destruct l as [|b r]; [reflexivity|].
  cbn [lsorted map] in *. rewrite IH. reflexivity.
Qed.

Lemma wf_norm v : dkeys v = true -> wf (norm v) = true.
Proof.
  induction v using bval_ind'; intro D; simpl in *; try assumption; try reflexivity.
  - rewrite forallb_forall in *. intros x I. apply in_map_iff in I as (y & <- & I).
    rewrite Forall_forall in H. auto.
  - apply andb_true_iff in D as [D1 D2]. apply andb_true_iff. split.
    + apply keys_sorted_of.
      * rewrite <- lsorted_map_fst. apply (sort_lsorted val_lt val_lt_asym).
      * eapply distinctb_perm; [|exact D1].
        unfold sort_vals. rewrite (Permutation_map fst (Sort.sort_perm val_lt _)).
        rewrite map_map. reflexivity.
    + rewrite forallb_forall. intros kv I.
      unfold sort_vals in I. apply (Permutation_in _ (Sort.sort_perm val_lt _)) in I.
      apply in_map_iff in I as (y & <- & I). simpl.
      rewrite Forall_forall in H. rewrite forallb_forall in D2. auto.
Qed.

Theorem bencode_roundtrip_any_order v r : dkeys v = true -> decode (encode v ++ r) = DVal (norm v) r.
Proof. intro D. rewrite <- encode_norm. apply bencode_roundtrip, wf_norm, D. Qed.

(** ... hence for what Lisp hands to [encode] *)
Theorem bencode_coercion x r : dkeys (inj x) = true -> decode (encode_l x ++ r) = DVal (norm (inj x)) r.
Proof. apply bencode_roundtrip_any_order. Qed.

Lemma wf_dkeys v : wf v = true -> dkeys v = true.
Proof.
  induction v using bval_ind'; intro W; simpl in *; try assumption; try reflexivity.
  - rewrite forallb_forall in *. rewrite Forall_forall in H. auto.
  - apply andb_true_iff in W as [K W]. apply andb_true_iff. split.
    + clear - K. induction (map fst m) as [|k t IH]; [reflexivity|]. simpl in *.
      apply andb_true_iff in K as [K1 K2]. rewrite (IH K2), andb_true_r. apply negb_true_iff.
      clear - K1. induction t as [|x t IH]; [reflexivity|]. simpl in *.
      apply andb_true_iff in K1 as [A B]. rewrite (IH B), orb_false_r.
      destruct (str_eqb k x) eqn:E; [|reflexivity]. apply str_eqb_eq in E. subst.
      rewrite str_ltb_irrefl in A. discriminate.
    + rewrite forallb_forall in *. rewrite Forall_forall in H. auto.
Qed.
