(** C19, JSON: read-str (write-str v) is the documented coercion of v. *)
From Coq Require Import List NArith ZArith Bool Lia.
Import ListNotations.
From Verif Require Import Common.ListX C19.Bencode C19.Json C19.Spec.
Local Open Scope N_scope.

Section JInd.
  Variable P : jval -> Prop.
  Hypothesis H0 : P JNil.
  Hypothesis H1 : forall b, P (JBool b).
  Hypothesis H2 : forall z, P (JInt z).
  Hypothesis H3 : forall t, P (JFloat t).
  Hypothesis H4 : forall s, P (JStr s).
  Hypothesis H5 : forall ns nm, P (JKw ns nm).
  Hypothesis H6 : forall ns nm, P (JSym ns nm).
  Hypothesis H7 : forall l, Forall P l -> P (JVec l).
  Hypothesis H8 : forall l, Forall P l -> P (JList l).
  Hypothesis H9 : forall l, Forall P l -> P (JSet l).
  Hypothesis H10 : forall m, Forall (fun kv => P (snd kv)) m -> P (JMap m).
  Fixpoint jval_ind' (v : jval) : P v :=
    let go := fix go (l : list jval) : Forall P l :=
                match l with [] => Forall_nil _ | x :: t => Forall_cons x (jval_ind' x) (go t) end in
    match v with
    | JNil => H0 | JBool b => H1 b | JInt z => H2 z | JFloat t => H3 t | JStr s => H4 s
    | JKw ns nm => H5 ns nm | JSym ns nm => H6 ns nm
    | JVec l => H7 l (go l) | JList l => H8 l (go l) | JSet l => H9 l (go l)
    | JMap m => H10 m ((fix gom (m : list (jkey * jval)) : Forall (fun kv => P (snd kv)) m :=
                          match m with
                          | [] => Forall_nil _
                          | kv :: t => Forall_cons kv (jval_ind' (snd kv)) (gom t)
                          end) m)
    end.
End JInd.

(** a dict built from pairs with distinct keys is the list of pairs *)
Lemma dict_set_fresh k v m : existsb (str_eqb k) (map fst m) = false -> dict_set k v m = m ++ [(k, v)].
Proof.
  induction m as [|[k' v'] m IH]; simpl; [reflexivity|]. intro H.
  apply orb_false_iff in H as [H1 H2].
  assert (E : str_eqb k' k = false).
  { destruct (str_eqb k' k) eqn:E; [|reflexivity]. apply str_eqb_eq in E. subst.
    rewrite str_eqb_refl in H1. discriminate. }
  rewrite E, (IH H2). reflexivity.
Qed.

Lemma dict_of_distinct (l : list (str * pj)) : forall acc,
  nodupb (map fst acc ++ map fst l) = true ->
  fold_left (fun a kv => dict_set (fst kv) (snd kv) a) l acc = acc ++ l.
Proof.
  induction l as [|[k v] l IH]; intros acc H; simpl.
  - rewrite app_nil_r. reflexivity.
  - rewrite dict_set_fresh.
    + rewrite IH; [rewrite <- app_assoc; reflexivity|].
      rewrite map_app. simpl. rewrite <- app_assoc. exact H.
    + clear IH. induction acc as [|[k' v'] acc IHa]; [reflexivity|]. simpl in *.
      apply andb_true_iff in H as [H1 H2]. apply negb_true_iff in H1.
      rewrite existsb_app in H1. apply orb_false_iff in H1 as [_ H1]. simpl in H1.
      apply orb_false_iff in H1 as [H1 _].
      assert (E : str_eqb k k' = false).
      { destruct (str_eqb k k') eqn:E; [|reflexivity]. apply str_eqb_eq in E. subst.
        rewrite str_eqb_refl in H1. discriminate. }
      rewrite E. simpl. apply IHa, H2.
Qed.

Lemma coercion_layers v : jkeys_distinct v = true -> from_py (to_py v) = coerce v.
Proof.
  induction v using jval_ind'; intro D; simpl in *; try reflexivity.
  - f_equal. rewrite map_map. apply map_ext_in. intros x I.
    rewrite Forall_forall in H. rewrite forallb_forall in D. auto.
  - f_equal. rewrite map_map. apply map_ext_in. intros x I.
    rewrite Forall_forall in H. rewrite forallb_forall in D. auto.
  - f_equal. rewrite map_map. apply map_ext_in. intros x I.
    rewrite Forall_forall in H. rewrite forallb_forall in D. auto.
  - apply andb_true_iff in D as [ND D].
    rewrite dict_of_distinct by (simpl; rewrite map_map; exact ND).
    simpl. f_equal. rewrite map_map. apply map_ext_in. intros kv I. simpl.
    rewrite Forall_forall in H. rewrite forallb_forall in D. rewrite H; auto.
Qed.

(** the objects [to_py] hands to json.dumps always have distinct keys *)
Fixpoint pj_wf (p : pj) : bool :=
  match p with
  | PArr l => forallb pj_wf l
  | PObj m => nodupb (map fst m) && forallb (fun kv => pj_wf (snd kv)) m
  | _ => true
  end.

Lemma to_py_wf v : jkeys_distinct v = true -> pj_wf (to_py v) = true.
Proof.
  induction v using jval_ind'; intro D; simpl in *; try reflexivity.
  - rewrite forallb_forall in *. intros p I. apply in_map_iff in I as (x & <- & I).
    rewrite Forall_forall in H. auto.
  - rewrite forallb_forall in *. intros p I. apply in_map_iff in I as (x & <- & I).
    rewrite Forall_forall in H. auto.
  - rewrite forallb_forall in *. intros p I. apply in_map_iff in I as (x & <- & I).
    rewrite Forall_forall in H. auto.
  - apply andb_true_iff in D as [ND D].
    rewrite dict_of_distinct by (simpl; rewrite map_map; exact ND).
    simpl. rewrite map_map. simpl. rewrite ND. simpl.
    rewrite forallb_forall in *. intros p I. apply in_map_iff in I as (x & <- & I). simpl.
    rewrite Forall_forall in H. auto.
Qed.

Section PyJson.
  (** CPython's json.dumps (with the options write-str passes) and json.loads *)
  Variable dumps : pj -> str.
  Variable loads : str -> option pj.
  Hypothesis loads_dumps : forall p, pj_wf p = true -> loads (dumps p) = Some p.

  Definition write_str (v : jval) : str := dumps (to_py v).
  Definition read_str (s : str) : option jval := option_map from_py (loads s).

  Theorem json_coercion v : jkeys_distinct v = true -> read_str (write_str v) = Some (coerce v).
  Proof.
    intro D. unfold read_str, write_str. rewrite loads_dumps by (apply to_py_wf, D).
    simpl. rewrite coercion_layers by exact D. reflexivity.
  Qed.
End PyJson.

(** colliding key names lose an entry (not excluded by the documentation of [:key-fn]) *)
Example json_key_collision :
  from_py (to_py (JMap [(JKKw (Some [97]) [120], JInt 1); (JKKw (Some [98]) [120], JInt 2)]))
  = JMap [(JKStr [120], JInt 2)].
Proof. reflexivity. Qed.
