(** C19, JSON: the two coercion layers of src/basilisp/json.lpy around Python's json module.
    [to_py] is what [json.dumps] sees after the [:default] hook ([to-json-encodeable*]) has
    been applied everywhere; [from_py] is [from-decoded-json*].  Python's [json.dumps] /
    [json.loads] themselves are parameters of the theorem (see JsonProofs.v). *)
From Coq Require Import List NArith ZArith Bool.
Import ListNotations.
From Verif Require Import Common.ListX.
Local Open Scope N_scope.

Inductive jkey :=
| JKStr (s : str)
| JKKw (ns : option str) (nm : str)
| JKSym (ns : option str) (nm : str).

Inductive jval :=
| JNil
| JBool (b : bool)
| JInt (z : Z)
| JFloat (tok : str)           (* a finite float, by its repr *)
| JStr (s : str)
| JKw (ns : option str) (nm : str)
| JSym (ns : option str) (nm : str)
| JVec (l : list jval)
| JList (l : list jval)
| JSet (l : list jval)
| JMap (m : list (jkey * jval)).

(** what Python's json module works on *)
Inductive pj :=
| PNull
| PBool (b : bool)
| PInt (z : Z)
| PFloat (tok : str)
| PStr (s : str)
| PArr (l : list pj)
| PObj (m : list (str * pj)).     (* a dict: insertion order, keys distinct *)

Definition qualified (ns : option str) (nm : str) : str :=
  match ns with Some n => n ++ 47 :: nm | None => nm end.

(** the default [:key-fn] of write-str is [name]: the namespace of a keyword/symbol key is dropped *)
Definition key_name (k : jkey) : str :=
  match k with JKStr s => s | JKKw _ nm => nm | JKSym _ nm => nm end.

(** [dict(pairs)]: a repeated key keeps its first position and takes the last value *)
Fixpoint dict_set (k : str) (v : pj) (m : list (str * pj)) : list (str * pj) :=
  match m with
  | [] => [(k, v)]
  | (k', v') :: t => if str_eqb k' k then (k', v) :: t else (k', v') :: dict_set k v t
  end.

Fixpoint to_py (v : jval) : pj :=
  match v with
  | JNil => PNull
  | JBool b => PBool b
  | JInt z => PInt z
  | JFloat t => PFloat t
  | JStr s => PStr s
  | JKw ns nm | JSym ns nm => PStr (qualified ns nm)          (* kw-or-sym-to-encodeable *)
  | JVec l | JList l | JSet l => PArr (map to_py l)             (* seq-to-encodeable *)
  | JMap m =>                                                   (* map-to-encodeable *)
      PObj (fold_left (fun acc kv => dict_set (fst kv) (snd kv) acc)
                      (map (fun kv => (key_name (fst kv), to_py (snd kv))) m) [])
  end.

(** from-decoded-json* with the default (identity) [:key-fn] *)
Fixpoint from_py (p : pj) : jval :=
  match p with
  | PNull => JNil
  | PBool b => JBool b
  | PInt z => JInt z
  | PFloat t => JFloat t
  | PStr s => JStr s
  | PArr l => JVec (map from_py l)
  | PObj m => JMap (map (fun kv => (JKStr (fst kv), from_py (snd kv))) m)
  end.
