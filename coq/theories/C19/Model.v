(** C19 model of the code as it is: one file per codec.
    [Bencode] basilisp.contrib.bencode (encode, decode*, decode, decode-all),
    [Edn]     basilisp.edn writer and reader, and the Lisp reader on the writer's output,
    [Json]    the coercion layers of basilisp.json around Python's json module. *)
From Verif Require Export C19.Bencode C19.Edn C19.Json.
