(** C19, EDN: executable model of the writer of src/basilisp/edn.lpy (:521-625) and of two
    readers applied to what that writer emits:
      [Edn]   the recursive-descent reader of edn.lpy (:111-520), and
      [Lisp]  basilisp.lang.reader (core/read-string), restricted to the token language the
              EDN writer produces (the property reads EDN output "through the EDN reader and
              through the Lisp reader alike").
    Strings are [list N] of code points.  A float is represented by the token Python's
    [repr] prints for it (floats are opaque: [py_float], CPython's [float(str)] followed by
    [repr], is a parameter).  Maps and sets are lists in the order the writer walks them.

    What is NOT modelled (the reader answers [RErr 7], "outside the model"): character
    literals, tagged elements (#inst, #uuid), ##Inf/##NaN, comments, #_ discard, the Lisp
    reader's quote/meta/deref/syntax-quote prefixes and its octal/hex/ratio/radix/complex/
    N/M number forms and \u escapes, duplicate detection in sets/maps. *)
From Coq Require Import List NArith ZArith Bool Lia.
Import ListNotations.
From Verif Require Import Common.ListX Gen.Tables C19.Bencode.
Local Open Scope N_scope.

Inductive edn :=
| ENil
| EBool (b : bool)
| EInt (z : Z)
| EFloat (tok : str)
| EStr (s : str)
| EKw (ns : option str) (nm : str)
| ESym (ns : option str) (nm : str)
| EVec (l : list edn)
| EList (l : list edn)
| ESet (l : list edn)
| EMap (m : list (edn * edn)).

Inductive dialect := Edn | Lisp.
Definition is_lisp (d : dialect) : bool := match d with Lisp => true | Edn => false end.

(** ** Writer *)
Fixpoint assoc {A} (c : N) (t : list (N * A)) : option A :=
  match t with
  | [] => None
  | (k, v) :: r => if k =? c then Some v else assoc c r
  end.

(** [str.translate(str-escape-chars-translation)] *)
Definition esc_char (c : N) : str :=
  match assoc c edn_write_escapes with Some r => r | None => [c] end.
Definition escape (s : str) : str := flat_map esc_char s.

Definition qualified (ns : option str) (nm : str) : str :=
  match ns with Some n => n ++ 47 :: nm | None => nm end.

(** entries separated by one space *)
Fixpoint write_elems (ws : list str) : str :=
  match ws with
  | [] => []
  | x :: t => x ++ match t with [] => [] | _ => 32 :: write_elems t end
  end.

Definition s_nil : str := [110; 105; 108].
Definition s_true : str := [116; 114; 117; 101].
Definition s_false : str := [102; 97; 108; 115; 101].

Fixpoint write (v : edn) : str :=
  match v with
  | ENil => s_nil
  | EBool true => s_true
  | EBool false => s_false
  | EInt z => dec_Z z
  | EFloat tok => tok
  | EStr s => 34 :: escape s ++ [34]
  | EKw ns nm => 58 :: qualified ns nm
  | ESym ns nm => qualified ns nm
  | EVec l => 91 :: write_elems (map write l) ++ [93]
  | EList l => 40 :: write_elems (map write l) ++ [41]
  | ESet l => 35 :: 123 :: write_elems (map write l) ++ [125]
  | EMap m => 123 :: write_elems (concat (map (fun kv => [write (fst kv); write (snd kv)]) m)) ++ [125]
  end.

(** ** Readers *)
Inductive rres (A : Type) := ROk (a : A) | RErr (cls : N) | RFuel.
Arguments ROk {A} a.
Arguments RErr {A} cls.
Arguments RFuel {A}.
(** error classes: 1 the reader's own syntax error (ExceptionInfo for edn, reader.SyntaxError
    for lisp), 2 another exception class escapes (ValueError of python/int, python/float),
    7 input outside the model *)

(** Python's [\s] for str patterns ([str.isspace]) plus the comma *)
Definition is_ws (c : N) : bool :=
  (c =? 44) || (c =? 32) || ((9 <=? c) && (c <=? 13)) || ((28 <=? c) && (c <=? 31))
  || (c =? 133) || (c =? 160) || (c =? 5760) || ((8192 <=? c) && (c <=? 8202))
  || (c =? 8232) || (c =? 8233) || (c =? 8239) || (c =? 8287) || (c =? 12288).

Definition mem (c : N) (l : list N) : bool := existsb (N.eqb c) l.

(** characters that end a symbol/keyword token: edn.lpy [dispatch-chars]; reader.py: the keys
    of [_read_dispatch] other than # ' % *)
Definition lisp_dispatch_chars : list N := [40; 41; 91; 93; 123; 125; 34; 92; 94; 59; 96; 126; 64].
Definition term (d : dialect) (c : N) : bool :=
  is_ws c || mem c (if is_lisp d then lisp_dispatch_chars else edn_dispatch_chars).

Fixpoint take_token (d : dialect) (l : str) : str * str :=
  match l with
  | [] => ([], [])
  | c :: t => if term d c then ([], l) else let (a, b) := take_token d t in (c :: a, b)
  end.

Fixpoint drop_ws (l : str) : str :=
  match l with
  | c :: t => if is_ws c then drop_ws t else l
  | [] => []
  end.

(** reader.py [identifier_literal], full match, on a token without whitespace: an optional
    namespace part (first character no digit and no slash, then anything, then a slash)
    followed by a name that is either a lone slash or starts with a non-digit non-slash and
    contains no slash.  Python's Unicode digit class is approximated by the ASCII digits. *)
Definition ident_start (c : N) : bool := negb (is_digit c) && negb (c =? 47).
Fixpoint after_last_slash (l : str) : option str :=   (* None: no slash *)
  match l with
  | [] => None
  | c :: t => match after_last_slash t with
              | Some r => Some r
              | None => if c =? 47 then Some t else None
              end
  end.
Fixpoint ends_2slash (l : str) : bool :=
  match l with
  | [a; b] => (a =? 47) && (b =? 47)
  | _ :: t => ends_2slash t
  | [] => false
  end.
Definition valid_ident (tok : str) : bool :=
  match tok with
  | [] => false
  | c :: t =>
      match t with [] => (c =? 47) || ident_start c | _ =>
      ident_start c &&
      match after_last_slash tok with
      | None => true
      | Some [] => ends_2slash tok
      | Some (c2 :: _) => negb (is_digit c2)
      end
      end
  end.

(** split at the first slash (unless the token is "/" itself) *)
Fixpoint split_slash (l : str) : option (str * str) :=
  match l with
  | [] => None
  | c :: t => if c =? 47 then Some ([], t)
              else match split_slash t with Some (a, b) => Some (c :: a, b) | None => None end
  end.
Definition split_ident (tok : str) : option str * str :=
  if str_eqb tok [47] then (None, tok)
  else match split_slash tok with Some (a, b) => (Some a, b) | None => (None, tok) end.

(** every '.'-separated segment non-empty (Python [str.split(".")]) *)
Fixpoint segs_ok_from (l : str) (cur_empty : bool) : bool :=
  match l with
  | [] => negb cur_empty
  | c :: t => if c =? 46 then negb cur_empty && segs_ok_from t true else segs_ok_from t false
  end.
Definition segs_ok (ns : str) : bool := segs_ok_from ns true.

Fixpoint ends_with (c : N) (l : str) : bool :=
  match l with [] => false | [x] => x =? c | _ :: t => ends_with c t end.

Definition starts_with (c : N) (l : str) : bool := match l with x :: _ => x =? c | [] => false end.

Definition read_namespaced (d : dialect) (l : str) : rres ((option str * str) * str) :=
  let (tok, rest) := take_token d l in
  if valid_ident tok then ROk (split_ident tok, rest) else RErr 1.

Definition read_sym (d : dialect) (l : str) : rres (edn * str) :=
  match read_namespaced d l with
  | ROk ((ns, nm), rest) =>
      match d, ns with
      | Edn, None =>
          if str_eqb nm s_nil then ROk (ENil, rest)
          else if str_eqb nm s_true then ROk (EBool true, rest)
          else if str_eqb nm s_false then ROk (EBool false, rest)
          else ROk (ESym None nm, rest)
      | Edn, Some n =>
          if starts_with 46 nm then RErr 1
          else if negb (segs_ok n) then RErr 1
          else ROk (ESym (Some n) nm, rest)
      | Lisp, _ =>
          if ends_with 35 nm then RErr 1                              (* gensym outside syntax quote *)
          else if (match ns with Some n => negb (segs_ok n) | None => false end) then RErr 1
          else match ns with
               | None =>
                   if str_eqb nm s_nil then ROk (ENil, rest)
                   else if str_eqb nm s_true then ROk (EBool true, rest)
                   else if str_eqb nm s_false then ROk (EBool false, rest)
                   else ROk (ESym None nm, rest)
               | Some n => ROk (ESym (Some n) nm, rest)
               end
      end
  | RErr e => RErr e
  | RFuel => RFuel
  end.

Fixpoint take_digits (l : str) : str * str :=
  match l with
  | c :: t => if is_digit c then let (a, b) := take_digits t in (c :: a, b) else ([], l)
  | [] => ([], [])
  end.

(** after the leading ':' *)
Definition read_kw (d : dialect) (l : str) : rres (edn * str) :=
  if is_lisp d && starts_with 58 l then RErr 7                       (* ::auto-resolved *)
  else if is_lisp d && (match l with c :: _ => is_digit c | [] => false end)
  then let (ds, rest) := take_digits l in ROk (EKw None ds, rest)     (* CLJ-1252 numeric keywords *)
  else
    match read_namespaced d l with
    | ROk ((ns, nm), rest) =>
        if is_lisp d then ROk (EKw ns nm, rest)
        else if mem 46 nm then RErr 1                                 (* "Found '.' in keyword name" *)
        else ROk (EKw ns nm, rest)
    | RErr e => RErr e
    | RFuel => RFuel
    end.

(** the string reader, after the opening quote *)
Fixpoint read_str_body (d : dialect) (l : str) (acc : str) : rres (str * str) :=
  match l with
  | [] => RErr 1
  | c :: t =>
      if c =? 92 then
        match t with
        | [] => RErr 1
        | e :: t' => match assoc e edn_str_escape_chars with
                     | Some r => read_str_body d t' (acc ++ [r])
                     | None => if is_lisp d && ((e =? 117) || (e =? 85)) then RErr 7 else RErr 1
                     end
        end
      else if c =? 34 then ROk (acc, t)
      else read_str_body d t (acc ++ [c])
  end.

Section Readers.
  (** CPython [repr(float(s))] for a digits/dot/minus string; [None] = ValueError *)
  Variable py_float : str -> option str.

  Definition begin_num (c : N) : bool := is_digit c || (c =? 45).

  (** StreamReader: at most 3 pushbacks are possible from the normal position *)
  Definition pushback_ok (chars : str) : bool := (length chars <=? 2)%nat.

  (** edn.lpy read-sym-or-num :numeric *)
  Fixpoint edn_num (l : str) (chars : str) (is_float : bool) : rres (edn * str) :=
    let finish (rest : str) :=
      if is_float then match py_float chars with Some tok => ROk (EFloat tok, rest) | None => RErr 2 end
      else match py_int chars with Some z => ROk (EInt z, rest) | None => RErr 2 end in
    match l with
    | [] => finish []
    | c :: t =>
        if c =? 45 then
          if (match t with c2 :: _ => begin_num c2 | [] => false end)
          then edn_num t (chars ++ [45]) is_float
          else if pushback_ok chars then read_sym Edn (chars ++ l) else RErr 1
        else if c =? 46 then (if is_float then RErr 1 else edn_num t (chars ++ [46]) true)
        else if is_digit c then edn_num t (chars ++ [c]) is_float
        else finish l
    end.

  (** reader.py _read_num: the token, then its classification *)
  Definition maybe_num (c : N) : bool :=
    is_digit c || ((65 <=? c) && (c <=? 90)) || ((97 <=? c) && (c <=? 122)) || (c =? 47) || (c =? 46) || (c =? 43).

  (** canonical digit run: one digit, or a non-zero digit followed by digits *)
  Definition int_body (l : str) : bool :=
    match l with
    | [] => false
    | [c] => is_digit c
    | c :: t => is_digit c && negb (c =? 48) && forallb is_digit t
    end.
  Definition strip_minus (l : str) : str := match l with c :: t => if c =? 45 then t else l | [] => l end.
  Definition is_neg (l : str) : bool := starts_with 45 l.
  Fixpoint split_at (c : N) (l : str) : option (str * str) :=
    match l with
    | [] => None
    | x :: t => if x =? c then Some ([], t)
                else match split_at c t with Some (a, b) => Some (x :: a, b) | None => None end
    end.
  Definition split_exp (l : str) : option (str * str) :=
    match split_at 101 l with Some r => Some r | None => split_at 69 l end.

  Definition lisp_classify (s : str) (rest : str) : rres (edn * str) :=
    let body := strip_minus s in
    if int_body body then
      match py_int s with Some z => ROk (EInt z, rest) | None => RErr 2 end
    else
      match split_at 46 body with
      | Some (ip, fp) =>
          if int_body ip && forallb is_digit fp then
            match py_float s with Some tok => ROk (EFloat tok, rest) | None => RErr 2 end
          else RErr 7
      | None =>
          match split_exp body with
          | Some (m, e) =>
              (* -?(\d+)[Ee]([+-]?\d+): since the repair of F-03c/F-19c the reader returns float(s) *)
              let ed := match e with c :: t => if (c =? 43) || (c =? 45) then t else e | [] => e end in
              if negb (forallb is_digit m) || negb (forallb is_digit ed)
                 || (match m with [] => true | _ => false end) || (match ed with [] => true | _ => false end)
              then RErr 7
              else match py_float s with Some tok => ROk (EFloat tok, rest) | None => RErr 2 end
          | None => if forallb (fun c => is_digit c || (c =? 45)) s && negb (starts_with 48 body)
                    then RErr 1 else RErr 7          (* 0-prefixed: octal *)
          end
      end.

  Fixpoint lisp_num (l : str) (chars : str) : rres (edn * str) :=
    match l with
    | [] => lisp_classify chars []
    | c :: t =>
        if c =? 45 then
          if (match t with c2 :: _ => begin_num c2 | [] => false end)
          then lisp_num t (chars ++ [45])
          else if pushback_ok chars then read_sym Lisp (chars ++ l) else RErr 1
        else if maybe_num c then lisp_num t (chars ++ [c])
        else lisp_classify chars l
    end.

  Fixpoint pair_up (l : list edn) : option (list (edn * edn)) :=
    match l with
    | [] => Some []
    | k :: v :: t => option_map (cons (k, v)) (pair_up t)
    | [_] => None
    end.

  (** which reader function the first character selects (edn.lpy read-next and
      read-sym-or-num; reader.py _read_next): 1 list, 2 vector, 3 map, 4 string, 5 '#',
      6 not modelled, 7 number, 8 whitespace, 9 keyword, 10 symbol *)
  Definition kind (d : dialect) (c : N) : N :=
    if c =? 40 then 1 else if c =? 91 then 2 else if c =? 123 then 3 else if c =? 34 then 4
    else if c =? 35 then 5
    else if (c =? 92) || (c =? 59) then 6
    else if is_lisp d && ((c =? 39) || (c =? 94) || (c =? 96) || (c =? 126) || (c =? 64)) then 6
    else if begin_num c then 7
    else if is_ws c then 8
    else if c =? 58 then 9
    else 10.

  Fixpoint read_next (d : dialect) (fuel : nat) (l : str) {struct fuel} : rres (edn * str) :=
    match fuel with
    | O => RFuel
    | S f =>
        match l with
        | [] => RErr 1                                   (* EOF *)
        | c :: t =>
            let k := kind d c in
            if k =? 1 then
              match read_coll d f 41 t [] with
              | ROk (vs, r) => ROk (EList vs, r) | RErr e => RErr e | RFuel => RFuel end
            else if k =? 2 then
              match read_coll d f 93 t [] with
              | ROk (vs, r) => ROk (EVec vs, r) | RErr e => RErr e | RFuel => RFuel end
            else if k =? 3 then
              match read_coll d f 125 t [] with
              | ROk (vs, r) => match pair_up vs with Some m => ROk (EMap m, r) | None => RErr 1 end
              | RErr e => RErr e | RFuel => RFuel end
            else if k =? 4 then
              match read_str_body d t [] with
              | ROk (s, r) => ROk (EStr s, r) | RErr e => RErr e | RFuel => RFuel end
            else if k =? 5 then
              match t with
              | c2 :: t' =>
                  if c2 =? 123 then
                    match read_coll d f 125 t' [] with
                    | ROk (vs, r) => ROk (ESet vs, r) | RErr e => RErr e | RFuel => RFuel end
                  else RErr 7
              | [] => RErr 7
              end
            else if k =? 6 then RErr 7
            else if k =? 7 then (if is_lisp d then lisp_num l [] else edn_num l [] false)
            else if k =? 8 then read_next d f (drop_ws t)
            else if k =? 9 then read_kw d t
            else read_sym d l
        end
    end
  with read_coll (d : dialect) (fuel : nat) (close : N) (l : str) (acc : list edn) {struct fuel}
    : rres (list edn * str) :=
    match fuel with
    | O => RFuel
    | S f =>
        match drop_ws l with
        | [] => RErr 1                                   (* EOF in collection *)
        | c :: t =>
            if c =? close then ROk (acc, t)
            else match read_next d f (c :: t) with
                 | ROk (v, r) => read_coll d f close r (acc ++ [v])
                 | RErr e => RErr e
                 | RFuel => RFuel
                 end
        end
    end.

  (** [read-string]: the first form of the text (the rest of the text is ignored) *)
  Definition read_string (d : dialect) (s : str) : rres edn :=
    match read_next d (S (length s)) s with
    | ROk (v, _) => ROk v
    | RErr e => RErr e
    | RFuel => RFuel
    end.
End Readers.

(** ** The sub-universe of the round-trip theorem (executable) *)
(** characters allowed in symbol and keyword names: printable ASCII that is no delimiter,
    dispatch or macro character of either reader, and not '/' *)
Definition unsafe_chars : list N :=
  [40; 41; 91; 93; 123; 125; 58; 34; 92; 59; 94; 96; 126; 64; 35; 39; 37; 44; 47].
Definition safe (c : N) : bool := (33 <=? c) && (c <=? 126) && negb (mem c unsafe_chars).

Definition name_ok (s : str) : bool :=
  match s with
  | [] => false
  | c :: _ => negb (is_digit c) && forallb safe s
  end.

Definition ns_ok (ns : option str) : bool :=
  match ns with None => true | Some n => name_ok n && segs_ok n end.

Definition kw_ok (d : dialect) (ns : option str) (nm : str) : bool :=
  name_ok nm && ns_ok ns && (is_lisp d || negb (mem 46 nm)).

(** a leading '-' must not look like the start of a number *)
Definition dash_ok (tok : str) : bool :=
  match tok with
  | c0 :: c :: _ => negb ((c0 =? 45) && begin_num c)
  | _ => true
  end.

Definition sym_ok (ns : option str) (nm : str) : bool :=
  name_ok nm && ns_ok ns && dash_ok (qualified ns nm) &&
  match ns with
  | None => negb (str_eqb nm s_nil) && negb (str_eqb nm s_true) && negb (str_eqb nm s_false)
  | Some _ => negb (starts_with 46 nm)
  end.

(** -?D.DDD with a canonical integer part: the exponent-free form of [repr(float)] *)
Definition plain_float (tok : str) : bool :=
  match split_at 46 (strip_minus tok) with
  | Some (ip, fp) => int_body ip && forallb is_digit fp && negb (match fp with [] => true | _ => false end)
  | None => false
  end.

Section Guard.
  Variable is_repr : str -> bool.     (* the token is what repr prints for some float *)
  Fixpoint guard (d : dialect) (v : edn) : bool :=
    match v with
    | ENil | EBool _ | EInt _ | EStr _ => true
    | EFloat tok => plain_float tok && is_repr tok
    | EKw ns nm => kw_ok d ns nm
    | ESym ns nm => sym_ok ns nm
    | EVec l | EList l | ESet l => forallb (guard d) l
    | EMap m => forallb (fun kv => guard d (fst kv) && guard d (snd kv)) m
    end.
End Guard.
