(** C19, EDN: the writer's output reads back (EDN reader and Lisp reader) on the guarded
    sub-universe; refutations for the findings. *)
From Coq Require Import List NArith ZArith Bool Lia.
Import ListNotations.
From Verif Require Import Common.ListX Gen.Tables C19.Bencode C19.BencodeProofs C19.Edn.
Local Open Scope N_scope.

(** * Reflection over a finite range of code points *)
Lemma range_reflect (P : N -> bool) (lo len : nat) :
  forallb P (map N.of_nat (seq lo len)) = true ->
  forall c, N.of_nat lo <= c < N.of_nat (lo + len) -> P c = true.
Proof.
  intros H c R. rewrite forallb_forall in H. apply H.
  apply in_map_iff. exists (N.to_nat c). split; [apply N2Nat.id|].
  apply in_seq. lia.
Qed.

(** everything the proofs need to know about a character allowed in names, checked
    against the generated tables *)
Definition safe_facts (c : N) : bool :=
  implb (safe c)
    (negb (term Edn c) && negb (term Lisp c) && negb (is_ws c) && negb (c =? 47) && negb (c =? 58)
     && negb (c =? 35)
     && (is_digit c || (c =? 45) || ((kind Edn c =? 10) && (kind Lisp c =? 10)))
     && implb (c =? 45) ((kind Edn c =? 7) && (kind Lisp c =? 7))).

Lemma safe_facts_all : forallb safe_facts (map N.of_nat (seq 33 94)) = true.
Proof. vm_compute. reflexivity. Qed.

Lemma safe_range c : safe c = true -> 33 <= c <= 126.
Proof.
  unfold safe. intro H. apply andb_true_iff in H as [H _]. apply andb_true_iff in H as [A B].
  apply N.leb_le in A, B. lia.
Qed.

Lemma safe_fact c : safe c = true ->
  term Edn c = false /\ term Lisp c = false /\ is_ws c = false /\ c <> 47 /\ c <> 58 /\ c <> 35 /\
  (is_digit c = true \/ c = 45 \/ (kind Edn c = 10 /\ kind Lisp c = 10)) /\
  (c = 45 -> kind Edn c = 7 /\ kind Lisp c = 7).
Proof.
  intro S. pose proof (safe_range c S) as R.
  pose proof (range_reflect safe_facts 33 94 safe_facts_all c) as F.
  assert (F' : safe_facts c = true) by (apply F; simpl; lia). clear F.
  unfold safe_facts in F'. rewrite S in F'. cbn [implb] in F'.
  apply andb_true_iff in F' as [F' F8]. apply andb_true_iff in F' as [F' F7].
  apply andb_true_iff in F' as [F' F6]. apply andb_true_iff in F' as [F' F5].
  apply andb_true_iff in F' as [F' F4]. apply andb_true_iff in F' as [F' F3].
  apply andb_true_iff in F' as [F1 F2].
  apply negb_true_iff in F1, F2, F3, F4, F5, F6.
  apply N.eqb_neq in F4, F5, F6.
  repeat split; auto.
  - apply orb_true_iff in F7 as [F7|F7]; [apply orb_true_iff in F7 as [F7|F7]|].
    + left; exact F7.
    + right; left. apply N.eqb_eq; exact F7.
    + right; right. apply andb_true_iff in F7 as [A B]. apply N.eqb_eq in A, B. auto.
  - subst c. vm_compute. reflexivity.
  - subst c. vm_compute. reflexivity.
Qed.

Lemma term_of d c : term d c = match d with Edn => term Edn c | Lisp => term Lisp c end.
Proof. destruct d; reflexivity. Qed.

Lemma safe_not_term d c : safe c = true -> term d c = false.
Proof. intro S. destruct (safe_fact c S) as (A & B & _). destruct d; assumption. Qed.

(** * What may follow a written value: nothing, a space, or a closing bracket *)
Definition rest_ok (rest : str) : bool :=
  match rest with [] => true | c :: _ => mem c [32; 41; 93; 125] end.

Definition closer_facts (c : N) : bool :=
  term Edn c && term Lisp c && negb (is_digit c) && negb (c =? 45) && negb (c =? 46)
  && negb (maybe_num c) && negb (begin_num c).

Lemma rest_ok_head c t : rest_ok (c :: t) = true -> closer_facts c = true.
Proof.
  simpl. rewrite !orb_false_r. intro H.
  repeat (apply orb_true_iff in H as [H|H]); apply N.eqb_eq in H; subst; vm_compute; reflexivity.
Qed.

Lemma rest_term d rest : rest_ok rest = true -> match rest with [] => True | c :: _ => term d c = true end.
Proof.
  destruct rest as [|c t]; [trivial|]. intro H. apply rest_ok_head in H.
  unfold closer_facts in H. repeat (apply andb_true_iff in H as [H ?]).
  destruct d; assumption.
Qed.

(** * Tokens *)
Lemma take_token_app d tok rest :
  forallb safe tok = true -> rest_ok rest = true -> take_token d (tok ++ rest) = (tok, rest).
Proof.
  intros S R. induction tok as [|c t IH]; simpl.
  - pose proof (rest_term d rest R) as T. destruct rest as [|c r]; [reflexivity|]. simpl. rewrite T. reflexivity.
  - simpl in S. apply andb_true_iff in S as [Sc St]. rewrite (safe_not_term d c Sc), (IH St). reflexivity.
Qed.

Definition noslash (l : str) : bool := forallb (fun c => negb (c =? 47)) l.

Lemma safe_noslash l : forallb safe l = true -> noslash l = true.
Proof.
  unfold noslash. intro H. rewrite forallb_forall in *. intros c I. specialize (H c I).
  destruct (safe_fact c H) as (_ & _ & _ & N47 & _). apply negb_true_iff, N.eqb_neq, N47.
Qed.

Lemma after_last_slash_none l : noslash l = true -> after_last_slash l = None.
Proof.
  induction l as [|c t IH]; simpl; [reflexivity|]. intro H. apply andb_true_iff in H as [Hc Ht].
  rewrite (IH Ht). apply negb_true_iff in Hc. rewrite Hc. reflexivity.
Qed.

Lemma after_last_slash_app a b : noslash b = true -> after_last_slash (a ++ 47 :: b) = Some b.
Proof.
  intro H. induction a as [|c t IH]; simpl.
  - rewrite (after_last_slash_none b H). reflexivity.
  - rewrite IH. reflexivity.
Qed.

Lemma split_slash_none l : noslash l = true -> split_slash l = None.
Proof.
  induction l as [|c t IH]; simpl; [reflexivity|]. intro H. apply andb_true_iff in H as [Hc Ht].
  apply negb_true_iff in Hc. rewrite Hc, (IH Ht). reflexivity.
Qed.

Lemma split_slash_app a b : noslash a = true -> split_slash (a ++ 47 :: b) = Some (a, b).
Proof.
  induction a as [|c t IH]; simpl; [reflexivity|]. intro H. apply andb_true_iff in H as [Hc Ht].
  apply negb_true_iff in Hc. rewrite Hc, (IH Ht). reflexivity.
Qed.

Lemma name_ok_inv s : name_ok s = true ->
  exists c t, s = c :: t /\ is_digit c = false /\ forallb safe s = true /\ safe c = true.
Proof.
  destruct s as [|c t]; [discriminate|]. simpl. intro H. apply andb_true_iff in H as [D S].
  apply negb_true_iff in D. exists c, t. repeat split; auto.
  apply andb_true_iff in S as [S _]. exact S.
Qed.

Lemma ident_start_safe c : safe c = true -> is_digit c = false -> ident_start c = true.
Proof.
  intros S D. unfold ident_start. rewrite D. destruct (safe_fact c S) as (_ & _ & _ & N47 & _).
  apply N.eqb_neq in N47. rewrite N47. reflexivity.
Qed.

Lemma valid_ident_2 c c2 t :
  valid_ident (c :: c2 :: t) =
  ident_start c && match after_last_slash (c :: c2 :: t) with
                   | None => true
                   | Some [] => ends_2slash (c :: c2 :: t)
                   | Some (x :: _) => negb (is_digit x)
                   end.
Proof. reflexivity. Qed.

Lemma valid_qualified ns nm : name_ok nm = true -> ns_ok ns = true ->
  valid_ident (qualified ns nm) = true /\ split_ident (qualified ns nm) = (ns, nm)
  /\ forallb safe (match ns with Some n => n ++ nm | None => nm end) = true.
Proof.
  intros Hn Hs. destruct (name_ok_inv nm Hn) as (c & t & E & D & S & Sc).
  pose proof (safe_noslash nm S) as NS.
  destruct ns as [n|]; simpl.
  - simpl in Hs. apply andb_true_iff in Hs as [Hs _].
    destruct (name_ok_inv n Hs) as (c' & t' & E' & D' & S' & Sc').
    pose proof (safe_noslash n S') as NS'.
    repeat split.
    + subst n. simpl app. destruct (t' ++ 47 :: nm) as [|c2 t2] eqn:Et; [destruct t'; discriminate|].
      rewrite valid_ident_2, <- Et.
      rewrite (ident_start_safe c' Sc' D').
      change (c' :: t' ++ 47 :: nm) with ((c' :: t') ++ 47 :: nm).
      rewrite (after_last_slash_app _ nm NS). subst nm. rewrite D. reflexivity.
    + unfold split_ident. destruct (str_eqb (n ++ 47 :: nm) [47]) eqn:Eq.
      * apply str_eqb_eq in Eq. subst n. simpl in Eq. inversion Eq. subst c'.
        destruct (safe_fact 47 Sc') as (_ & _ & _ & N47 & _). congruence.
      * rewrite (split_slash_app n nm NS'). reflexivity.
    + rewrite forallb_app, S', S. reflexivity.
  - repeat split; auto.
    + subst nm. destruct t as [|c2 t2].
      * simpl. rewrite (ident_start_safe c Sc D). apply orb_true_r.
      * rewrite valid_ident_2, (ident_start_safe c Sc D).
        rewrite (after_last_slash_none (c :: c2 :: t2) NS). reflexivity.
    + unfold split_ident. destruct (str_eqb nm [47]) eqn:Eq.
      * apply str_eqb_eq in Eq. subst nm. inversion Eq. subst c.
        destruct (safe_fact 47 Sc) as (_ & _ & _ & N47 & _). congruence.
      * rewrite (split_slash_none nm NS). reflexivity.
Qed.

Lemma qualified_app ns nm rest : qualified ns nm ++ rest =
  (match ns with Some n => n ++ 47 :: nm | None => nm end) ++ rest.
Proof. destruct ns; reflexivity. Qed.

Lemma take_token_prefix d l X : forallb safe l = true ->
  take_token d (l ++ X) = (l ++ fst (take_token d X), snd (take_token d X)).
Proof.
  induction l as [|c t IH]; intro SS; simpl.
  - destruct (take_token d X); reflexivity.
  - simpl in SS. apply andb_true_iff in SS as [Sc St].
    rewrite (safe_not_term d c Sc), (IH St). reflexivity.
Qed.

Lemma term_slash d : term d 47 = false.
Proof. destruct d; vm_compute; reflexivity. Qed.

Lemma take_token_qualified d ns nm rest :
  name_ok nm = true -> ns_ok ns = true -> rest_ok rest = true ->
  take_token d (qualified ns nm ++ rest) = (qualified ns nm, rest).
Proof.
  intros Hn Hs R. destruct (valid_qualified ns nm Hn Hs) as (_ & _ & Sf).
  destruct ns as [n|]; unfold qualified.
  - rewrite forallb_app in Sf. apply andb_true_iff in Sf as [Sn Sm].
    rewrite <- app_assoc. rewrite (take_token_prefix d n _ Sn).
    change ((47 :: nm) ++ rest) with (47 :: (nm ++ rest)).
    cbn [take_token]. rewrite term_slash, (take_token_app d nm rest Sm R). reflexivity.
  - apply take_token_app; assumption.
Qed.

Lemma read_namespaced_qualified d ns nm rest :
  name_ok nm = true -> ns_ok ns = true -> rest_ok rest = true ->
  read_namespaced d (qualified ns nm ++ rest) = ROk ((ns, nm), rest).
Proof.
  intros Hn Hs R. destruct (valid_qualified ns nm Hn Hs) as (V & Sp & _).
  unfold read_namespaced. rewrite (take_token_qualified d ns nm rest Hn Hs R), V, Sp. reflexivity.
Qed.

(** * Symbols and keywords *)
Lemma qualified_head ns nm : name_ok nm = true -> ns_ok ns = true ->
  exists c t, qualified ns nm = c :: t /\ safe c = true /\ is_digit c = false.
Proof.
  intros Hn Hs. destruct (name_ok_inv nm Hn) as (c & t & E & D & S & Sc).
  destruct ns as [n|]; simpl.
  - simpl in Hs. apply andb_true_iff in Hs as [Hs _].
    destruct (name_ok_inv n Hs) as (c' & t' & E' & D' & S' & Sc'). subst n.
    exists c', (t' ++ 47 :: nm). auto.
  - exists c, t. auto.
Qed.

Lemma ends_with_safe l : forallb safe l = true -> ends_with 35 l = false.
Proof.
  induction l as [|x t IH]; [reflexivity|]. intro H. simpl in H. apply andb_true_iff in H as [Hx Ht].
  destruct t as [|y t'].
  - simpl. destruct (safe_fact x Hx) as (_ & _ & _ & _ & _ & N35 & _). apply N.eqb_neq. exact N35.
  - change (ends_with 35 (x :: y :: t')) with (ends_with 35 (y :: t')). apply IH, Ht.
Qed.

Lemma read_sym_ok d ns nm rest : sym_ok ns nm = true -> rest_ok rest = true ->
  read_sym d (qualified ns nm ++ rest) = ROk (ESym ns nm, rest).
Proof.
  unfold sym_ok. intros H R.
  apply andb_true_iff in H as [H H4]. apply andb_true_iff in H as [H H3]. apply andb_true_iff in H as [H1 H2].
  unfold read_sym. rewrite (read_namespaced_qualified d ns nm rest H1 H2 R).
  destruct (name_ok_inv nm H1) as (c & t & E & D & S & Sc).
  destruct ns as [n|].
  - apply negb_true_iff in H4. simpl in H2. apply andb_true_iff in H2 as [_ Sg].
    destruct d.
    + rewrite H4, Sg. reflexivity.
    + rewrite (ends_with_safe nm S), Sg. reflexivity.
  - apply andb_true_iff in H4 as [H4 Hf]. apply andb_true_iff in H4 as [Hn Ht].
    apply negb_true_iff in Hn, Ht, Hf.
    destruct d.
    + rewrite Hn, Ht, Hf. reflexivity.
    + rewrite (ends_with_safe nm S). cbn match. rewrite Hn, Ht, Hf. reflexivity.
Qed.

Lemma read_kw_ok d ns nm rest : kw_ok d ns nm = true -> rest_ok rest = true ->
  read_kw d (qualified ns nm ++ rest) = ROk (EKw ns nm, rest).
Proof.
  unfold kw_ok. intros H R.
  apply andb_true_iff in H as [H H3]. apply andb_true_iff in H as [H1 H2].
  destruct (qualified_head ns nm H1 H2) as (c & t & E & Sc & D).
  unfold read_kw.
  assert (A : starts_with 58 (qualified ns nm ++ rest) = false).
  { rewrite E. simpl. destruct (safe_fact c Sc) as (_ & _ & _ & _ & N58 & _). apply N.eqb_neq, N58. }
  assert (B : match qualified ns nm ++ rest with c :: _ => is_digit c | [] => false end = false).
  { rewrite E. simpl. exact D. }
  rewrite A, B, !andb_false_r.
  rewrite (read_namespaced_qualified d ns nm rest H1 H2 R).
  destruct d; simpl in *.
  - apply negb_true_iff in H3. rewrite H3. reflexivity.
  - reflexivity.
Qed.

(** * Numbers *)
Definition digit_facts (c : N) : bool :=
  implb (is_digit c)
    ((kind Edn c =? 7) && (kind Lisp c =? 7) && negb (c =? 45) && negb (c =? 46) && maybe_num c && begin_num c).

Lemma digit_facts_all : forallb digit_facts (map N.of_nat (seq 48 10)) = true.
Proof. vm_compute. reflexivity. Qed.

Lemma digit_fact c : is_digit c = true ->
  kind Edn c = 7 /\ kind Lisp c = 7 /\ (c =? 45) = false /\ (c =? 46) = false /\ maybe_num c = true
  /\ begin_num c = true.
Proof.
  intro D. pose proof (digit_range c D) as R.
  pose proof (range_reflect digit_facts 48 10 digit_facts_all c) as F.
  assert (F' : digit_facts c = true) by (apply F; simpl; lia). clear F.
  unfold digit_facts in F'. rewrite D in F'. cbn [implb] in F'.
  apply andb_true_iff in F' as [F' F6]. apply andb_true_iff in F' as [F' F5].
  apply andb_true_iff in F' as [F' F4]. apply andb_true_iff in F' as [F' F3].
  apply andb_true_iff in F' as [F1 F2].
  apply negb_true_iff in F3, F4. apply N.eqb_eq in F1, F2. auto 10.
Qed.

Lemma kind_digit d c : is_digit c = true -> kind d c = 7.
Proof. intro D. destruct (digit_fact c D) as (A & B & _). destruct d; assumption. Qed.

Lemma kind_minus d : kind d 45 = 7.
Proof. destruct d; vm_compute; reflexivity. Qed.

Section Num.
  Variable pf : str -> option str.

  Definition edn_finish (chars : str) (is_float : bool) (rest : str) : rres (edn * str) :=
    if is_float then match pf chars with Some tok => ROk (EFloat tok, rest) | None => RErr 2 end
    else match py_int chars with Some z => ROk (EInt z, rest) | None => RErr 2 end.

  Lemma edn_num_digits ds : forall chars fl rest, forallb is_digit ds = true ->
    edn_num pf (ds ++ rest) chars fl = edn_num pf rest (chars ++ ds) fl.
  Proof.
    induction ds as [|c t IH]; intros chars fl rest H; simpl app.
    - rewrite app_nil_r. reflexivity.
    - simpl in H. apply andb_true_iff in H as [Hc Ht].
      destruct (digit_fact c Hc) as (_ & _ & N45 & N46 & _).
      cbn [edn_num]. rewrite N45, N46, Hc. rewrite (IH _ _ _ Ht), <- app_assoc. reflexivity.
  Qed.

  Lemma edn_num_end chars fl rest : rest_ok rest = true ->
    edn_num pf rest chars fl = edn_finish chars fl rest.
  Proof.
    intro R. destruct rest as [|c t]; [reflexivity|].
    apply rest_ok_head in R. unfold closer_facts in R.
    repeat (apply andb_true_iff in R as [R ?]).
    repeat match goal with H : negb _ = true |- _ => apply negb_true_iff in H end.
    cbn [edn_num]. rewrite H2, H1, H3. reflexivity.
  Qed.

  Lemma maybe_not_minus c : maybe_num c = true -> (c =? 45) = false.
  Proof.
    unfold maybe_num. intro H. apply N.eqb_neq. intro E. subst c. vm_compute in H. discriminate.
  Qed.

  Lemma lisp_num_run tk : forall chars rest, forallb maybe_num tk = true ->
    lisp_num pf (tk ++ rest) chars = lisp_num pf rest (chars ++ tk).
  Proof.
    induction tk as [|c t IH]; intros chars rest H; simpl app.
    - rewrite app_nil_r. reflexivity.
    - simpl in H. apply andb_true_iff in H as [Hc Ht].
      cbn [lisp_num]. rewrite (maybe_not_minus c Hc), Hc, (IH _ _ Ht), <- app_assoc. reflexivity.
  Qed.

  Lemma lisp_num_end chars rest : rest_ok rest = true ->
    lisp_num pf rest chars = lisp_classify pf chars rest.
  Proof.
    intro R. destruct rest as [|c t]; [reflexivity|].
    apply rest_ok_head in R. unfold closer_facts in R.
    repeat (apply andb_true_iff in R as [R ?]).
    repeat match goal with H : negb _ = true |- _ => apply negb_true_iff in H end.
    cbn [lisp_num]. rewrite H2, H0. reflexivity.
  Qed.

  Lemma edn_num_minus chars fl c t : begin_num c = true ->
    edn_num pf (45 :: c :: t) chars fl = edn_num pf (c :: t) (chars ++ [45]) fl.
  Proof.
    intro B.
    transitivity (if begin_num c then edn_num pf (c :: t) (chars ++ [45]) fl
                  else if pushback_ok chars then read_sym Edn (chars ++ 45 :: c :: t) else RErr 1).
    - reflexivity.
    - rewrite B. reflexivity.
  Qed.

  Lemma lisp_num_minus chars c t : begin_num c = true ->
    lisp_num pf (45 :: c :: t) chars = lisp_num pf (c :: t) (chars ++ [45]).
  Proof.
    intro B.
    transitivity (if begin_num c then lisp_num pf (c :: t) (chars ++ [45])
                  else if pushback_ok chars then read_sym Lisp (chars ++ 45 :: c :: t) else RErr 1).
    - reflexivity.
    - rewrite B. reflexivity.
  Qed.

  Lemma digits_maybe ds : forallb is_digit ds = true -> forallb maybe_num ds = true.
  Proof.
    intro H. rewrite forallb_forall in *. intros c I. destruct (digit_fact c (H c I)) as (_ & _ & _ & _ & M & _). exact M.
  Qed.
End Num.

Lemma int_body_dec_N n : int_body (dec_N n) = true.
Proof.
  destruct (dec_N_spec n) as (_ & D & NE).
  destruct (N.eq_dec n 0) as [->|NZ]; [reflexivity|].
  assert (P : 0 < n) by lia.
  assert (B : n < 2 ^ N.of_nat (N.to_nat (N.size n))) by (rewrite N2Nat.id; apply N.size_gt).
  destruct (udigits_nonzero_head _ n P B) as (c & t & E & NZc).
  unfold dec_N in *. rewrite E in *. simpl in D. apply andb_true_iff in D as [Dc Dt].
  unfold int_body. destruct t as [|c2 t2]; [exact Dc|].
  rewrite Dc, Dt. apply N.eqb_neq in NZc. rewrite NZc. reflexivity.
Qed.

Lemma int_body_digits l : int_body l = true -> forallb is_digit l = true /\ l <> [].
Proof.
  destruct l as [|c t]; [discriminate|]. destruct t as [|c2 t2]; simpl.
  - intro H. rewrite H. split; [reflexivity|discriminate].
  - intro H. apply andb_true_iff in H as [H Ht]. apply andb_true_iff in H as [Hc _].
    rewrite Hc. simpl in Ht. rewrite Ht. split; [reflexivity|discriminate].
Qed.

(** * Strings *)
Definition table_ok : bool :=
  forallb (fun kr => match snd kr with
                     | [b; e] => (b =? 92) && match assoc e edn_str_escape_chars with
                                              | Some k => k =? fst kr
                                              | None => false
                                              end
                     | _ => false
                     end) edn_write_escapes
  && (match assoc 92 edn_write_escapes with Some _ => true | None => false end)
  && (match assoc 34 edn_write_escapes with Some _ => true | None => false end).

Lemma edn_escape_tables_ok : table_ok = true.
Proof. vm_compute. reflexivity. Qed.

Lemma assoc_in {A} c (t : list (N * A)) r : assoc c t = Some r -> In (c, r) t.
Proof.
  induction t as [|[k v] t IH]; simpl; [discriminate|].
  destruct (N.eqb_spec k c) as [->|_]; intro H; [inversion H; left; reflexivity|right; auto].
Qed.

Lemma esc_char_read d c t acc :
  read_str_body d (esc_char c ++ t) acc = read_str_body d t (acc ++ [c]).
Proof.
  pose proof edn_escape_tables_ok as T. unfold table_ok in T.
  apply andb_true_iff in T as [T T34]. apply andb_true_iff in T as [T T92].
  unfold esc_char. destruct (assoc c edn_write_escapes) as [r|] eqn:E.
  - apply assoc_in in E. rewrite forallb_forall in T. specialize (T _ E). cbn [snd fst] in T.
    destruct r as [|b [|e [|? ?]]]; try discriminate.
    apply andb_true_iff in T as [Tb Te]. apply N.eqb_eq in Tb. subst b.
    destruct (assoc e edn_str_escape_chars) as [k|] eqn:Ek; [|discriminate].
    apply N.eqb_eq in Te. subst k. cbn [app read_str_body]. change (92 =? 92) with true. cbn iota.
    rewrite Ek. reflexivity.
  - assert (N92 : (c =? 92) = false).
    { apply N.eqb_neq. intro X. subst c. rewrite E in T92. discriminate. }
    assert (N34 : (c =? 34) = false).
    { apply N.eqb_neq. intro X. subst c. rewrite E in T34. discriminate. }
    cbn [app read_str_body]. rewrite N92, N34. reflexivity.
Qed.

Lemma read_str_escape d s : forall acc rest,
  read_str_body d (escape s ++ 34 :: rest) acc = ROk (acc ++ s, rest).
Proof.
  induction s as [|c t IH]; intros acc rest.
  - simpl. rewrite app_nil_r. reflexivity.
  - unfold escape in *. simpl flat_map. rewrite <- app_assoc, esc_char_read, IH, <- app_assoc. reflexivity.
Qed.

(** * Induction over nested values, size *)
Section EdnInd.
  Variable P : edn -> Prop.
  Hypothesis Hnil : P ENil.
  Hypothesis Hbool : forall b, P (EBool b).
  Hypothesis Hint : forall z, P (EInt z).
  Hypothesis Hfloat : forall t, P (EFloat t).
  Hypothesis Hstr : forall s, P (EStr s).
  Hypothesis Hkw : forall ns nm, P (EKw ns nm).
  Hypothesis Hsym : forall ns nm, P (ESym ns nm).
  Hypothesis Hvec : forall l, Forall P l -> P (EVec l).
  Hypothesis Hlist : forall l, Forall P l -> P (EList l).
  Hypothesis Hset : forall l, Forall P l -> P (ESet l).
  Hypothesis Hmap : forall m, Forall (fun kv => P (fst kv) /\ P (snd kv)) m -> P (EMap m).
  Fixpoint edn_ind' (v : edn) : P v :=
    let go := fix go (l : list edn) : Forall P l :=
                match l with [] => Forall_nil _ | x :: t => Forall_cons x (edn_ind' x) (go t) end in
    match v with
    | ENil => Hnil
    | EBool b => Hbool b
    | EInt z => Hint z
    | EFloat t => Hfloat t
    | EStr s => Hstr s
    | EKw ns nm => Hkw ns nm
    | ESym ns nm => Hsym ns nm
    | EVec l => Hvec l (go l)
    | EList l => Hlist l (go l)
    | ESet l => Hset l (go l)
    | EMap m => Hmap m ((fix gom (m : list (edn * edn)) : Forall (fun kv => P (fst kv) /\ P (snd kv)) m :=
                           match m with
                           | [] => Forall_nil _
                           | kv :: t => Forall_cons kv (conj (edn_ind' (fst kv)) (edn_ind' (snd kv))) (gom t)
                           end) m)
    end.
End EdnInd.

Fixpoint esize (v : edn) : nat :=
  match v with
  | EVec l | EList l | ESet l => 2 + list_sum (map esize l)
  | EMap m => 2 + list_sum (map (fun kv => (esize (fst kv) + esize (snd kv))%nat) m)
  | _ => 1
  end%nat.

Lemma esize_pos v : (1 <= esize v)%nat.
Proof. destruct v; simpl; lia. Qed.

(** * Dispatch on the first character *)
Section Main.
  Variable pf : str -> option str.
  Variable isr : str -> bool.
  Hypothesis Hpf : forall t, isr t = true -> pf t = Some t.

  Lemma read_next_sym d f c t : kind d c = 10 -> read_next pf d (S f) (c :: t) = read_sym d (c :: t).
  Proof. intro K. cbn [read_next]. rewrite K. reflexivity. Qed.
  Lemma read_next_num d f c t : kind d c = 7 ->
    read_next pf d (S f) (c :: t) = if is_lisp d then lisp_num pf (c :: t) [] else edn_num pf (c :: t) [] false.
  Proof. intro K. cbn [read_next]. rewrite K. reflexivity. Qed.
  Lemma read_next_kw d f t : read_next pf d (S f) (58 :: t) = read_kw d t.
  Proof. destruct d; reflexivity. Qed.
  Lemma read_next_str d f t : read_next pf d (S f) (34 :: t) =
    match read_str_body d t [] with ROk (s, r) => ROk (EStr s, r) | RErr e => RErr e | RFuel => RFuel end.
  Proof. destruct d; reflexivity. Qed.
  Lemma read_next_vec d f t : read_next pf d (S f) (91 :: t) =
    match read_coll pf d f 93 t [] with ROk (vs, r) => ROk (EVec vs, r) | RErr e => RErr e | RFuel => RFuel end.
  Proof. destruct d; reflexivity. Qed.
  Lemma read_next_list d f t : read_next pf d (S f) (40 :: t) =
    match read_coll pf d f 41 t [] with ROk (vs, r) => ROk (EList vs, r) | RErr e => RErr e | RFuel => RFuel end.
  Proof. destruct d; reflexivity. Qed.
  Lemma read_next_set d f t : read_next pf d (S f) (35 :: 123 :: t) =
    match read_coll pf d f 125 t [] with ROk (vs, r) => ROk (ESet vs, r) | RErr e => RErr e | RFuel => RFuel end.
  Proof. destruct d; reflexivity. Qed.
  Lemma read_next_map d f t : read_next pf d (S f) (123 :: t) =
    match read_coll pf d f 125 t [] with
    | ROk (vs, r) => match pair_up vs with Some m => ROk (EMap m, r) | None => RErr 1 end
    | RErr e => RErr e | RFuel => RFuel end.
  Proof. destruct d; reflexivity. Qed.

  (** ** Leaves *)
  Lemma word_ok w : name_ok w = true -> forall d f rest, rest_ok rest = true ->
    read_next pf d (S f) (w ++ rest) = read_sym d (w ++ rest) \/ exists t, w = 45 :: t.
  Proof.
    intros Hw d f rest R. destruct (name_ok_inv w Hw) as (c & t & E & D & S & Sc). subst w.
    destruct (safe_fact c Sc) as (_ & _ & _ & _ & _ & _ & K & _).
    destruct K as [K|[K|[K1 K2]]].
    - congruence.
    - right. exists t. congruence.
    - left. simpl app. apply read_next_sym. destruct d; assumption.
  Qed.

  Lemma rt_const (w : str) (v : edn) : name_ok w = true -> (forall t, w <> 45 :: t) ->
    (forall d rest, rest_ok rest = true -> read_sym d (w ++ rest) = ROk (v, rest)) ->
    forall d f rest, rest_ok rest = true -> read_next pf d (S f) (w ++ rest) = ROk (v, rest).
  Proof.
    intros Hw N45 Hs d f rest R. destruct (word_ok w Hw d f rest R) as [E|(t & E)].
    - rewrite E. apply Hs, R.
    - exfalso. eapply N45; eauto.
  Qed.

  Lemma read_sym_const d (w : str) (v : edn) rest :
    name_ok w = true -> rest_ok rest = true ->
    (forall r : str, match d with
               | Edn => (if str_eqb w s_nil then ROk (ENil, r) else if str_eqb w s_true then ROk (EBool true, r)
                         else if str_eqb w s_false then ROk (EBool false, r) else ROk (ESym None w, r))
               | Lisp => (if ends_with 35 w then RErr 1 else
                          if str_eqb w s_nil then ROk (ENil, r) else if str_eqb w s_true then ROk (EBool true, r)
                          else if str_eqb w s_false then ROk (EBool false, r) else ROk (ESym None w, r))
               end = ROk (v, r)) ->
    read_sym d (w ++ rest) = ROk (v, rest).
  Proof.
    intros Hw R H. unfold read_sym.
    change (w ++ rest) with (qualified None w ++ rest).
    rewrite (read_namespaced_qualified d None w rest Hw eq_refl R).
    specialize (H rest). destruct d; exact H.
  Qed.

  Lemma rt_nil d f rest : rest_ok rest = true -> read_next pf d (S f) (s_nil ++ rest) = ROk (ENil, rest).
  Proof.
    apply rt_const; [reflexivity|discriminate|].
    intros d' r R. apply read_sym_const; [reflexivity|exact R|]. intro r'. destruct d'; reflexivity.
  Qed.
  Lemma rt_true d f rest : rest_ok rest = true -> read_next pf d (S f) (s_true ++ rest) = ROk (EBool true, rest).
  Proof.
    apply rt_const; [reflexivity|discriminate|].
    intros d' r R. apply read_sym_const; [reflexivity|exact R|]. intro r'. destruct d'; reflexivity.
  Qed.
  Lemma rt_false d f rest : rest_ok rest = true -> read_next pf d (S f) (s_false ++ rest) = ROk (EBool false, rest).
  Proof.
    apply rt_const; [reflexivity|discriminate|].
    intros d' r R. apply read_sym_const; [reflexivity|exact R|]. intro r'. destruct d'; reflexivity.
  Qed.

  Lemma strip_minus_digit c t : is_digit c = true -> strip_minus (c :: t) = c :: t.
  Proof. intro D. unfold strip_minus. destruct (digit_fact c D) as (_ & _ & N45 & _). rewrite N45. reflexivity. Qed.

  Lemma rt_int z d f rest : rest_ok rest = true -> read_next pf d (S f) (dec_Z z ++ rest) = ROk (EInt z, rest).
  Proof.
    intro R. pose proof (py_int_dec_Z z) as PI. unfold dec_Z in *.
    destruct (dec_N_spec (Z.abs_N z)) as (_ & D & NE). pose proof (int_body_dec_N (Z.abs_N z)) as IB.
    destruct (dec_N (Z.abs_N z)) as [|c t] eqn:E; [congruence|].
    pose proof D as D'. simpl in D'. apply andb_true_iff in D' as [Dc Dt].
    destruct (digit_fact c Dc) as (_ & _ & N45 & N46 & MN & BN).
    destruct (z <? 0)%Z.
    - simpl app. rewrite (read_next_num d f 45 _ (kind_minus d)).
      destruct d; simpl is_lisp; cbv iota.
      + rewrite (edn_num_minus pf _ _ c _ BN).
        change (c :: t ++ rest) with ((c :: t) ++ rest).
        rewrite (edn_num_digits pf (c :: t) _ _ _ D), (edn_num_end pf _ _ _ R).
        unfold edn_finish. simpl app. rewrite PI. reflexivity.
      + rewrite (lisp_num_minus pf _ c _ BN).
        change (c :: t ++ rest) with ((c :: t) ++ rest).
        rewrite (lisp_num_run pf (c :: t) _ _ (digits_maybe _ D)), (lisp_num_end pf _ _ R).
        unfold lisp_classify. simpl app. unfold strip_minus. change (45 =? 45) with true. cbv iota.
        rewrite IB, PI. reflexivity.
    - simpl app. rewrite (read_next_num d f c _ (kind_digit d c Dc)).
      destruct d; simpl is_lisp; cbv iota.
      + change (c :: t ++ rest) with ((c :: t) ++ rest).
        rewrite (edn_num_digits pf (c :: t) _ _ _ D), (edn_num_end pf _ _ _ R).
        unfold edn_finish. simpl app. rewrite PI. reflexivity.
      + change (c :: t ++ rest) with ((c :: t) ++ rest).
        rewrite (lisp_num_run pf (c :: t) _ _ (digits_maybe _ D)), (lisp_num_end pf _ _ R).
        unfold lisp_classify. simpl app. rewrite (strip_minus_digit c t Dc), IB, PI. reflexivity.
  Qed.

  (** floats: -?D.DDD tokens that [repr] prints *)
  Lemma split_at_app c l : forall a b, split_at c l = Some (a, b) -> l = a ++ c :: b.
  Proof.
    induction l as [|x t IH]; simpl; intros a b H; [discriminate|].
    destruct (N.eqb_spec x c) as [->|_].
    - inversion H; subst. reflexivity.
    - destruct (split_at c t) as [[a' b']|]; [|discriminate]. inversion H; subst.
      simpl. f_equal. apply IH. reflexivity.
  Qed.

  Lemma int_body_false_dot ip fp : int_body (ip ++ 46 :: fp) = false.
  Proof.
    destruct (int_body (ip ++ 46 :: fp)) eqn:E; [|reflexivity].
    apply int_body_digits in E as [D _]. rewrite forallb_app in D. simpl in D.
    apply andb_true_iff in D as [_ D]. discriminate.
  Qed.

  Lemma edn_num_dot chars t : edn_num pf (46 :: t) chars false = edn_num pf t (chars ++ [46]) true.
  Proof. reflexivity. Qed.

  Lemma float_body_reads ip fp d rest pre tok :
    int_body ip = true -> forallb is_digit fp = true -> isr tok = true -> rest_ok rest = true ->
    tok = pre ++ ip ++ 46 :: fp -> strip_minus tok = ip ++ 46 :: fp ->
    (if is_lisp d then lisp_num pf ((ip ++ 46 :: fp) ++ rest) pre
     else edn_num pf ((ip ++ 46 :: fp) ++ rest) pre false) = ROk (EFloat tok, rest).
  Proof.
    intros IB DF IR R ET SM.
    destruct (int_body_digits ip IB) as (DI & NI).
    destruct d; simpl is_lisp; cbv iota.
    - rewrite <- app_assoc. rewrite (edn_num_digits pf ip _ _ _ DI).
      simpl app. rewrite edn_num_dot, (edn_num_digits pf fp _ _ _ DF), (edn_num_end pf _ _ _ R).
      unfold edn_finish.
      replace (((pre ++ ip) ++ [46]) ++ fp) with tok
        by (rewrite ET, <- !app_assoc; reflexivity).
      rewrite (Hpf tok IR). reflexivity.
    - assert (RUN : forallb maybe_num (ip ++ 46 :: fp) = true).
      { rewrite forallb_app, (digits_maybe ip DI). simpl. rewrite (digits_maybe fp DF). reflexivity. }
      rewrite (lisp_num_run pf _ _ _ RUN), (lisp_num_end pf _ _ R).
      rewrite <- ET. unfold lisp_classify. rewrite SM, int_body_false_dot.
      assert (SP : split_at 46 (ip ++ 46 :: fp) = Some (ip, fp)).
      { clear - DI. induction ip as [|x t IH]; [reflexivity|].
        simpl in DI. apply andb_true_iff in DI as [Dx Dt].
        destruct (digit_fact x Dx) as (_ & _ & _ & N46 & _). simpl. rewrite N46, (IH Dt). reflexivity. }
      rewrite SP, IB, DF. simpl. rewrite (Hpf tok IR). reflexivity.
  Qed.

  Lemma rt_float tok d f rest : plain_float tok = true -> isr tok = true -> rest_ok rest = true ->
    read_next pf d (S f) (tok ++ rest) = ROk (EFloat tok, rest).
  Proof.
    intros PF IR R. unfold plain_float in PF.
    destruct (split_at 46 (strip_minus tok)) as [[ip fp]|] eqn:SP; [|discriminate].
    apply andb_true_iff in PF as [PF NE]. apply andb_true_iff in PF as [IB DF].
    pose proof (split_at_app _ _ _ _ SP) as EB.
    destruct (int_body_digits ip IB) as (DI & NI). destruct ip as [|c t]; [congruence|].
    pose proof DI as DI'. simpl in DI'. apply andb_true_iff in DI' as [Dc Dt].
    destruct (digit_fact c Dc) as (_ & _ & N45 & N46 & MN & BN).
    destruct tok as [|c0 t0]; [discriminate|].
    unfold strip_minus in EB. destruct (N.eqb_spec c0 45) as [->|NE0].
    - subst t0. simpl app. rewrite (read_next_num d f 45 _ (kind_minus d)).
      pose proof (float_body_reads (c :: t) fp d rest [45] (45 :: (c :: t) ++ 46 :: fp) IB DF IR R eq_refl eq_refl) as H.
      destruct d; simpl is_lisp in *; cbv iota in *.
      + change (45 :: c :: t ++ 46 :: fp ++ rest) with (45 :: c :: (t ++ 46 :: fp ++ rest)).
        rewrite (edn_num_minus pf _ _ c _ BN).
        etransitivity; [|exact H]. simpl app. rewrite <- !app_assoc. reflexivity.
      + change (45 :: c :: t ++ 46 :: fp ++ rest) with (45 :: c :: (t ++ 46 :: fp ++ rest)).
        rewrite (lisp_num_minus pf _ c _ BN).
        etransitivity; [|exact H]. simpl app. rewrite <- !app_assoc. reflexivity.
    - assert (c0 = c) by (simpl in EB; inversion EB; reflexivity). subst c0.
      simpl app. rewrite (read_next_num d f c _ (kind_digit d c Dc)).
      assert (SM : strip_minus (c :: t0) = (c :: t) ++ 46 :: fp).
      { rewrite (strip_minus_digit c t0 Dc). exact EB. }
      pose proof (float_body_reads (c :: t) fp d rest [] (c :: t0) IB DF IR R EB SM) as H.
      rewrite <- EB in H. exact H.
  Qed.

  (** ** Keywords, symbols, strings *)
  Lemma rt_kw d f ns nm rest : kw_ok d ns nm = true -> rest_ok rest = true ->
    read_next pf d (S f) ((58 :: qualified ns nm) ++ rest) = ROk (EKw ns nm, rest).
  Proof. intros K R. simpl app. rewrite read_next_kw. apply read_kw_ok; assumption. Qed.

  Lemma rt_str d f s rest :
    read_next pf d (S f) ((34 :: escape s ++ [34]) ++ rest) = ROk (EStr s, rest).
  Proof.
    simpl app. rewrite read_next_str, <- app_assoc. simpl app. rewrite read_str_escape. reflexivity.
  Qed.

  Lemma rt_sym d f ns nm rest : sym_ok ns nm = true -> rest_ok rest = true ->
    read_next pf d (S f) (qualified ns nm ++ rest) = ROk (ESym ns nm, rest).
  Proof.
    intros K R. pose proof K as K'. unfold sym_ok in K'.
    apply andb_true_iff in K' as [K' _]. apply andb_true_iff in K' as [K' DO]. apply andb_true_iff in K' as [H1 H2].
    destruct (qualified_head ns nm H1 H2) as (c & t & E & Sc & D).
    destruct (safe_fact c Sc) as (_ & _ & _ & _ & _ & _ & KK & K45).
    rewrite <- (read_sym_ok d ns nm rest K R). rewrite E in *. simpl app.
    destruct KK as [KK|[KK|[K1 K2]]]; [congruence| |apply read_next_sym; destruct d; assumption].
    subst c. rewrite (read_next_num d f 45 _ (kind_minus d)).
    (* "-" not followed by a digit or "-": pushed back and read as a symbol *)
    assert (NB : match t ++ rest with c2 :: _ => begin_num c2 | [] => false end = false).
    { destruct t as [|c2 t2].
      - simpl. destruct rest as [|r0 rr]; [reflexivity|].
        apply rest_ok_head in R. unfold closer_facts in R. apply andb_true_iff in R as [_ R].
        apply negb_true_iff in R. exact R.
      - simpl in DO. simpl. apply negb_true_iff in DO. exact DO. }
    destruct d; simpl is_lisp; cbv iota.
    + transitivity (if match t ++ rest with c2 :: _ => begin_num c2 | [] => false end
                    then edn_num pf (t ++ rest) [45] false
                    else read_sym Edn (45 :: t ++ rest)); [reflexivity|]. rewrite NB. reflexivity.
    + transitivity (if match t ++ rest with c2 :: _ => begin_num c2 | [] => false end
                    then lisp_num pf (t ++ rest) [45]
                    else read_sym Lisp (45 :: t ++ rest)); [reflexivity|]. rewrite NB. reflexivity.
  Qed.
End Main.

(** * Collections and the round trip *)
Definition head_ok (c : N) : bool := negb (is_ws c) && negb (mem c [41; 93; 125]).

Lemma head_ok_digits : forallb (fun c => implb (is_digit c) (head_ok c)) (map N.of_nat (seq 48 10)) = true.
Proof. vm_compute. reflexivity. Qed.

Lemma head_ok_digit c : is_digit c = true -> head_ok c = true.
Proof.
  intro D. pose proof (digit_range c D) as R.
  pose proof (range_reflect _ 48 10 head_ok_digits c) as F. cbv beta in F.
  rewrite D in F. apply F. simpl. lia.
Qed.

Lemma head_ok_safe c : safe c = true -> head_ok c = true.
Proof.
  intro S. destruct (safe_fact c S) as (T & _ & W & _). unfold head_ok. rewrite W. simpl.
  rewrite !orb_false_r.
  destruct (N.eqb_spec c 41) as [->|_]; [vm_compute in T; discriminate|].
  destruct (N.eqb_spec c 93) as [->|_]; [vm_compute in T; discriminate|].
  destruct (N.eqb_spec c 125) as [->|_]; [vm_compute in T; discriminate|]. reflexivity.
Qed.

Definition sep (l : list edn) : str := concat (map (fun v => 32 :: write v) l).
Definition flat (m : list (edn * edn)) : list edn := concat (map (fun kv => [fst kv; snd kv]) m).

Lemma write_elems_sep x t : write_elems (map write (x :: t)) = write x ++ sep t.
Proof.
  revert x. induction t as [|y t IH]; intro x.
  - simpl. reflexivity.
  - change (write_elems (map write (x :: y :: t))) with (write x ++ 32 :: write_elems (map write (y :: t))).
    rewrite IH. reflexivity.
Qed.

Lemma map_write_flat m :
  concat (map (fun kv => [write (fst kv); write (snd kv)]) m) = map write (flat m).
Proof. induction m as [|kv m IH]; simpl; [reflexivity|]. rewrite IH. reflexivity. Qed.

Section Roundtrip.
  Variable pf : str -> option str.
  Variable isr : str -> bool.
  Hypothesis Hpf : forall t, isr t = true -> pf t = Some t.

  Lemma write_head d v : guard isr d v = true -> exists c t, write v = c :: t /\ head_ok c = true.
  Proof.
    destruct v; simpl; intro G; try (eexists _, _; split; [reflexivity|vm_compute; reflexivity]).
    - destruct b; eexists _, _; (split; [reflexivity|vm_compute; reflexivity]).
    - unfold dec_Z. destruct (z <? 0)%Z.
      + eexists _, _; split; [reflexivity|vm_compute; reflexivity].
      + destruct (dec_N_spec (Z.abs_N z)) as (_ & D & NE).
        destruct (dec_N (Z.abs_N z)) as [|c t]; [congruence|]. exists c, t. split; [reflexivity|].
        simpl in D. apply andb_true_iff in D as [Dc _]. apply head_ok_digit, Dc.
    - apply andb_true_iff in G as [PF _]. unfold plain_float in PF.
      destruct (split_at 46 (strip_minus tok)) as [[ip fp]|] eqn:SP; [|discriminate].
      apply andb_true_iff in PF as [PF _]. apply andb_true_iff in PF as [IB _].
      apply split_at_app in SP. destruct (int_body_digits ip IB) as (DI & NI).
      destruct ip as [|c t]; [congruence|]. simpl in DI. apply andb_true_iff in DI as [Dc _].
      destruct tok as [|c0 t0]; [discriminate|]. exists c0, t0. split; [reflexivity|].
      unfold strip_minus in SP. destruct (N.eqb_spec c0 45) as [->|_]; [vm_compute; reflexivity|].
      inversion SP; subst. apply head_ok_digit, Dc.
    - unfold sym_ok in G. apply andb_true_iff in G as [G _]. apply andb_true_iff in G as [G _].
      apply andb_true_iff in G as [H1 H2].
      destruct (qualified_head ns nm H1 H2) as (c & t & E & Sc & _). exists c, t. split; [exact E|].
      apply head_ok_safe, Sc.
  Qed.

  Definition rt_at (d : dialect) (v : edn) : Prop :=
    guard isr d v = true -> forall f rest, rest_ok rest = true -> (esize v <= f)%nat ->
    read_next pf d f (write v ++ rest) = ROk (v, rest).

  Lemma read_coll_space d f close Z acc :
    read_coll pf d f close (32 :: Z) acc = read_coll pf d f close Z acc.
  Proof. destruct f; reflexivity. Qed.

  Lemma read_coll_step d f close c t acc : is_ws c = false -> (c =? close) = false ->
    read_coll pf d (S f) close (c :: t) acc =
    match read_next pf d f (c :: t) with
    | ROk (v, r) => read_coll pf d f close r (acc ++ [v])
    | RErr e => RErr e
    | RFuel => RFuel
    end.
  Proof. intros W C. cbn [read_coll drop_ws]. rewrite W, C. reflexivity. Qed.

  Lemma read_coll_close d f close t acc : is_ws close = false ->
    read_coll pf d (S f) close (close :: t) acc = ROk (acc, t).
  Proof. intro W. cbn [read_coll drop_ws]. rewrite W, N.eqb_refl. reflexivity. Qed.

  Lemma closer_facts' close : mem close [41; 93; 125] = true ->
    is_ws close = false /\ rest_ok [close] = true /\ head_ok close = false.
  Proof.
    simpl. rewrite !orb_false_r. intro H.
    repeat (apply orb_true_iff in H as [H|H]); apply N.eqb_eq in H; subst; vm_compute; auto.
  Qed.

  Lemma rest_ok_sep t close rest : mem close [41; 93; 125] = true -> rest_ok (sep t ++ close :: rest) = true.
  Proof.
    intro C. destruct t as [|y t]; simpl.
    - destruct (closer_facts' close C) as (_ & R & _). simpl in R. exact R.
    - reflexivity.
  Qed.

  Lemma read_elems d l : Forall (rt_at d) l -> forallb (guard isr d) l = true ->
    forall f acc rest close, mem close [41; 93; 125] = true ->
    (1 + list_sum (map esize l) <= f)%nat ->
    read_coll pf d f close (sep l ++ close :: rest) acc = ROk (acc ++ l, rest).
  Proof.
    induction l as [|x t IH]; intros HF G f acc rest close C L.
    - destruct f as [|f]; [simpl in L; lia|]. destruct (closer_facts' close C) as (W & _).
      change (sep [] ++ close :: rest) with (close :: rest).
      rewrite read_coll_close by assumption. rewrite app_nil_r. reflexivity.
    - inversion HF as [|? ? Hx Ht]; subst. simpl in G. apply andb_true_iff in G as [Gx Gt].
      destruct f as [|f]; [simpl in L; lia|].
      change (sep (x :: t)) with ((32 :: write x) ++ sep t). rewrite <- app_assoc. simpl app.
      rewrite read_coll_space.
      destruct (write_head d x Gx) as (c & tl & E & HO).
      unfold head_ok in HO. apply andb_true_iff in HO as [W NC]. apply negb_true_iff in W, NC.
      assert (CC : (c =? close) = false).
      { apply N.eqb_neq. intro X. subst c. congruence. }
      pose proof (Hx Gx f (sep t ++ close :: rest) (rest_ok_sep t close rest C)) as RX.
      rewrite E in *. simpl app in *. rewrite (read_coll_step d f close c _ acc W CC).
      simpl in L. rewrite RX by lia.
      replace (acc ++ x :: t) with ((acc ++ [x]) ++ t) by (rewrite <- app_assoc; reflexivity).
      apply IH; auto. pose proof (esize_pos x). lia.
  Qed.

  Lemma read_coll_elems d f close l rest acc :
    read_coll pf d f close (write_elems (map write l) ++ close :: rest) acc =
    read_coll pf d f close (sep l ++ close :: rest) acc.
  Proof.
    destruct l as [|x t]; [reflexivity|]. rewrite write_elems_sep.
    change (sep (x :: t)) with ((32 :: write x) ++ sep t). simpl app. rewrite read_coll_space.
    rewrite <- app_assoc. reflexivity.
  Qed.

  Lemma pair_up_flat m : pair_up (flat m) = Some m.
  Proof. induction m as [|[k v] m IH]; simpl; [reflexivity|]. unfold flat in IH. rewrite IH. reflexivity. Qed.

  Theorem rt_all d v : rt_at d v.
  Proof.
    induction v using edn_ind'; intros G f rest R L; simpl in G;
      (destruct f as [|f]; [pose proof (esize_pos ENil); simpl in L; lia|]).
    - apply rt_nil, R.
    - destruct b; [apply rt_true|apply rt_false]; exact R.
    - apply rt_int, R.
    - apply andb_true_iff in G as [PF IR]. apply (rt_float pf isr Hpf); assumption.
    - apply rt_str.
    - apply rt_kw; assumption.
    - apply rt_sym; assumption.
    - simpl write. simpl app. rewrite read_next_vec, <- app_assoc. simpl app.
      rewrite read_coll_elems, (read_elems d l H G); [reflexivity|reflexivity|simpl in L; lia].
    - simpl write. simpl app. rewrite read_next_list, <- app_assoc. simpl app.
      rewrite read_coll_elems, (read_elems d l H G); [reflexivity|reflexivity|simpl in L; lia].
    - simpl write. simpl app. rewrite read_next_set, <- app_assoc. simpl app.
      rewrite read_coll_elems, (read_elems d l H G); [reflexivity|reflexivity|simpl in L; lia].
    - simpl write. simpl app. rewrite read_next_map, <- app_assoc. simpl app.
      rewrite map_write_flat, read_coll_elems.
      assert (HF : Forall (rt_at d) (flat m)).
      { clear - H. induction H as [|kv m [A B] _ IH]; [constructor|]. simpl. repeat constructor; auto. }
      assert (GF : forallb (guard isr d) (flat m) = true).
      { clear - G. induction m as [|kv m IH]; [reflexivity|]. simpl in *.
        apply andb_true_iff in G as [G Gm]. apply andb_true_iff in G as [G1 G2].
        rewrite G1, G2. apply IH, Gm. }
      assert (LS : list_sum (map esize (flat m)) =
                   list_sum (map (fun kv => (esize (fst kv) + esize (snd kv))%nat) m)).
      { clear. induction m as [|kv m IH]; [reflexivity|]. simpl. unfold flat in IH. rewrite IH. lia. }
      rewrite (read_elems d (flat m) HF GF); [|reflexivity|simpl in L; lia].
      simpl app. rewrite pair_up_flat. reflexivity.
  Qed.
End Roundtrip.

(** * [read-string] of the written text *)
Lemma write_elems_len ws : (list_sum (map (@length N) ws) <= length (write_elems ws))%nat.
Proof.
  induction ws as [|x t IH]; [simpl; lia|].
  cbn [write_elems map list_sum]. rewrite app_length. destruct t; simpl in *; lia.
Qed.

Section Top.
  Variable pf : str -> option str.
  Variable isr : str -> bool.
  Hypothesis Hpf : forall t, isr t = true -> pf t = Some t.

  Lemma sum_le_elems d l :
    Forall (fun v => guard isr d v = true -> (esize v <= length (write v))%nat) l ->
    forallb (guard isr d) l = true ->
    (list_sum (map esize l) <= length (write_elems (map write l)))%nat.
  Proof.
    intros HF G. etransitivity; [|apply write_elems_len].
    induction l as [|x t IH]; [simpl; lia|].
    inversion HF; subst. simpl in G. apply andb_true_iff in G as [Gx Gt].
    simpl. specialize (H1 Gx). specialize (IH H2 Gt). lia.
  Qed.

  Lemma esize_le d v : guard isr d v = true -> (esize v <= length (write v))%nat.
  Proof.
    assert (Leaf : forall v0, guard isr d v0 = true -> (1 <= length (write v0))%nat).
    { intros v0 G. destruct (write_head isr d v0 G) as (c & t & E & _). rewrite E. simpl. lia. }
    induction v using edn_ind'; intro G; try (apply (Leaf _ G)).
    - simpl in G. pose proof (sum_le_elems d l H G). simpl. rewrite app_length. simpl. lia.
    - simpl in G. pose proof (sum_le_elems d l H G). simpl. rewrite app_length. simpl. lia.
    - simpl in G. pose proof (sum_le_elems d l H G). simpl. rewrite app_length. simpl. lia.
    - simpl in G. simpl. rewrite app_length, map_write_flat. simpl.
      assert (HF : Forall (fun v => guard isr d v = true -> (esize v <= length (write v))%nat) (flat m)).
      { clear - H. induction H as [|kv m [A B] _ IH]; [constructor|]. simpl. repeat constructor; auto. }
      assert (GF : forallb (guard isr d) (flat m) = true).
      { clear - G. induction m as [|kv m IH]; [reflexivity|]. simpl in *.
        apply andb_true_iff in G as [G Gm]. apply andb_true_iff in G as [G1 G2].
        rewrite G1, G2. apply IH, Gm. }
      pose proof (sum_le_elems d (flat m) HF GF) as S.
      assert (LS : list_sum (map esize (flat m)) =
                   list_sum (map (fun kv => (esize (fst kv) + esize (snd kv))%nat) m)).
      { clear. induction m as [|kv m IH]; [reflexivity|]. simpl. unfold flat in IH. rewrite IH. lia. }
      lia.
  Qed.

  Theorem edn_roundtrip d v : guard isr d v = true -> read_string pf d (write v) = ROk v.
  Proof.
    intro G. unfold read_string.
    pose proof (rt_all pf isr Hpf d v G (S (length (write v))) [] eq_refl) as H.
    rewrite app_nil_r in H. rewrite H; [reflexivity|]. pose proof (esize_le d v G). lia.
  Qed.
End Top.

(** * Refutations: what the writer emits for these values does not read back *)
Definition tok_1e23 : str := [49; 101; 43; 50; 51].          (* repr(1e23) = "1e+23" *)
Definition kw_a_dot_b : str := [97; 46; 98].                  (* the name of :a.b *)

Lemma edn_float_exp_reads_int pf : read_string pf Edn (write (EFloat tok_1e23)) = ROk (EInt 1).
Proof. vm_compute. reflexivity. Qed.

Lemma edn_kw_dot_rejected pf : read_string pf Edn (write (EKw None kw_a_dot_b)) = RErr 1.
Proof. vm_compute. reflexivity. Qed.

Lemma lisp_kw_dot_accepted pf : read_string pf Lisp (write (EKw None kw_a_dot_b)) = ROk (EKw None kw_a_dot_b).
Proof. vm_compute. reflexivity. Qed.

Lemma lisp_float_exp_reads_float pf :
  pf tok_1e23 = Some tok_1e23 -> read_string pf Lisp (write (EFloat tok_1e23)) = ROk (EFloat tok_1e23).
Proof. intro E. vm_compute. vm_compute in E. rewrite E. reflexivity. Qed.

Lemma edn_float_exp_refuted : exists tok, forall pf, read_string pf Edn (write (EFloat tok)) = ROk (EInt 1).
Proof. exists tok_1e23. exact edn_float_exp_reads_int. Qed.
Lemma edn_kw_dot_refuted :
  exists nm, forall pf, read_string pf Edn (write (EKw None nm)) = RErr 1
                        /\ read_string pf Lisp (write (EKw None nm)) = ROk (EKw None nm).
Proof. exists kw_a_dot_b. intro pf. split; [apply edn_kw_dot_rejected|apply lisp_kw_dot_accepted]. Qed.
Lemma lisp_float_exp_roundtrip :
  exists tok, forall pf, pf tok = Some tok -> read_string pf Lisp (write (EFloat tok)) = ROk (EFloat tok).
Proof. exists tok_1e23. exact lisp_float_exp_reads_float. Qed.

(** non-vacuity of the guard: a nested value with every constructor *)
Definition sample : edn :=
  EMap [(EKw (Some [97; 46; 98]) [99], EVec [EInt (-12); EFloat [45; 48; 46; 53]; EStr [34; 92; 10; 0; 233]]);
        (ESym None [45; 62], ESet [EList [ENil; EBool true]; ESym (Some [110; 115]) [120]])].
Lemma sample_guard d : guard (fun _ => true) d sample = true.
Proof. destruct d; vm_compute; reflexivity. Qed.
