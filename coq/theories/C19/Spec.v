(** C19 specification, written without reference to the decoders/readers of the code.

    Bencode (BEP-3): the reference encoding of canonical values and what correct framing
    of a cut message stream means. *)
From Coq Require Import List NArith ZArith Bool.
Import ListNotations.
From Verif Require Import Common.ListX C19.Bencode.
Local Open Scope N_scope.

(** ** bencode *)
Definition ref_bstr (s : bytes) : bytes := dec_N (N.of_nat (length s)) ++ [58] ++ s.

(** integers i<decimal>e, byte strings <len>:<bytes>, lists l...e, dictionaries d...e with
    the entries in the (already increasing) key order.  nil is not a bencode value. *)
Fixpoint ref_encode (v : bval) : bytes :=
  match v with
  | BNil => []
  | BInt z => [105] ++ dec_Z z ++ [101]
  | BStr s => ref_bstr s
  | BList l => [108] ++ concat (map ref_encode l) ++ [101]
  | BDict m => [100] ++ concat (map (fun kv => ref_bstr (fst kv) ++ ref_encode (snd kv)) m) ++ [101]
  end.

(** BEP-3 numerals: "0", or an optional "-" followed by a digit 1-9 and more digits
    (no leading zeros, no "-0"); [numeral_value] is their value. *)
Definition canonical_numeral (ds : bytes) : bool :=
  match ds with
  | [] => false
  | c :: t =>
      if (c =? 48) then match t with [] => true | _ => false end
      else if (c =? 45) then
        match t with
        | [] => false
        | d :: t' => is_digit d && negb (d =? 48) && forallb is_digit t'
        end
      else is_digit c && forallb is_digit t
  end.

Definition digits_value (ds : bytes) : N := fold_left (fun a c => 10 * a + (c - 48)) ds 0.
Definition numeral_value (ds : bytes) : Z :=
  match ds with
  | c :: t => if c =? 45 then (- Z.of_N (digits_value t))%Z else Z.of_N (digits_value ds)
  | [] => 0%Z
  end.

(** A stream of messages cut after [k] bytes: the messages that lie wholly before the cut,
    in order, and the untouched bytes of the message the cut falls in. *)
Fixpoint split_stream (msgs : list bval) (k : nat) : list bval * bytes :=
  match msgs with
  | [] => ([], [])
  | m :: t =>
      let e := ref_encode m in
      if (length e <=? k)%nat
      then (m :: fst (split_stream t (k - length e)), snd (split_stream t (k - length e)))
      else ([], firstn k e)
  end.

(** ** JSON: the documented coercions, stated directly on values.
    Keywords and symbols become strings (with their namespace), lists/sets/vectors become
    vectors, map keys become the string [name] of the key. *)
From Verif Require Import C19.Json.

Fixpoint coerce (v : jval) : jval :=
  match v with
  | JKw ns nm | JSym ns nm => JStr (qualified ns nm)
  | JVec l | JList l | JSet l => JVec (map coerce l)
  | JMap m => JMap (map (fun kv => (JKStr (key_name (fst kv)), coerce (snd kv))) m)
  | _ => v
  end.

(** the coercion of keys is injective on every map of the value *)
Fixpoint nodupb (l : list str) : bool :=
  match l with
  | [] => true
  | x :: t => negb (existsb (str_eqb x) t) && nodupb t
  end.

Fixpoint jkeys_distinct (v : jval) : bool :=
  match v with
  | JVec l | JList l | JSet l => forallb jkeys_distinct l
  | JMap m => nodupb (map (fun kv => key_name (fst kv)) m) && forallb (fun kv => jkeys_distinct (snd kv)) m
  | _ => true
  end.
