(** C19, bencode: executable model of src/basilisp/contrib/bencode.lpy AS IT IS.

    Bytes are [list N].  The decoder is index/slice based like the source: [index_of]
    is Python's [bytes.index], [py_int] is CPython's [int(bytes)] (base 10: optional
    surrounding ASCII whitespace, optional sign, digits with single underscores between
    them), the private [slice] helper returns nil for an empty slice and raises when an
    index is out of bounds.  nil and the empty byte string are both represented by [[]]:
    every operation the source applies to a possibly-nil [data] raises on nil exactly
    where it raises (or cannot occur) on [b""] (see the comments at each use).
    Python exceptions are [Exc] (the public [decode] catches every [Exception] and
    answers [[nil data]]); [Fuel] is the model's out-of-fuel result, which
    [BencodeProofs.decode_star_fuel] shows unreachable with the fuel [decode] supplies. *)
From Coq Require Import List NArith ZArith Bool Lia.
Import ListNotations.
From Verif Require Import Common.ListX Common.Sort.
Local Open Scope N_scope.

Definition bytes := list N.

(** Values.  [BNil] is basilisp's nil: [encode] writes it as ["0:"], and the decoder
    produces it only through the negative-length quirk of [decode-byte-string]. *)
Inductive bval :=
| BNil
| BInt (z : Z)
| BStr (s : bytes)
| BList (l : list bval)
| BDict (m : list (bytes * bval)).

(** ** Python's [str(int)] *)
Fixpoint udigits (fuel : nat) (n : N) : bytes :=
  match fuel with
  | O => []
  | S f => if n <? 10 then [48 + n] else udigits f (n / 10) ++ [48 + n mod 10]
  end.
Definition dec_N (n : N) : bytes := udigits (S (N.to_nat (N.size n))) n.
Definition dec_Z (z : Z) : bytes :=
  if (z <? 0)%Z then 45 :: dec_N (Z.abs_N z) else dec_N (Z.abs_N z).

(** ** CPython's [int(b)] for a bytes object, base 10 (PyLong_FromString) *)
Definition is_digit (c : N) : bool := (48 <=? c) && (c <=? 57).
Definition is_space (c : N) : bool :=          (* Py_ISSPACE: space \t \n \v \f \r *)
  (c =? 32) || ((9 <=? c) && (c <=? 13)).

(** [st]: 0 nothing read yet, 1 previous char was a digit, 2 previous char was '_' *)
Fixpoint scan_digits (st : N) (acc : N) (l : bytes) : option N :=
  match l with
  | [] => if st =? 1 then Some acc else None
  | c :: t =>
      if is_digit c then scan_digits 1 (10 * acc + (c - 48)) t
      else if c =? 95 then (if st =? 1 then scan_digits 2 acc t else None)
      else if is_space c then (if (st =? 1) && forallb is_space t then Some acc else None)
      else None
  end.

Fixpoint drop_spaces (l : bytes) : bytes :=
  match l with
  | c :: t => if is_space c then drop_spaces t else l
  | [] => []
  end.

Definition py_int (s : bytes) : option Z :=
  match drop_spaces s with
  | [] => None
  | c :: t =>
      if c =? 45 then option_map (fun n => (- Z.of_N n)%Z) (scan_digits 0 0 t)
      else if c =? 43 then option_map Z.of_N (scan_digits 0 0 t)
      else option_map Z.of_N (scan_digits 0 0 (c :: t))
  end.

(** ** encode *)
Definition enc_bstr (s : bytes) : bytes := dec_N (N.of_nat (length s)) ++ 58 :: s.

Definition key_lt (a b : bytes * bytes) : bool := str_ltb (fst a) (fst b).
(** [(python/sorted pairs ** :key first)]: a stable sort on the encoded key *)
Definition sort_pairs (l : list (bytes * bytes)) : list (bytes * bytes) := Sort.sort key_lt l.

Fixpoint encode (v : bval) : bytes :=
  match v with
  | BNil => [48; 58]
  | BInt z => 105 :: dec_Z z ++ [101]
  | BStr s => enc_bstr s
  | BList l => 108 :: concat (map encode l) ++ [101]
  | BDict m =>
      100 :: concat (map (fun ke => enc_bstr (fst ke) ++ snd ke)
                         (sort_pairs (map (fun kv => (fst kv, encode (snd kv))) m))) ++ [101]
  end.

(** ** decode *)
Inductive res (A : Type) := Ok (a : A) | Exc | Fuel.
Arguments Ok {A} a.
Arguments Exc {A}.
Arguments Fuel {A}.

Fixpoint index_of (c : N) (l : bytes) : option nat :=
  match l with
  | [] => None
  | x :: t => if x =? c then Some O else option_map S (index_of c t)
  end.

(** [(slice d 0 n)] for [n <> 0]; [None] = raises ([len] of nil, or [n > len d]).
    Python slice semantics for negative [n]. *)
Definition slice_to (d : bytes) (n : Z) : option bytes :=
  match d with
  | [] => None
  | _ => if (Z.of_nat (length d) <? n)%Z then None
         else if (0 <=? n)%Z then Some (firstn (Z.to_nat n) d)
         else Some (firstn (Z.to_nat (Z.of_nat (length d) + n)) d)
  end.
(** [(slice d n)] when it does not raise *)
Definition slice_from (d : bytes) (n : Z) : bytes :=
  if (0 <=? n)%Z then skipn (Z.to_nat n) d else skipn (Z.to_nat (Z.of_nat (length d) + n)) d.

(** [decode-int], applied to the data after the leading "i" *)
Definition decode_int (data : bytes) : res (bval * bytes) :=
  match index_of 101 data with
  | None => Exc                         (* ValueError of .index / AttributeError on nil *)
  | Some i =>
      match py_int (firstn i data) with
      | None => Exc                     (* int(nil) TypeError / ValueError *)
      | Some z => Ok (BInt z, skipn (S i) data)
      end
  end.

(** [decode-byte-string] with the default (identity) [string-fn] *)
Definition decode_bstr (data : bytes) : res (bval * bytes) :=
  match index_of 58 data with
  | None => Exc
  | Some i =>
      match py_int (firstn i data) with
      | None => Exc
      | Some n =>
          let d := skipn (S i) data in
          if (n =? 0)%Z then Ok (BStr [], d)
          else match slice_to d n with
               | None => Exc
               | Some s => Ok (match s with [] => BNil | _ => BStr s end, slice_from d n)
               end
      end
  end.

(** the persistent map built by [assoc!]: a finite map, kept as a key-sorted assoc list *)
Fixpoint dict_assoc (k : bytes) (v : bval) (m : list (bytes * bval)) : list (bytes * bval) :=
  match m with
  | [] => [(k, v)]
  | (k', v') :: t =>
      if str_ltb k k' then (k, v) :: m
      else if str_eqb k k' then (k, v) :: t
      else (k', v') :: dict_assoc k v t
  end.

Fixpoint decode_star (fuel : nat) (data : bytes) {struct fuel} : res (bval * bytes) :=
  match fuel with
  | O => Fuel
  | S f =>
      match data with
      | [] => Exc                                   (* (slice data 0 1) raises *)
      | c :: tl =>
          if c =? 105 then decode_int tl
          else if c =? 108 then decode_list f tl []
          else if c =? 100 then decode_dict f tl []
          else decode_bstr data
      end
  end
with decode_list (fuel : nat) (data : bytes) (acc : list bval) {struct fuel} : res (bval * bytes) :=
  match fuel with
  | O => Fuel
  | S f =>
      match data with
      | [] => Exc
      | c :: tl =>
          if c =? 101 then Ok (BList acc, tl)
          else match decode_star f data with
               | Ok (v, d) => decode_list f d (acc ++ [v])
               | Exc => Exc
               | Fuel => Fuel
               end
      end
  end
with decode_dict (fuel : nat) (data : bytes) (m : list (bytes * bval)) {struct fuel} : res (bval * bytes) :=
  match fuel with
  | O => Fuel
  | S f =>
      match data with
      | [] => Exc
      | c :: tl =>
          if c =? 101 then Ok (BDict m, tl)
          else match decode_bstr data with
               | Ok (BStr k, d) =>
                   match decode_star f d with
                   | Ok (v, d') => decode_dict f d' (dict_assoc k v m)
                   | Exc => Exc
                   | Fuel => Fuel
                   end
               | Ok (_, _) => Exc   (* MODEL GAP: a nil key (negative length prefix in key position) *)
               | Exc => Exc
               | Fuel => Fuel
               end
      end
  end.

Definition fuel_for (data : bytes) : nat := S (2 * length data).

(** the public [decode] with empty opts: [[value rest]], or [[nil data]] *)
Inductive dres := DVal (v : bval) (rest : bytes) | DInc (rest : bytes) | DFuel.

Definition decode (data : bytes) : dres :=
  match decode_star (fuel_for data) data with
  | Ok (BNil, rest) => DInc rest
  | Ok (v, rest) => DVal v rest
  | Exc => DInc data
  | Fuel => DFuel
  end.

(** [decode-all]: loop until [decode] answers a nil item *)
Fixpoint decode_all_loop (n : nat) (items : list bval) (data : bytes) : option (list bval * bytes) :=
  match n with
  | O => None
  | S n' =>
      match decode data with
      | DVal v rest => decode_all_loop n' (items ++ [v]) rest
      | DInc rest => Some (items, rest)
      | DFuel => None
      end
  end.
Definition decode_all (data : bytes) : option (list bval * bytes) :=
  decode_all_loop (S (length data)) [] data.

(** ** The canonical domain: what [encode] itself emits and [decode] returns unchanged.
    No nil; in every dict the (byte-string) keys are strictly increasing. *)
Fixpoint keys_sorted (ks : list bytes) : bool :=
  match ks with
  | [] => true
  | k :: t => forallb (str_ltb k) t && keys_sorted t
  end.

Fixpoint wf (v : bval) : bool :=
  match v with
  | BNil => false
  | BInt _ | BStr _ => true
  | BList l => forallb wf l
  | BDict m => keys_sorted (map fst m) && forallb (fun kv => wf (snd kv)) m
  end.

(** ** Beyond the canonical domain: dict entries in any order.  [norm] sorts every dict by
    key (what [decode] returns for what [encode] emits); [dkeys] asks that the keys of each
    dict are pairwise distinct byte strings and that no nil occurs. *)
Definition val_lt (a b : bytes * bval) : bool := str_ltb (fst a) (fst b).
Definition sort_vals (l : list (bytes * bval)) : list (bytes * bval) := Sort.sort val_lt l.

Fixpoint norm (v : bval) : bval :=
  match v with
  | BList l => BList (map norm l)
  | BDict m => BDict (sort_vals (map (fun kv => (fst kv, norm (snd kv))) m))
  | _ => v
  end.

Fixpoint distinctb (l : list bytes) : bool :=
  match l with
  | [] => true
  | x :: t => negb (existsb (str_eqb x) t) && distinctb t
  end.

Fixpoint dkeys (v : bval) : bool :=
  match v with
  | BNil => false
  | BInt _ | BStr _ => true
  | BList l => forallb dkeys l
  | BDict m => distinctb (map fst m) && forallb (fun kv => dkeys (snd kv)) m
  end.

(** ** What [encode] accepts from Lisp: strings, keywords and symbols are written as the
    UTF-8 bytes of their text, vectors and lists as lists, map keys likewise. *)
Definition utf8_char (c : N) : bytes :=
  if c <? 128 then [c]
  else if c <? 2048 then [192 + c / 64; 128 + c mod 64]
  else if c <? 65536 then [224 + c / 4096; 128 + (c / 64) mod 64; 128 + c mod 64]
  else [240 + c / 262144; 128 + (c / 4096) mod 64; 128 + (c / 64) mod 64; 128 + c mod 64].
Definition utf8 (s : str) : bytes := flat_map utf8_char s.

Definition qual (ns : option str) (nm : str) : str :=
  match ns with Some n => n ++ 47 :: nm | None => nm end.

Inductive lkey := LKStr (s : str) | LKKw (ns : option str) (nm : str) | LKSym (ns : option str) (nm : str).
Inductive lval :=
| LInt (z : Z)
| LBytes (b : bytes)
| LStr (s : str)
| LKw (ns : option str) (nm : str)
| LSym (ns : option str) (nm : str)
| LVec (l : list lval)
| LList (l : list lval)
| LMap (m : list (lkey * lval)).

Definition lkey_bytes (k : lkey) : bytes :=
  match k with LKStr s => utf8 s | LKKw ns nm | LKSym ns nm => utf8 (qual ns nm) end.

(** the bencode value a Lisp value is written as (dict entries in the map's own order;
    [encode] sorts them) *)
Fixpoint inj (x : lval) : bval :=
  match x with
  | LInt z => BInt z
  | LBytes b => BStr b
  | LStr s => BStr (utf8 s)
  | LKw ns nm | LSym ns nm => BStr (utf8 (qual ns nm))
  | LVec l | LList l => BList (map inj l)
  | LMap m => BDict (map (fun kv => (lkey_bytes (fst kv), inj (snd kv))) m)
  end.
Definition encode_l (x : lval) : bytes := encode (inj x).
