(** C19 correspondence interface: cases, observable outputs, spec predicate, model.
    Does not import any proof file. *)
From Coq Require Import List Bool ZArith NArith.
Import ListNotations.
From Verif Require Export Common.ListX C19.Bencode C19.Spec.
Local Open Scope N_scope.

Fixpoint bval_eqb (a b : bval) {struct a} : bool :=
  match a, b with
  | BNil, BNil => true
  | BInt x, BInt y => Z.eqb x y
  | BStr x, BStr y => str_eqb x y
  | BList x, BList y =>
      (fix go (x y : list bval) : bool :=
         match x, y with
         | [], [] => true
         | a :: x', b :: y' => bval_eqb a b && go x' y'
         | _, _ => false
         end) x y
  | BDict x, BDict y =>
      (fix go (x y : list (bytes * bval)) : bool :=
         match x, y with
         | [], [] => true
         | (k1, a) :: x', (k2, b) :: y' => str_eqb k1 k2 && bval_eqb a b && go x' y'
         | _, _ => false
         end) x y
  | _, _ => false
  end.

Inductive case :=
| CBStream (msgs : list bval) (k : N)   (* encode each message, concatenate, keep the first k bytes, decode-all *)
| CBRaw (data : bytes)                  (* decode-all on arbitrary (malformed) bytes *)
| CBEnc (v : bval).                     (* encode alone *)

Inductive out :=
| OBAll (items : list bval) (rest : bytes)   (* [values* incomplete*]; dict entries sorted by key, nil rest = [] *)
| OBytes (b : bytes)
| OErr (cls : N).                            (* an exception escaped (1), timeout/hang (3), harness trouble (2), model out of fuel (9) *)

Definition out_eqb (a b : out) : bool :=
  match a, b with
  | OBAll i1 r1, OBAll i2 r2 => list_eqb bval_eqb i1 i2 && str_eqb r1 r2
  | OBytes x, OBytes y => str_eqb x y
  | OErr x, OErr y => N.eqb x y
  | _, _ => false
  end.

Definition spec_ok (c : case) (o : out) : bool :=
  match c, o with
  | CBStream msgs k, OBAll items rest =>
      forallb wf msgs &&
      (let s := split_stream msgs (N.to_nat k) in list_eqb bval_eqb (fst s) items && str_eqb (snd s) rest)
  | CBRaw _, OBAll _ _ => true            (* arbitrary bytes: decode-all must answer, nothing more is prescribed *)
  | CBEnc v, OBytes b => wf v && str_eqb (ref_encode v) b
  | _, _ => false
  end.

Definition run_decode_all (data : bytes) : out :=
  match decode_all data with
  | Some (items, rest) => OBAll items rest
  | None => OErr 9
  end.

Definition model (c : case) : out :=
  match c with
  | CBStream msgs k => run_decode_all (firstn (N.to_nat k) (concat (map encode msgs)))
  | CBRaw data => run_decode_all data
  | CBEnc v => OBytes (encode v)
  end.
