(** C19 correspondence interface: cases, observable outputs, spec predicate, model.
    Does not import any proof file. *)
From Coq Require Import List Bool ZArith NArith Ascii.
From Coq Require String.
Import ListNotations.
From Verif Require Export Common.ListX C19.Bencode C19.Edn C19.Json C19.Spec.
Local Open Scope N_scope.

(** compact literals for the case files: bytes as a hex string *)
Definition hexval (a : ascii) : N := let n := N_of_ascii a in if n <? 58 then n - 48 else n - 87.
Fixpoint hx (s : String.string) : list N :=
  match s with
  | String.String a (String.String b r) => (16 * hexval a + hexval b) :: hx r
  | _ => []
  end.

Fixpoint bval_eqb (a b : bval) {struct a} : bool :=
  match a, b with
  | BNil, BNil => true
  | BInt x, BInt y => Z.eqb x y
  | BStr x, BStr y => str_eqb x y
  | BList x, BList y =>
      (fix go (x y : list bval) : bool :=
         match x, y with
         | [], [] => true
         | a :: x', b :: y' => bval_eqb a b && go x' y'
         | _, _ => false
         end) x y
  | BDict x, BDict y =>
      (fix go (x y : list (bytes * bval)) : bool :=
         match x, y with
         | [], [] => true
         | (k1, a) :: x', (k2, b) :: y' => str_eqb k1 k2 && bval_eqb a b && go x' y'
         | _, _ => false
         end) x y
  | _, _ => false
  end.

(** EDN values: maps and sets compared as unordered collections *)
Definition ostr_eqb (a b : option str) : bool := option_eqb str_eqb a b.

Fixpoint edn_eqb (a b : edn) {struct a} : bool :=
  let all2 := fix all2 (x y : list edn) : bool :=
                match x, y with
                | [], [] => true
                | a :: x', b :: y' => edn_eqb a b && all2 x' y'
                | _, _ => false
                end in
  match a, b with
  | ENil, ENil => true
  | EBool x, EBool y => Bool.eqb x y
  | EInt x, EInt y => Z.eqb x y
  | EFloat x, EFloat y => str_eqb x y
  | EStr x, EStr y => str_eqb x y
  | EKw n1 s1, EKw n2 s2 => ostr_eqb n1 n2 && str_eqb s1 s2
  | ESym n1 s1, ESym n2 s2 => ostr_eqb n1 n2 && str_eqb s1 s2
  | EVec x, EVec y => all2 x y
  | EList x, EList y => all2 x y
  | ESet x, ESet y =>
      Nat.eqb (length x) (length y) &&
      (fix sub (x : list edn) : bool :=
         match x with [] => true | a :: x' => existsb (edn_eqb a) y && sub x' end) x
  | EMap x, EMap y =>
      Nat.eqb (length x) (length y) &&
      (fix sub (x : list (edn * edn)) : bool :=
         match x with
         | [] => true
         | (k, v) :: x' => existsb (fun kv => edn_eqb k (fst kv) && edn_eqb v (snd kv)) y && sub x'
         end) x
  | _, _ => false
  end.

(** no map or set with two or more entries: the written text does not depend on hash order *)
Fixpoint order_free (v : edn) : bool :=
  match v with
  | EVec l | EList l => forallb order_free l
  | ESet l => (length l <=? 1)%nat && forallb order_free l
  | EMap m => (length m <=? 1)%nat && forallb (fun kv => order_free (fst kv) && order_free (snd kv)) m
  | _ => true
  end.

Definition jkey_eqb (a b : jkey) : bool :=
  match a, b with
  | JKStr x, JKStr y => str_eqb x y
  | JKKw n1 s1, JKKw n2 s2 => ostr_eqb n1 n2 && str_eqb s1 s2
  | JKSym n1 s1, JKSym n2 s2 => ostr_eqb n1 n2 && str_eqb s1 s2
  | _, _ => false
  end.

Fixpoint jval_eqb (a b : jval) {struct a} : bool :=
  let all2 := fix all2 (x y : list jval) : bool :=
                match x, y with
                | [], [] => true
                | a :: x', b :: y' => jval_eqb a b && all2 x' y'
                | _, _ => false
                end in
  match a, b with
  | JNil, JNil => true
  | JBool x, JBool y => Bool.eqb x y
  | JInt x, JInt y => Z.eqb x y
  | JFloat x, JFloat y => str_eqb x y
  | JStr x, JStr y => str_eqb x y
  | JKw n1 s1, JKw n2 s2 => ostr_eqb n1 n2 && str_eqb s1 s2
  | JSym n1 s1, JSym n2 s2 => ostr_eqb n1 n2 && str_eqb s1 s2
  | JVec x, JVec y => all2 x y
  | JList x, JList y => all2 x y
  | JSet x, JSet y => all2 x y
  | JMap x, JMap y =>
      Nat.eqb (length x) (length y) &&
      (fix sub (x : list (jkey * jval)) : bool :=
         match x with
         | [] => true
         | (k, v) :: x' => existsb (fun kv => jkey_eqb k (fst kv) && jval_eqb v (snd kv)) y && sub x'
         end) x
  | _, _ => false
  end.

Definition dialect_of (rd : N) : dialect := if rd =? 0 then Edn else Lisp.

(** [py_float] in the correspondence run: the generated float tokens are chosen so that
    repr(float(t)) = t for every digits/dot/minus prefix the readers can hand to float() *)
Definition py_float_id (t : str) : option str := Some t.

Inductive case :=
| CBStream (msgs : list bval)           (* encode each message, concatenate; for EVERY k in 0..length keep the
                                           first k bytes and decode-all *)
| CBRaw (data : bytes)                  (* decode-all on arbitrary (malformed) bytes *)
| CBEnc (v : bval)                      (* encode alone *)
| CBLisp (x : lval)                     (* encode a Lisp value (strings, keywords, symbols, maps in any order), decode-all *)
| CEdn (rd : N) (v : edn)               (* edn/write-string, then read back: rd 0 edn/read-string, 1 core/read-string *)
| CEdnText (rd : N) (text : str)        (* read an arbitrary text (validates the reader models) *)
| CJson (v : jval).                     (* json/write-str then json/read-str *)

Inductive out :=
| OBAll (items : list bval) (rest : bytes)   (* [values* incomplete*]; dict entries sorted by key, nil rest = [] *)
| OBCuts (l : list (list bval * bytes))      (* the same, one entry per cut point 0..length *)
| OBytes (b : bytes)
| OEdn (text : str) (back : edn)             (* written text ([] when it depends on hash order), value read back *)
| OEdnErr (text : str) (cls : N)             (* the reader raised: 1 its own syntax error class, 2 another class;
                                                from the model also 7 = outside the model *)
| OJson (back : jval)
| OErr (cls : N).                            (* an exception escaped (1), timeout/hang (3), harness trouble (2), model out of fuel (9) *)

Definition out_eqb (a b : out) : bool :=
  match a, b with
  | OBAll i1 r1, OBAll i2 r2 => list_eqb bval_eqb i1 i2 && str_eqb r1 r2
  | OBCuts x, OBCuts y => list_eqb (fun a b => list_eqb bval_eqb (fst a) (fst b) && str_eqb (snd a) (snd b)) x y
  | OBytes x, OBytes y => str_eqb x y
  | OEdnErr _ 7, (OEdn _ _ | OEdnErr _ _) => true       (* the model does not claim to know *)
  | OEdn t1 b1, OEdn t2 b2 => str_eqb t1 t2 && edn_eqb b1 b2
  | OEdnErr t1 c1, OEdnErr t2 c2 => str_eqb t1 t2 && N.eqb c1 c2
  | OJson x, OJson y => jval_eqb x y
  | OErr x, OErr y => N.eqb x y
  | _, _ => false
  end.

Definition spec_ok (c : case) (o : out) : bool :=
  match c, o with
  | CBStream msgs, OBCuts l =>
      forallb wf msgs &&
      list_eqb (fun a b => list_eqb bval_eqb (fst a) (fst b) && str_eqb (snd a) (snd b))
               (map (split_stream msgs) (seq 0 (S (length (concat (map ref_encode msgs)))))) l
  | CBRaw _, OBAll _ _ => true            (* arbitrary bytes: decode-all must answer, nothing more is prescribed *)
  | CBEnc v, OBytes b => wf v && str_eqb (ref_encode v) b
  | CBLisp x, OBAll items rest =>
      if dkeys (inj x) then list_eqb bval_eqb [norm (inj x)] items && str_eqb [] rest
      else true                                (* colliding key encodings: nothing prescribed *)
  | CEdn _ v, OEdn _ back => edn_eqb v back          (* reads back as an equal value of the same type *)
  | CEdnText _ _, (OEdn _ _ | OEdnErr _ _) => true   (* arbitrary text: nothing prescribed beyond answering *)
  | CJson v, OJson back => if jkeys_distinct v then jval_eqb (coerce v) back else true   (* colliding key names: nothing prescribed *)
  | _, _ => false
  end.

Definition run_decode_all (data : bytes) : out :=
  match decode_all data with
  | Some (items, rest) => OBAll items rest
  | None => OErr 9
  end.

Fixpoint all_some {A} (l : list (option A)) : option (list A) :=
  match l with
  | [] => Some []
  | None :: _ => None
  | Some x :: t => option_map (cons x) (all_some t)
  end.

Definition model (c : case) : out :=
  match c with
  | CBStream msgs =>
      let data := concat (map encode msgs) in
      match all_some (map (fun k => decode_all (firstn k data)) (seq 0 (S (length data)))) with
      | Some l => OBCuts l
      | None => OErr 9
      end
  | CBRaw data => run_decode_all data
  | CBEnc v => OBytes (encode v)
  | CBLisp x => run_decode_all (encode_l x)
  | CEdn rd v =>
      let text := write v in
      let shown := if order_free v then text else [] in
      match read_string py_float_id (dialect_of rd) text with
      | ROk b => OEdn shown b
      | RErr e => OEdnErr shown e
      | RFuel => OErr 9
      end
  | CEdnText rd text =>
      match read_string py_float_id (dialect_of rd) text with
      | ROk b => OEdn [] b
      | RErr e => OEdnErr [] e
      | RFuel => OErr 9
      end
  | CJson v => OJson (from_py (to_py v))
  end.
