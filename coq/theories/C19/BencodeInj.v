(** C19 -- the bencode writer is injective on well-formed values and its image is a prefix
    code: no encoding is a proper prefix of another, so a concatenation of messages has one
    reading only.  Corollaries of the round-trip theorem. *)
From Coq Require Import List Bool ZArith NArith.
Import ListNotations.
From Verif Require Import Common.ListX Gen.Tables C19.Bencode C19.BencodeProofs.

Theorem encode_prefix_code v w q : wf v = true -> wf w = true ->
  encode v = encode w ++ q -> v = w /\ q = [].
Proof.
  intros Hv Hw E.
  pose proof (bencode_roundtrip v [] Hv) as Rv.
  pose proof (bencode_roundtrip w q Hw) as Rw.
  rewrite app_nil_r in Rv. rewrite E, Rw in Rv.
  inversion Rv; subst; split; reflexivity.
Qed.

Theorem encode_injective v w : wf v = true -> wf w = true -> encode v = encode w -> v = w.
Proof.
  intros Hv Hw E. apply (encode_prefix_code v w [] Hv Hw). rewrite app_nil_r. exact E.
Qed.

(** two streams of well-formed messages with the same bytes are the same messages *)
Theorem stream_injective : forall ms ns, forallb wf ms = true -> forallb wf ns = true ->
  concat (map encode ms) = concat (map encode ns) -> ms = ns.
Proof.
  induction ms as [|m ms IH]; intros ns Hm Hn E.
  - destruct ns as [|n ns]; [reflexivity|]. cbn [map concat] in E. cbn [forallb] in Hn.
    apply andb_prop in Hn as [Hn _].
    pose proof (bencode_roundtrip n (concat (map encode ns)) Hn) as R.
    rewrite <- E in R. exfalso.
    pose proof (decode_val_len _ _ _ R) as L. cbn in L. inversion L.
  - destruct ns as [|n ns].
    + cbn [map concat] in E. cbn [forallb] in Hm. apply andb_prop in Hm as [Hm _].
      pose proof (bencode_roundtrip m (concat (map encode ms)) Hm) as R.
      rewrite E in R. exfalso.
      pose proof (decode_val_len _ _ _ R) as L. cbn in L. inversion L.
    + cbn [map concat] in E. cbn [forallb] in Hm, Hn.
      apply andb_prop in Hm as [Hm Hms]. apply andb_prop in Hn as [Hn Hns].
      pose proof (bencode_roundtrip m (concat (map encode ms)) Hm) as Rm.
      pose proof (bencode_roundtrip n (concat (map encode ns)) Hn) as Rn.
      rewrite E, Rn in Rm. inversion Rm; subst. f_equal. apply IH; auto.
Qed.
