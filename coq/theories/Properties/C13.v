(** C13 -- Delays run once, promises deliver once, futures yield their body's outcome.
    Only statements closed by [exact], and Print Assumptions.

    [dreach]/[preach] range over ALL interleavings of ANY number of threads running any
    lists of operations (for promises also over every placement of the timeouts of timed
    derefs).  The machines are C13/Delay.v and C13/Promise.v with the shapes regenerated
    from delay.py, promise.py, futures.py, atom.py (Gen.Tables). *)
From Coq Require Import List Bool Arith ZArith NArith Lia.
Import ListNotations.
From Verif Require Import Common.ListX Gen.Tables.
From Verif Require Import C13.Spec C13.Delay C13.Promise C13.Future C13.Corr.
From Verif Require Import C13.DelayProofs C13.PromiseProofs C13.Final.

Notation dreachZ body := (@dreach Z delay_deref_mode d_cas_ok body).
Notation dstepZ body := (@dstep Z delay_deref_mode d_cas_ok body).
Notation preachZ := (@preach pv None).

(** the shapes the models are built for: double-checked lock in Delay.deref; flag, value,
    notify_all under the condition in Promise; done-check in Future.deref; identity-first CAS *)
Theorem C13_table_modes :
  delay_deref_mode = 1%N /\ promise_shape = 1%N /\ future_deref_mode = 1%N /\ atom_cas_mode = 1%N.
Proof. exact Final.modes. Qed.

(** Delay.  Whatever the body does (any function of the run index: returns, or throws), a
    run of the body begins only when no run is in progress and none has ever returned. *)
Theorem C13_delay_once : forall body progs s t s',
  dreachZ body (dinit progs) s -> dstepZ body t s = Some s' ->
  dcur delay_deref_mode (dthr s t) = DBodyB ->
  inbody s = 0 /\ rets s = [].
Proof. exact Final.delay_once. Qed.

(** ... hence the chronological body log is accepted by Spec.once_log, at most one run is
    in progress and at most one run has returned, in every reachable state *)
Theorem C13_delay_log_once : forall body progs s,
  dreachZ body (dinit progs) s ->
  once_log (map snd (rev (blog s))) = true /\ inbody s <= 1 /\ length (rets s) <= 1.
Proof. exact Final.delay_log_once. Qed.

(** every deref that returned a value returned the value of that one run: all agree *)
Theorem C13_delay_value_stable : forall body progs s t1 o1 v1 t2 o2 v2,
  dreachZ body (dinit progs) s ->
  In (o1, DVal v1) (d_done (dthr s t1)) -> In (o2, DVal v2) (d_done (dthr s t2)) ->
  rets s = [v1] /\ v1 = v2.
Proof. exact Final.delay_value_stable. Qed.

(** the defect this replaced (finding F-13, fixed): with the body inside swap's retry loop
    and no lock, two racing derefs both run the body *)
Theorem C13_delay_unlocked_runs_twice :
  exists s, drun 0%N d_cas_ok (script_body [Some 7%Z]) Final.unlocked_sched
                 (dinit (progs_of [[DDeref]; [DDeref]])) = Some s
            /\ @dreach Z 0%N d_cas_ok (script_body [Some 7%Z]) (dinit (progs_of [[DDeref]; [DDeref]])) s
            /\ rets s = [7%Z; 7%Z] /\ once_log (map snd (rev (blog s))) = false.
Proof. exact Final.delay_unlocked_runs_twice. Qed.

(** Promise.  The history of linearization events (oldest first) is a run of the
    reference promise of Spec.v ... *)
Theorem C13_promise_history_ok : forall progs s,
  preachZ (pinit None progs) s -> promise_log_ok pv_eqb (rev (phist s)) = true.
Proof. exact Final.promise_history_ok. Qed.

(** ... so: after the first deliver that took effect no other deliver does, and every
    value read is the one it delivered *)
Theorem C13_promise_first_wins : forall progs s l1 v l2,
  preachZ (pinit None progs) s -> rev (phist s) = l1 ++ EDeliver v :: l2 ->
  (forall u, ~ In (EDeliver u) l2) /\ (forall u, In (EValue u) l2 -> pv_eqb u v = true).
Proof. exact Final.promise_first_wins. Qed.

(** every deref that returned, returned the delivered value, or -- a timed deref -- its
    timeout value *)
Theorem C13_promise_deref_result : forall progs s t tm v,
  preachZ (pinit None progs) s -> In (PDeref tm, PRet v) (p_done (pthr s t)) ->
  (exists w, plog_run pv_eqb (rev (phist s)) = Some (Some w) /\ v = w) \/ tm = Some v.
Proof. exact Final.promise_deref_result. Qed.

(** once flag and value are stored and the lock is free, a deref by any thread returns the
    delivered value in four of its own steps, without waiting *)
Theorem C13_promise_deref_after_deliver : forall (s : pstate pv) t tm rest,
  delivered s = true -> plock s = None ->
  p_ops (pthr s t) = PDeref tm :: rest -> p_pc (pthr s t) = QIdle ->
  exists s1 s2 s3 s4,
    pstep None t ARun s = Some s1 /\ pstep None t ARun s1 = Some s2 /\ pstep None t ARun s2 = Some s3
    /\ pstep None t ARun s3 = Some s4
    /\ p_done (pthr s4 t) = (PDeref tm, PRet (pvalue s)) :: p_done (pthr s t)
    /\ p_ops (pthr s4 t) = rest /\ plock s4 = None.
Proof. exact Final.promise_deref_after_deliver. Qed.

(** a timed deref returns its timeout value only while nothing has been delivered *)
Theorem C13_timeout_only_if_undelivered : forall progs s l1 v l2,
  preachZ (pinit None progs) s -> rev (phist s) = l1 ++ EDeliver v :: l2 -> ~ In ETimeout l2.
Proof. exact Final.timeout_only_if_undelivered. Qed.

(** Future: for EVERY one-shot cell satisfying the stated hypotheses about
    concurrent.futures.Future (Section Future in C13/Future.v), once the cell is done a
    deref -- timed or not -- yields the body's outcome: its value, or the exception it
    raised, TimeoutError included; the three calls the wrapper makes may see the cell at
    different moments c1, c2, c3 *)
Theorem C13_future_outcome :
  forall (V Cell : Type) (outcome_of : Cell -> option (outcome V)) (cstep : Cell -> Cell -> Prop),
  (forall c c' o, cstep c c' -> outcome_of c = Some o -> outcome_of c' = Some o) ->
  forall c1 c2 c3 tv o, cstep c1 c2 -> cstep c2 c3 -> outcome_of c1 = Some o ->
  deref_timed outcome_of future_deref_mode c1 c2 c3 tv = Some (yield_of o)
  /\ deref_done outcome_of future_deref_mode c1 c2 c3 tv = Some (yield_of o).
Proof.
  intros V Cell outcome_of cstep H c1 c2 c3 tv o S12 S23 H1. split.
  - exact (future_outcome_timed outcome_of cstep H future_deref_mode Final.future_mode_nonzero c1 c2 c3 tv o S12 S23 H1).
  - exact (future_outcome_untimed outcome_of cstep H future_deref_mode Final.future_mode_nonzero c1 c2 c3 tv o S12 S23 H1).
Qed.

(** ... and a timed deref yields the timeout value only if the cell was not done *)
Theorem C13_future_timeout_only_if_pending :
  forall (V Cell : Type) (outcome_of : Cell -> option (outcome V)) (cstep : Cell -> Cell -> Prop),
  (forall c c' o, cstep c c' -> outcome_of c = Some o -> outcome_of c' = Some o) ->
  forall c1 c2 c3 tv r, cstep c1 c2 -> cstep c2 c3 ->
  deref_timed outcome_of future_deref_mode c1 c2 c3 tv = Some r ->
  (outcome_of c1 = None /\ r = YRet tv) \/ (exists o, outcome_of c3 = Some o /\ r = yield_of o).
Proof.
  intros V Cell outcome_of cstep H.
  exact (future_timeout_only_if_pending outcome_of cstep H future_deref_mode Final.future_mode_nonzero).
Qed.

(** the defect this replaced (finding F-13b, fixed): the wrapper turned a TimeoutError
    raised by the body into the timeout value *)
Theorem C13_future_mode0_swallows_timeouterror : forall (tv : nat),
  @deref_done nat (option (outcome nat)) (fun c => c) 0%N
      (Some (ORaise ETimeoutError)) (Some (ORaise ETimeoutError)) (Some (ORaise ETimeoutError)) tv
  = Some (YRet tv).
Proof. exact future_mode0_swallows. Qed.

(** realized? is monotone for all three *)
Theorem C13_realized_monotone :
  (forall body progs s, dreachZ body (dinit progs) s -> mono_bools (rev (rlog s)) = true)
  /\ (forall progs s, preachZ (pinit None progs) s -> mono_bools (reals (rev (phist s))) = true)
  /\ (forall (V Cell : Type) (outcome_of : Cell -> option (outcome V)) (cstep : Cell -> Cell -> Prop),
        (forall c c' o, cstep c c' -> outcome_of c = Some o -> outcome_of c' = Some o) ->
        forall c c', cstep c c' -> cf_done outcome_of c = true -> cf_done outcome_of c' = true).
Proof.
  split; [exact Final.delay_realized_monotone|split; [exact Final.promise_realized_monotone|]].
  intros V Cell outcome_of cstep H. exact (future_realized_monotone outcome_of cstep H).
Qed.

Print Assumptions C13_table_modes.
Print Assumptions C13_delay_once.
Print Assumptions C13_delay_log_once.
Print Assumptions C13_delay_value_stable.
Print Assumptions C13_delay_unlocked_runs_twice.
Print Assumptions C13_promise_history_ok.
Print Assumptions C13_promise_first_wins.
Print Assumptions C13_promise_deref_result.
Print Assumptions C13_promise_deref_after_deliver.
Print Assumptions C13_timeout_only_if_undelivered.
Print Assumptions C13_future_outcome.
Print Assumptions C13_future_timeout_only_if_pending.
Print Assumptions C13_future_mode0_swallows_timeouterror.
Print Assumptions C13_realized_monotone.
