(** C20 -- integer and ratio arithmetic is exact and quot/rem/mod obey their identities.
    This file contains only statements, each closed by [exact], and Print Assumptions.

    [arith], [divop], [unop], [cmpop] are the model of basilisp.core's [+ - * /],
    [quot rem mod], [inc dec inc' dec' - abs / zero?], [< <= > >= =]: the bodies of the defns
    of core.lpy and the handlers of lang/numbers.py as re-translated from the source on every
    check (Gen/Tables.v), instantiated with the model of CPython's int / Fraction / Decimal /
    float tower of C20/Model.v.  [den v] is the rational number an int or Fraction denotes;
    [normal v] says v is an int or a reduced Fraction with denominator <> 1. *)
From Coq Require Import List Bool ZArith NArith QArith Qreduction Qround Qabs String.
Import ListNotations.
From Verif Require Import Common.ListX Gen.Tables C20.Model C20.Spec C20.SpecProofs C20.Proofs C20.ModRem.
Open Scope Q_scope.

(** Obligations on the tables regenerated from optimizer.py: every operator the optimizer
    rewrites gets the Python operator and operand order the operator module documents, and
    the twelve arithmetic / comparison names of the model are among the rewritten ones. *)
Theorem C20_table_operator_rewrites : forallb opt_entry_ok c20_opt_ops = true.
Proof. exact Proofs.opt_table_ok. Qed.
Theorem C20_table_modelled_operators_rewritten :
  forallb (fun n => match lookup_op n c20_opt_ops with Some _ => true | None => false end)
    [s "add"; s "sub"; s "mul"; s "truediv"; s "floordiv"; s "mod";
     s "lt"; s "le"; s "eq"; s "ne"; s "gt"; s "ge"] = true.
Proof. exact Proofs.modelled_ops_rewritten. Qed.

(** + - * / on integers and ratios of any magnitude are exactly rational arithmetic, and the
    result is again in normal form *)
Theorem C20_ring_exact : forall o x y, normal x -> normal y -> (o = ODiv -> ~ den y == 0) ->
  exists v, arith o x y = Val v /\ normal v /\ den v == qop o (den x) (den y).
Proof. exact Proofs.ring_exact. Qed.
Theorem C20_int_closed : forall a b,
  arith OAdd (PInt a) (PInt b) = Val (PInt (a + b)) /\
  arith OSub (PInt a) (PInt b) = Val (PInt (a - b)) /\
  arith OMul (PInt a) (PInt b) = Val (PInt (a * b)).
Proof. exact Proofs.int_closed. Qed.
Theorem C20_zero_divisor : forall x y, normal x -> normal y -> den y == 0 ->
  arith ODiv x y = Exc EZeroDiv /\ forall o, divop o x y = Exc EZeroDiv.
Proof. exact Proofs.zero_divisor. Qed.

(** an integral ratio is an integer: no operation returns a Fraction that denotes an integer *)
Theorem C20_integral_ratio_is_int : forall o x y v z, normal x -> normal y ->
  arith o x y = Val v -> den v == inject_Z z -> v = PInt z.
Proof. exact Proofs.integral_ratio_is_int_arith. Qed.
Theorem C20_integral_ratio_is_int_quot_rem_mod : forall o x y v z, normal x -> normal y ->
  divop o x y = Val v -> den v == inject_Z z -> v = PInt z.
Proof. exact Proofs.integral_ratio_is_int_divop. Qed.

(** for every non-zero divisor: x = y * quot + rem, quot is an integer, rem has the sign of
    x (or is zero) and is smaller in magnitude than y -- integers and ratios alike *)
Theorem C20_quot_rem : forall x y, normal x -> normal y -> ~ den y == 0 ->
  exists q r, divop OQuot x y = Val (PInt q) /\ divop ORem x y = Val r /\ normal r /\
              den x == den y * inject_Z q + den r /\
              (0 <= den x -> 0 <= den r) /\ (den x <= 0 -> den r <= 0) /\
              Qabs (den r) < Qabs (den y).
Proof. exact Proofs.quot_rem_identity. Qed.
(** mod is congruent to x modulo y, has the sign of y (or is zero), magnitude below |y| *)
Theorem C20_mod_sign : forall x y, normal x -> normal y -> ~ den y == 0 ->
  exists m k, divop OMod x y = Val m /\ normal m /\
              den x == den y * inject_Z k + den m /\
              (0 < den y -> 0 <= den m /\ den m < den y) /\
              (den y < 0 -> den y < den m /\ den m <= 0).
Proof. exact Proofs.mod_law. Qed.
(** mod and rem of the same operands differ by nothing or by the divisor: mod is rem when the
    remainder is zero or has the divisor's sign, and rem + y otherwise *)
Theorem C20_mod_is_rem_or_rem_plus_divisor : forall x y, normal x -> normal y -> ~ den y == 0 ->
  exists r m, divop ORem x y = Val r /\ divop OMod x y = Val m /\
              (den m == den r \/ den m == den r + den y) /\
              (den m == den r <->
               den r == 0 \/ (0 < den y /\ 0 < den r) \/ (den y < 0 /\ den r < 0)).
Proof. exact ModRem.mod_is_rem_or_rem_plus_divisor. Qed.
(** on integers they are Coq's Z.quot, Z.rem and Z.modulo *)
Theorem C20_int_quot_rem_mod : forall a b, b <> 0%Z ->
  divop OQuot (PInt a) (PInt b) = Val (PInt (Z.quot a b)) /\
  divop ORem (PInt a) (PInt b) = Val (PInt (Z.rem a b)) /\
  divop OMod (PInt a) (PInt b) = Val (PInt (a mod b)).
Proof. exact Proofs.int_quot_rem_mod. Qed.

(** the model of the code computes the reference semantics of Spec.v *)
Theorem C20_arith_is_reference : forall o x y, exactv x -> exactv y ->
  arith o x y = ref_arith o (den x) (den y).
Proof. exact Proofs.arith_is_ref. Qed.
Theorem C20_quot_rem_mod_is_reference : forall o x y, exactv x -> exactv y ->
  divop o x y = ref_divop o (den x) (den y).
Proof. exact Proofs.divop_is_ref. Qed.
Theorem C20_unary_is_reference : forall o x, normal x -> unop o x = ref_unop o (den x).
Proof. exact Proofs.unop_is_ref. Qed.
Theorem C20_compare_is_reference : forall o x y, exactv x -> exactv y ->
  cmpop o x y = ref_cmp o (den x) (den y).
Proof. exact Proofs.cmpop_is_ref. Qed.

(** result types over int, ratio, Decimal, float: the type of x (op) y is the larger of the
    operand types (exact < Decimal < float), so it depends only on the operand types and not
    on their order for + and *; no combination raises TypeError *)
Theorem C20_result_type_table : forall o x y, numeric x -> numeric y -> type_ok o x y (arith o x y).
Proof. exact Proofs.arith_type_table. Qed.
Theorem C20_result_type_commutes : forall o x y, numeric x -> numeric y -> o = OAdd \/ o = OMul ->
  res_kind (arith o x y) = res_kind (arith o y x) /\ res_kind (arith o x y) <> None.
Proof. exact Proofs.type_commutes. Qed.
Theorem C20_no_type_error : forall o x y, numeric x -> numeric y -> arith o x y <> Exc EType.
Proof. exact Proofs.no_type_error. Qed.

(** inlined call = call of the function object, for every expression over the modelled
    functions (whichever of them carry ^:inline), and rewritten operator = operator function *)
Theorem C20_inline_equals_apply : forall e, eval_inline e = eval_apply e.
Proof. exact Proofs.inline_equals_apply. Qed.
Theorem C20_operator_rewrite_sound : forall name a b, lookup_op name c20_opt_ops <> None ->
  rewritten name a b = operator_call name a b.
Proof. exact Proofs.rewrite_sound. Qed.

(** non-vacuity: operands beyond 2^53, ratios, and premises that are met *)
Example C20_nonvacuous_big :
  arith OAdd (PInt (2 ^ 53)) (PInt 1) = Val (PInt 9007199254740993) /\
  arith OMul (PInt (10 ^ 30 + 1)) (PInt (10 ^ 30 - 1)) = Val (PInt (10 ^ 60 - 1)) /\
  arith ODiv (PInt (2 ^ 64)) (PInt (2 ^ 62)) = Val (PInt 4) /\
  arith ODiv (PInt (2 ^ 64 + 1)) (PInt 3) = Val (PFrac (18446744073709551617 # 3)) /\
  divop OQuot (PInt (- (10 ^ 30) - 1)) (PInt 7) = Val (PInt (-142857142857142857142857142857)) /\
  divop ORem (PInt (- (10 ^ 30) - 1)) (PInt 7) = Val (PInt (-2)) /\
  divop OMod (PInt (- (10 ^ 30) - 1)) (PInt 7) = Val (PInt 5) /\
  divop OQuot (PFrac (7 # 2)) (PFrac (1 # 3)) = Val (PInt 10) /\
  divop ORem (PFrac (-7 # 2)) (PFrac (1 # 3)) = Val (PFrac (-1 # 6)) /\
  divop OMod (PFrac (-7 # 2)) (PFrac (1 # 3)) = Val (PFrac (1 # 6)) /\
  arith OAdd (PFrac (1 # 2)) (PFrac (1 # 2)) = Val (PInt 1) /\
  normal (PFrac (7 # 2)) /\ normal (PFrac (1 # 3)) /\ ~ den (PFrac (1 # 3)) == 0.
Proof. exact Proofs.big_ints. Qed.
Example C20_nonvacuous_inline :
  existsb inlined [UInc; UDec; UIncq; UDecq; UNeg; UAbs; UInv; UZerop] = true /\
  eval_inline (XUn UInc (XArith ODiv (XLit (PInt 1)) (XLit (PInt 2)))) = Val (PFrac (3 # 2)) /\
  eval_inline (XUn UInc (XArith ODiv (XLit (PInt 1)) (XLit (PInt 0)))) = Exc EZeroDiv.
Proof. exact Proofs.inline_example. Qed.

Print Assumptions C20_table_operator_rewrites.
Print Assumptions C20_table_modelled_operators_rewritten.
Print Assumptions C20_ring_exact.
Print Assumptions C20_int_closed.
Print Assumptions C20_zero_divisor.
Print Assumptions C20_integral_ratio_is_int.
Print Assumptions C20_integral_ratio_is_int_quot_rem_mod.
Print Assumptions C20_quot_rem.
Print Assumptions C20_mod_sign.
Print Assumptions C20_mod_is_rem_or_rem_plus_divisor.
Print Assumptions C20_int_quot_rem_mod.
Print Assumptions C20_arith_is_reference.
Print Assumptions C20_quot_rem_mod_is_reference.
Print Assumptions C20_unary_is_reference.
Print Assumptions C20_compare_is_reference.
Print Assumptions C20_result_type_table.
Print Assumptions C20_result_type_commutes.
Print Assumptions C20_no_type_error.
Print Assumptions C20_inline_equals_apply.
Print Assumptions C20_operator_rewrite_sound.
Print Assumptions C20_nonvacuous_big.
Print Assumptions C20_nonvacuous_inline.
