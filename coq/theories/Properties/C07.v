(** C07 -- Sequence functions and their transducers agree with each other and the model.
    This file contains only statements, each closed by [exact], and Print Assumptions.

    Vocabulary (C07/Model.v, Spec.v, Mach.v):
      [xform A B]      a transducer: a function from reducing functions to reducing functions;
      [comp]           function composition, as basilisp.core/comp;
      [sem A B]        reference triple: [sF] the list function, [sE] what has been handed
                       downstream before completion, [sD] "finished after these inputs";
      [denotes x m]    for EVERY downstream reducing function, accumulator and input list:
                       feeding until Reduced and then completing once equals the downstream
                       process over [sF m l] (so downstream completion runs exactly once and
                       nothing is called after Reduced), the process stops on [l] iff
                       [sD m l] or downstream stopped on [sE m l], and the transducer never
                       touches the accumulator itself;
      [need D l]       length of the shortest non-empty prefix of [l] satisfying [D], else [length l]. *)
From Coq Require Import List Bool ZArith NArith Lia.
Import ListNotations.
From Verif Require Import C07.Model C07.Spec C07.Mach C07.Proofs C07.Sem C07.Sem2 C07.Partial
                          C07.Drivers C07.Lazy C07.Corr C07.Refuted C07.PipeProofs.

(** ** Composition *)
Theorem C07_comp : forall A B C (x1 : xform A B) (x2 : xform B C) m1 m2,
  denotes x1 m1 -> denotes x2 m2 -> denotes (comp x1 x2) (sem_comp m1 m2).
Proof. exact @comp_denotes. Qed.
Theorem C07_comp_guarded : forall A B C (G1 : list A -> Prop) (G2 : list B -> Prop)
    (x1 : xform A B) (x2 : xform B C) m1 m2,
  denotes_on G1 x1 m1 -> denotes_on G2 x2 m2 ->
  denotes_on (fun l => G1 l /\ G2 (sF m1 l) /\ G2 (sE m1 l)) (comp x1 x2) (sem_comp m1 m2).
Proof. exact @comp_denotes_on. Qed.

(** ** One instance per function: any element types, any functions/predicates, any input *)
Theorem C07_map : forall A B (f : A -> B), denotes (map_xf f) (sem_map f).
Proof. exact @map_denotes. Qed.
Theorem C07_map_indexed : forall A B (f : Z -> A -> B),
  denotes (map_indexed_xf f) (sem_map_indexed (fun i => f (Z.of_nat i))).
Proof. exact @map_indexed_denotes. Qed.
Theorem C07_filter : forall A (p : A -> bool), denotes (filter_xf p) (sem_filter p).
Proof. exact @filter_denotes. Qed.
Theorem C07_remove : forall A (p : A -> bool), denotes (remove_xf p) (sem_remove p).
Proof. exact @remove_denotes. Qed.
Theorem C07_keep : forall A B (f : A -> option B), denotes (keep_xf f) (sem_keep f).
Proof. exact @keep_denotes. Qed.
Theorem C07_keep_indexed : forall A B (f : Z -> A -> option B),
  denotes (keep_indexed_xf f) (sem_keep_indexed (fun i => f (Z.of_nat i))).
Proof. exact @keep_indexed_denotes. Qed.
Theorem C07_take : forall A (n : nat), denotes (@take_xf A (Z.of_nat n)) (sem_take n).
Proof. exact @take_denotes. Qed.
Theorem C07_take_while : forall A (p : A -> bool), denotes (take_while_xf p) (sem_take_while p).
Proof. exact @take_while_denotes. Qed.
Theorem C07_take_nth : forall A (n : nat), 1 <= n -> denotes (@take_nth_xf A (Z.of_nat n)) (sem_take_nth n).
Proof. exact @take_nth_denotes. Qed.
Theorem C07_drop : forall A (n : nat), denotes (@drop_xf A (Z.of_nat n)) (sem_drop n).
Proof. exact @drop_denotes. Qed.
Theorem C07_drop_while : forall A (p : A -> bool), denotes (drop_while_xf p) (sem_drop_while p).
Proof. exact @drop_while_denotes. Qed.
Theorem C07_interpose : forall A (sep : A), denotes (interpose_xf sep) (sem_interpose sep).
Proof. exact @interpose_denotes. Qed.
Theorem C07_partition_all : forall A (n : nat), 1 <= n ->
  denotes (@partition_all_xf A (Z.of_nat n)) (sem_partition_all n).
Proof. exact @partition_all_denotes. Qed.
Theorem C07_mapcat : forall A B (f : A -> list B), denotes (mapcat_xf f) (sem_mapcat f).
Proof. exact @mapcat_denotes. Qed.
Theorem C07_cat : forall A, denotes (@cat_xf A) sem_cat.
Proof. exact @cat_denotes. Qed.

(** distinct is right whenever set membership agrees with the equality used by the
    reference; on the current tree it does not (Python [==] identifies false/0, true/1) *)
Theorem C07_distinct : forall A (eqb : A -> A -> bool),
  denotes (distinct_xf (mem_of eqb)) (sem_distinct eqb).
Proof. exact @distinct_denotes. Qed.
Theorem C07_distinct_partial : forall A (eqb heqb : A -> A -> bool),
  denotes_on (fun l => distinct_guard eqb heqb l = true) (distinct_xf (mem_of heqb)) (sem_distinct eqb).
Proof. exact @distinct_partial. Qed.
Theorem C07_distinct_refuted :
  exists l : list val, fst (fst (into (distinct_xf hmem) l)) <> ref_distinct val_eqb l.
Proof. exact distinct_refuted. Qed.

(** dedupe and partition-by start from a keyword sentinel that is an ordinary value *)
Theorem C07_dedupe_partial : forall A (eqb : A -> A -> bool) (sentinel : A),
  denotes_on (fun l => dedupe_guard eqb sentinel l = true) (dedupe_xf eqb sentinel) (sem_dedupe eqb).
Proof. exact @dedupe_partial. Qed.
Theorem C07_dedupe_refuted :
  exists l : list val,
    fst (fst (into (dedupe_xf meqb kw_dedupe_sentinel) l)) <> ref_dedupe val_eqb l.
Proof. exact dedupe_refuted. Qed.
Theorem C07_partition_by_partial : forall A K (eqb : K -> K -> bool),
  (forall a, eqb a a = true) -> (forall a b, eqb a b = eqb b a) ->
  (forall a b c, eqb a b = true -> eqb b c = true -> eqb a c = true) ->
  forall (f : A -> K) (sentinel : K),
  denotes_on (fun l => partition_by_guard eqb f sentinel l = true)
             (partition_by_xf eqb f sentinel) (sem_partition_by eqb f).
Proof. exact @partition_by_partial. Qed.
Theorem C07_partition_by_refuted :
  exists l : list val,
    fst (fst (into (partition_by_xf meqb (fn1 0) kw_partition_by_sentinel) l))
    <> ref_partition_by val_eqb (fn1 0) l.
Proof. exact partition_by_refuted. Qed.
(** the premises of the three guarded theorems are met by ordinary inputs *)
Example C07_guards_nontrivial :
  dedupe_guard val_eqb kw_dedupe_sentinel [VNil; VNil; VBool false; VInt 1] = true /\
  partition_by_guard val_eqb (fn1 0%N) kw_partition_by_sentinel [VNil; VBool false; VInt 0; VKw 0%N] = true /\
  distinct_guard val_eqb heqb [VNil; VBool false; VInt 1; VInt 2; VKw 0%N] = true /\
  (forall a, val_eqb a a = true) /\ (forall a b, val_eqb a b = val_eqb b a) /\
  (forall a b c, val_eqb a b = true -> val_eqb b c = true -> val_eqb a c = true).
Proof.
  exact (conj eq_refl (conj eq_refl (conj eq_refl (conj val_eqb_refl (conj val_eqb_sym val_eqb_trans))))).
Qed.

(** ** The application forms: elements, inputs consumed, completion calls *)
Theorem C07_transduce : forall A B (G : list A -> Prop) (x : xform A B) (m : sem A B),
  denotes_on G x m -> forall l, (forall k, G (firstn k l)) ->
  transduce x (conj_rf B) ([], 0) l = ((sF m l, 1), need (sD m) l).
Proof. exact @transduce_conj. Qed.
(** with an arbitrary reducing function [f] (possibly returning Reduced itself) *)
Theorem C07_transduce_any_rf : forall A B (G : list A -> Prop) (x : xform A B) (m : sem A B),
  denotes_on G x m -> forall Acc (f : rf Acc B) (init : Acc) l, (forall k, G (firstn k l)) ->
  transduce x f init l =
    (exec_acc f init (sF m l), need (fun p => sD m p || halted f init (sE m p)) l).
Proof. exact @transduce_general. Qed.
Theorem C07_into : forall A B (G : list A -> Prop) (x : xform A B) (m : sem A B),
  denotes_on G x m -> forall l, (forall k, G (firstn k l)) ->
  into x l = ((sF m l, 1), need (sD m) l).
Proof. exact @into_correct. Qed.
Theorem C07_sequence : forall A B (G : list A -> Prop) (x : xform A B) (m : sem A B),
  denotes_on G x m -> forall l, (forall k, G (firstn k l)) ->
  sequence x l = (sF m l, 1, need (sD m) l).
Proof. exact @sequence_correct. Qed.
Theorem C07_eduction : forall A B (G : list A -> Prop) (x : xform A B) (m : sem A B),
  denotes_on G x m -> forall l, (forall k, G (firstn k l)) ->
  eduction x l = (sF m l, 1, need (sD m) l).
Proof. exact @eduction_correct. Qed.
(** infinite inputs: termination within the needed prefix, independent of the fuel *)
Theorem C07_transduce_stream : forall A B (x : xform A B) (m : sem A B), denotes x m ->
  forall (src : nat -> A) (fuel : nat), sD m (prefix src fuel) = true ->
  transduce_stream x (conj_rf B) ([], 0) src fuel =
    Some ((sF m (prefix src fuel), 1), need (sD m) (prefix src fuel)).
Proof. exact @transduce_stream_correct. Qed.
Theorem C07_transduce_stream_fuel : forall A B (x : xform A B) Acc (f : rf Acc B) init
    (src : nat -> A) fuel fuel' v, fuel <= fuel' ->
  transduce_stream x f init src fuel = Some v -> transduce_stream x f init src fuel' = Some v.
Proof. exact @transduce_stream_mono. Qed.

(** ** The lazy-seq arities *)
Theorem C07_lazy_form_map : forall A B (f : A -> B) l, lazy_map f l = ref_map f l.
Proof. exact @lazy_map_ref. Qed.
Theorem C07_lazy_form_map_indexed : forall A B (f : Z -> A -> B) l,
  lazy_map_indexed f l = ref_map_indexed (fun i => f (Z.of_nat i)) l.
Proof. exact @lazy_map_indexed_ref. Qed.
Theorem C07_lazy_form_filter : forall A (p : A -> bool) l, lazy_filter p l = ref_filter p l.
Proof. exact @lazy_filter_ref. Qed.
Theorem C07_lazy_form_remove : forall A (p : A -> bool) l, lazy_remove p l = ref_remove p l.
Proof. exact @lazy_remove_ref. Qed.
Theorem C07_lazy_form_keep : forall A B (f : A -> option B) l, lazy_keep f l = ref_keep f l.
Proof. exact @lazy_keep_ref. Qed.
Theorem C07_lazy_form_keep_indexed : forall A B (f : Z -> A -> option B) l,
  lazy_keep_indexed f l = ref_keep_indexed (fun i => f (Z.of_nat i)) l.
Proof. exact @lazy_keep_indexed_ref. Qed.
Theorem C07_lazy_form_take : forall A (l : list A) n, lazy_take (Z.of_nat n) l = ref_take n l.
Proof. exact @lazy_take_ref. Qed.
Theorem C07_lazy_form_take_while : forall A (p : A -> bool) l, lazy_take_while p l = ref_take_while p l.
Proof. exact @lazy_take_while_ref. Qed.
Theorem C07_lazy_form_take_nth : forall A (n : nat) (l : list A), 1 <= n ->
  lazy_take_nth (Z.of_nat n) l = ref_take_nth n l.
Proof. exact @lazy_take_nth_ref. Qed.
Theorem C07_lazy_form_drop : forall A (l : list A) n, lazy_drop (Z.of_nat n) l = ref_drop n l.
Proof. exact @lazy_drop_ref. Qed.
Theorem C07_lazy_form_drop_while : forall A (p : A -> bool) l, lazy_drop_while p l = ref_drop_while p l.
Proof. exact @lazy_drop_while_ref. Qed.
Theorem C07_lazy_form_interpose : forall A (sep : A) l, lazy_interpose sep l = ref_interpose sep l.
Proof. exact @lazy_interpose_ref. Qed.
Theorem C07_lazy_form_partition_all : forall A (n : nat) (l : list A),
  lazy_partition_all (Z.of_nat n) l = ref_partition_all n l.
Proof. exact @lazy_partition_all_ref. Qed.
Theorem C07_lazy_form_partition_by : forall A K (eqb : K -> K -> bool),
  (forall a, eqb a a = true) -> (forall a b, eqb a b = eqb b a) ->
  (forall a b c, eqb a b = true -> eqb b c = true -> eqb a c = true) ->
  forall (f : A -> K) l, lazy_partition_by eqb f l = ref_partition_by eqb f l.
Proof. exact @lazy_partition_by_ref. Qed.
Theorem C07_lazy_form_distinct_partial : forall A (eqb heqb : A -> A -> bool) l,
  (forall x y, In x l -> In y l -> heqb x y = eqb x y) ->
  lazy_distinct (mem_of heqb) l = ref_distinct eqb l.
Proof. exact @lazy_distinct_ref_on. Qed.
Theorem C07_lazy_form_distinct_refuted :
  exists l : list val, lazy_distinct hmem l <> ref_distinct val_eqb l.
Proof. exact lazy_distinct_refuted. Qed.
Theorem C07_lazy_form_dedupe : forall A (eqb : A -> A -> bool), (forall a b, eqb a b = eqb b a) ->
  forall l, lazy_dedupe eqb l = ref_dedupe eqb l.
Proof. exact @lazy_dedupe_ref. Qed.
Theorem C07_lazy_form_mapcat : forall A B (f : A -> list B) l, lazy_mapcat f l = ref_mapcat f l.
Proof. exact @lazy_mapcat_ref. Qed.
Theorem C07_lazy_form_iterate : forall A n (g : A -> A) x, iterate_take n g x = ref_iterate n g x.
Proof. exact @iterate_take_ref. Qed.

(** ** The concrete model checked by the correspondence meets the prescription: every
    pipeline built from the stage syntax of C07/Corr.v that does not compare elements
    (no distinct / dedupe / partition-by; take-nth and partition-all with n >= 1), every
    input, bounded or unbounded source, all five application forms *)
Theorem C07_pipeline_model_meets_spec : forall pipe input limit, pipe_ok pipe = true ->
  spec_ok (CPipe pipe input limit) (model (CPipe pipe input limit)) = true.
Proof. exact model_case_meets_spec. Qed.
Theorem C07_pipeline_denotes : forall pipe, pipe_ok pipe = true -> denotes (xf_pipe pipe) (sem_pipe pipe).
Proof. exact pipe_denotes. Qed.
Theorem C07_iterate_model_meets_spec : forall n table dflt x,
  spec_ok (CIterate n table dflt x) (model (CIterate n table dflt x)) = true.
Proof. exact model_iterate_meets_spec. Qed.
Example C07_pipe_ok_nontrivial :
  pipe_ok [SPartAll 2%N; SCat; SInterpose (VKw 4%N); STake 3%N; SMapIdx 0%N; SMapcat 2%N] = true.
Proof. exact eq_refl. Qed.

Print Assumptions C07_comp.
Print Assumptions C07_comp_guarded.
Print Assumptions C07_map.
Print Assumptions C07_map_indexed.
Print Assumptions C07_filter.
Print Assumptions C07_remove.
Print Assumptions C07_keep.
Print Assumptions C07_keep_indexed.
Print Assumptions C07_take.
Print Assumptions C07_take_while.
Print Assumptions C07_take_nth.
Print Assumptions C07_drop.
Print Assumptions C07_drop_while.
Print Assumptions C07_interpose.
Print Assumptions C07_partition_all.
Print Assumptions C07_mapcat.
Print Assumptions C07_cat.
Print Assumptions C07_distinct.
Print Assumptions C07_distinct_partial.
Print Assumptions C07_distinct_refuted.
Print Assumptions C07_dedupe_partial.
Print Assumptions C07_dedupe_refuted.
Print Assumptions C07_partition_by_partial.
Print Assumptions C07_partition_by_refuted.
Print Assumptions C07_guards_nontrivial.
Print Assumptions C07_transduce.
Print Assumptions C07_transduce_any_rf.
Print Assumptions C07_into.
Print Assumptions C07_sequence.
Print Assumptions C07_eduction.
Print Assumptions C07_transduce_stream.
Print Assumptions C07_transduce_stream_fuel.
Print Assumptions C07_lazy_form_map.
Print Assumptions C07_lazy_form_map_indexed.
Print Assumptions C07_lazy_form_filter.
Print Assumptions C07_lazy_form_remove.
Print Assumptions C07_lazy_form_keep.
Print Assumptions C07_lazy_form_keep_indexed.
Print Assumptions C07_lazy_form_take.
Print Assumptions C07_lazy_form_take_while.
Print Assumptions C07_lazy_form_take_nth.
Print Assumptions C07_lazy_form_drop.
Print Assumptions C07_lazy_form_drop_while.
Print Assumptions C07_lazy_form_interpose.
Print Assumptions C07_lazy_form_partition_all.
Print Assumptions C07_lazy_form_partition_by.
Print Assumptions C07_lazy_form_distinct_partial.
Print Assumptions C07_lazy_form_distinct_refuted.
Print Assumptions C07_lazy_form_dedupe.
Print Assumptions C07_lazy_form_mapcat.
Print Assumptions C07_lazy_form_iterate.
Print Assumptions C07_pipeline_model_meets_spec.
Print Assumptions C07_pipeline_denotes.
Print Assumptions C07_iterate_model_meets_spec.
Print Assumptions C07_pipe_ok_nontrivial.
