(** C06 -- Lazy sequences realize each element once, only on demand, safely shared.
    (preliminary: table obligations only) *)
From Coq Require Import List Bool NArith.
Import ListNotations.
From Verif Require Import Gen.Tables.

Theorem C06_table_shapes :
  lazyseq_state_shape = 1%N /\ lazyseq_seq_shape = 1%N /\ lazyseq_sequence_shape = 1%N.
Proof. repeat split; reflexivity. Qed.

Print Assumptions C06_table_shapes.
