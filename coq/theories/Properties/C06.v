(** C06 -- Lazy sequences realize each element once, only on demand, safely shared.
    Only statements, each closed by [exact], and Print Assumptions.

    Two models of rust/src/basilisp_native/seq.rs (tied to each other and to the code by the check):
    - C06/Machine.v : threads, the re-entrant cell mutex, the GIL (small-step, all interleavings);
    - C06/LazySeq.v : one thread, with the generators of core.lpy (big-step). *)
From Coq Require Import List Bool NArith Arith.
Import ListNotations.
From Verif Require Import Gen.Tables C06.Base C06.LazySeq C06.Spec C06.Machine
  C06.ProofsBig C06.ProofsLazy C06.ProofsMap C06.ProofsTake C06.ProofsFilter C06.ProofsConcat C06.ProofsRoots
  C06.ProofsMachine C06.ProofsConc C06.ProofsLock C06.ProofsAgree C06.Refuted.

(* ---------------------------------------------------------------------------------------------- *)
(** * What the translator read off seq.rs on this run *)

Theorem C06_table_shapes :
  lazyseq_state_shape = 1%N /\ lazyseq_seq_shape = 1%N /\ lazyseq_sequence_shape = 1%N.
Proof. repeat split; reflexivity. Qed.
(** the error path of _compute_seq stores Initialized(gen) again (repair F-06b) *)
Theorem C06_table_error_path_restores : lazyseq_restore_on_error = true.
Proof. reflexivity. Qed.
(** seq.rs takes the cell mutex with a blocking lock() while holding the GIL (F-06) *)
Theorem C06_table_lock_keeps_gil : lazyseq_lock_keeps_gil = true.
Proof. reflexivity. Qed.

(* ---------------------------------------------------------------------------------------------- *)
(** * Every interleaving, any number of threads (Machine.v)
    [reachable restore st0 st]: st is reached from st0 by some list of scheduler labels -- steps of the GIL
    holder, GIL hand-overs where Python code can lose it, and also [LPreempt], a hand-over at ANY point,
    which the real code never does: the safety theorems do not rest on where the GIL is released. *)

(** the generator of a cell is called at most once more than it has raised (at most once at all with the
    pinned error path); at most one activation runs at a time, over all threads, and only while the cell
    is Computing.  The only steps that start an activation are [E_seq_start] / [E_comp_start]
    (ProofsMachine.stepf_eff): from Initialized, with the mutex taken in the same step. *)
Theorem C06_producer_at_most_once : forall restore st0 st,
  fresh_state st0 -> reachable restore st0 st ->
  forall c k, nth_error (mcells st) c = Some k ->
    (ncalls k <= 1 + nthrows k)%N /\ (restore = false -> (ncalls k <= 1)%N) /\
    act st c <= 1 /\
    (forall t th g b, nth_error (thr st) t = Some th -> In (KCompRet c g b) (stk th) -> cst k = Computing).
Proof. exact ProofsConc.producer_at_most_once. Qed.

(** a thread inside the producer of c or inside the loop of seq(c) owns the mutex of c; nobody else is
    inside seq / _compute_seq of c *)
Theorem C06_producer_runs_under_the_mutex : forall restore st0 st,
  fresh_state st0 -> reachable restore st0 st ->
  forall t th c fr, nth_error (thr st) t = Some th -> In fr (stk th) -> 1 <= hold c fr ->
    (exists n, nth_error (mlocks st) c = Some (Some (t, n))) /\
    (forall t' th', t' <> t -> nth_error (thr st) t' = Some th' -> hcnt c (stk th') = 0).
Proof. exact ProofsAgree.producer_runs_under_the_mutex. Qed.

(** whatever seq(c) has returned to a consumer (a thread that is not itself in the middle of realizing a
    cell) is what the cell holds from then on; any two consumers of one cell got the same object.
    For the working tree's error path (restore = true). *)
Theorem C06_consumers_agree : forall st0 st,
  fresh_state st0 -> reachable true st0 st ->
  (forall c o, In (c, o) (glog st) -> m_cst st c = Some (Realized o)) /\
  (forall c o1 o2, In (c, o1) (glog st) -> In (c, o2) (glog st) -> o1 = o2).
Proof. exact ProofsAgree.consumers_agree. Qed.

(** the initial states of the correspondence are fresh (non-vacuity of the three theorems above) *)
Example C06_initial_states_are_fresh : forall scripts its nev roots progs,
  fresh_state (init_m scripts its nev roots progs).
Proof. exact ProofsConc.fresh_init_m. Qed.

(** F-06.  "Concurrent consumers never deadlock" is FALSE: a reachable state in which no thread can take
    a step the code can take, although not every thread has finished.  T0 is inside the producer of cell 0,
    parked on an Event with the GIL released; T1 touches cell 0 and blocks on the mutex holding the GIL. *)
Theorem C06_deadlock_refuted : forall restore,
  exists st, run_labels restore w_dead_sched w_dead_init = Some st /\ stuck restore st /\ all_finished st = false.
Proof. exact Refuted.deadlock_witness. Qed.
(** the same with an ordinary producer that is merely pre-empted inside its Python body *)
Theorem C06_deadlock_plain_producer_refuted : forall restore,
  exists st, run_labels restore w_dead2_sched w_dead2_init = Some st /\ stuck restore st /\ all_finished st = false.
Proof. exact Refuted.deadlock_witness_plain_producer. Qed.
(** diagnosis: were the GIL given up while waiting for the mutex, that run completes and both agree *)
Example C06_deadlock_needs_the_gil :
  exists st, run_labels true (w_dead2_sched ++
                [LPreempt 1; LAcq 0; LRun 0; LRun 0; LRun 0; LRun 0; LRel 0; LAcq 1; LRun 1; LRun 1]) w_dead2_init = Some st
             /\ all_finished st = true
             /\ map (fun th => tobs th) (thr st) = [[BVal (Some 1%N)]; [BVal (Some 1%N)]]
             /\ map ncalls (mcells st) = [1%N].
Proof. exact Refuted.deadlock_goes_away_if_lock_released_the_gil. Qed.

(* ---------------------------------------------------------------------------------------------- *)
(** * One thread (LazySeq.v): re-entrancy and exceptions *)

(** a producer that looks at a cell which is being computed (its own) sees it empty; nothing changes *)
Theorem C06_reentrant_sees_empty : forall restore f s c k,
  get s c = Some k -> cst k = Computing ->
  ev restore (S (S f)) (CSeq c) s = (s, Ok ONil).
Proof. exact ProofsBig.reentrant_sees_empty. Qed.
Theorem C06_reentrant_touch_in_script : forall restore f s c k l,
  get s c = Some k -> cst k = Computing ->
  ev restore (S (S (S f))) (CScript (ATouch c :: l)) s = ev restore (S (S f)) (CScript l) (note_seen s c true).
Proof. exact ProofsBig.touch_own_cell. Qed.
Example C06_reentrant_example :
  let '(s', obs) := do_ops true F [OpFirst 0; OpFirst 0] [OLazy 0]
                           (init_st [[ATouch 0; ARet (OCons 7 ONil)]] [] 0) [] in
  obs = [BVal (Some 7%N); BVal (Some 7%N)] /\ seen s' = [(0, true)] /\ map ncalls (heap s') = [1%N].
Proof. exact Refuted.reentrant_example. Qed.

(** the working tree's error path: after ANY consumption history -- operations that returned and
    operations that raised alike -- no cell is left Computing (so no later look mistakes it for empty) *)
Theorem C06_exception_leaves_no_cell_computing : forall fuel ops regs s acc s' obs,
  do_ops true fuel ops regs s acc = (s', obs) -> ~ In BBad obs ->
  (forall c, comp s c = false) -> (forall c, comp s' c = false).
Proof. exact ProofsBig.do_ops_quiet. Qed.
(** ... and the failed cell holds the very generator it had, to be called again by the next look *)
Theorem C06_failed_producer_is_retried : forall f s c k g s',
  get s c = Some k -> cst k = Initialized g ->
  ev true (S f) (CCompute c) s = (s', Exn) ->
  exists k', get s' c = Some k' /\ cst k' = Initialized g.
Proof. exact ProofsBig.failed_producer_restored. Qed.
Example C06_exception_example :
  let '(s', obs) := do_ops true F w_exn_ops [OLazy 0] (init_st w_exn_cells [] 0) [] in
  obs = [BExn 1; BExn 1; BExn 1] /\ comp s' 0 = false /\ map ncalls (heap s') = [3%N].
Proof. exact Refuted.exception_repaired_shape. Qed.

(** F-06b, the pinned shape (`gen.call0(py)?`): the producer raises once, every later look answers nil, the
    cell stays Computing; the reference semantics raises three times *)
Theorem C06_exception_corrupts_refuted :
  let '(s', obs) := do_ops false F w_exn_ops [OLazy 0] (init_st w_exn_cells [] 0) [] in
  obs = [BExn 1; BKind 0; BVal None] /\ comp s' 0 = true /\ map ncalls (heap s') = [1%N]
  /\ snd (s_do_ops F w_exn_ops [OLazy 0] (s_init w_exn_cells [] 0) []) = [BExn 1; BExn 1; BExn 1].
Proof. exact Refuted.exception_corrupts_old_shape. Qed.

(** F-06c (open): A returns lazy seq B, B looks at A and raises: A is an empty seq for ever *)
Theorem C06_corecursive_exception_refuted :
  let '(s', obs) := do_ops true F w_corec_ops [OLazy 0] (init_st w_corec_cells [] 0) [] in
  obs = [BExn 1; BKind 0; BKind 0]
  /\ map cst (heap s') = [Realized ONil; Initialized (GScript [ATouch 0; AThrow])]
  /\ seen s' = [(0, true)]
  /\ snd (s_do_ops F w_corec_ops [OLazy 0] (s_init w_corec_cells [] 0) []) = [BExn 1; BExn 1; BExn 1].
Proof. exact Refuted.corecursive_exception. Qed.

(** F-06d (open): (concat a b) where a's producer raises: raises once, then looks like the END *)
Theorem C06_concat_exception_truncates_refuted :
  let (s1, regs) := build_roots w_concat_roots (init_st w_exn_cells [] 0) in
  let '(s', obs) := do_ops true F w_concat_ops regs s1 [] in
  let (t1, sregs) := s_build_roots w_concat_roots (s_init w_exn_cells [] 0) in
  obs = [BExn 1; BVal None; BNum 0]
  /\ snd (s_do_ops F w_concat_ops sregs t1 []) = [BExn 1; BExn 1; BExn 1].
Proof. exact Refuted.concat_exception_truncates. Qed.

(* ---------------------------------------------------------------------------------------------- *)
(** * Nothing is computed ahead of demand (LazySeq.v)
    [chain_at vs b j s]: of the instrumented source chain at b (cell b+i returns (cons v_i (lazy b+i+1)), the
    cell after the last returns nil) exactly the first j producers have run, once each.
    [walk restore fuel m cur acc s]: m steps of seq.rs's SeqIterator from cur (what count / nth / iteration /
    doseq do); first / rest on position k are its k-th step. *)

(** a realized cell costs nothing *)
Theorem C06_memoised : forall restore f s c k o,
  get s c = Some k -> cst k = Realized o -> ev restore (S f) (CSeq c) s = (s, Ok o).
Proof. exact ProofsLazy.realized_seq. Qed.

(** (lazy-seq ...) chains: m elements run m producers (lookahead 0) *)
Theorem C06_no_overrealization_lazy_seq : forall restore f vs b m j s acc,
  chain_at vs b j s -> j <= length vs ->
  exists s',
    walk restore (S (S (S (S (S f))))) m (OLazy (b + j)) acc s =
      (s', Ok (if Nat.leb (j + m) (length vs) then OLazy (b + j + m) else ONil),
       rev (chain_vals vs j m) ++ acc)
    /\ chain_at vs b (Nat.min (j + m) (S (length vs))) s'
    /\ fcalls s' = fcalls s /\ iters s' = iters s.
Proof. exact ProofsLazy.walk_chain. Qed.
Example C06_chain_nonvacuous : forall vs its nev, chain_at vs 0 0 (init_st (chain_scripts vs 0) its nev).
Proof. exact ProofsLazy.chain_at_init. Qed.

(** (map f s): m elements run the first m source producers and apply f m times (lookahead 0) *)
Theorem C06_no_overrealization_map : forall restore f fn vs b m j c s acc,
  map_at fn vs b j c s -> j <= length vs ->
  exists s' cur,
    walk restore (S (S (S (S (S (S (S (S (S f))))))))) m (OLazy c) acc s =
      (s', Ok cur, rev (map (app_fn fn) (chain_vals vs j m)) ++ acc)
    /\ chain_at vs b (Nat.min (j + m) (S (length vs))) s'
    /\ fcalls s' = (fcalls s + N.of_nat (Nat.min m (length vs - j)))%N.
Proof. exact ProofsMap.walk_map. Qed.

(** (take k s): m elements run min m k source producers; (take 0 s) never looks at s *)
Theorem C06_no_overrealization_take : forall restore f vs b m k j c s acc,
  take_at k vs b j c s -> j <= length vs ->
  exists s' cur,
    walk restore (S (S (S (S (S (S (S (S (S f))))))))) m (OLazy c) acc s =
      (s', Ok cur, rev (chain_vals vs j (Nat.min m (N.to_nat k))) ++ acc)
    /\ chain_at vs b (Nat.min (j + Nat.min m (N.to_nat k)) (S (length vs))) s'.
Proof. exact ProofsTake.walk_take. Qed.

(** (iterate f x): m elements apply f exactly m times -- ONE more than the m - 1 they need (lookahead 1:
    the generator computes the next seed when it produces an element) *)
Theorem C06_no_overrealization_iterate : forall restore f fn m x c s acc,
  iter_at fn x c s ->
  exists s' cur,
    walk restore (S (S (S (S f)))) m (OLazy c) acc s = (s', Ok cur, rev (iterates fn x m) ++ acc)
    /\ fcalls s' = (fcalls s + N.of_nat m)%N.
Proof. exact ProofsMap.walk_iterate. Qed.

(** seq over a Python iterator / iterator-seq (seq.rs Sequence): one pull per cell; m elements take exactly
    the first m values out of the shared iterator *)
Theorem C06_no_overrealization_iterator_seq : forall restore f it m vs c s acc,
  seqit_at it c s -> nth_error (iters s) it = Some (ItList (map IVal vs)) ->
  exists s' cur,
    walk restore (S (S (S (S (S f))))) m (OLazy c) acc s = (s', Ok cur, rev (firstn m vs) ++ acc)
    /\ nth_error (iters s') it = Some (ItList (map IVal (skipn m vs))).
Proof. exact ProofsMap.walk_seqit. Qed.

(** (filter p s): forcing ONE element runs the source producers up to and including the first match (all of
    them and the final nil cell when nothing matches) -- through the loop of LazySeq::seq over the lazy seqs
    the generator returns for rejected elements -- and not one more; p is applied once per element inspected *)
Theorem C06_no_overrealization_filter : forall restore f p vs b j c s,
  filter_at p vs b j c s -> j <= length vs ->
  let jm := first_match p vs j (S (length vs - j)) in
  exists s' o,
    ev restore (S (S (S (S (S (S (S (S (S ((length vs - j) + f)))))))))) (CSeq c) s = (s', Ok o)
    /\ match_obj vs jm o
    /\ chain_at vs b (S jm) s'
    /\ fcalls s' = (fcalls s + N.of_nat (jm - j + (if Nat.ltb jm (length vs) then 1 else 0)))%N.
Proof. exact ProofsFilter.seq_filter. Qed.

(** (concat s rest ...): m <= (count s) elements realize exactly the first m cells of s, and the chain iterator
    still holds [rest] untouched: no later input is looked at before s is exhausted *)
Theorem C06_no_overrealization_concat : forall restore f vs b rest m j it c s acc,
  concat_at vs b j it c rest s -> j + m <= length vs ->
  exists s' c',
    walk restore (S (S (S (S (S (S (S (S (S (S (S f))))))))))) m (OLazy c) acc s =
      (s', Ok (OLazy c'), rev (chain_vals vs j m) ++ acc)
    /\ concat_at vs b (j + m) it c' rest s'.
Proof. exact ProofsConcat.walk_concat. Qed.

(** the premises above are met by what (map f s) / (filter p s) / (take k s) / (iterate f x) /
    (iterator-seq it) / (concat s ...) build over an instrumented chain *)
Example C06_roots_meet_the_premises : forall fn p k x vs xs rest,
  map_at fn vs 0 0 (S (length vs)) (fst (build_root (RMap fn (RObj (OLazy 0))) (s0 vs []))) /\
  filter_at p vs 0 0 (S (length vs)) (fst (build_root (RFilter p (RObj (OLazy 0))) (s0 vs []))) /\
  take_at k vs 0 0 (S (length vs)) (fst (build_root (RTake k (RObj (OLazy 0))) (s0 vs []))) /\
  iter_at fn x (S (length vs)) (fst (build_root (RIterate fn x) (s0 vs []))) /\
  (let s := fst (build_root (RItSeq 0) (s0 vs [ItList (map IVal xs)])) in
   seqit_at 0 (S (length vs)) s /\ nth_error (iters s) 0 = Some (ItList (map IVal xs))) /\
  concat_at vs 0 0 0 (S (length vs)) rest
    (fst (build_root (RConcat (RObj (OLazy 0) :: map RObj rest)) (s0 vs []))).
Proof.
  intros. split; [exact (ProofsRoots.map_root fn vs)|split; [exact (ProofsRoots.filter_root p vs)|
    split; [exact (ProofsRoots.take_root k vs)|split; [exact (ProofsRoots.iterate_root fn x vs)|
    split; [exact (ProofsRoots.seqit_root vs xs)|exact (ProofsRoots.concat_root vs rest)]]]]].
Qed.

Print Assumptions C06_table_shapes.
Print Assumptions C06_table_error_path_restores.
Print Assumptions C06_table_lock_keeps_gil.
Print Assumptions C06_producer_at_most_once.
Print Assumptions C06_producer_runs_under_the_mutex.
Print Assumptions C06_consumers_agree.
Print Assumptions C06_initial_states_are_fresh.
Print Assumptions C06_deadlock_refuted.
Print Assumptions C06_deadlock_plain_producer_refuted.
Print Assumptions C06_deadlock_needs_the_gil.
Print Assumptions C06_reentrant_sees_empty.
Print Assumptions C06_reentrant_touch_in_script.
Print Assumptions C06_reentrant_example.
Print Assumptions C06_exception_leaves_no_cell_computing.
Print Assumptions C06_failed_producer_is_retried.
Print Assumptions C06_exception_example.
Print Assumptions C06_exception_corrupts_refuted.
Print Assumptions C06_corecursive_exception_refuted.
Print Assumptions C06_concat_exception_truncates_refuted.
Print Assumptions C06_memoised.
Print Assumptions C06_no_overrealization_lazy_seq.
Print Assumptions C06_chain_nonvacuous.
Print Assumptions C06_no_overrealization_map.
Print Assumptions C06_no_overrealization_take.
Print Assumptions C06_no_overrealization_iterate.
Print Assumptions C06_no_overrealization_iterator_seq.
Print Assumptions C06_no_overrealization_filter.
Print Assumptions C06_no_overrealization_concat.
Print Assumptions C06_roots_meet_the_premises.
