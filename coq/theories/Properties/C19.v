(** C19 -- EDN, JSON and bencode codecs invert themselves and never mis-frame.
    This file contains only statements, each closed by [exact], and Print Assumptions. *)
From Coq Require Import List Bool ZArith NArith.
Import ListNotations.
From Verif Require Import Common.ListX C19.Bencode C19.Spec C19.BencodeProofs.

(** ** bencode.  [wf]: no nil, dict keys strictly increasing (the order [encode] emits).
    The fuel [decode]/[decode_all] supply is always sufficient: *)
Theorem C19_bencode_fuel_sufficient : forall data, decode data <> DFuel /\ decode_all data <> None.
Proof. exact (fun data => conj (decode_fuel data) (decode_all_fuel data)). Qed.

Theorem C19_bencode_roundtrip : forall v r, wf v = true -> decode (encode v ++ r) = DVal v r.
Proof. exact bencode_roundtrip. Qed.

Theorem C19_bencode_prefix_free : forall v p, wf v = true ->
  (exists q, q <> [] /\ encode v = p ++ q) -> decode p = DInc p.
Proof. exact bencode_prefix_free. Qed.

Theorem C19_bencode_stream : forall msgs k, forallb wf msgs = true ->
  decode_all (firstn k (concat (map encode msgs))) = Some (split_stream msgs k).
Proof. exact bencode_stream. Qed.

Theorem C19_bencode_encode_is_reference : forall v, wf v = true -> encode v = ref_encode v.
Proof. exact encode_ref. Qed.

Print Assumptions C19_bencode_fuel_sufficient.
Print Assumptions C19_bencode_roundtrip.
Print Assumptions C19_bencode_prefix_free.
Print Assumptions C19_bencode_stream.
Print Assumptions C19_bencode_encode_is_reference.
