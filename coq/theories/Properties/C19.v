(** C19 -- EDN, JSON and bencode codecs invert themselves and never mis-frame.
    This file contains only statements, each closed by [exact], and Print Assumptions. *)
From Coq Require Import List Bool ZArith NArith.
Import ListNotations.
From Verif Require Import Common.ListX Gen.Tables C19.Bencode C19.Edn C19.Json C19.Spec
  C19.BencodeProofs C19.BencodeInj C19.EdnProofs C19.JsonProofs.
Local Open Scope N_scope.

(** Obligations on the tables regenerated from edn.lpy / bencode.lpy *)
Theorem C19_table_bencode_tokens : bencode_tokens = [105; 108; 100; 101; 58].
Proof. exact eq_refl. Qed.
(** every escape the writer emits is a backslash and a character the reader maps back to the
    escaped one; the quote and the backslash are among the escaped characters *)
Theorem C19_table_edn_escapes : EdnProofs.table_ok = true.
Proof. exact edn_escape_tables_ok. Qed.
(** the characters allowed in guarded names are no delimiters (edn.lpy dispatch-chars) *)
Theorem C19_table_edn_dispatch_chars :
  forallb EdnProofs.safe_facts (map N.of_nat (seq 33 94)) = true.
Proof. exact safe_facts_all. Qed.

(** ** bencode.  [wf]: no nil; in every dict the keys are strictly increasing byte strings
    (the order [encode] itself emits).  For all values, all byte lists, no size bound. *)
Theorem C19_bencode_fuel_sufficient : forall data, decode data <> DFuel /\ decode_all data <> None.
Proof. exact (fun data => conj (decode_fuel data) (decode_all_fuel data)). Qed.

Theorem C19_bencode_roundtrip : forall v r, wf v = true -> decode (encode v ++ r) = DVal v r.
Proof. exact bencode_roundtrip. Qed.

Theorem C19_bencode_prefix_free : forall v p, wf v = true ->
  (exists q, q <> [] /\ encode v = p ++ q) -> decode p = DInc p.
Proof. exact bencode_prefix_free. Qed.

Theorem C19_bencode_stream : forall msgs k, forallb wf msgs = true ->
  decode_all (firstn k (concat (map encode msgs))) = Some (split_stream msgs k).
Proof. exact bencode_stream. Qed.

(** the writer is injective and its image is a prefix code: no encoding is a proper prefix of
    another, and a byte stream is the concatenation of at most one sequence of messages *)
Theorem C19_bencode_prefix_code : forall v w q, wf v = true -> wf w = true ->
  encode v = encode w ++ q -> v = w /\ q = [].
Proof. exact BencodeInj.encode_prefix_code. Qed.
Theorem C19_bencode_encode_injective : forall v w, wf v = true -> wf w = true ->
  encode v = encode w -> v = w.
Proof. exact BencodeInj.encode_injective. Qed.
Theorem C19_bencode_stream_injective : forall ms ns,
  forallb wf ms = true -> forallb wf ns = true ->
  concat (map encode ms) = concat (map encode ns) -> ms = ns.
Proof. exact BencodeInj.stream_injective. Qed.
Theorem C19_bencode_encode_is_reference : forall v, wf v = true -> encode v = ref_encode v.
Proof. exact encode_ref. Qed.

(** the numerals [encode] prints are canonical BEP-3 numerals ("0", or an optional "-", a
    digit 1-9 and more digits) denoting the integer *)
Theorem C19_bencode_numeral_canonical : forall z,
  canonical_numeral (dec_Z z) = true /\ numeral_value (dec_Z z) = z.
Proof. exact numeral_canonical. Qed.

(** dict entries in any order with pairwise distinct keys ([dkeys]): what comes back is the
    key-sorted form; in particular for what Lisp hands to [encode] (strings, keywords and
    symbols become the UTF-8 bytes of their text, also as map keys) *)
Theorem C19_bencode_roundtrip_any_order : forall v r,
  dkeys v = true -> decode (encode v ++ r) = DVal (norm v) r.
Proof. exact bencode_roundtrip_any_order. Qed.

Theorem C19_bencode_coercion : forall x r,
  dkeys (inj x) = true -> decode (encode_l x ++ r) = DVal (norm (inj x)) r.
Proof. exact bencode_coercion. Qed.

Example C19_bencode_coercion_nonvacuous :
  let x := LMap [(LKKw None [111; 112], LStr [233]); (LKStr [105; 100], LVec [LInt 1; LSym (Some [110]) [120]])] in
  dkeys (inj x) = true /\
  norm (inj x) = BDict [([105; 100], BList [BInt 1; BStr [110; 47; 120]]); ([111; 112], BStr [195; 169])].
Proof. exact (conj eq_refl eq_refl). Qed.

(** the premises are met by a nested value and a two-message stream cut inside the second *)
Example C19_bencode_nonvacuous :
  let m1 := BDict [([97], BList [BInt (-7); BStr []]); ([98], BStr [101])] in
  let m2 := BInt 10 in
  wf m1 = true /\ wf m2 = true /\
  decode_all (firstn 21 (concat (map encode [m1; m2]))) = Some ([m1], [105; 49]).
Proof. exact bencode_nonvacuous. Qed.

(** ** EDN.  [guard]: names over safe ASCII characters, floats in exponent-free repr form
    (and, for the EDN reader, keyword names without '.').  [pf] is CPython's
    repr(float(.)), [isr t] says t is what repr prints for some float. *)
Theorem C19_edn_string_escape_roundtrip : forall d s acc rest,
  read_str_body d (escape s ++ 34 :: rest) acc = ROk (acc ++ s, rest).
Proof. exact read_str_escape. Qed.

Theorem C19_edn_roundtrip_partial : forall (pf : str -> option str) (isr : str -> bool),
  (forall t, isr t = true -> pf t = Some t) ->
  forall v, guard isr Edn v = true -> read_string pf Edn (write v) = ROk v.
Proof. exact (fun pf isr H v => edn_roundtrip pf isr H Edn v). Qed.

Theorem C19_edn_via_lisp_reader_partial : forall (pf : str -> option str) (isr : str -> bool),
  (forall t, isr t = true -> pf t = Some t) ->
  forall v, guard isr Lisp v = true -> read_string pf Lisp (write v) = ROk v.
Proof. exact (fun pf isr H v => edn_roundtrip pf isr H Lisp v). Qed.

Example C19_edn_guard_nonvacuous : forall d, guard (fun _ => true) d EdnProofs.sample = true.
Proof. exact sample_guard. Qed.

(** F-19a: the float the writer prints as 1e+23 reads back as the integer 1 *)
Theorem C19_edn_float_exp_refuted :
  exists tok, forall pf, read_string pf Edn (write (EFloat tok)) = ROk (EInt 1).
Proof. exact edn_float_exp_refuted. Qed.

(** F-19b: the keyword :a.b is written as ":a.b", which the EDN reader rejects (the Lisp
    reader accepts it) *)
Theorem C19_edn_kw_dot_refuted :
  exists nm, forall pf, read_string pf Edn (write (EKw None nm)) = RErr 1
                        /\ read_string pf Lisp (write (EKw None nm)) = ROk (EKw None nm).
Proof. exact edn_kw_dot_refuted. Qed.

(** F-19c (repaired): through the Lisp reader the float text 1e+23 used to become the integer
    10^23; the reader now hands every exponent literal to float() *)
Theorem C19_edn_via_lisp_float_exp :
  exists tok, forall pf, pf tok = Some tok -> read_string pf Lisp (write (EFloat tok)) = ROk (EFloat tok).
Proof. exact lisp_float_exp_roundtrip. Qed.

(** ** JSON: with Python's json.dumps/json.loads inverse on trees with distinct object keys,
    read-str (write-str v) is the documented coercion of v *)
Theorem C19_json_coercion : forall (dumps : pj -> str) (loads : str -> option pj),
  (forall p, pj_wf p = true -> loads (dumps p) = Some p) ->
  forall v, jkeys_distinct v = true -> read_str loads (write_str dumps v) = Some (coerce v).
Proof. exact json_coercion. Qed.

Example C19_json_nonvacuous :
  jkeys_distinct (JMap [(JKKw (Some [110]) [97], JList [JKw None [107]; JSet [JInt 1]]); (JKStr [98], JNil)]) = true.
Proof. exact eq_refl. Qed.

Print Assumptions C19_table_bencode_tokens.
Print Assumptions C19_table_edn_escapes.
Print Assumptions C19_table_edn_dispatch_chars.
Print Assumptions C19_bencode_fuel_sufficient.
Print Assumptions C19_bencode_roundtrip.
Print Assumptions C19_bencode_prefix_free.
Print Assumptions C19_bencode_stream.
Print Assumptions C19_bencode_prefix_code.
Print Assumptions C19_bencode_encode_injective.
Print Assumptions C19_bencode_stream_injective.
Print Assumptions C19_bencode_encode_is_reference.
Print Assumptions C19_bencode_numeral_canonical.
Print Assumptions C19_bencode_roundtrip_any_order.
Print Assumptions C19_bencode_coercion.
Print Assumptions C19_bencode_coercion_nonvacuous.
Print Assumptions C19_bencode_nonvacuous.
Print Assumptions C19_edn_string_escape_roundtrip.
Print Assumptions C19_edn_roundtrip_partial.
Print Assumptions C19_edn_via_lisp_reader_partial.
Print Assumptions C19_edn_guard_nonvacuous.
Print Assumptions C19_edn_float_exp_refuted.
Print Assumptions C19_edn_kw_dot_refuted.
Print Assumptions C19_edn_via_lisp_float_exp.
Print Assumptions C19_json_coercion.
Print Assumptions C19_json_nonvacuous.
