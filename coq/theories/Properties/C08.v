(** C08 -- Calls bind arguments to the right arity however the call is made.
    This file contains only statements, each closed by [exact], and Print Assumptions.

    Vocabulary (C08/Base.v, Spec.v, Arity.v): a signature [s] has fixed arities [fixed s] and an
    optional variadic arity with [m] fixed parameters; [wf_sig] is the analyzer's acceptance
    test.  A callable [c] is a compiled fn or a (nested) `partial` of one, [base c] its
    signature and [pargs c] the pre-supplied arguments.  A call supplies [lead ++ tail]; the
    tail may be lazy and infinite ([tlen t = None]).  [bind_ok s args t r] is the property:
    the chosen arity ([choose]: exact fixed arity first, else the variadic one) runs with its
    parameters bound in order, the rest parameter nil iff there is no surplus and otherwise
    the surplus in order; no arity matches => arity error.  [call], [apply], [arities],
    [recur_step], [run_kind] are the model of generator.py / runtime.py as they are. *)
From Coq Require Import List Arith Bool NArith.
Import ListNotations.
From Verif Require Import Gen.Tables C08.Base C08.Arity C08.Spec C08.Proofs C08.ProofsRecur C08.TableProofs.
From Verif Require C08.Corr C08.CorrProofs.

(** Obligations on what the translator re-derives from the source on every run *)
Theorem C08_table_dispatch_cmp : arity_dispatch_cmp = 0%N.
Proof. exact TableProofs.dispatch_cmp_ok. Qed.
Theorem C08_table_shapes :
  arity_apply_to_shape = 1%N /\ arity_apply_shape = 1%N /\ arity_unwrap_shape = 1%N
  /\ arity_partial_shape = 1%N /\ arity_trampoline_shape = 1%N /\ arity_analyzer_rule = 1%N.
Proof. exact TableProofs.shapes_ok. Qed.
(** the two repairs are present in the source the model was re-derived from; partial's arity
    recomputation has the shape of the open finding F-08c *)
Theorem C08_table_repairs_present : arity_tramp_nil = 1%N /\ arity_recur_flag = 1%N.
Proof. exact TableProofs.repairs_present. Qed.
Theorem C08_table_partial_cmp : arity_partial_cmp = 0%N.
Proof. exact TableProofs.partial_cmp_open. Qed.

(** the chosen arity is a matching one; every matching arity is the chosen one except at the
    overlap of a fixed arity with the variadic arity (no surplus), where the fixed one runs;
    nothing is chosen iff nothing matches *)
Theorem C08_chosen_arity_unique : forall s n,
  wf_sig s = true ->
  (forall ar, choose s n = Some ar -> matches s n ar)
  /\ (forall ar, matches s n ar ->
        exists ar', choose s n = Some ar' /\
          (ar' = ar \/ exists m, ar = ARest m /\ ar' = AFix m /\ n = Some m /\ In m (fixed s)))
  /\ (choose s n = None -> forall ar, ~ matches s n ar).
Proof. exact (fun s n H => conj (fun ar => choose_matches s n ar)
                                (conj (fun ar => matches_choose s n ar H) (choose_none s n))). Qed.

(** ALL signatures, ALL (nested) partials, ALL call shapes, ALL argument counts *)
Theorem C08_bind_correct : forall (A : Type) (s : sig) (c : callee A),
  wf_sig s = true -> base c = s ->
  (forall xs t, tlen t = Some 0 -> bind_ok s (pargs c ++ xs) t (call c (map PV xs)))
  /\ (forall lead t, (tlen t = None -> is_variadic s = true) ->
        bind_ok s (pargs c ++ lead) t (fst (apply t false c lead)))
  /\ (forall lead t L, tlen t = Some L -> bind_ok s (pargs c ++ lead) t (fst (apply t true c lead))).
Proof. exact (@bind_correct). Qed.

(** an arity error is the outcome exactly when no arity matches, and then no body started;
    a started body is that of the chosen arity; no sentinel leaks, nothing diverges *)
Theorem C08_no_arity_error_after_body_starts : forall (A : Type) (s : sig) (c : callee A),
  wf_sig s = true -> base c = s ->
  forall lead t via_var, (tlen t = None -> is_variadic s = true /\ via_var = false) ->
    let r := fst (apply t via_var c lead) in
    ((exists e, r = RArityErr e) <-> forall ar, ~ matches s (total (pargs c ++ lead) t) ar)
    /\ (forall ar ps rv, r = RBound ar ps rv -> choose s (total (pargs c ++ lead) t) = Some ar)
    /\ r <> RLeak /\ r <> RDiverge.
Proof. exact (@no_arity_error_after_body_starts). Qed.
(** the dispatcher never lets CPython's TypeError escape from the arity function it selected *)
Theorem C08_dispatcher_selects_a_fitting_arity : forall (A : Type) (s : sig) (args : list (parg A)),
  dispatch s args <> RArityErr TypeErr.
Proof. exact (@dispatch_no_typeerror). Qed.

(** apply: tail elements realized when the body starts = min(L, (M - k) + 1), k = number of
    arguments before the tail (partial ones included), M the variadic arity's fixed count *)
Theorem C08_apply_forces_exactly : forall (A : Type) (s : sig) (c : callee A) lead t,
  base c = s -> is_variadic s = true ->
  snd (apply t false c lead) = clamp t ((max_fixed s - length (pargs c ++ lead)) + 1).
Proof. exact (@apply_forces_exactly). Qed.
Theorem C08_apply_forces_at_most : forall (A : Type) (s : sig) (c : callee A) m lead t,
  wf_sig s = true -> base c = s -> variadic s = Some m ->
  let k := length (pargs c ++ lead) in
  let forced := snd (apply t false c lead) in
  forced <= force_bound m k
  /\ (forall a, choose s (total (pargs c ++ lead) t) = Some (AFix a) -> forced <= force_bound a k)
  /\ (match tlen t with Some L => forced <= L | None => True end).
Proof. exact (@apply_forces_at_most). Qed.
(** the true minimum: with k <= m it is met exactly; with k > m nothing needs to be realized
    and the code realizes min(L, 1) (the emptiness test of `apply`), still within the bound *)
Theorem C08_apply_forces_vs_minimum : forall (A : Type) (s : sig) (c : callee A) m lead t,
  wf_sig s = true -> base c = s -> variadic s = Some m ->
  let k := length (pargs c ++ lead) in
  let forced := snd (apply t false c lead) in
  (k <= m -> forced = force_needed m k (tlen t))
  /\ (m < k -> force_needed m k (tlen t) = 0 /\ forced = clamp t 1).
Proof. exact (@apply_forces_vs_needed). Qed.

(** partial: the apply_to of a (nested) partial captures M - p, keeps :rest, and calls f with
    the pre-supplied arguments first; at the level of the spec this is the shifted signature *)
Theorem C08_partial_arities : forall (A : Type) (c : callee A),
  apply_M c = max_fixed (base c) - length (pargs c)
  /\ snd (arities c) = is_variadic (base c)
  /\ forall args, call c args = call_fn (base c) (map PV (pargs c) ++ args).
Proof. exact (@partial_arities). Qed.
Theorem C08_partial_is_shifted_signature : forall s p n, wf_sig s = true ->
  choose (shift_sig s p) (Some n) = option_map (shift_arity p) (choose s (Some (p + n))).
Proof. exact choose_shift. Qed.
(** the `arities` ATTRIBUTE of a partial should have n as a member iff p + n is one for f
    ([shift_counts]).  The working tree's code ([arities]; open finding F-08c) is right under the
    executable guard [partial_report_ok] and loses the member 0 otherwise *)
Theorem C08_partial_reported_arities_partial : forall (A : Type) (s : sig) (pa : list A),
  partial_report_ok s (length pa) = true ->
  arities (CPartial (CFn s) pa) = (shift_counts (all_counts s) (length pa), is_variadic s).
Proof. exact (@partial_reported_old_partial). Qed.
Theorem C08_partial_reported_arities_refuted :
  exists (s : sig) (pa : list unit),
    wf_sig s = true
    /\ In 0 (shift_counts (all_counts s) (length pa))
    /\ ~ In 0 (fst (arities (CPartial (CFn s) pa)))
    /\ call (CPartial (CFn s) pa) [] = RBound (AFix 1) pa RestNil.
Proof. exact partial_reported_old_refuted. Qed.
(** the proposed (not applied) repair `a >= n`: exact for arbitrarily nested partials *)
Theorem C08_partial_reported_arities_repaired_shape : forall (A : Type) (c : callee A),
  arities_gen true c = (shift_counts (all_counts (base c)) (length (pargs c)), is_variadic (base c)).
Proof. exact (fun A c => arities_ge_spec c). Qed.

(** apply through the Var is eager (finite tails are covered by C08_bind_correct) *)
Theorem C08_apply_via_var_refuted :
  exists (s : sig) (t : tail nat), wf_sig s = true /\ is_variadic s = true /\ tlen t = None
    /\ fst (apply t true (CFn s) []) = RDiverge
    /\ fst (apply t false (CFn s) []) = RBound (ARest 0) [] (RestSeq [] (Some 0))
    /\ exists t6 : tail nat, tlen t6 = Some 6 /\ snd (apply t6 true (CFn s) []) = 6 /\ force_bound 0 0 = 1.
Proof. exact apply_via_var_refuted. Qed.

(** recur: re-binding, for the working tree's code (after repairs F-08a, F-08b; these break
    if a repair is reverted).  Every recur in a fixed arity, and in the variadic arity when the
    last value is nil or a finite ISeq, re-enters the arity with the values bound in order *)
Theorem C08_recur_rebinds_partial : forall (s : sig) (ar : arity) (vs : list rval),
  recur_legal ar vs -> recur_safe ar vs = true -> recur_ok ar vs (recur_step s ar vs).
Proof. exact recur_rebinds_partial_gen. Qed.
(** open finding F-08e: an infinite lazy seq is realized eagerly; a vector is wrapped *)
Theorem C08_recur_rebinds_refuted :
  (exists s ar vs, wf_sig s = true /\ arity_of s ar /\ recur_legal ar vs
      /\ recur_step s ar vs = RDiverge /\ ~ recur_ok ar vs (recur_step s ar vs))
  /\ (exists s ar vs, wf_sig s = true /\ arity_of s ar /\ recur_legal ar vs
      /\ recur_step s ar vs = RBound (ARest 1) [VAtom 1%N] (RestSeq [VVec [7%N; 8%N]] None)
      /\ ~ recur_ok ar vs (recur_step s ar vs)).
Proof. exact recur_rebinds_refuted_gen. Qed.
(** "no arity error after body code ran" now also holds across recur, with no guard *)
Theorem C08_no_arity_error_after_body_starts_recur : forall (s : sig) (ar : arity) (vs : list rval),
  recur_legal ar vs -> forall e, recur_step s ar vs <> RArityErr e.
Proof. exact recur_never_arity_error_gen. Qed.
(** the code before the repairs (flag of the whole fn, nil passed on): rest = (nil); TypeError
    after the body ran; silent mis-binding -- and the sub-domain on which it was right *)
Theorem C08_recur_old_shape_refuted :
  (exists s ar vs, wf_sig s = true /\ arity_of s ar /\ recur_legal ar vs
      /\ recur_step_gen false false s ar vs = RBound (ARest 0) [] (RestSeq [VNil] None)
      /\ ~ recur_ok ar vs (recur_step_gen false false s ar vs))
  /\ (exists s ar vs, wf_sig s = true /\ arity_of s ar /\ recur_legal ar vs
      /\ recur_step_gen false false s ar vs = RArityErr TypeErr
      /\ ~ recur_ok ar vs (recur_step_gen false false s ar vs))
  /\ (exists s ar vs, wf_sig s = true /\ arity_of s ar /\ recur_legal ar vs
      /\ recur_step_gen false false s ar vs = RBound (AFix 2) [VAtom 1%N; VAtom 7%N] RestNil
      /\ ~ recur_ok ar vs (recur_step_gen false false s ar vs)).
Proof. exact recur_old_shape_refuted. Qed.
Theorem C08_recur_old_shape_partial : forall (s : sig) (ar : arity) (vs : list rval),
  arity_of s ar -> recur_legal ar vs -> recur_safe_old s ar vs = true ->
  recur_ok ar vs (recur_step_gen false false s ar vs).
Proof. exact recur_old_shape_partial. Qed.

(** recur: stack.  Any body, any iteration count n: each of the n+1 executions of the body
    sees depth(caller) + 0 (loop) / 2 (single-arity fn) / 3 (multi-arity fn) *)
Theorem C08_recur_constant_stack : forall (again : nat -> bool) (k : rkind) (host : list frame) (n fuel : nat),
  (forall j, j < n -> again j = true) -> again n = false -> n < fuel ->
  run_kind k again fuel host = Some (repeat (length host + rel_depth k) (S n)).
Proof. exact recur_constant_stack. Qed.
Theorem C08_selfcall_stack_grows : forall (again : nat -> bool) (host : list frame) (n fuel : nat),
  (forall j, j < n -> again j = true) -> again n = false -> n < fuel ->
  selfcall_run again fuel host 0 [] = Some (map (fun d => S (length host) + d) (seq 0 (S n))).
Proof. exact selfcall_stack_grows. Qed.

(** the tie between the declarative spec and the executable one the harness evaluates: whatever
    satisfies [bind_ok] is observed (arity code, parameters, first 10 of the rest parameter) as
    exactly the binding [Corr.spec_binding] computes and [Corr.spec_ok] demands; and the callables
    the harness builds have the signature and pre-supplied arguments its spec assumes *)
Theorem C08_corr_spec_is_bind_ok : forall (s : sig) (lead : list N) (t : tail N) (r : result N) (forced : nat),
  bind_ok s lead t r ->
  match Corr.spec_binding s lead t with
  | Some (ar, ps, rv) => Corr.observe t (r, forced) = Corr.OBound (Corr.arity_code ar) ps rv (N.of_nat forced)
  | None => Corr.observe t (r, forced) = Corr.OArityErr (N.of_nat forced)
  end.
Proof. exact CorrProofs.observe_of_bind_ok. Qed.
Theorem C08_corr_callee : forall s ps,
  base (Corr.mk_callee s ps) = s /\ pargs (Corr.mk_callee s ps) = Corr.part_vals 0 (Corr.n_partial ps).
Proof. exact CorrProofs.mk_callee_spec. Qed.

(** non-vacuity *)
Example C08_bind_nonvacuous :
  let s := mkSig [1] (Some 3) in
  let c := CPartial (CFn s) [200] in
  let t := mkTail None (fun i => i) in
  wf_sig s = true /\ apply t false c [100] = (RBound (ARest 3) [200; 100; 0] (RestSeq [] (Some 1)), 2).
Proof. exact bind_nonvacuous. Qed.
Example C08_recur_rebinds_nonvacuous :
  let s := mkSig [0; 1] (Some 1) in
  let vs := [VAtom 5%N; VSeq [7%N; 8%N]] in
  wf_sig s = true /\ recur_legal (ARest 1) vs /\ recur_safe (ARest 1) vs = true
  /\ recur_step s (ARest 1) vs = RBound (ARest 1) [VAtom 5%N] (RestSeq [VAtom 7%N; VAtom 8%N] None)
  /\ recur_step s (ARest 1) [VAtom 5%N; VNil] = RBound (ARest 1) [VAtom 5%N] RestNil
  /\ recur_step s (AFix 1) [VSeq [7%N; 8%N]] = RBound (AFix 1) [VSeq [7%N; 8%N]] RestNil.
Proof. exact recur_rebinds_nonvacuous. Qed.
Example C08_recur_stack_nonvacuous :
  run_kind KFnMulti (fun i => i <? 5) 100 [FHost; FHost] = Some [5; 5; 5; 5; 5; 5]
  /\ selfcall_run (fun i => i <? 5) 100 [FHost; FHost] 0 [] = Some [3; 4; 5; 6; 7; 8].
Proof. exact recur_stack_nonvacuous. Qed.

Print Assumptions C08_table_dispatch_cmp.
Print Assumptions C08_table_shapes.
Print Assumptions C08_table_repairs_present.
Print Assumptions C08_table_partial_cmp.
Print Assumptions C08_chosen_arity_unique.
Print Assumptions C08_bind_correct.
Print Assumptions C08_no_arity_error_after_body_starts.
Print Assumptions C08_dispatcher_selects_a_fitting_arity.
Print Assumptions C08_apply_forces_exactly.
Print Assumptions C08_apply_forces_at_most.
Print Assumptions C08_apply_forces_vs_minimum.
Print Assumptions C08_partial_arities.
Print Assumptions C08_partial_is_shifted_signature.
Print Assumptions C08_partial_reported_arities_partial.
Print Assumptions C08_partial_reported_arities_refuted.
Print Assumptions C08_partial_reported_arities_repaired_shape.
Print Assumptions C08_apply_via_var_refuted.
Print Assumptions C08_recur_rebinds_partial.
Print Assumptions C08_recur_rebinds_refuted.
Print Assumptions C08_no_arity_error_after_body_starts_recur.
Print Assumptions C08_recur_old_shape_refuted.
Print Assumptions C08_recur_old_shape_partial.
Print Assumptions C08_recur_constant_stack.
Print Assumptions C08_selfcall_stack_grows.
Print Assumptions C08_corr_spec_is_bind_ok.
Print Assumptions C08_corr_callee.
Print Assumptions C08_bind_nonvacuous.
Print Assumptions C08_recur_rebinds_nonvacuous.
Print Assumptions C08_recur_stack_nonvacuous.
