(** C08 -- placeholder while the development is being built. *)
From Coq Require Import List Arith.
From Verif Require Import C08.Base C08.Arity C08.Spec.
Theorem C08_placeholder : True.
Proof. exact I. Qed.
Print Assumptions C08_placeholder.
