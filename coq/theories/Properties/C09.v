(** C09 -- Syntax-quote is hygienic and destructuring binds what nth/get would return.
    This file contains only statements, each closed by [exact], and Print Assumptions. *)
From Coq Require Import List Bool ZArith NArith String.
Import ListNotations.
From Verif Require Import Common.ListX Gen.Tables C09.DLang C09.Destructure C09.DSpec C09.DProofs
  C09.Values C09.SyntaxQuote C09.SQSpec C09.SQProofs C09.Corr C09.Refuted C09.TableProofs.

(** * Obligations on what is regenerated from runtime.py / reader.py *)
Theorem C09_table_special_forms :
  forallb (fun x => mem x sq_special_forms) TableProofs.required_special = true
  /\ mem amp sq_special_forms = false.
Proof. exact TableProofs.special_forms_ok. Qed.
Theorem C09_table_builders : TableProofs.model_builders = sq_builders.
Proof. exact TableProofs.builders_ok. Qed.
Theorem C09_table_shapes : sq_resolve_shape = 1%N /\ sq_expand_shape = 1%N.
Proof. exact TableProofs.shapes_ok. Qed.

(** * Destructuring.  For EVERY oracle O (nth, nthnext, get, seq?, ...), every pattern of any
    nesting, every init expression, every environment, every gensym counter: on the names a
    user can write, the let* binding list emitted by (destructure [p e]) computes the
    environment [bind p (eval e)] of the specification, or fails with the same class. *)
Theorem C09_destructure_sound :
  forall (O : oracle) (datum : expr O -> val O) (p : pat O) (e : expr O) (n : N) (em es : env O),
    user_pat p = true -> user_expr e = true -> distinct_binders p -> agree em es ->
    sim (eval_let (fst (destructure O cur_shape datum p e n)) em)
        (v <- eval es e ;; bind O p v es).
Proof. exact DProofs.destructure_sound_distinct. Qed.

(** the same under the weaker executable guard (duplicate plain binders allowed: later wins) *)
Theorem C09_destructure_sound_alias_ok :
  forall (O : oracle) (datum : expr O -> val O) (p : pat O) (e : expr O) (n : N) (em es : env O),
    user_pat p = true -> user_expr e = true -> alias_ok p = true -> agree em es ->
    sim (eval_let (fst (destructure O cur_shape datum p e n)) em)
        (v <- eval es e ;; bind O p v es).
Proof. exact DProofs.destructure_sound. Qed.

Theorem C09_distinct_binders_meet_guard :
  forall (O : oracle) (p : pat O), distinct_binders p -> alias_ok p = true.
Proof. exact (fun O => proj1 (DProofs.distinct_alias_ok O (fun _ => vnil O))). Qed.

(** the let macro with any number of binding pairs *)
Theorem C09_let_sound :
  forall (O : oracle) (datum : expr O -> val O) (bs : list (pat O * expr O)) (n : N) (em es : env O),
    let_ok O bs = true -> agree em es ->
    sim (eval_let (fst (let_bindings O cur_shape datum bs n)) em) (bind_let O bs es).
Proof. exact DProofs.let_sound. Qed.

(** fn parameters and loop bindings (also after recur): once the parameter / loop variable is
    bound to a value, the let* in the body binds what the pattern binds on that value *)
Theorem C09_fn_loop_block_sound :
  forall (O : oracle) (datum : expr O -> val O) (p : pat O) (n : N) d n' (em es : env O) (v : val O),
    mkdef O p n = (d, n') -> user_pat p = true -> alias_ok p = true -> agree em es ->
    sim (eval_let (dbind_ns O cur_shape datum d) ((dname O d, v) :: em)) (bind O p v es).
Proof. exact DProofs.param_block_sound. Qed.

(** the emitted list binds only binders of the pattern and temporaries allocated for it *)
Theorem C09_destructure_binds_only_pattern_names :
  forall (O : oracle) (datum : expr O -> val O) (p : pat O) (n : N) d n',
    mkdef O p n = (d, n') ->
    (n <= n')%N /\
    forall y, In y (map fst (dbind O cur_shape datum d)) ->
              DProofs.usr_in (binders p) y \/ DProofs.tmp_in n n' y.
Proof.
  exact (fun O datum p n d n' H =>
           let F := proj1 (DProofs.names_facts O datum) p n d n' H in
           conj (proj1 F) (proj2 (proj2 F))).
Qed.

Theorem C09_or_default_iff_absent : forall l k d,
  (massoc k l = None -> c_get (VMap l) k d = Ok d)
  /\ (forall v, massoc k l = Some v -> c_get (VMap l) k d = Ok v).
Proof. exact Refuted.or_default_iff_absent. Qed.

(** [:or] is keyed on the NAME being in the :or map, never on the truthiness of the default: for
    a :keys / :strs / :syms element and a {sym key} entry alike, a binder with an :or entry whose
    key is absent from the map is bound to the default's value [dv], whatever [dv] is (false, nil). *)
Theorem C09_or_default_any_value :
  forall (sh : shape) (datum : expr C -> cval) (nm : name) (ors : list (str * expr C)) (x : str)
         (ns : option str) (de : expr C) (l : list (cval * cval)) (dv : cval) (en : env C),
    assoc x ors = Some de ->
    lookup nm en = Some (VMap l) ->
    eval en de = Ok dv ->
    (kw_binding C nm ors (ns, x) = (NU x, @EGet3 C (EVar nm) (@EConst C (VKw ns x)) de)
     /\ (massoc (VKw ns x) l = None -> eval en (snd (kw_binding C nm ors (ns, x))) = Ok dv))
    /\ (str_binding C nm ors x = (NU x, @EGet3 C (EVar nm) (@EConst C (VStr x)) de)
        /\ (massoc (VStr x) l = None -> eval en (snd (str_binding C nm ors x)) = Ok dv))
    /\ (sym_binding C nm ors (ns, x) = (NU x, @EGet3 C (EVar nm) (@EConst C (VSym ns x)) de)
        /\ (massoc (VSym ns x) l = None -> eval en (snd (sym_binding C nm ors (ns, x))) = Ok dv))
    /\ (forall k kv, named_binding C cur_shape datum nm ors k (NU x) = (NU x, @EGet3 C (EVar nm) k de)
        /\ (eval en k = Ok kv -> massoc kv l = None ->
            eval en (snd (named_binding C cur_shape datum nm ors k (NU x))) = Ok dv)).
Proof. exact Refuted.or_default_any_value. Qed.

Example C09_or_falsey_defaults :
  let run d v := (finish [Refuted.a_] (model_let cur_shape (Refuted.w_or d v)),
                  finish [Refuted.a_] (bind_let C (Refuted.w_or d v) [])) in
  run (Some (VBool false)) None = (OVals [VBool false], OVals [VBool false])
  /\ run (Some VNil) None = (OVals [VNil], OVals [VNil])
  /\ run (Some (VInt 0)) None = (OVals [VInt 0], OVals [VInt 0])
  /\ run None None = (OVals [VNil], OVals [VNil])
  /\ run (Some (VBool false)) (Some VNil) = (OVals [VNil], OVals [VNil])
  /\ run (Some (VInt 1)) (Some (VBool false)) = (OVals [VBool false], OVals [VBool false])
  /\ out_eqb (OVals [VBool false]) (OVals [VNil]) = false.
Proof. exact Refuted.or_falsey_defaults. Qed.

Example C09_dup_binders_later_wins :
  let_ok C Refuted.w_dup = true
  /\ finish [Refuted.a_] (model_let cur_shape Refuted.w_dup) = OVals [VInt 2]
  /\ finish [Refuted.a_] (bind_let C Refuted.w_dup []) = OVals [VInt 2].
Proof. exact Refuted.dup_binders_later_wins. Qed.

Example C09_dup_alias_outside_guard :
  alias_ok (fst (hd (@PSym C Refuted.a_, @EConst C VNil) Refuted.w_alias)) = false
  /\ finish [Refuted.a_; Refuted.b_] (model_let cur_shape Refuted.w_alias)
     = OVals [VVec [VInt 7; VInt 8]; VInt 8]
  /\ finish [Refuted.a_; Refuted.b_] (bind_let C Refuted.w_alias [])
     = OVals [VVec [VInt 7; VInt 8]; VInt 2].
Proof. exact Refuted.dup_alias_outside_guard. Qed.

(** the code before the two repairs (fixes/C09-*.patch) *)
Theorem C09_or_quoted_key_old_shape_refuted :
  finish [Refuted.a_] (model_let Refuted.only_quote Refuted.w_09a) = OVals [VInt 1]
  /\ finish [Refuted.a_] (bind_let C Refuted.w_09a []) = OVals [VInt 5]
  /\ Refuted.agree_out cur_shape Refuted.w_09a [Refuted.a_] = true.
Proof. exact Refuted.or_quoted_key_old_shape_refuted. Qed.

Theorem C09_nested_reemit_old_shape_refuted :
  finish [Refuted.a_; Refuted.b_] (model_let Refuted.only_reemit Refuted.w_09b) = OVals [VInt 2; VInt 2]
  /\ finish [Refuted.a_; Refuted.b_] (bind_let C Refuted.w_09b []) = OVals [VInt 1; VInt 2]
  /\ Refuted.agree_out cur_shape Refuted.w_09b [Refuted.a_; Refuted.b_] = true.
Proof. exact Refuted.nested_reemit_old_shape_refuted. Qed.

Theorem C09_reemit_exponential_old_shape : forall d e n,
  List.length (fst (destructure C old_shape c_datum (Refuted.nestp d) e n)) = (2 ^ d)%nat
  /\ List.length (fst (destructure C cur_shape c_datum (Refuted.nestp d) e n)) = S d.
Proof. exact Refuted.reemit_exponential_old_shape. Qed.

(** open finding F-09c: scope of loop inits and of defaults in a fn rest pattern *)
Theorem C09_loop_init_scope_refuted :
  model Refuted.w_09c_loop = OErr E_UNBOUND
  /\ spec_ok Refuted.w_09c_loop (OVals [VInt 1]) = true
  /\ spec_ok Refuted.w_09c_loop (model Refuted.w_09c_loop) = false.
Proof. exact Refuted.loop_init_scope_refuted. Qed.

Theorem C09_fn_rest_default_scope_refuted :
  model Refuted.w_09c_fn = OErr E_UNBOUND
  /\ spec_ok Refuted.w_09c_fn (OVals [VInt 1; VInt 1]) = true
  /\ spec_ok Refuted.w_09c_fn (model Refuted.w_09c_fn) = false.
Proof. exact Refuted.fn_rest_default_scope_refuted. Qed.

Example C09_guards_nonvacuous :
  user_pat Refuted.p_big = true /\ alias_ok Refuted.p_big = true /\ distinct_binders Refuted.p_big
  /\ finish [Refuted.a_; Refuted.b_; Refuted.c_; Refuted.x_; Refuted.y_; Refuted.r_]
            (model_let cur_shape [(Refuted.p_big, @EConst C Refuted.v_big)])
     = OVals [VInt 9; VInt 2; VInt 9; VInt 3; VInt 4; VList [VInt 5; VInt 6]].
Proof. exact Refuted.guards_nonvacuous. Qed.

(** * Syntax-quote.  For every namespace record, template of any depth, gensym state and hole
    values: the code the reader emits evaluates to the substitution instance in which an empty
    list is nil ([subst_seq]); to the substitution instance itself ([subst]) when no list
    node ends up empty. *)
Theorem C09_sq_eval_seq :
  forall R t st code st' sg, expand R t st = Some (code, st') ->
  forall g, SQProofs.agrees g (fst st') -> ev sg code = subst_seq R g sg t.
Proof. exact SQProofs.sq_eval_seq. Qed.

Theorem C09_sq_eval_partial :
  forall R t st code st' sg, expand R t st = Some (code, st') -> ne_ok sg t = true ->
  forall g, SQProofs.agrees g (fst st') -> ev sg code = subst R g sg t.
Proof. exact SQProofs.sq_eval_partial. Qed.

(** open finding F-09d *)
Theorem C09_sq_empty_list_refuted :
  exists t code st,
    expand Refuted.R0 t ([], 0%N) = Some (code, st)
    /\ ev [] code = Ok (FNil, [])
    /\ subst Refuted.R0 (fun _ => 0%N) [] t = Ok (FList [], []).
Proof. exact Refuted.sq_empty_list_refuted. Qed.

(** holes are evaluated exactly once each, in textual order *)
Theorem C09_sq_holes_once_in_order :
  forall ml R g sg t v tr, subst_gen ml R g sg t = Ok (v, tr) -> tr = holes_of t.
Proof. exact (fun ml R g sg => proj1 (SQProofs.subst_trace ml R g sg)). Qed.

(** resolution of symbols *)
Theorem C09_sq_resolves : forall R n,
  SQProofs.plain R n ->
  (forall vns vn, ns_find R n = Some (vns, vn) -> read_sym R None n = (Some vns, vn))
  /\ (ns_find R n = None -> read_sym R None n = (Some (cur R), n))
  /\ fst (read_sym R None n) <> None.
Proof. exact SQProofs.sq_resolves. Qed.

Theorem C09_sq_special_bare : forall R n,
  mem n (special R) = true \/ str_eqb n amp = true \/ starts_with_dot n = true ->
  read_sym R None n = (None, n).
Proof. exact SQProofs.sq_special_bare. Qed.

Theorem C09_sq_alias : forall R a n,
  (forall full, assoc a (aliases R) = Some full -> read_sym R (Some a) n = (Some full, n))
  /\ (assoc a (aliases R) = None -> read_sym R (Some a) n = (Some a, n)).
Proof. exact SQProofs.sq_alias. Qed.

Theorem C09_sq_hygienic : forall globals R U locals n vns vn,
  SQProofs.plain R n ->
  ns_find R n = Some (vns, vn) ->
  var_exists globals vns vn = true ->
  (str_eqb vns (cur U) = true -> ns_find U vn = Some (vns, vn)) ->
  denote globals U locals (fst (read_sym R None n)) (snd (read_sym R None n)) = DVar vns vn.
Proof. exact SQProofs.sq_hygienic. Qed.

(** auto-gensyms *)
Theorem C09_gensym_one_per_template : forall R t c code c',
  read_template R t c = Some (code, c') ->
  exists g, expand_pure R g t = Some code
            /\ (forall p, In p (gens t) -> (c <= g p < c')%N)
            /\ (forall p q, In p (gens t) -> In q (gens t) -> g p = g q -> p = q)
            /\ (c <= c')%N.
Proof. exact SQProofs.gensym_one_per_template. Qed.

Theorem C09_gensym_fresh_across : forall R1 R2 t1 t2 c code1 c1 c1' code2 c2,
  read_template R1 t1 c = Some (code1, c1) -> (c1 <= c1')%N ->
  read_template R2 t2 c1' = Some (code2, c2) ->
  exists g1 g2, expand_pure R1 g1 t1 = Some code1 /\ expand_pure R2 g2 t2 = Some code2
                /\ forall p q, In p (gens t1) -> In q (gens t2) -> g1 p <> g2 q.
Proof. exact SQProofs.gensym_fresh_across. Qed.

Example C09_sq_nonvacuous :
  let t := TList (TCons (TSym None (s_ "if")) (TCons (TGen Refuted.x_) (TCons (TVec (TCons (TGen Refuted.x_)
             (TCons (TUnq 0) (TCons (TSplice 1) TNil)))) (TCons (TSym None Refuted.a_) TNil)))) in
  ne_ok [FInt 1; FVec [FInt 2; FInt 3]] t = true
  /\ exists code c', read_template Refuted.R0 t 7 = Some (code, c')
     /\ ev [FInt 1; FVec [FInt 2; FInt 3]] code
        = Ok (FList [FSym None (SN (s_ "if")); FSym None (SG Refuted.x_ 7);
                     FVec [FSym None (SG Refuted.x_ 7); FInt 1; FInt 2; FInt 3];
                     FSym (Some (s_ "user")) (SN Refuted.a_)], [0%N; 1%N]).
Proof. exact Refuted.sq_nonvacuous. Qed.

Print Assumptions C09_table_special_forms.
Print Assumptions C09_table_builders.
Print Assumptions C09_table_shapes.
Print Assumptions C09_destructure_sound.
Print Assumptions C09_destructure_sound_alias_ok.
Print Assumptions C09_distinct_binders_meet_guard.
Print Assumptions C09_let_sound.
Print Assumptions C09_fn_loop_block_sound.
Print Assumptions C09_destructure_binds_only_pattern_names.
Print Assumptions C09_or_default_iff_absent.
Print Assumptions C09_or_default_any_value.
Print Assumptions C09_or_falsey_defaults.
Print Assumptions C09_dup_binders_later_wins.
Print Assumptions C09_dup_alias_outside_guard.
Print Assumptions C09_or_quoted_key_old_shape_refuted.
Print Assumptions C09_nested_reemit_old_shape_refuted.
Print Assumptions C09_reemit_exponential_old_shape.
Print Assumptions C09_loop_init_scope_refuted.
Print Assumptions C09_fn_rest_default_scope_refuted.
Print Assumptions C09_guards_nonvacuous.
Print Assumptions C09_sq_eval_seq.
Print Assumptions C09_sq_eval_partial.
Print Assumptions C09_sq_empty_list_refuted.
Print Assumptions C09_sq_holes_once_in_order.
Print Assumptions C09_sq_resolves.
Print Assumptions C09_sq_special_bare.
Print Assumptions C09_sq_alias.
Print Assumptions C09_sq_hygienic.
Print Assumptions C09_gensym_one_per_template.
Print Assumptions C09_gensym_fresh_across.
Print Assumptions C09_sq_nonvacuous.
