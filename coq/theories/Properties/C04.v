(** C04 -- persistent collections are immutable values that behave like their model.
    Statements only, each closed by [exact]; Print Assumptions at the end.

    [L : Libs] are the third-party structures (pyrsistent pvector+evolver / plist / pdeque,
    immutables Map + MapMutation) with their laws H_pvec_* H_evolver_* H_plist_* H_pdeque_*
    H_map_* H_mut_* (C04/Lib.v); every theorem quantified over [L] holds for every
    implementation of those interfaces.  A history [ops] is a list of operations each of
    which names the earlier results it uses by position (branching: any earlier result may
    be used again).  [irun L ops] runs the model of the wrappers; [srun] is the
    specification's checker over plain lists / association lists (C04/Spec.v). *)
From Coq Require Import List Bool ZArith NArith Permutation.
Import ListNotations.
From Verif Require Import Common.ListX Gen.Tables
  C04.Val C04.Lib C04.Syntax C04.Model C04.Spec C04.Abs C04.Corr C04.Wrappers C04.Sim C04.Proofs C04.Inst.

(** *** obligations on the source shapes re-read from /repo on every run *)
Theorem C04_table_vector_shape : coll_vector_shape = 1%N.
Proof. exact eq_refl. Qed.
Theorem C04_table_nth_shape : coll_nth_shape = 1%N.
Proof. exact eq_refl. Qed.
Theorem C04_table_with_meta_shape : coll_with_meta_shape = 1%N.
Proof. exact eq_refl. Qed.
Theorem C04_table_list_pop_repaired : coll_list_pop_shape = 1%N.
Proof. exact eq_refl. Qed.
Theorem C04_table_wrappers_pure : coll_wrappers_pure = 1%N.
Proof. exact eq_refl. Qed.

(** *** every history refines the specification
    For every library instance and every history in which no negative integer key reaches a
    vector (guard 1, finding F-04a) and (with-meta c nil) is not applied to a collection that
    carries metadata (guard 2, finding F-04b): the sequence of results, abstracted by
    iterating each collection in its own order, is accepted step by step by the
    specification -- each result is what the same operation gives on the plain model of the
    EARLIER results -- and the final contents of every transient are the specification's. *)
Theorem C04_history_refines_partial : forall (L : Libs) (ops : list op),
  indices_nonneg L ops = true -> meta_args_nonnil L ops = true ->
  exists h, srun ops [] (abs_slots L (irun L ops)) [] = Some h /\
            cells_ok h (map (fun c => cell_coll (abs_cell L c)) (heap (irun L ops))) = true.
Proof. exact history_refines_partial. Qed.

(** the same, one step from ANY state whose heap is related to the specification's heap *)
Theorem C04_step_refines : forall (L : Libs) (st : ist L) (sh : list scell) (o : op),
  Rheap L (heap st) sh -> hazard_neg L st o = false -> hazard_meta L st o = false ->
  accept (fst (sstep (abs_slots L st) sh o)) (abs_res L (fst (step L st o))) = true /\
  Rheap L (snd (step L st o)) (snd (sstep (abs_slots L st) sh o)).
Proof. exact step_sim. Qed.

(** for the list instance this is exactly what the correspondence run evaluates *)
Theorem C04_model_meets_spec : forall ops,
  indices_nonneg ListLibs ops = true -> meta_args_nonnil ListLibs ops = true ->
  spec_ok (CHist ops) (model (CHist ops)) = true.
Proof. exact model_meets_spec. Qed.

(** without guard 1 the statement is false: (get [1 2 3] -1), (nth [1 2 3] -1 :nf),
    (nth [1 2 3] -1), (assoc [1 2 3] -1 :x), (update [1 2 3] -3 f), (assoc! t -1 :x), (get t -2) *)
Theorem C04_negative_index_refuted :
  forallb (fun ops => negb (spec_ok (CHist ops) (model (CHist ops)))
                      && negb (indices_nonneg ListLibs ops) && meta_args_nonnil ListLibs ops)
          neg_witnesses = true.
Proof. exact negative_index_refuted. Qed.
Example C04_negative_index_values :
  model (CHist [v123; OGet 0 (i_ (-1)) None; OContains 0 (i_ (-1)); OAssoc 0 (i_ (-1)) (k_ 1)]) =
  OOut [RColl (CVec [i_ 1; i_ 2; i_ 3]) None; RVal (i_ 3); RBool false; RColl (CVec [i_ 1; i_ 2; k_ 1]) None]
       true [].
Proof. exact negative_index_values. Qed.
(** with non-negative indices Python indexing is the specification's indexing *)
Theorem C04_nonneg_index_is_clojure_index : forall l i x, (0 <= i)%Z ->
  py_nth l i = clj_nth l i /\ py_set l i x = clj_set l i x.
Proof. exact nonneg_index_is_clojure_index. Qed.

(** *** no operation changes a value obtained earlier *)
Theorem C04_old_values_stable : forall (L : Libs) (ops1 ops2 : list op) (i : nat) (r : ires L),
  nth_error (slots (irun L ops1)) i = Some r ->
  nth_error (slots (irun L (ops1 ++ ops2))) i = Some r.
Proof. exact old_values_stable. Qed.
Theorem C04_transient_source_stable : forall (L : Libs) ops1 i (r : ires L) ops2,
  nth_error (slots (irun L ops1)) i = Some r ->
  nth_error (slots (irun L (ops1 ++ OTransient i :: ops2))) i = Some r.
Proof. exact transient_source_stable. Qed.

(** *** metadata *)
(** = and hash never look at metadata, and a with-meta copy (which rebuilds the inner object
    of vectors, lists, queues and sets) compares and hashes like the original *)
Theorem C04_meta_irrelevant_eq_hash : forall (L : Libs) (c d : icoll L) (m1 m2 n1 n2 : option N),
  tgt_eq L (TColl L c m1) (TColl L d n1) = tgt_eq L (TColl L c m2) (TColl L d n2) /\
  coll_eq L (coll_with_meta L c) d = coll_eq L c d /\
  coll_eq L d (coll_with_meta L c) = coll_eq L d c /\
  coll_eq L c (coll_with_meta L c) = true /\
  coll_hash L (coll_with_meta L c) = coll_hash L c.
Proof. exact meta_irrelevant_eq_hash. Qed.

(** (with-meta c m): an equal value with the same contents carrying exactly m, nothing else
    touched; guard: not (m = nil and c has metadata) *)
Theorem C04_with_meta_exact_partial : forall (L : Libs) (st : ist L) i m (c : icoll L) m0,
  target L st i = TColl L c m0 -> hazard_meta L st (OWithMeta i m) = false ->
  exists c', step L st (OWithMeta i m) = (RColl c' m, heap st) /\
             cequiv (abs_coll L c) (abs_coll L c') /\
             coll_eq L c c' = true /\ coll_hash L c' = coll_hash L c /\
             slots (istep L st (OWithMeta i m)) = slots st ++ [RColl c' m].
Proof. exact with_meta_exact_partial. Qed.
Theorem C04_with_meta_nil_refuted :
  negb (spec_ok (CHist meta_witness) (model (CHist meta_witness)))
  && negb (meta_args_nonnil ListLibs meta_witness) && indices_nonneg ListLibs meta_witness = true.
Proof. exact with_meta_nil_refuted. Qed.
Example C04_with_meta_nil_values :
  model (CHist meta_witness) =
  OOut [RColl (CVec [i_ 1]) None; RColl (CVec [i_ 1]) (Some 1%N); RColl (CVec [i_ 1]) (Some 1%N); RNum 1]
       true [].
Proof. exact with_meta_nil_values. Qed.

(** which operations keep / set / drop metadata in the wrappers: conj assoc dissoc disj
    update empty into and the queue's pop keep the source's; with-meta sets it; pop of a
    vector or list, merge, persistent! and the constructors return values without metadata *)
Theorem C04_meta_table : forall (L : Libs) (st : ist L) (o : op) c' m',
  fst (step L st o) = RColl c' m' -> m' = meta_rule L st o.
Proof. exact meta_table. Qed.

(** *** transients *)
Theorem C04_transient_roundtrip : forall (L : Libs) (st : ist L) i (c : icoll L) m c',
  target L st i = TColl L c m -> roundtrip L c = Some c' ->
  slots (istep L (istep L st (OTransient i)) (OPersistent (length (slots st))))
    = slots st ++ [RTrans (length (heap st)); RColl c' None] /\
  cequiv (abs_coll L c) (abs_coll L c') /\ coll_eq L c c' = true.
Proof. exact transient_roundtrip. Qed.

(** *** the specification's maps and sets really are "modulo permutation" *)
Theorem C04_spec_maps_modulo_permutation : forall k v (l1 l2 : al),
  Permutation l1 l2 -> nodupk l1 = true ->
  al_get k l1 = al_get k l2 /\ Permutation (al_set k v l1) (al_set k v l2) /\
  Permutation (al_del k l1) (al_del k l2) /\ nodupk (al_set k v l1) = true /\ nodupk (al_del k l1) = true.
Proof. exact spec_maps_modulo_permutation. Qed.
Theorem C04_spec_sets_modulo_permutation : forall x (l1 l2 : list elem),
  Permutation l1 l2 -> nodup l1 = true ->
  mem x l1 = mem x l2 /\ Permutation (s_add x l1) (s_add x l2) /\ Permutation (s_del x l1) (s_del x l2) /\
  nodup (s_add x l1) = true /\ nodup (s_del x l1) = true.
Proof. exact spec_sets_modulo_permutation. Qed.
Theorem C04_key_equality_is_an_equivalence :
  (forall a, keq a a = true) /\ (forall a b, keq a b = keq b a) /\
  (forall a b c, keq a b = true -> keq b c = true -> keq a c = true).
Proof. exact key_equality_is_an_equivalence. Qed.

(** *** non-vacuity *)
Example C04_guards_nonvacuous :
  indices_nonneg ListLibs sample = true /\ meta_args_nonnil ListLibs sample = true /\
  spec_ok (CHist sample) (model (CHist sample)) = true.
Proof. exact guards_nonvacuous. Qed.
Theorem C04_libs_satisfiable : inhabited Libs.
Proof. exact libs_satisfiable. Qed.

(** *** variadic calls are the left fold of the unary operation
    (disj s a b ..), (dissoc m k ..), (assoc c k v k' v' ..), (conj! t a b ..), (assoc! ..), (dissoc! ..),
    (disj! ..) are not new operations of the model: a variadic call is a group of consecutive
    unary operations of the history, each naming the slot of the one before it (C04/Variadic.v).
    Running the group after any history IS folding the unary [step] from the state that history
    leaves; after the first exception nothing more happens; the call returns the first exception
    of the group, else its last result.  So the refinement theorems above, stated for all
    histories, cover the groups, and the correspondence's verdict on a history with variadic
    calls ([CHistV gs ops]: the implementation performs each group as ONE call) is covered by
    them under the same two guards. *)
Theorem C04_variadic_is_fold : forall (L : Libs) (pre chain : list op),
  slots (irun L (pre ++ chain)) = slots (irun L pre) ++ new_slots L (irun L pre) chain /\
  heap (irun L (pre ++ chain)) = heap (fold_left (istep L) chain (irun L pre)).
Proof. exact variadic_is_fold. Qed.

Theorem C04_variadic_error_stops : forall (L : Libs) (st : ist L) (o : op) (i : nat) (cls : N),
  chain_op o = Some i -> nth_error (slots st) i = Some (RErr cls) ->
  step L st o = (RErr EBadRef, heap st).
Proof. exact variadic_error_stops. Qed.

Theorem C04_variadic_result : forall (g : list sres) (x : sres) (cls : N) (r : list sres),
  forallb (fun r => negb (is_err r)) g = true ->
  vresult (g ++ [x]) = x /\ vresult (g ++ RErr cls :: r) = RErr cls.
Proof. exact variadic_result. Qed.

Theorem C04_variadic_model_meets_spec_partial : forall (gs : list nat) (ops : list op),
  list_sum gs = length ops ->
  indices_nonneg ListLibs ops = true -> meta_args_nonnil ListLibs ops = true ->
  spec_ok (CHistV gs ops) (model (CHistV gs ops)) = true.
Proof. exact variadic_model_meets_spec. Qed.

Theorem C04_variadic_conservative : forall ops : list op,
  model (CHistV (map (fun _ => 1) (model_obs ops)) ops) = model (CHist ops).
Proof. exact variadic_conservative. Qed.

Example C04_variadic_values :
  model (CHistV [1; 2; 1; 2; 1; 2; 1; 1; 2; 1]
    [ONew KSet [k_ 1]; ODisj 0 (k_ 2); ODisj 1 (k_ 1);
     ONewMap [(k_ 1, i_ 1)]; ODissoc 3 (k_ 2); ODissoc 4 (k_ 1);
     ONew KVec []; OAssoc 6 (i_ 0) (k_ 1); OAssoc 7 (i_ 1) (k_ 2);
     ONew KVec [i_ 7]; OTransient 9; OAssocT 10 (i_ 0) (k_ 1); OAssocT 11 (i_ 5) (k_ 2); OGet 10 (i_ 0) None]) =
  OOut [RColl (CSet [k_ 1]) None; RColl (CSet []) None; RColl (CMap [(k_ 1, i_ 1)]) None; RColl (CMap []) None;
        RColl (CVec []) None; RColl (CVec [k_ 1; k_ 2]) None; RColl (CVec [i_ 7]) None; RTrans 0;
        RErr EIndex; RVal (k_ 1)] true [CVec [k_ 1]].
Proof. exact variadic_values. Qed.

Print Assumptions C04_table_vector_shape.
Print Assumptions C04_table_nth_shape.
Print Assumptions C04_table_with_meta_shape.
Print Assumptions C04_table_list_pop_repaired.
Print Assumptions C04_table_wrappers_pure.
Print Assumptions C04_history_refines_partial.
Print Assumptions C04_step_refines.
Print Assumptions C04_model_meets_spec.
Print Assumptions C04_negative_index_refuted.
Print Assumptions C04_negative_index_values.
Print Assumptions C04_nonneg_index_is_clojure_index.
Print Assumptions C04_old_values_stable.
Print Assumptions C04_transient_source_stable.
Print Assumptions C04_meta_irrelevant_eq_hash.
Print Assumptions C04_with_meta_exact_partial.
Print Assumptions C04_with_meta_nil_refuted.
Print Assumptions C04_with_meta_nil_values.
Print Assumptions C04_meta_table.
Print Assumptions C04_transient_roundtrip.
Print Assumptions C04_spec_maps_modulo_permutation.
Print Assumptions C04_spec_sets_modulo_permutation.
Print Assumptions C04_key_equality_is_an_equivalence.
Print Assumptions C04_guards_nonvacuous.
Print Assumptions C04_libs_satisfiable.
Print Assumptions C04_variadic_is_fold.
Print Assumptions C04_variadic_error_stops.
Print Assumptions C04_variadic_result.
Print Assumptions C04_variadic_model_meets_spec_partial.
Print Assumptions C04_variadic_conservative.
Print Assumptions C04_variadic_values.
