(** C17 -- compare is a consistent total order; sort returns the ordered permutation.
    This file contains only statements, each closed by [exact], and Print Assumptions. *)
From Coq Require Import List Bool ZArith QArith NArith Permutation Sorted.
Import ListNotations.
From Verif Require Import Common.ListX Common.Order Common.Sort Gen.Tables C17.Model C17.Spec C17.Proofs C17.SpecProofs C17.Idem.

(** Obligations on the definitions regenerated from keyword.py / symbol.py / vector.py *)
Theorem C17_table_kw_lt : forall a b, kw_lt (fst a) (snd a) (fst b) (snd b) = Spec.name_lt_ref a b.
Proof. exact SpecProofs.kw_lt_is_ref. Qed.
Theorem C17_table_sym_lt : forall a b, sym_lt (fst a) (snd a) (fst b) (snd b) = Spec.name_lt_ref a b.
Proof. exact SpecProofs.sym_lt_is_ref. Qed.
Theorem C17_table_vector_shape : vector_lt_shape = 1%N.
Proof. exact Proofs.vector_shape_ok. Qed.

(** For every family t (numbers, strings, keywords, symbols, vectors of any nesting over
    them) extended with nil, and all values of it: *)
Theorem C17_antisym : forall t x y, compare t x y = (- compare t y x)%Z.
Proof. exact Proofs.compare_antisym. Qed.
Theorem C17_range : forall t x y, (compare t x y = -1 \/ compare t x y = 0 \/ compare t x y = 1)%Z.
Proof. exact Proofs.compare_range. Qed.
Theorem C17_trans : forall t x y z, (compare t x y <= 0 -> compare t y z <= 0 -> compare t x z <= 0)%Z.
Proof. exact Proofs.compare_trans. Qed.
Theorem C17_trans_strict : forall t x y z, (compare t x y < 0 -> compare t y z < 0 -> compare t x z < 0)%Z.
Proof. exact Proofs.compare_trans_strict. Qed.
Theorem C17_zero_iff_eq : forall t x y, compare t x y = 0%Z <-> Proofs.oeqb t x y = true.
Proof. exact Proofs.compare_zero_iff_eq. Qed.
Theorem C17_nil_least : forall t (v : val t),
  compare t None (Some v) = (-1)%Z /\ compare t (Some v) None = 1%Z /\ compare t None None = 0%Z.
Proof. exact Proofs.nil_least. Qed.
Theorem C17_kw_ns_then_name : forall n1 n2 s1 s2,
  compare TKw (Some (Some n1, s1)) (Some (Some n2, s2)) =
    if str_ltb n1 n2 then (-1)%Z else if str_ltb n2 n1 then 1%Z
    else if str_ltb s1 s2 then (-1)%Z else if str_ltb s2 s1 then 1%Z else 0%Z.
Proof. exact Proofs.kw_ns_then_name. Qed.
Theorem C17_sym_ns_then_name : forall n1 n2 s1 s2,
  compare TSym (Some (Some n1, s1)) (Some (Some n2, s2)) =
    if str_ltb n1 n2 then (-1)%Z else if str_ltb n2 n1 then 1%Z
    else if str_ltb s1 s2 then (-1)%Z else if str_ltb s2 s1 then 1%Z else 0%Z.
Proof. exact Proofs.sym_ns_then_name. Qed.
(** the model of the code computes exactly the reference comparison of the specification *)
Theorem C17_compare_is_reference : forall t x y, compare t x y = Spec.ref_compare t x y.
Proof. exact SpecProofs.compare_is_ref. Qed.

Theorem C17_sort_perm : forall t l, Permutation (sort t l) l.
Proof. exact Proofs.sort_perm. Qed.
Theorem C17_sort_ordered : forall t l, StronglySorted (fun a b => (compare t a b <= 0)%Z) (sort t l).
Proof. exact Proofs.sort_ordered. Qed.
Theorem C17_sort_stable : forall t x l, filter (key_eqb t x) (sort t l) = filter (key_eqb t x) l.
Proof. exact Proofs.sort_stable. Qed.
Theorem C17_sort_input_order_independent : forall t l1 l2,
  ForallOrdPairs (fun a b => compare t a b <> 0%Z) l1 -> Permutation l1 l2 -> sort t l1 = sort t l2.
Proof. exact Proofs.sort_input_order_independent. Qed.
Theorem C17_sort_by_perm : forall t B (l : list (option (val t) * B)), Permutation (sort_by t l) l.
Proof. exact Proofs.sort_by_perm. Qed.
Theorem C17_sort_by_ordered : forall t B (l : list (option (val t) * B)),
  StronglySorted (fun a b => (compare t (fst a) (fst b) <= 0)%Z) (sort_by t l).
Proof. exact Proofs.sort_by_ordered. Qed.
Theorem C17_sort_by_stable : forall t B (x : option (val t) * B) (l : list (option (val t) * B)),
  filter (fun e => key_eqb t (fst x) (fst e)) (sort_by t l) = filter (fun e => key_eqb t (fst x) (fst e)) l.
Proof. exact Proofs.sort_by_stable. Qed.
(** the ordered sequence is a fixed point: an input already ordered by [compare] (ties allowed)
    is returned unchanged, so [sort] and [sort-by] are idempotent *)
Theorem C17_sort_of_ordered : forall t l,
  StronglySorted (fun a b => (compare t a b <= 0)%Z) l -> sort t l = l.
Proof. exact Idem.sort_of_ordered. Qed.
Theorem C17_sort_idempotent : forall t l, sort t (sort t l) = sort t l.
Proof. exact Idem.sort_idempotent. Qed.
Theorem C17_sort_by_idempotent : forall t B (l : list (option (val t) * B)),
  sort_by t (sort_by t l) = sort_by t l.
Proof. exact Idem.sort_by_idempotent. Qed.
(** CPython's sorted() is assumed to meet the stable-sort contract; any such function
    returns what the model's insertion sort returns (for distinct keys): *)
Theorem C17_any_stable_sort_agrees : forall t l l',
  Permutation l' l -> StronglySorted (Sort.ord (key_lt t)) l' ->
  Sort.distinct (key_eqb t) l -> l' = sort t l.
Proof. exact SpecProofs.any_stable_sort_agrees. Qed.
(** non-vacuity: the premises of the order-independence theorem are met by a 4-keyword list
    with every namespace/name ordering combination *)
Example C17_nonvacuous :
  sort TKw [Some (Some [98%N], [97%N]); Some (Some [97%N], [98%N]); Some (None, [122%N]); None]
  = [None; Some (None, [122%N]); Some (Some [97%N], [98%N]); Some (Some [98%N], [97%N])].
Proof. exact SpecProofs.nonvacuous. Qed.

Print Assumptions C17_table_kw_lt.
Print Assumptions C17_table_sym_lt.
Print Assumptions C17_table_vector_shape.
Print Assumptions C17_antisym.
Print Assumptions C17_range.
Print Assumptions C17_trans.
Print Assumptions C17_trans_strict.
Print Assumptions C17_zero_iff_eq.
Print Assumptions C17_nil_least.
Print Assumptions C17_kw_ns_then_name.
Print Assumptions C17_sym_ns_then_name.
Print Assumptions C17_compare_is_reference.
Print Assumptions C17_sort_perm.
Print Assumptions C17_sort_ordered.
Print Assumptions C17_sort_stable.
Print Assumptions C17_sort_input_order_independent.
Print Assumptions C17_sort_by_perm.
Print Assumptions C17_sort_by_ordered.
Print Assumptions C17_sort_by_stable.
Print Assumptions C17_sort_of_ordered.
Print Assumptions C17_sort_idempotent.
Print Assumptions C17_sort_by_idempotent.
Print Assumptions C17_any_stable_sort_agrees.
Print Assumptions C17_nonvacuous.
