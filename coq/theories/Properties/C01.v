(** C01 -- compiled programs compute the values their source denotes.
    Only statements, each closed by [exact], and Print Assumptions. *)
From Coq Require Import List ZArith NArith Bool.
Import ListNotations.
From Verif Require Import C01.Lisp C01.Py C01.Gen C01.Sim C01.Top.
From Verif Require C01.FLisp C01.FCorr C01.FRefuted.
From Verif Require C01L.LLisp C01L.LPy C01L.LGen C01L.LSim C01L.LTop.
From Verif Require C01X.XLisp C01X.XPy C01X.XGen C01X.XSim C01X.XTop.
From Verif Require C01C.CLisp C01C.CPy C01C.CGen C01C.CSim C01C.CTop.

(** First-order core (constants, locals with shadowing, if, do, let*, calls of primitives
    with any number of arguments, nested to any depth).  PARTIAL: guarded by the executable
    predicate [hazard_free] (no hoisting hazard, see C02), and the fragment does not yet
    contain fn/closures, loop/recur, try/throw, def (those are covered by the executable
    model and the correspondence run only). *)
Theorem C01_compile_correct_partial : forall e v tr,
  eval (fun _ => None) e = Some (v, tr) -> hazard_free e = true -> run e = Some (v, tr).
Proof. exact Top.compile_correct. Qed.

(** the same holds with the program sitting in any syntactic position, at any depth *)
Theorem C01_context_independent_partial : forall c p v tr,
  eval (fun _ => None) (plug c p) = Some (v, tr) -> hazard_free (plug c p) = true ->
  run (plug c p) = Some (v, tr).
Proof. exact Top.context_independent. Qed.

(** only nil and false are falsey in compiled code *)
Theorem C01_truthiness : forall v a b,
  run (EIf (EConst v) (EConst a) (EConst b)) = Some (if falsey v then b else a, []).
Proof. exact Top.truthiness. Qed.

(** the general simulation invariant (open terms, any environment related to the frame) *)
Theorem C01_simulation : forall e, Sim.sim e.
Proof. exact Sim.sim_all. Qed.

Example C01_nonvacuous :
  hazard_free Top.sample = true /\
  eval (fun _ => None) Top.sample = Some (VVec [VInt 1; VInt 2], [VInt 1; VVec [VInt 1; VInt 2]]).
Proof. exact Top.sample_ok. Qed.

(** First-order core extended with loop*/recur (C01L): for every closed program whose
    evaluation yields a value, without a hoisting hazard and with pairwise distinct binders in
    each loop*, the compiled code yields the same value and trace for every sufficiently large
    fuel: one `while True` iteration per source iteration, recur rebinding all loop locals
    simultaneously.  PARTIAL: same guard as above; fn*/try/def are not in this fragment. *)
Theorem C01_compile_correct_loops_partial : forall fuel e v tr,
  LLisp.leval fuel (fun _ => None) e = Some (LLisp.OVal v, tr) -> LGen.hazard_free e = true ->
  exists m, forall m', (m <= m')%nat -> LGen.lrun m' e = Some (v, tr).
Proof. exact LTop.lcompile_correct. Qed.
Theorem C01_loop_simulation : forall fuel, LSim.lsim fuel.
Proof. exact LSim.lsim_all. Qed.
Example C01_recur_simultaneous :
  LGen.hazard_free LTop.swap_loop = true /\
  LLisp.leval 20 (fun _ => None) LTop.swap_loop = Some (LLisp.OVal (VVec [VInt 2; VInt 1]), []) /\
  LGen.lrun 20 LTop.swap_loop = Some (VVec [VInt 2; VInt 1], []).
Proof. exact LTop.swap_loop_ok. Qed.
Example C01_counting_loop :
  LGen.hazard_free LTop.count_loop = true /\
  LLisp.leval 40 (fun _ => None) LTop.count_loop = Some (LLisp.OVal (VVec [VInt 0; VInt 1; VInt 2]), [VInt 0; VInt 1; VInt 2]) /\
  LGen.lrun 40 LTop.count_loop = Some (VVec [VInt 0; VInt 1; VInt 2], [VInt 0; VInt 1; VInt 2]).
Proof. exact LTop.count_loop_ok. Qed.

(** The same core further extended with throw and try/catch/finally (C01X): every outcome of a
    closed program -- a value, or an exception that leaves it -- is reproduced by the compiled
    code with the same trace: raising skips to the nearest matching catch, the handler's local
    is bound to the exception and unbound afterwards, finally runs exactly once on every way
    out and its own exception replaces the pending outcome, exceptions leave enclosing loops.
    PARTIAL: guard [hazard_free] (no hoisting hazard, distinct loop binders, no recur in tail
    position of a try, which the source semantics excludes too: finding F-02c); fn*/def are
    not in this fragment. *)
Theorem C01_compile_correct_exceptions_partial : forall fuel e o tr,
  XLisp.xeval fuel (fun _ => None) e = Some (o, tr) -> XGen.hazard_free e = true ->
  match o with
  | XLisp.OVal v => exists m, forall m', (m <= m')%nat -> XGen.xrun m' e = Some (XGen.XRVal v tr)
  | XLisp.OExc c _ => exists m, forall m', (m <= m')%nat -> XGen.xrun m' e = Some (XGen.XRExc c tr)
  | XLisp.ORec _ => True
  end.
Proof. exact XTop.xcompile_correct. Qed.
Theorem C01_exception_simulation : forall fuel, XSim.xsim fuel.
Proof. exact XSim.xsim_all. Qed.
Example C01_catch_finally :
  XGen.hazard_free XTop.caught = true /\
  XLisp.xeval 30 (fun _ => None) XTop.caught = Some (XLisp.OVal (VExc 1 (VInt 7)), [VInt 1; VInt 3; VInt 4]) /\
  XGen.xrun 30 XTop.caught = Some (XGen.XRVal (VExc 1 (VInt 7)) [VInt 1; VInt 3; VInt 4]).
Proof. exact XTop.caught_ok. Qed.
Example C01_exception_leaves_loop :
  XGen.hazard_free XTop.escaping = true /\
  XLisp.xeval 60 (fun _ => None) XTop.escaping = Some (XLisp.OExc 2 (VInt 2), [VInt 0; VInt 1; VInt 2]) /\
  XGen.xrun 60 XTop.escaping = Some (XGen.XRExc 2 [VInt 0; VInt 1; VInt 2]).
Proof. exact XTop.escaping_ok. Qed.

(** Closures (C01C): the first-order core extended with fn* (one arity, any number of
    parameters, optionally named so that the body can call the function itself, shadowing of captured names by parameters and by inner let-bindings) and the invocation of
    function values.  Python function values refer to their defining frame BY REFERENCE (it is
    read when the function is called); the theorem shows that for every closed program of the
    fragment -- closures returned, stored, passed around and called any number of times -- the
    compiled code yields the same observable value and trace, i.e. every closure sees the
    bindings in effect when it was created.  The invariant that makes this true is that a frame
    only ever gains fresh names; loop*/recur (where generated code re-assigns a name) is exactly
    where it fails, which is finding F-01a.  PARTIAL: guard [hazard_free] (no hoisting hazard:
    here, a non-atomic argument may not be followed by an argument that needs statements;
    distinct parameters); loops, try and def are not in this fragment. *)
Theorem C01_compile_correct_closures_partial : forall fuel e v tr,
  CLisp.ceval fuel [] e = Some (v, tr) -> CGen.hazard_free e = true ->
  exists m, forall m', (m <= m')%nat -> CGen.crun m' e = Some (CLisp.obs_of v, tr).
Proof. exact CTop.ccompile_correct. Qed.
Theorem C01_closure_simulation : forall fuel, CSim.csim fuel.
Proof. exact CSim.csim_all. Qed.
Example C01_closures_keep_their_bindings :
  CGen.hazard_free CTop.counters = true /\
  CGen.ceval_obs 40 CTop.counters = Some (FLisp.OVec [FLisp.OInt 1; FLisp.OInt 2], []) /\
  CGen.crun 40 CTop.counters = CGen.ceval_obs 40 CTop.counters.
Proof. exact CTop.counters_ok. Qed.
Example C01_named_fn_recursion :
  CGen.hazard_free CTop.recursive = true /\
  CGen.ceval_obs 60 CTop.recursive =
    Some (FLisp.OVec [FLisp.OInt 0; FLisp.OInt 1; FLisp.OInt 2], [FLisp.OInt 0; FLisp.OInt 1; FLisp.OInt 2]) /\
  CGen.crun 60 CTop.recursive = CGen.ceval_obs 60 CTop.recursive.
Proof. exact CTop.recursive_ok. Qed.
Example C01_rebinding_does_not_reach_closure :
  CGen.hazard_free CTop.rebind = true /\
  CGen.ceval_obs 40 CTop.rebind = Some (FLisp.OVec [FLisp.OInt 1; FLisp.OInt 2], []) /\
  CGen.crun 40 CTop.rebind = CGen.ceval_obs 40 CTop.rebind.
Proof. exact CTop.rebind_ok. Qed.

(** Full fragment (fn*/closures, loop*/recur, try/catch/finally, throw, def, literals):
    executable model (FLisp/FPy/FGen) tied to the compiler by the correspondence run.  The
    full statement "model e = spec e for every program" is REFUTED by these witnesses, each
    with the hazard tag that delimits the corresponding finding: *)
Theorem C01_loop_capture_refuted :
  exists e, FCorr.spec e = FLisp.RVal (FLisp.OInt 0) [] /\ FCorr.model e = FLisp.RVal (FLisp.OInt 2) [] /\ FCorr.tag e = 2%N.
Proof. exact FRefuted.loop_capture_refuted. Qed.
Theorem C01_let_in_loop_capture_refuted :
  exists e, FCorr.spec e = FLisp.RVal (FLisp.OInt 0) [] /\ FCorr.model e = FLisp.RVal (FLisp.OInt 2) [] /\ FCorr.tag e = 2%N.
Proof. exact FRefuted.let_in_loop_capture_refuted. Qed.
Theorem C01_param_munge_shadow_refuted :
  exists e, FCorr.spec e = FLisp.RVal (FLisp.OInt 1) [] /\ FCorr.model e = FLisp.RVal (FLisp.OInt 2) [] /\ FCorr.tag e = 4%N.
Proof. exact FRefuted.param_munge_shadow_refuted. Qed.
Theorem C01_param_munge_duplicate_refuted :
  exists e, FCorr.spec e = FLisp.RVal (FLisp.OInt 1) [] /\ FCorr.model e = FLisp.RExc FGen.CLS_SYNTAX [] /\ FCorr.tag e = 4%N.
Proof. exact FRefuted.param_munge_duplicate_refuted. Qed.
Theorem C01_catch_var_capture_refuted :
  exists e, FCorr.spec e = FLisp.RVal (FLisp.OExc 1 (FLisp.OInt 7)) [] /\ FCorr.model e = FLisp.RExc FLisp.CLS_NAME [] /\ FCorr.tag e = 8%N.
Proof. exact FRefuted.catch_var_capture_refuted. Qed.
Example C01_full_model_agrees_sample :
  FCorr.spec FRefuted.w_ok = FLisp.RVal (FLisp.OVec [FLisp.OInt 0; FLisp.OInt 1; FLisp.OInt 2]) [FLisp.OInt 0; FLisp.OInt 1; FLisp.OInt 2; FLisp.OInt 99]
  /\ FCorr.model FRefuted.w_ok = FCorr.spec FRefuted.w_ok /\ FCorr.tag FRefuted.w_ok = 0%N.
Proof. exact FRefuted.full_model_agrees_sample. Qed.

Print Assumptions C01_compile_correct_partial.
Print Assumptions C01_compile_correct_loops_partial.
Print Assumptions C01_loop_simulation.
Print Assumptions C01_recur_simultaneous.
Print Assumptions C01_counting_loop.
Print Assumptions C01_loop_capture_refuted.
Print Assumptions C01_let_in_loop_capture_refuted.
Print Assumptions C01_param_munge_shadow_refuted.
Print Assumptions C01_param_munge_duplicate_refuted.
Print Assumptions C01_catch_var_capture_refuted.
Print Assumptions C01_full_model_agrees_sample.
Print Assumptions C01_context_independent_partial.
Print Assumptions C01_truthiness.
Print Assumptions C01_simulation.
Print Assumptions C01_nonvacuous.
Print Assumptions C01_compile_correct_exceptions_partial.
Print Assumptions C01_exception_simulation.
Print Assumptions C01_catch_finally.
Print Assumptions C01_exception_leaves_loop.
Print Assumptions C01_compile_correct_closures_partial.
Print Assumptions C01_closure_simulation.
Print Assumptions C01_closures_keep_their_bindings.
Print Assumptions C01_rebinding_does_not_reach_closure.
Print Assumptions C01_named_fn_recursion.
