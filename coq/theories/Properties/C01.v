(** C01 -- compiled programs compute the values their source denotes.
    Only statements, each closed by [exact], and Print Assumptions. *)
From Coq Require Import List ZArith NArith Bool.
Import ListNotations.
From Verif Require Import C01.Lisp C01.Py C01.Gen C01.Sim C01.Top.
From Verif Require C01.FLisp C01.FCorr C01.FRefuted.

(** First-order core (constants, locals with shadowing, if, do, let*, calls of primitives
    with any number of arguments, nested to any depth).  PARTIAL: guarded by the executable
    predicate [hazard_free] (no hoisting hazard, see C02), and the fragment does not yet
    contain fn/closures, loop/recur, try/throw, def (those are covered by the executable
    model and the correspondence run only). *)
Theorem C01_compile_correct_partial : forall e v tr,
  eval (fun _ => None) e = Some (v, tr) -> hazard_free e = true -> run e = Some (v, tr).
Proof. exact Top.compile_correct. Qed.

(** the same holds with the program sitting in any syntactic position, at any depth *)
Theorem C01_context_independent_partial : forall c p v tr,
  eval (fun _ => None) (plug c p) = Some (v, tr) -> hazard_free (plug c p) = true ->
  run (plug c p) = Some (v, tr).
Proof. exact Top.context_independent. Qed.

(** only nil and false are falsey in compiled code *)
Theorem C01_truthiness : forall v a b,
  run (EIf (EConst v) (EConst a) (EConst b)) = Some (if falsey v then b else a, []).
Proof. exact Top.truthiness. Qed.

(** the general simulation invariant (open terms, any environment related to the frame) *)
Theorem C01_simulation : forall e, Sim.sim e.
Proof. exact Sim.sim_all. Qed.

Example C01_nonvacuous :
  hazard_free Top.sample = true /\
  eval (fun _ => None) Top.sample = Some (VVec [VInt 1; VInt 2], [VInt 1; VVec [VInt 1; VInt 2]]).
Proof. exact Top.sample_ok. Qed.

(** Full fragment (fn*/closures, loop*/recur, try/catch/finally, throw, def, literals):
    executable model (FLisp/FPy/FGen) tied to the compiler by the correspondence run.  The
    full statement "model e = spec e for every program" is REFUTED by these witnesses, each
    with the hazard tag that delimits the corresponding finding: *)
Theorem C01_loop_capture_refuted :
  exists e, FCorr.spec e = FLisp.RVal (FLisp.OInt 0) [] /\ FCorr.model e = FLisp.RVal (FLisp.OInt 2) [] /\ FCorr.tag e = 2%N.
Proof. exact FRefuted.loop_capture_refuted. Qed.
Theorem C01_let_in_loop_capture_refuted :
  exists e, FCorr.spec e = FLisp.RVal (FLisp.OInt 0) [] /\ FCorr.model e = FLisp.RVal (FLisp.OInt 2) [] /\ FCorr.tag e = 2%N.
Proof. exact FRefuted.let_in_loop_capture_refuted. Qed.
Theorem C01_param_munge_shadow_refuted :
  exists e, FCorr.spec e = FLisp.RVal (FLisp.OInt 1) [] /\ FCorr.model e = FLisp.RVal (FLisp.OInt 2) [] /\ FCorr.tag e = 4%N.
Proof. exact FRefuted.param_munge_shadow_refuted. Qed.
Theorem C01_param_munge_duplicate_refuted :
  exists e, FCorr.spec e = FLisp.RVal (FLisp.OInt 1) [] /\ FCorr.model e = FLisp.RExc FGen.CLS_SYNTAX [] /\ FCorr.tag e = 4%N.
Proof. exact FRefuted.param_munge_duplicate_refuted. Qed.
Theorem C01_catch_var_capture_refuted :
  exists e, FCorr.spec e = FLisp.RVal (FLisp.OExc 1 (FLisp.OInt 7)) [] /\ FCorr.model e = FLisp.RExc FLisp.CLS_NAME [] /\ FCorr.tag e = 8%N.
Proof. exact FRefuted.catch_var_capture_refuted. Qed.
Example C01_full_model_agrees_sample :
  FCorr.spec FRefuted.w_ok = FLisp.RVal (FLisp.OVec [FLisp.OInt 0; FLisp.OInt 1; FLisp.OInt 2]) [FLisp.OInt 0; FLisp.OInt 1; FLisp.OInt 2; FLisp.OInt 99]
  /\ FCorr.model FRefuted.w_ok = FCorr.spec FRefuted.w_ok /\ FCorr.tag FRefuted.w_ok = 0%N.
Proof. exact FRefuted.full_model_agrees_sample. Qed.

Print Assumptions C01_compile_correct_partial.
Print Assumptions C01_loop_capture_refuted.
Print Assumptions C01_let_in_loop_capture_refuted.
Print Assumptions C01_param_munge_shadow_refuted.
Print Assumptions C01_param_munge_duplicate_refuted.
Print Assumptions C01_catch_var_capture_refuted.
Print Assumptions C01_full_model_agrees_sample.
Print Assumptions C01_context_independent_partial.
Print Assumptions C01_truthiness.
Print Assumptions C01_simulation.
Print Assumptions C01_nonvacuous.
