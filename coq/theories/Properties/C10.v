(** C10 -- A name denotes one binding, and reading it sees the value last given to it.
    Only statements, each closed by [exact], and Print Assumptions.

    Vocabulary (C10/Spec.v, C10/Names.v): a history [h] is a list of steps def / in-ns /
    require :as / refer :only / alter-var-root, run from a state with no Vars whose current
    namespace is [cur] and whose namespace cache holds [nss] ([after cur nss h]).
    [resolve locals st rns spl] is the Var the analyzer's rules make the symbol [spl] denote
    when compiled in namespace [rns] under the let*/fn locals [locals]; [read st md rq] is what
    evaluating the compiled reference yields in linking mode [md] (Direct / Indirect);
    [last_def] / [last_given] read the value last given to a Var (by def / by def or root
    mutation) off the history alone.  [no_collision] is the executable guard "no step stores a
    module global under a Python identifier by which another name of that namespace, or the
    module of any namespace, is looked up".

    Thread bindings (C10/BSpec.v, C10/BNames.v): an extended history is a list of [bstep]s:
    [B s] (a step as above), [BPush m n v] (enter `(binding [m/n v] ...)`), [BPop] (leave the
    innermost binding form); [xafter cur nss h] is the model of the code after it (the state
    above + one thread-local store per Var + the thread's frame stack), [xsafter] the reference
    semantics (the Var store + ONE stack of open frames), [xread] what evaluating a compiled
    reference yields.  [innermost cur h k = Some (v, i)] reads off the history alone that the
    innermost open binding of Var k gave it v, i = true iff no def changed k's dynamic marking
    since that binding was entered.  [base_steps h] = the def / in-ns / ... steps of h.
    [dyn_stable] is the executable guard "a redefinition of a Var that has open binding
    frames keeps its dynamic marking". *)
From Coq Require Import List NArith Bool.
Import ListNotations.
From Verif Require Import Common.ListX Gen.Tables C10.Munge C10.MungeProofs C10.Spec C10.Names
  C10.Proofs C10.Theorems C10.Refuted C10.BSpec C10.BNames C10.BProofs C10.BRefuted.
Local Open Scope N_scope.

(** ---- obligations on the table regenerated from util.py (_MUNGE_REPLACEMENTS) and on
         keyword.kwlist / dir(builtins) of the running Python ---- *)
Theorem C10_table_values_shape :
  forall c v, tr_lookup munge_replacements c = Some v ->
    (c = DASH /\ v = [US]) \/
    (c <> DASH /\ exists u, v = US :: US :: u ++ [US; US] /\ forallb is_upper u = true /\ u <> []).
Proof. exact lookup_shape. Qed.
Theorem C10_table_keys_distinct : distinctb N.eqb (map fst munge_replacements) = true.
Proof. exact table_keys_distinct_true. Qed.
Theorem C10_table_values_distinct :
  forall c d v, tr_lookup munge_replacements c = Some v -> tr_lookup munge_replacements d = Some v -> c = d.
Proof. exact lookup_value_inj. Qed.
Theorem C10_table_keys_ok :
  tr_lookup munge_replacements US = None /\ tr_lookup munge_replacements DOT = None /\
  tr_lookup munge_replacements DASH = Some [US].
Proof. exact (conj us_not_key (conj dot_not_key dash_is_key)). Qed.
Theorem C10_table_reserved_ok : table_reserved_ok = true.
Proof. exact table_reserved_ok_true. Qed.

(** ---- munge ---- *)
(** names over characters the table does not mention are munged to themselves, or get a
    trailing '_' (Python keywords, builtins unless allow_builtins); ".." is special *)
Theorem C10_munge_simple_names : forall f s, forallb nokey s = true ->
  munge_gen f s = s \/ munge_gen f s = s ++ [US] \/ (s = DOTDOT /\ munge_gen f s = DOTDOT_REPL).
Proof. exact munge_simple. Qed.
(** str.translate with the table is injective on strings without '_' and '-' *)
Theorem C10_translate_injective : forall a b, clean a = true -> clean b = true -> translate a = translate b -> a = b.
Proof. exact translate_inj. Qed.
(** munge -- with or without allow_builtins, in any combination, as __name_in_module probes --
    is injective on names that contain none of '_', '-', '.' *)
Theorem C10_munge_injective_on_plain_names : forall f1 f2 a b,
  plain_name a = true -> plain_name b = true -> munge_gen f1 a = munge_gen f2 b -> a = b.
Proof. exact munge_inj_plain. Qed.
(** and it is not injective beyond: *)
Theorem C10_munge_not_injective :
  munge s_a_dash_b = munge s_a_us_b /\ munge s_xq = munge s_x_Q /\ munge s_plus = munge s_dd_PLUS
  /\ munge s_print = munge s_print_us /\ munge s_class = munge s_class_us.
Proof. exact munge_collisions. Qed.

(** ---- which Var a symbol denotes: for ALL histories ---- *)
Theorem C10_spellings_agree : forall cur nss h m n,
  let st := sp (after cur nss h) in
  interned st (m, n) = true ->
  (forall locals, mem_str n locals = false -> resolve locals st m (Bare n) = RVar (m, n)) /\
  (forall locals, resolve locals st m (Qual m n) = RVar (m, n)) /\
  (forall locals rns, rns <> m -> is_private st (m, n) = false -> resolve locals st rns (Qual m n) = RVar (m, n)) /\
  (forall locals rns a,
      aget (rns, a) (s_aliases st) = Some m -> is_private st (m, n) = false -> has_dot n = false ->
      (if str_eqb a rns then find st rns n else None) = None ->
      (if mem_str a (s_nss st) then find st a n else None) = None ->
      resolve locals st rns (Qual a n) = RVar (m, n)) /\
  (forall locals rns,
      mem_str n locals = false -> interned st (rns, n) = false -> aget (rns, n) (s_refers st) = Some (m, n) ->
      resolve locals st rns (Bare n) = RVar (m, n)).
Proof. exact spellings_agree. Qed.

(** two different names never denote the same binding *)
Theorem C10_names_distinct : forall cur nss h locals rns n1 n2 k,
  let st := sp (after cur nss h) in
  resolve locals st rns (Bare n1) = RVar k -> resolve locals st rns (Bare n2) = RVar k -> n1 = n2.
Proof. exact names_distinct. Qed.

(** locals (let* / fn locals of the enclosing form; modelled: the locals of the form being
    compiled) shadow Vars of the same name, and nothing else *)
Theorem C10_locals_shadow : forall locals st rns,
  (forall n, mem_str n locals = true -> resolve locals st rns (Bare n) = RLocal) /\
  (forall n, mem_str n locals = false -> resolve locals st rns (Bare n) = resolve [] st rns (Bare n)) /\
  (forall q n, resolve locals st rns (Qual q n) = resolve [] st rns (Qual q n)).
Proof.
  exact (fun locals st rns =>
    conj (fun n => locals_shadow locals st rns n)
      (conj (fun n => locals_do_not_capture_others locals st rns n)
            (fun q n => locals_do_not_capture_qualified locals st rns q n))).
Qed.

(** a private Var of another namespace is reachable only through a refer entry of the namespace
    the symbol is compiled in (made while the Var was public) ... *)
Theorem C10_private_unreachable : forall cur nss h locals rns spl k,
  let st := sp (after cur nss h) in
  resolve locals st rns spl = RVar k -> is_private st k = true -> fst k <> rns ->
  aget (rns, spelled_name spl) (s_refers st) = Some k.
Proof. exact private_only_via_own_refer. Qed.
(** ... hence not at all when redefinitions keep the :private flag (executable guard) ... *)
Theorem C10_private_unreachable_partial : forall cur nss h locals rns spl k,
  let st := sp (after cur nss h) in
  priv_stable (init cur nss) h = true ->
  resolve locals st rns spl = RVar k -> is_private st k = true -> fst k = rns.
Proof. exact private_unreachable_partial. Qed.
(** ... and without the guard it is reachable (finding F-10c) *)
Theorem C10_private_unreachable_refuted :
  exists cur nss h rns spl k,
    let st := sp (after cur nss h) in
    resolve [] st rns spl = RVar k /\ is_private st k = true /\ fst k <> rns.
Proof. exact private_unreachable_refuted. Qed.

(** ---- reading ---- *)
(** with var indirection (and for ^:dynamic / ^:redef Vars in either mode) a read yields the value
    most recently given to the denoted Var by def or root mutation: ALL histories, no guard *)
Theorem C10_read_indirect : forall cur nss h rns loc spl k,
  let st := after cur nss h in
  resolve (locals_of loc) (sp st) rns spl = RVar k ->
  exists v, last_given cur h k None = Some v /\ read st Indirect (RR rns loc spl) = OVal v.
Proof. exact read_indirect. Qed.
Theorem C10_read_root : forall cur nss h md rns loc spl k,
  let st := after cur nss h in
  resolve (locals_of loc) (sp st) rns spl = RVar k ->
  exists r, aget k (s_vars (sp st)) = Some r /\
            last_given cur h k None = Some (v_root r) /\
            (uses_root md (v_flags r) = true -> read st md (RR rns loc spl) = OVal (v_root r)).
Proof. exact read_root. Qed.

(** in both linking modes, under the guard: *)
Theorem C10_read_after_def_partial : forall cur nss h md rns loc spl k,
  let st := after cur nss h in
  no_collision (minit cur nss) h = true ->
  resolve (locals_of loc) (sp st) rns spl = RVar k ->
  exists r, aget k (s_vars (sp st)) = Some r /\
            last_def cur h k None = Some (v_lastdef r) /\
            last_given cur h k None = Some (v_root r) /\
            (if uses_root md (v_flags r)
             then read st md (RR rns loc spl) = OVal (v_root r)
             else read st md (RR rns loc spl) = OVal (v_lastdef r) \/
                  read st md (RR rns loc spl) = OVal (v_root r)).
Proof. exact read_after_def_partial. Qed.
Theorem C10_read_is_last_def_partial : forall cur nss h md rns loc spl k,
  let st := after cur nss h in
  no_collision (minit cur nss) h = true -> no_alter h = true ->
  resolve (locals_of loc) (sp st) rns spl = RVar k ->
  exists v, last_def cur h k None = Some v /\ read st md (RR rns loc spl) = OVal v.
Proof. exact read_is_last_def_partial. Qed.
(** a program that changes roots only through def behaves identically in both modes *)
Theorem C10_modes_agree_partial : forall cur nss h rq,
  let st := after cur nss h in
  no_collision (minit cur nss) h = true -> no_alter h = true ->
  read st Direct rq = read st Indirect rq.
Proof. exact modes_agree_partial. Qed.
(** the model's reads are accepted by the specification's predicate (what the correspondence
    run evaluates per case) under both guards *)
Theorem C10_model_meets_spec_partial : forall cur nss h md rq,
  let st := after cur nss h in
  no_collision (minit cur nss) h = true -> priv_stable (init cur nss) h = true ->
  read_ok (sp st) md rq (read st md rq) = true.
Proof. exact model_meets_spec_partial. Qed.

(** without the guard (findings F-10a, F-10b): a symbol denotes a Var whose last def -- there
    is no root mutation in the history -- gave v, var indirection reads v, direct linking
    does not *)
Theorem C10_munge_collision_refuted :
  exists cur nss h rns spl k v,
    let st := after cur nss h in
    no_alter h = true /\
    resolve [] (sp st) rns spl = RVar k /\ last_def cur h k None = Some v /\
    read st Indirect (RR rns None spl) = OVal v /\ read st Direct (RR rns None spl) <> OVal v /\
    (exists p q fl1 fl2 v1 v2, h = [SDef p fl1 v1; SDef q fl2 v2] /\ p <> q /\ munge p = munge q).
Proof. exact munge_collision_refuted. Qed.
Theorem C10_munge_collision_pairs :
  def_collision s_a_dash_b s_a_us_b /\ def_collision s_xq s_x_Q /\ def_collision s_plus s_dd_PLUS /\
  def_collision s_print s_print_us /\ def_collision s_class s_class_us.
Proof.
  exact (conj def_collision_a_b (conj def_collision_xq (conj def_collision_plus
          (conj def_collision_print def_collision_class)))).
Qed.
Theorem C10_ns_collision_refuted :
  exists cur nss h rns spl k v,
    let st := after cur nss h in
    no_alter h = true /\
    resolve [] (sp st) rns spl = RVar k /\ last_def cur h k None = Some v /\
    read st Indirect (RR rns None spl) = OVal v /\ read st Direct (RR rns None spl) <> OVal v /\
    (exists m1 m2, m1 <> m2 /\ mem_str m1 nss = true /\ mem_str m2 nss = true /\ var_ns_sym m1 = var_ns_sym m2).
Proof. exact ns_collision_refuted. Qed.
Theorem C10_ns_collision_attribute_error :
  let h := [SInNs X; SDef v plain 1; SInNs U; SRequire X (Some fb); SRequire Y (Some fd)] in
  let st := run (minit U NSS) h in
  resolve [] (sp st) U (Qual fb v) = RVar (X, v) /\
  read st Indirect (RR U None (Qual fb v)) = OVal 1 /\
  read st Direct (RR U None (Qual fb v)) = OErr E_ATTR.
Proof. exact ns_collision_attribute_error. Qed.

(** ---- the guards are met: by a concrete history with three namespaces, aliases, refers, all
         flag kinds and root mutations, and by EVERY history of defs / alter-var-roots of plain
         names in one namespace ---- *)
Example C10_guards_nonvacuous :
  no_collision (minit U [U; X]) h_good = true /\ priv_stable (init U [U; X]) h_good = true.
Proof. exact guards_nonvacuous. Qed.
Example C10_modes_agree_nonvacuous :
  no_collision (minit U [U; X]) h_good_defs_only = true /\ no_alter h_good_defs_only = true.
Proof. exact modes_agree_nonvacuous. Qed.
Theorem C10_guard_holds_for_plain_defs : forall cur h,
  forallb def_only h = true -> forallb (avoids_aliases [cur]) h = true ->
  no_collision (minit cur [cur]) h = true.
Proof. exact plain_defs_guard. Qed.

(** ---- thread bindings of dynamic Vars (one thread) ---- *)
(** entering and leaving bindings never changes a root, a flag, a refer, an alias or a module
    global: the base state after an extended history is the state after its base steps *)
Theorem C10_bindings_do_not_touch_roots : forall cur nss h,
  base (xafter cur nss h) = after cur nss (base_steps h).
Proof. exact base_xafter. Qed.

(** the reference semantics' open frames are the ones read off the history, ALL histories *)
Theorem C10_thread_view_is_innermost : forall cur nss h k,
  thread_view (xsafter cur nss h) k =
  if is_dynamic (xs_base (xsafter cur nss h)) k then option_map fst (innermost cur h k) else None.
Proof. exact thread_view_is_innermost. Qed.

(** ALL histories, both linking modes, every spelling, no guard: a read of a Var inside a
    binding of it -- the Var having kept its dynamic marking since the binding was entered --
    yields the value of the INNERMOST open binding, whatever defs / redefinitions / root
    mutations / bindings of other Vars / namespace steps happened before or since *)
Theorem C10_read_sees_innermost_binding : forall cur nss h md rns loc spl k v,
  let st := xafter cur nss h in
  resolve (locals_of loc) (sp (base st)) rns spl = RVar k ->
  innermost cur h k = Some (v, true) ->
  xread st md (RR rns loc spl) = OVal v.
Proof. exact read_sees_innermost_binding. Qed.
(** (only a Var marked dynamic has such a binding) *)
Theorem C10_innermost_binding_is_of_dynamic_var : forall cur nss h k v,
  innermost cur h k = Some (v, true) -> is_dynamic (sp (base (xafter cur nss h))) k = true.
Proof. exact innermost_is_dynamic. Qed.

(** ALL histories: a Var without an open binding, and every Var not marked dynamic (they ignore
    bindings), reads as in the binding-free theorems above, applied to the defs / root
    mutations of the history: [C10_read_root], [C10_read_after_def_partial], ... *)
Theorem C10_read_without_binding : forall cur nss h md rq k,
  let st := xafter cur nss h in
  (let '(RR rns loc spl) := rq in resolve (locals_of loc) (sp (base st)) rns spl = RVar k) ->
  innermost cur h k = None \/ is_dynamic (sp (base st)) k = false ->
  xread st md rq = read (after cur nss (base_steps h)) md rq.
Proof. exact read_without_binding. Qed.

(** ALL histories [h] before and [s] after: entering a binding of a dynamic Var, running any
    defs / redefinitions (with or without ^:dynamic) / root mutations / namespace steps [t]
    and leaving it, every later read is what it would be had the binding never been entered,
    root changes made by [t] included.  Nested and enclosing bindings: [h] and [s] are
    arbitrary, remove the innermost pair first. *)
Theorem C10_binding_balanced : forall cur nss h m n v t s md rq,
  is_dynamic (sp (base (xafter cur nss h))) (m, n) = true ->
  forallb is_base t = true ->
  xread (xafter cur nss (h ++ BPush m n v :: t ++ BPop :: s)) md rq
  = xread (xafter cur nss (h ++ t ++ s)) md rq.
Proof. exact binding_balanced. Qed.
(** the whole state is restored: same base state, same frame stack, same store for every Var *)
Theorem C10_binding_balanced_state : forall cur nss h m n v t,
  is_dynamic (sp (base (xafter cur nss h))) (m, n) = true ->
  forallb is_base t = true ->
  let a := xafter cur nss (h ++ BPush m n v :: t ++ [BPop]) in
  let b := xafter cur nss (h ++ t) in
  base a = base b /\ mframes (bs a) = mframes (bs b) /\ forall k, stack_of (bs a) k = stack_of (bs b) k.
Proof. exact binding_balanced_state. Qed.

(** under the guards the model of the code meets the reference semantics: every read is
    accepted by [bread_ok] (innermost open frame of a dynamic Var, else [read_ok]), and every
    step -- entering and leaving bindings included -- succeeds in the one iff in the other *)
Theorem C10_model_meets_spec_bind_partial : forall cur nss h md rq,
  no_collision (minit cur nss) (base_steps h) = true ->
  priv_stable (init cur nss) (base_steps h) = true ->
  dyn_stable (xsinit cur nss) h = true ->
  bread_ok (xsafter cur nss h) md rq (xread (xafter cur nss h) md rq) = true.
Proof. exact model_meets_spec_bind_partial. Qed.
Theorem C10_steps_agree_partial : forall cur nss h s,
  dyn_stable (xsinit cur nss) h = true ->
  snd (xexec (xafter cur nss h) s) = snd (xsexec (xsafter cur nss h) s).
Proof. exact steps_agree_partial. Qed.

(** without [dyn_stable] (finding F-10e): once a def has changed the dynamic marking of a bound
    Var, its open bindings are not seen any more -- ALL histories -- ... *)
Theorem C10_read_after_marking_change : forall cur nss h md rq k v,
  let st := xafter cur nss h in
  (let '(RR rns loc spl) := rq in resolve (locals_of loc) (sp (base st)) rns spl = RVar k) ->
  innermost cur h k = Some (v, false) ->
  xread st md rq = read (after cur nss (base_steps h)) md rq.
Proof. exact read_after_marking_change. Qed.
(** ... although the Var may be dynamic again and still inside its binding form: the read
    yields the root, and leaving the form raises.  The other two guards hold. *)
Theorem C10_binding_survives_marking_change_refuted :
  exists cur nss h md rns spl k v,
    let st := xafter cur nss h in
    let xs := xsafter cur nss h in
    resolve [] (sp (base st)) rns spl = RVar k /\ is_dynamic (sp (base st)) k = true /\
    thread_view xs k = Some v /\
    xread st md (RR rns None spl) <> OVal v /\
    bread_ok xs md (RR rns None spl) (xread st md (RR rns None spl)) = false /\
    snd (xexec st BPop) <> snd (xsexec xs BPop) /\
    no_collision (minit cur nss) (base_steps h) = true /\ priv_stable (init cur nss) (base_steps h) = true.
Proof. exact binding_survives_marking_change_refuted. Qed.

(** the guards and premises are met: nested bindings of two Vars, redefinition and root mutation
    inside, reads from two namespaces; then the forms are left one by one *)
Example C10_bind_guards_nonvacuous :
  no_collision (minit U [U; X]) (base_steps h_out) = true /\
  priv_stable (init U [U; X]) (base_steps h_out) = true /\
  dyn_stable (xsinit U [U; X]) h_out = true.
Proof. exact bind_guards_nonvacuous. Qed.
Example C10_bind_reads_inside :
  let st := xafter U [U; X] h_in in
  innermost U h_in (U, dv) = Some (6, true) /\ innermost U h_in (U, dw) = Some (70, true) /\
  innermost U h_in (U, Refuted.v) = None /\
  last_given U (base_steps h_in) (U, dv) None = Some 4 /\
  xread st Direct (RR U None (Bare dv)) = OVal 6 /\ xread st Indirect (RR U None (Bare dv)) = OVal 6 /\
  xread st Direct (RR X None (Qual U dv)) = OVal 6 /\
  xread st Direct (RR U None (Bare dw)) = OVal 70 /\
  xread st Direct (RR U None (Bare Refuted.v)) = OVal 8 /\
  xread st Direct (RR U (Some (dv, 77)) (Bare dv)) = OVal 77.
Proof. exact bind_reads_inside. Qed.
Example C10_bind_reads_after :
  let st1 := xafter U [U; X] (h_in ++ [BPop]) in
  let st2 := xafter U [U; X] (h_in ++ [BPop; BPop]) in
  let st := xafter U [U; X] h_out in
  xread st1 Direct (RR U None (Bare dv)) = OVal 5 /\
  xread st2 Direct (RR U None (Bare dw)) = OVal 7 /\
  innermost U h_out (U, dv) = None /\
  xread st Direct (RR X None (Qual uu dv)) = OVal 9 /\
  xread st Indirect (RR X None (Qual U dv)) = OVal 9 /\
  snd (xexec st BPop) = false.
Proof. exact bind_reads_after. Qed.

Print Assumptions C10_table_values_shape.
Print Assumptions C10_table_keys_distinct.
Print Assumptions C10_table_values_distinct.
Print Assumptions C10_table_keys_ok.
Print Assumptions C10_table_reserved_ok.
Print Assumptions C10_munge_simple_names.
Print Assumptions C10_translate_injective.
Print Assumptions C10_munge_injective_on_plain_names.
Print Assumptions C10_munge_not_injective.
Print Assumptions C10_spellings_agree.
Print Assumptions C10_names_distinct.
Print Assumptions C10_locals_shadow.
Print Assumptions C10_private_unreachable.
Print Assumptions C10_private_unreachable_partial.
Print Assumptions C10_private_unreachable_refuted.
Print Assumptions C10_read_indirect.
Print Assumptions C10_read_root.
Print Assumptions C10_read_after_def_partial.
Print Assumptions C10_read_is_last_def_partial.
Print Assumptions C10_modes_agree_partial.
Print Assumptions C10_model_meets_spec_partial.
Print Assumptions C10_munge_collision_refuted.
Print Assumptions C10_munge_collision_pairs.
Print Assumptions C10_ns_collision_refuted.
Print Assumptions C10_ns_collision_attribute_error.
Print Assumptions C10_guards_nonvacuous.
Print Assumptions C10_modes_agree_nonvacuous.
Print Assumptions C10_guard_holds_for_plain_defs.
Print Assumptions C10_bindings_do_not_touch_roots.
Print Assumptions C10_thread_view_is_innermost.
Print Assumptions C10_read_sees_innermost_binding.
Print Assumptions C10_innermost_binding_is_of_dynamic_var.
Print Assumptions C10_read_without_binding.
Print Assumptions C10_binding_balanced.
Print Assumptions C10_binding_balanced_state.
Print Assumptions C10_model_meets_spec_bind_partial.
Print Assumptions C10_steps_agree_partial.
Print Assumptions C10_read_after_marking_change.
Print Assumptions C10_binding_survives_marking_change_refuted.
Print Assumptions C10_bind_guards_nonvacuous.
Print Assumptions C10_bind_reads_inside.
Print Assumptions C10_bind_reads_after.
