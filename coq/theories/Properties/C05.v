(** C05 -- placeholder while the proofs are being built. *)
From Verif Require Import C05.Model.
Example C05_placeholder : py_eq VNil VNil = true.
Proof. reflexivity. Qed.
Print Assumptions C05_placeholder.
