(** C05 -- equality is an equivalence that hashing and lookup respect.
    This file contains only statements, each closed by [exact], and Print Assumptions.

    [equals] is runtime.equals, i.e. core [=] on two arguments; [py_eq] is Python's [==] as
    the repo's [__eq__] methods instantiate it; [hash_of] the symbolic hash; [lookup] /
    [contains] the find-by-hash-then-== of immutables.Map; [wf] = the value can be built
    (map keys / set members pairwise distinct for the map itself). *)
From Coq Require Import List Bool ZArith QArith NArith.
Import ListNotations.
From Verif Require Import Common.ListX Gen.Tables C05.Model C05.Spec C05.Unfold C05.Lemmas C05.TableSpec
  C05.Proofs C05.Refuted.

(** Obligations on the definitions regenerated from the source *)
Theorem C05_table_eq_hash_classes : c05_eq_hash_classes = expected_eq_hash_classes.
Proof. exact TableSpec.eq_hash_classes_ok. Qed.
Theorem C05_table_hash_families : forallb (N.eqb 1) hash_families = true.
Proof. exact TableSpec.hash_families_ok. Qed.
Theorem C05_table_eq_shapes : forallb (N.eqb 1) eq_shapes = true.
Proof. exact TableSpec.eq_shapes_ok. Qed.

(** [=] is an equivalence, reflexive except for NaN *)
Theorem C05_sym : forall x y, wf x = true -> wf y = true -> equals x y = equals y x.
Proof. exact Proofs.equals_sym. Qed.
Theorem C05_trans : forall x y z, wf x = true -> wf y = true -> wf z = true ->
  equals x y = true -> equals y z = true -> equals x z = true.
Proof. exact Proofs.equals_trans. Qed.
Theorem C05_refl_except_nan : forall x, wf x = true -> has_nan x = false -> equals x x = true.
Proof. exact Proofs.equals_refl. Qed.
Theorem C05_nan_never_equal : forall k y, equals (VNum k NaN) y = false /\ equals y (VNum k NaN) = false.
Proof. exact Proofs.nan_never_equal. Qed.
(** [a == b] evaluated as a.__eq__(b)-first or as b.__eq__(a)-first gives the same answer *)
Theorem C05_operand_order_irrelevant : forall x y sw, wf x = true -> wf y = true -> eqd sw x y = py_eq x y.
Proof. exact Proofs.eqd_flag. Qed.

(** sequential collections of any two kinds: equal iff pairwise [==] in order *)
Theorem C05_seq_eq_iff_pointwise : forall k la k' lb, wf (VSeq k la) = true -> wf (VSeq k' lb) = true ->
  (equals (VSeq k la) (VSeq k' lb) = true <-> Forall2 (fun x y => py_eq x y = true) la lb).
Proof. exact Proofs.seq_eq_iff. Qed.
(** ... with the elements compared by [=] itself: refuted by [1] / (true), holds when no element is a boolean *)
Theorem C05_seq_eq_iff_pointwise_refuted :
  exists la lb, equals (VSeq KVec la) (VSeq KList lb) = true /\ ~ Forall2 (fun x y => equals x y = true) la lb.
Proof. exact Refuted.seq_eq_iff_pointwise_refuted. Qed.
Theorem C05_seq_eq_iff_pointwise_partial : forall k la k' lb,
  wf (VSeq k la) = true -> wf (VSeq k' lb) = true ->
  no_bool_elems la = true -> no_bool_elems lb = true ->
  (equals (VSeq k la) (VSeq k' lb) = true <-> Forall2 (fun x y => equals x y = true) la lb).
Proof. exact Refuted.seq_eq_iff_pointwise_partial. Qed.

(** maps and sets: equal iff same size and every entry / member has an [==] one *)
Theorem C05_map_eq_iff_entries : forall la lb, wf (VMap la) = true -> wf (VMap lb) = true ->
  (equals (VMap la) (VMap lb) = true <->
   length la = length lb /\
   forall ka va, In (ka, va) la -> exists kb vb, In (kb, vb) lb /\ py_eq ka kb = true /\ py_eq va vb = true).
Proof. exact Proofs.map_eq_iff_entries. Qed.
Theorem C05_set_eq_iff_members : forall la lb, wf (VSet la) = true -> wf (VSet lb) = true ->
  (equals (VSet la) (VSet lb) = true <->
   length la = length lb /\ forall x, In x la -> exists y, In y lb /\ py_eq x y = true).
Proof. exact Proofs.set_eq_iff_members. Qed.
Theorem C05_map_eq_iff_entries_refuted :
  exists la lb, equals (VMap la) (VMap lb) = true /\
    ~ (forall ka va, In (ka, va) la -> exists kb vb, In (kb, vb) lb /\ equals ka kb = true /\ equals va vb = true).
Proof. exact Refuted.map_eq_iff_entries_refuted. Qed.
Theorem C05_map_eq_iff_entries_partial : forall la lb,
  wf (VMap la) = true -> wf (VMap lb) = true ->
  no_bool_elems (elems la) = true -> no_bool_elems (elems lb) = true ->
  (equals (VMap la) (VMap lb) = true <->
   length la = length lb /\
   forall ka va, In (ka, va) la -> exists kb vb, In (kb, vb) lb /\ equals ka kb = true /\ equals va vb = true).
Proof. exact Refuted.map_eq_iff_entries_partial. Qed.

(** equal values hash alike, and either finds the other *)
Theorem C05_eq_hash : forall x y, wf x = true -> wf y = true -> equals x y = true -> hash_of x = hash_of y.
Proof. exact Proofs.equals_hash. Qed.
Theorem C05_seq_hash_kind_independent : forall k k' l, hash_of (VSeq k l) = hash_of (VSeq k' l).
Proof. exact Proofs.seq_hash_kind_independent. Qed.
Theorem C05_lookup_interchangeable : forall m x y,
  (forall k v, In (k, v) m -> wf k = true) -> wf x = true -> wf y = true ->
  equals x y = true -> lookup m x = lookup m y.
Proof. exact Proofs.lookup_interchangeable. Qed.
Theorem C05_contains_interchangeable : forall s x y,
  (forall k, In k s -> wf k = true) -> wf x = true -> wf y = true ->
  equals x y = true -> contains s x = contains s y.
Proof. exact Proofs.contains_interchangeable. Qed.
(** a key is found exactly by the probes that are [=] to it -- unless one of them is a boolean *)
Theorem C05_lookup_finds_partial : forall k v x,
  wf k = true -> wf x = true -> is_bool k = false -> is_bool x = false ->
  (lookup [(k, v)] x = Some v <-> equals x k = true).
Proof. exact Proofs.lookup_finds. Qed.
Theorem C05_lookup_bool_refuted :
  exists k x v, equals x k = false /\ lookup [(k, v)] x = Some v /\ contains [k] x = true.
Proof. exact Refuted.lookup_bool_refuted. Qed.

(** booleans and nil *)
Theorem C05_bool_not_number : forall b k n,
  equals (VBool b) (VNum k n) = false /\ equals (VNum k n) (VBool b) = false.
Proof. exact Proofs.bool_not_number. Qed.
Theorem C05_bool_only_itself : forall b y, equals (VBool b) y = true <-> y = VBool b.
Proof. exact Proofs.bool_only_itself. Qed.
Theorem C05_nil_only_itself : forall y, equals VNil y = true <-> y = VNil.
Proof. exact Proofs.nil_only_itself. Qed.
(** ... but not as elements of collections (F-05b): vectors, map values, set members *)
Theorem C05_nested_bool_refuted :
  exists x y, wf x = true /\ wf y = true /\ equals x y = true /\ ref_eq x y = false.
Proof. exact Refuted.nested_bool_refuted. Qed.
Theorem C05_nested_bool_map_refuted :
  exists x y, wf x = true /\ wf y = true /\ equals x y = true /\ ref_eq x y = false.
Proof. exact Refuted.nested_bool_map_refuted. Qed.
Theorem C05_nested_bool_set_refuted :
  exists x y, wf x = true /\ wf y = true /\ equals x y = true /\ ref_eq x y = false.
Proof. exact Refuted.nested_bool_set_refuted. Qed.
(** the model of the code IS the reference equality of Spec.v on values without booleans *)
Theorem C05_agrees_with_reference_partial : forall x y,
  wf x = true -> wf y = true -> has_bool x = false -> has_bool y = false -> equals x y = ref_eq x y.
Proof. exact Refuted.agrees_with_reference_partial. Qed.

(** non-vacuity: a vector, a lazy seq of a float and a decimal, and a queue holding a ratio
    are well-formed, pairwise [=], hash alike and find each other (also nested in maps/sets) *)
Example C05_nonvacuous :
  let v := VSeq KVec [one; two] in
  let l := VSeq KLazy [VNum KFloat (Fin 1); VNum KDec (Fin (4 # 2))] in
  let q := VSeq KQueue [VNum KRatio (Fin (2 # 2)); two] in
  wf v = true /\ wf l = true /\ wf q = true /\
  equals v l = true /\ equals l q = true /\ equals v q = true /\ equals q v = true /\
  hash_of v = hash_of l /\ hash_of l = hash_of q /\
  lookup [(v, kw_a)] q = Some kw_a /\ contains [VMap [(l, VSet [one])]] (VMap [(q, VSet [VNum KFloat (Fin 1)])]) = true.
Proof. exact Refuted.ex_values. Qed.

Print Assumptions C05_table_eq_hash_classes.
Print Assumptions C05_table_hash_families.
Print Assumptions C05_table_eq_shapes.
Print Assumptions C05_sym.
Print Assumptions C05_trans.
Print Assumptions C05_refl_except_nan.
Print Assumptions C05_nan_never_equal.
Print Assumptions C05_operand_order_irrelevant.
Print Assumptions C05_seq_eq_iff_pointwise.
Print Assumptions C05_seq_eq_iff_pointwise_refuted.
Print Assumptions C05_seq_eq_iff_pointwise_partial.
Print Assumptions C05_map_eq_iff_entries.
Print Assumptions C05_set_eq_iff_members.
Print Assumptions C05_map_eq_iff_entries_refuted.
Print Assumptions C05_map_eq_iff_entries_partial.
Print Assumptions C05_eq_hash.
Print Assumptions C05_seq_hash_kind_independent.
Print Assumptions C05_lookup_interchangeable.
Print Assumptions C05_contains_interchangeable.
Print Assumptions C05_lookup_finds_partial.
Print Assumptions C05_lookup_bool_refuted.
Print Assumptions C05_bool_not_number.
Print Assumptions C05_bool_only_itself.
Print Assumptions C05_nil_only_itself.
Print Assumptions C05_nested_bool_refuted.
Print Assumptions C05_nested_bool_map_refuted.
Print Assumptions C05_nested_bool_set_refuted.
Print Assumptions C05_agrees_with_reference_partial.
Print Assumptions C05_nonvacuous.
