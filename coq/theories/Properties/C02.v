(** C02 -- sub-expressions are evaluated left to right, exactly once.
    Only statements, each closed by [exact], and Print Assumptions. *)
From Coq Require Import List ZArith NArith Bool.
Import ListNotations.
From Verif Require Import C01.Lisp C01.Py C01.Gen C01.Sim C01.Top.

(** PARTIAL: for programs without a hoisting hazard the compiled code produces exactly the
    source-order effect trace (every traced sub-expression on the taken path once, none on
    untaken branches). *)
Theorem C02_order_partial : forall e v tr,
  eval (fun _ => None) e = Some (v, tr) -> hazard_free e = true -> exists v', run e = Some (v', tr).
Proof. exact Top.order_preserved. Qed.

(** REFUTED in general: dependencies of a later argument are emitted before the inline
    expression of an earlier argument.  Witness: (vector (t 1) (let* [x (t 2)] x)). *)
Theorem C02_hoist_refuted :
  exists e v tr tr', eval (fun _ => None) e = Some (v, tr) /\ run e = Some (v, tr') /\ tr <> tr'.
Proof. exact Top.hoist_refuted. Qed.

Print Assumptions C02_order_partial.
Print Assumptions C02_hoist_refuted.
