(** C02 -- sub-expressions are evaluated left to right, exactly once.
    Only statements, each closed by [exact], and Print Assumptions. *)
From Coq Require Import List ZArith NArith Bool.
Import ListNotations.
From Verif Require Import C01.Lisp C01.Py C01.Gen C01.Sim C01.Top.
From Verif Require C01.FLisp C01.FCorr C01.FRefuted.
From Verif Require C01L.LLisp C01L.LGen C01L.LTop.
From Verif Require C01X.XLisp C01X.XGen C01X.XTop.
From Verif Require C01C.CLisp C01C.CGen C01C.CTop.

(** PARTIAL: for programs without a hoisting hazard the compiled code produces exactly the
    source-order effect trace (every traced sub-expression on the taken path once, none on
    untaken branches). *)
Theorem C02_order_partial : forall e v tr,
  eval (fun _ => None) e = Some (v, tr) -> hazard_free e = true -> exists v', run e = Some (v', tr).
Proof. exact Top.order_preserved. Qed.

(** REFUTED in general: dependencies of a later argument are emitted before the inline
    expression of an earlier argument.  Witness: (vector (t 1) (let* [x (t 2)] x)). *)
Theorem C02_hoist_refuted :
  exists e v tr tr', eval (fun _ => None) e = Some (v, tr) /\ run e = Some (v, tr') /\ tr <> tr'.
Proof. exact Top.hoist_refuted. Qed.

(** with loop*/recur: loop initialisers in order, recur arguments left to right, every
    iteration's effects in source order (trace component of C01_compile_correct_loops_partial) *)
Theorem C02_order_loops_partial : forall fuel e v tr,
  LLisp.leval fuel (fun _ => None) e = Some (LLisp.OVal v, tr) -> LGen.hazard_free e = true ->
  exists m, forall m', (m <= m')%nat -> LGen.lrun m' e = Some (v, tr).
Proof. exact LTop.lcompile_correct. Qed.

(** with throw and try/catch/finally: the effects performed before an exception is raised, by
    the handler and by the finally clause happen in source order, and nothing after the raise
    point runs, also when the exception leaves the program (trace component of
    C01_compile_correct_exceptions_partial) *)
Theorem C02_order_exceptions_partial : forall fuel e o tr,
  XLisp.xeval fuel (fun _ => None) e = Some (o, tr) -> XGen.hazard_free e = true ->
  match o with
  | XLisp.OVal v => exists m, forall m', (m <= m')%nat -> XGen.xrun m' e = Some (XGen.XRVal v tr)
  | XLisp.OExc c _ => exists m, forall m', (m <= m')%nat -> XGen.xrun m' e = Some (XGen.XRExc c tr)
  | XLisp.ORec _ => True
  end.
Proof. exact XTop.xcompile_correct. Qed.
Example C02_effects_around_exceptions :
  XGen.hazard_free XTop.caught = true /\
  XLisp.xeval 30 (fun _ => None) XTop.caught = Some (XLisp.OVal (VExc 1 (VInt 7)), [VInt 1; VInt 3; VInt 4]) /\
  XGen.xrun 30 XTop.caught = Some (XGen.XRVal (VExc 1 (VInt 7)) [VInt 1; VInt 3; VInt 4]).
Proof. exact XTop.caught_ok. Qed.

(** with fn* closures and invocation: the function position and the arguments of a call are
    evaluated left to right before the call, the effects of a function body happen at each call
    (not at definition), in source order (trace component of C01_compile_correct_closures_partial) *)
Theorem C02_order_closures_partial : forall fuel e v tr,
  CLisp.ceval fuel [] e = Some (v, tr) -> CGen.hazard_free e = true ->
  exists m, forall m', (m <= m')%nat -> CGen.crun m' e = Some (CLisp.obs_of v, tr).
Proof. exact CTop.ccompile_correct. Qed.
Example C02_effects_of_calls :
  CGen.hazard_free CTop.adder = true /\
  CGen.ceval_obs 30 CTop.adder =
    Some (FLisp.OVec [FLisp.OVec [FLisp.OInt 1; FLisp.OInt 2; FLisp.OInt 5]; FLisp.OVec [FLisp.OInt 1; FLisp.OInt 3; FLisp.OInt 5]],
          [FLisp.OInt 5; FLisp.OInt 3; FLisp.OInt 5]) /\
  CGen.crun 30 CTop.adder = CGen.ceval_obs 30 CTop.adder.
Proof. exact CTop.adder_ok. Qed.

(** the same witness as a collection literal of the full fragment *)
Theorem C02_hoist_literal_refuted :
  exists e, FCorr.spec e = FLisp.RVal (FLisp.OVec [FLisp.OInt 1; FLisp.OInt 2]) [FLisp.OInt 1; FLisp.OInt 2]
            /\ FCorr.model e = FLisp.RVal (FLisp.OVec [FLisp.OInt 1; FLisp.OInt 2]) [FLisp.OInt 2; FLisp.OInt 1] /\ FCorr.tag e = 1%N.
Proof. exact FRefuted.hoist_refuted_full. Qed.

(** a tail recur inside try/finally: the loop locals are rebound before the finally runs *)
Theorem C02_recur_in_try_refuted :
  exists e, FCorr.spec e = FLisp.RVal (FLisp.OInt 2) [FLisp.OInt 0; FLisp.OInt 1; FLisp.OInt 2]
            /\ FCorr.model e = FLisp.RVal (FLisp.OInt 2) [FLisp.OInt 1; FLisp.OInt 2; FLisp.OInt 2] /\ FCorr.tag e = 16%N.
Proof. exact FRefuted.recur_in_try_refuted. Qed.

Print Assumptions C02_order_partial.
Print Assumptions C02_order_loops_partial.
Print Assumptions C02_recur_in_try_refuted.
Print Assumptions C02_hoist_literal_refuted.
Print Assumptions C02_hoist_refuted.
Print Assumptions C02_order_exceptions_partial.
Print Assumptions C02_effects_around_exceptions.
Print Assumptions C02_order_closures_partial.
Print Assumptions C02_effects_of_calls.
