(** C14 -- Cached namespace bytecode is transparent and never used when invalid.
    Only statements, each closed by [exact], and Print Assumptions.

    [code] is the list of code objects of a namespace, [dumps]/[loads] are marshal, [src]
    the content of a source file, [compile] reader+compiler, [run c] what executing [c]
    raises (None: completes).  What the theorems need from marshal is stated as premises:
      H_marshal_roundtrip     loads (dumps c) = Ok c
      H_marshal_prefix_fails  a proper prefix of a dump raises EOFError
    (both are exercised on every prefix of real cache files by the correspondence run). *)
From Coq Require Import List Bool ZArith NArith.
Import ListNotations.
From Verif Require Import Common.ListX Gen.Tables C14.Cache C14.Spec C14.Corr C14.Proofs C14.KwProofs
  C14.NonVacuous C14.Reload C14.ReloadProofs C14.ReloadEx.

(** * Obligations on what is regenerated from importer.py on every check *)
Theorem C14_table_magic : length importer_magic = 4%nat /\ forallb (fun b => N.ltb b 256) importer_magic = true.
Proof. exact (conj Proofs.magic_len Proofs.magic_bytes). Qed.
(** the if/elif chain of _get_basilisp_bytecode, in source order with its exception classes,
    is the check list the model runs ... *)
Theorem C14_table_header_checks : importer_header_checks = encode_checks model_checks.
Proof. exact Proofs.table_checks. Qed.
(** ... and the model function is the interpreter of that list *)
Theorem C14_get_follows_table : forall code (loads : bytes -> res code) m s d,
  get_basilisp_bytecode code loads m s d =
    match run_checks model_checks m s d with Some e => Raise e | None => loads (skipn 12 d) end.
Proof. exact Proofs.get_is_run_checks. Qed.
Theorem C14_table_layout :
  importer_slices = [(0, 4); (4, 8); (8, 12); (12, 0)]%N
  /\ importer_write_layout = [1; 2; 3; 4]%N
  /\ importer_long_codec = [4294967295; 4; 1; 1]%N.
Proof. exact Proofs.table_layout. Qed.
(** every class the cache-reading stage raises on an unusable file is in the except tuple *)
Theorem C14_table_caught_covers : forallb caught [EOFError; ImportError; OSError] = true.
Proof. exact Proofs.table_caught_covers. Qed.
(** the cached code is executed outside the try whose handler falls back to the source *)
Theorem C14_table_exec_outside_try : importer_exec_in_try = false.
Proof. exact Proofs.table_exec_outside_try. Qed.

(** * The codec *)
Theorem C14_w_long_r_long : forall x,
  length (w_long x) = 4%nat /\ Z.of_N (r_long (w_long x)) = (x mod 4294967296)%Z.
Proof. exact (fun x => conj (Proofs.w_long_length x) (Proofs.r_w_long x)). Qed.
(** the writer's field encoding is the specification's reference encoding *)
Theorem C14_w_long_is_reference : forall x, in_range x = true -> w_long x = le32 (Z.to_N x).
Proof. exact Proofs.w_long_le32. Qed.

(** reading back what _basilisp_bytecode wrote, against the same stats: the payload -- for
    all stats; outside 32 bits the file is never accepted (always recompiled) *)
Theorem C14_roundtrip : forall code dumps (loads : bytes -> res code),
  (forall c, loads (dumps c) = Ok c) ->
  forall m s c,
  get_basilisp_bytecode code loads m s (basilisp_bytecode code dumps m s c) =
    if in_range m && in_range s then Ok c else Raise ImportError.
Proof. exact Proofs.roundtrip. Qed.

Theorem C14_bad_magic_rejected : forall code (loads : bytes -> res code) m s d,
  firstn 4 d <> importer_magic -> get_basilisp_bytecode code loads m s d = Raise ImportError.
Proof. exact Proofs.bad_magic_rejected. Qed.

(** stale: written for other stats.  Guard: the stats written are representable in 32 bits *)
Theorem C14_stale_rejected_partial : forall code dumps (loads : bytes -> res code) m s m' s' c,
  in_range m = true -> in_range s = true -> (m, s) <> (m', s') ->
  get_basilisp_bytecode code loads m' s' (basilisp_bytecode code dumps m s c) = Raise ImportError.
Proof. exact Proofs.stale_rejected. Qed.
(** without the guard: a size differing by 2^32 is accepted *)
Theorem C14_stale_wraps_refuted : forall code dumps (loads : bytes -> res code),
  (forall c, loads (dumps c) = Ok c) ->
  exists m s m' s', (m, s) <> (m', s') /\
    forall c, get_basilisp_bytecode code loads m' s' (basilisp_bytecode code dumps m s c) = Ok c.
Proof.
  exact (fun code dumps loads H =>
    ex_intro _ 0%Z (ex_intro _ 4294967301%Z (ex_intro _ 0%Z (ex_intro _ 5%Z
      (conj (fun E : (0%Z, 4294967301%Z) = (0%Z, 5%Z) => ltac:(discriminate E))
            (Proofs.stale_wraps code dumps loads H)))))).
Qed.

(** a file shorter than the header, whatever its bytes *)
Theorem C14_short_file_rejected : forall code (loads : bytes -> res code) m s d,
  (length d < 12)%nat ->
  get_basilisp_bytecode code loads m s d = Raise ImportError
  \/ get_basilisp_bytecode code loads m s d = Raise EOFError.
Proof. exact Proofs.short_rejected. Qed.

(** every proper prefix of a written cache file, read against any stats, raises a class
    that the loader's fallback catches: it is never executed *)
Theorem C14_truncated_never_executes : forall code dumps (loads : bytes -> res code),
  (forall c n, (n < length (dumps c))%nat -> loads (firstn n (dumps c)) = Raise EOFError) ->
  forall m s c m' s' n,
  (n < length (basilisp_bytecode code dumps m s c))%nat ->
  exists e, get_basilisp_bytecode code loads m' s' (firstn n (basilisp_bytecode code dumps m s c)) = Raise e
            /\ caught e = true.
Proof. exact Proofs.truncated_caught. Qed.

(** * The loader *)
(** absent, shorter than the header, other magic, truncated anywhere, or made for other
    stats: reading the cache raises a caught class *)
Theorem C14_unusable_rejected : forall code dumps (loads : bytes -> res code),
  (forall c n, (n < length (dumps c))%nat -> loads (firstn n (dumps c)) = Raise EOFError) ->
  forall src (f : fs src),
  unusable code dumps src f ->
  exists e, get_cached_code code loads src f = Raise e /\ caught e = true.
Proof. exact Proofs.unusable_rejected. Qed.

(** ... and then the namespace is compiled from source and executed once, the valid file
    is written, and the next import takes it from the cache without compiling.  Holds for
    both placements of the execution relative to the try. *)
Theorem C14_fallback_recompiles_and_rewrites : forall code dumps (loads : bytes -> res code),
  (forall c, loads (dumps c) = Ok c) ->
  (forall c n, (n < length (dumps c))%nat -> loads (firstn n (dumps c)) = Raise EOFError) ->
  forall src compile run in_try (f : fs src),
  unusable code dumps src f -> run (compile (f_src f)) = None ->
  let c := compile (f_src f) in
  let r := exec_module_gen code dumps loads src compile run in_try false f in
  r_trace r = [EvRunSource c; EvWriteCache (written code dumps src compile f)]
  /\ r_raised r = None
  /\ r_fs r = set_cache f (Some (written code dumps src compile f))
  /\ (in_range (f_mtime f) = true -> in_range (f_size f) = true ->
      exec_module_gen code dumps loads src compile run in_try false (r_fs r)
      = mkres [EvRunCached c] None (r_fs r)).
Proof. exact Proofs.fallback_recompiles_and_rewrites. Qed.

(** a crash at any byte of the truncate-then-write of any cache file leaves such a state *)
Theorem C14_crashed_write_is_unusable : forall code dumps src (f : fs src) m s c k,
  (k < length (basilisp_bytecode code dumps m s c))%nat ->
  unusable code dumps src (crashed_write f (basilisp_bytecode code dumps m s c) k).
Proof. exact Proofs.crashed_write_unusable. Qed.

(** transparency: whatever the cache (unusable, or a complete file made for any stats, the
    premise [honest] being "mtime and size identify the content"), the import executes the
    code of the current source exactly once and raises what that code raises *)
Theorem C14_transparent : forall code dumps (loads : bytes -> res code),
  (forall c, loads (dumps c) = Ok c) ->
  (forall c n, (n < length (dumps c))%nat -> loads (firstn n (dumps c)) = Raise EOFError) ->
  forall src compile run dwb (f : fs src),
  (unusable code dumps src f \/ exists m s c, f_cache f = Some (basilisp_bytecode code dumps m s c)) ->
  honest code dumps src compile f ->
  let r := exec_module code dumps loads src compile run dwb f in
  executed code (r_trace r) = [compile (f_src f)] /\ r_raised r = run (compile (f_src f)).
Proof. exact Proofs.transparent. Qed.

(** an exception raised by valid cached code is the module's own: nothing runs twice
    (the repaired exec_module; finding F-14b) *)
Theorem C14_exec_error_not_retried : forall code dumps (loads : bytes -> res code) src compile run dwb (f : fs src) c,
  get_cached_code code loads src f = Ok c ->
  let r := exec_module code dumps loads src compile run dwb f in
  r_trace r = [EvRunCached c] /\ r_raised r = run c /\ r_fs r = f.
Proof. exact Proofs.not_retried. Qed.
(** the shape before the repair (execution inside the try) did run the module twice *)
Theorem C14_exec_error_retried_when_in_try : forall code dumps (loads : bytes -> res code) src compile run dwb (f : fs src) c e,
  get_cached_code code loads src f = Ok c -> run c = Some e -> caught e = true ->
  executed code (r_trace (exec_module_gen code dumps loads src compile run true dwb f)) = [c; compile (f_src f)].
Proof. exact Proofs.retried_when_in_try. Qed.

(** * One process, several loads: import, edit, reload, damage, invalidate_caches *)
(** Whatever the bytes of the cache file: the decoder returns code only when the file starts
    with the magic number and two complete fields holding exactly the stats it was asked
    about -- which exec_module takes from path_stats(filename) at every execution *)
Theorem C14_decoder_accepts_only_matching_header : forall code (loads : bytes -> res code) m s d c,
  get_basilisp_bytecode code loads m s d = Ok c -> header_matches importer_magic m s d.
Proof. exact ReloadProofs.get_ok_header. Qed.

(** For ALL histories of one process over one namespace file (Reload.v: first import =
    find_spec, create_module, exec_module; reload = find_spec, exec_module with the spec the
    importer cached at the first import; import of a loaded module = nothing;
    invalidate_caches; sys.dont_write_bytecode switched on or off; edits of the source;
    changes of the cache file), started in a fresh process, in which mtime and size identify the content ([honest_history]: some assignment
    [reg] of code to 32-bit stats agrees with every source state, and every cache file put in
    place is absent, shorter than a header, of another magic, a proper prefix of a written
    file, or a complete file for registered content):
    every import or reload that executes anything
      - executes the code of the source as it is AT THAT MOMENT, exactly once, raises what it
        raises, and that code is what the namespace's Vars are left defined by;
      - takes it from the cache only if the cache file's header carries the magic number and
        the CURRENT mtime and size of the source;
      - does take it from the cache when the file is the one written for the current source;
      - (bytecode writing on at that moment, no exception) leaves behind exactly the cache file
        of the current source and stats; otherwise leaves the file system alone;
      - never touches the source. *)
Theorem C14_reload_sees_current_source : forall code dumps (loads : bytes -> res code),
  (forall c, loads (dumps c) = Ok c) ->
  (forall c n, (n < length (dumps c))%nat -> loads (firstn n (dumps c)) = Raise EOFError) ->
  forall src compile run (reg : Z -> Z -> code) (f0 : fs src) (steps : list (step src)),
  honest_history code dumps src compile reg f0 steps ->
  forall f r f' p',
  In (f, OLoad r, (f', p'))
     (run_hist code dumps loads src compile run false (f0, fresh) steps) ->
  let c := compile (f_src f) in
  executed code (r_trace r) = [c] /\ r_raised r = run c /\ p_vars p' = Some c
  /\ (forall c', In (EvRunCached c') (r_trace r) ->
        exists d, f_cache f = Some d /\ header_matches importer_magic (f_mtime f) (f_size f) d)
  /\ (f_cache f = Some (written code dumps src compile f) ->
      in_range (f_mtime f) = true -> in_range (f_size f) = true -> r_trace r = [EvRunCached c])
  /\ (r_raised r = None -> p_dwb p' = false -> f_cache f' = Some (written code dumps src compile f))
  /\ (r_raised r <> None \/ p_dwb p' = true -> f' = f)
  /\ f_src f' = f_src f /\ f_mtime f' = f_mtime f /\ f_size f' = f_size f.
Proof. exact ReloadProofs.reload_sees_current_source. Qed.

(** the kinds of damage the histories of the correspondence apply keep a cache file within
    the premise: cutting a benign file at any length, any other four bytes in front of
    anything, a crash at any byte of a write *)
Theorem C14_damage_stays_benign : forall code dumps (reg : Z -> Z -> code),
  (forall d n, benign code dumps reg (Some d) -> benign code dumps reg (Some (firstn n d)))
  /\ (forall b rest, length b = 4%nat -> b <> importer_magic -> benign code dumps reg (Some (b ++ rest)))
  /\ (forall src (f : fs src) m s c k, (k < length (basilisp_bytecode code dumps m s c))%nat ->
       benign code dumps reg (f_cache (crashed_write f (basilisp_bytecode code dumps m s c) k))).
Proof.
  exact (fun code dumps reg =>
    conj (ReloadProofs.benign_truncate code dumps reg)
      (conj (ReloadProofs.benign_other_magic code dumps reg)
            (fun src => ReloadProofs.benign_crashed_write code dumps src reg))).
Qed.

(** The other shape of the loader -- find_spec stats the source once and keeps the result in
    the spec's loader_state, exec_module reads it from there -- fails the property: in an
    honest history (import; edit with a later mtime; reload) the reload finds version 2 of
    the source, validates the cache against the stats of the first import, executes the code
    of version 1, leaves version 1's Vars and version 1's cache file in place *)
Theorem C14_reload_stale_when_stats_in_spec :
  honest_history tcode (t_dumps TL) N i_compile ex_reg ex_f0 ex_steps
  /\ exists f r f' p',
       In (f, OLoad r, (f', p'))
          (run_hist tcode (t_dumps TL) (t_loads TL) N i_compile (fun _ => None) true (ex_f0, fresh) ex_steps)
       /\ f_src f = 2%N
       /\ executed tcode (r_trace r) = [i_compile 1%N]
       /\ p_vars p' = Some (i_compile 1%N)
       /\ f_cache f' = Some (golden 1700000000 100).
Proof. exact ReloadEx.reload_stale_when_stats_in_spec. Qed.

(** * Keywords of cached code in a process with other string hashes *)
(** Whatever hashes the literals of a history carry: every request yields an object with
    the requested name and the running process's hash of it -- so [=], [hash], map and set
    lookup do not depend on the seed of the process that wrote the cache.  Guard
    (executable): no two requests use one table key for different names, i.e. no collision
    among the 64-bit hashes involved. *)
Theorem C14_kw_semantics_seed_independent : forall (hash_kw : kwname -> Z) ops,
  keys_consistentb hash_kw ops = true ->
  Forall2 (fun o k => k_name k = kwop_name o /\ k_hash k = hash_kw (kwop_name o))
          ops (fst (run_ops hash_kw [] ops)).
Proof. exact KwProofs.kw_semantics. Qed.
(** two requests yield the same object exactly when they present the same table key *)
Theorem C14_kw_identity_iff_same_key : forall (hash_kw : kwname -> Z) ops i j oi oj ki kj,
  nth_error ops i = Some oi -> nth_error ops j = Some oj ->
  nth_error (fst (run_ops hash_kw [] ops)) i = Some ki ->
  nth_error (fst (run_ops hash_kw [] ops)) j = Some kj ->
  (kw_identical ki kj = true <-> kwop_key hash_kw oi = kwop_key hash_kw oj).
Proof. exact KwProofs.kw_identity_iff. Qed.
(** hence a literal [:n] compiled with hash [h] is [identical?] to [(keyword "n")] iff
    [h] is the running process's hash -- while staying [=] to it, with the same hash *)
Theorem C14_kw_literal_vs_constructed : forall (hash_kw : kwname -> Z) h n a b,
  fst (run_ops hash_kw [] [KLit h n; KNew n]) = [a; b] ->
  (kw_identical a b = true <-> h = hash_kw n)
  /\ kw_eq a b = true /\ k_hash a = k_hash b /\ k_name a = n /\ k_hash a = hash_kw n.
Proof. exact KwProofs.literal_vs_constructed. Qed.
(** F-14: with the real hashes of ("kw", None) under PYTHONHASHSEED 1 (writer) and 2
    (reader) the two are different objects *)
Theorem C14_kw_identity_refuted :
  exists (hash_kw : kwname -> Z) (h : Z) (n : kwname) (a b : kwobj),
    fst (run_ops hash_kw [] [KLit h n; KNew n]) = [a; b]
    /\ kw_identical a b = false /\ kw_eq a b = true /\ k_hash a = k_hash b.
Proof. exact KwProofs.identity_refuted. Qed.

(** * Non-vacuity *)
Example C14_hypotheses_satisfiable :
  (forall c, t_loads TL (t_dumps TL c) = Ok c)
  /\ (forall c n, (n < length (t_dumps TL c))%nat -> t_loads TL (firstn n (t_dumps TL c)) = Raise EOFError).
Proof. exact NonVacuous.hypotheses_satisfiable. Qed.
Example C14_unusable_nonvacuous : unusable tcode (t_dumps TL) N ex_fs.
Proof. exact NonVacuous.ex_unusable. Qed.
Example C14_fallback_nonvacuous :
  let r := i_exec (fun _ => None) false ex_fs in
  r_trace r = [EvRunSource 1%N; EvWriteCache (golden 1700000000 321)]
  /\ r_raised r = None
  /\ r_trace (i_exec (fun _ => None) false (r_fs r)) = [EvRunCached 1%N].
Proof. exact NonVacuous.ex_fallback. Qed.
Example C14_kw_guard_nonvacuous :
  keys_consistentb (toy_hash 0)
    [KLit (toy_hash 1 (kwn 7)) (kwn 7); KNew (kwn 7); KLit (toy_hash 2 (kwn 7)) (kwn 7);
     KLit (toy_hash 0 (kwn 8)) (kwn 8); KNew (kwn 8)] = true.
Proof. exact NonVacuous.ex_keys_consistent. Qed.

(** a history with an edit, a damaged cache and invalidate_caches meets the premise of
    [C14_reload_sees_current_source]; per load: current version, code executed, from the
    cache?, version the Vars show *)
Example C14_reload_nonvacuous :
  honest_history tcode (t_dumps TL) N i_compile ex_reg ex_f0 ex_steps
  /\ summary (ex_run false)
     = [(1, [1], false, Some 1); (2, [2], false, Some 2); (2, [2], false, Some 2); (2, [2], true, Some 2)]%N
  /\ f_cache (fst (snd (last (ex_run false) (ex_f0, ONothing, (ex_f0, fresh))))) = Some ex_file2.
Proof. exact ReloadEx.ex_reload. Qed.

Print Assumptions C14_table_magic.
Print Assumptions C14_table_header_checks.
Print Assumptions C14_get_follows_table.
Print Assumptions C14_table_layout.
Print Assumptions C14_table_caught_covers.
Print Assumptions C14_table_exec_outside_try.
Print Assumptions C14_w_long_r_long.
Print Assumptions C14_w_long_is_reference.
Print Assumptions C14_roundtrip.
Print Assumptions C14_bad_magic_rejected.
Print Assumptions C14_stale_rejected_partial.
Print Assumptions C14_stale_wraps_refuted.
Print Assumptions C14_short_file_rejected.
Print Assumptions C14_truncated_never_executes.
Print Assumptions C14_unusable_rejected.
Print Assumptions C14_fallback_recompiles_and_rewrites.
Print Assumptions C14_crashed_write_is_unusable.
Print Assumptions C14_transparent.
Print Assumptions C14_exec_error_not_retried.
Print Assumptions C14_exec_error_retried_when_in_try.
Print Assumptions C14_decoder_accepts_only_matching_header.
Print Assumptions C14_reload_sees_current_source.
Print Assumptions C14_damage_stays_benign.
Print Assumptions C14_reload_stale_when_stats_in_spec.
Print Assumptions C14_kw_semantics_seed_independent.
Print Assumptions C14_kw_identity_iff_same_key.
Print Assumptions C14_kw_literal_vs_constructed.
Print Assumptions C14_kw_identity_refuted.
Print Assumptions C14_hypotheses_satisfiable.
Print Assumptions C14_unusable_nonvacuous.
Print Assumptions C14_fallback_nonvacuous.
Print Assumptions C14_kw_guard_nonvacuous.
Print Assumptions C14_reload_nonvacuous.
