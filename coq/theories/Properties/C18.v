(** C18 -- multimethod dispatch depends only on the current methods, preferences, hierarchy.
    This file contains only statements, each closed by [exact], and Print Assumptions.

    Model of the code: C18/Hierarchy.v (core.lpy hierarchies), C18/MultiFn.v (multifn.py),
    C18/Model.v (one multimethod over a private hierarchy reference, histories).
    Specification: C18/Spec.v.  [supers]/[sub] are Python's class relation (parameters). *)
From Coq Require Import List Bool NArith Relations Permutation.
Import ListNotations.
From Verif Require Import C18.Base C18.Hierarchy C18.HierarchyProofs C18.MultiFn C18.MultiFnProofs
     C18.Spec C18.SpecProofs C18.IsaProofs C18.Model C18.Proofs C18.Corr C18.Concrete.

(** * the hierarchy *)

(** After ANY history of derive/underive (failed ones raise and change nothing) the three maps
    are mutually consistent: :ancestors is the transitive closure of :parents, :descendants
    its converse, and there is no cycle. *)
Theorem C18_hierarchy_closed : forall ops : list hop,
  let h := fold_left hstep ops make_hierarchy in
  (forall x y, In (x, y) (ha h) <-> clos_trans tag (fun a b => In (a, b) (hp h)) x y) /\
  (forall x y, In (x, y) (hd h) <-> In (y, x) (ha h)) /\
  (forall x, ~ In (x, x) (ha h)).
Proof. exact hierarchy_closed_explicit. Qed.

(** underive never fails on such a hierarchy; it removes exactly the one parent pair and the
    transitive entries are recomputed from what is left (whatever order the re-derivation
    takes: [rebuild] is proved for every list). *)
Theorem C18_underive_recomputes : forall h t p,
  closed h ->
  exists h', underive h t p = Some h' /\ closed h' /\
             (forall x y, In (x, y) (hp h') <-> In (x, y) (hp h) /\ (x, y) <> (t, p)).
Proof. exact underive_closed. Qed.

(** derive adds exactly the pair, or refuses (equal tags, wrong kinds, cycle) *)
Theorem C18_derive_adds : forall h t p h',
  closed h -> derive h t p = Some h' ->
  closed h' /\ (forall x y, In (x, y) (hp h') <-> In (x, y) (hp h) \/ (x = t /\ y = p)).
Proof. exact derive_closed. Qed.

(** isa? is the reflexive-transitive closure of (parent pairs + class inheritance) on
    keywords/symbols/classes, and pointwise on vectors of EQUAL length (finding F-18a, F-18c
    repaired). *)
Theorem C18_isa_is_closure : forall (supers : N -> list N) (sub : N -> N -> bool),
  (forall a b, sub a b = true <-> a = b \/ In b (supers a)) ->
  (forall a s s', In s (supers a) -> In s' (supers s) -> In s' (supers a)) ->
  forall h, closed h ->
  forall x y, isa supers sub h x y = true <-> isa_ref supers (hp h) x y.
Proof. exact isa_is_closure. Qed.

Theorem C18_isa_vector_length : forall (supers : N -> list N) (sub : N -> N -> bool),
  (forall a b, sub a b = true <-> a = b \/ In b (supers a)) ->
  (forall a s s', In s (supers a) -> In s' (supers s) -> In s' (supers a)) ->
  forall h, closed h ->
  forall xs ys, isa supers sub h (V xs) (V ys) = true <->
                Forall2 (fun a b => isa supers sub h a b = true) xs ys.
Proof. exact isa_vector_pointwise. Qed.

(** the executable references used by the correspondence check are the declarative ones *)
Theorem C18_isa_ref_decided : forall (supers : N -> list N),
  (forall a s s', In s (supers a) -> In s' (supers s) -> In s' (supers a)) ->
  forall P, wf_pairs P -> forall x y, isa_ref_b supers P x y = true <-> isa_ref supers P x y.
Proof. exact isa_ref_b_spec. Qed.

Theorem C18_tc_decided : forall P x y, tc_dec P x y = true <-> clos_trans tag (fun a b => In (a, b) P) x y.
Proof. exact tc_dec_spec. Qed.

(** the hypotheses on the class relation are met by the harness's classes *)
Example C18_class_env_ok :
  (forall a b, c_sub a b = true <-> a = b \/ In b (c_supers a)) /\
  (forall a s s', In s (c_supers a) -> In s' (c_supers s) -> In s' (c_supers a)).
Proof. exact (conj c_sub_spec c_supers_trans). Qed.

(** * the dispatch cache *)

(** After ANY history (every re-arrangement [sh] of the method table, even a non-permuting
    one) every cache entry is what a from-scratch search under the snapshot hierarchy
    returns, and a call returns what a from-scratch search under the CURRENT tables and
    hierarchy returns. *)
Theorem C18_cache_transparent : forall supers sub sh ops d,
  let w := snd (run supers sub sh (init d) ops) in
  (forall k v, lookup tag tag_eqb k (cache (mf w)) = Some v ->
               fresh tag hier tag_eqb (m_isa supers sub) (cached_h (mf w)) (mf w) k = RMethod v) /\
  (forall k, fst (call tag hier tag_eqb (m_isa supers sub) hier_eqb k w)
             = fresh tag hier tag_eqb (m_isa supers sub) (w_hier w) (mf w) k).
Proof. exact cache_transparent_explicit. Qed.

(** so what a call does never depends on earlier calls *)
Theorem C18_calls_do_not_matter : forall supers sub sh ops d k,
  fst (call tag hier tag_eqb (m_isa supers sub) hier_eqb k (snd (run supers sub sh (init d) ops)))
  = fst (call tag hier tag_eqb (m_isa supers sub) hier_eqb k
           (snd (run supers sub sh (init d) (filter (fun o => negb (is_call o)) ops)))).
Proof. exact calls_do_not_matter. Qed.

(** * the choice *)

(** every step of every history has the same outcome for every iteration order of the method
    table (finding F-18b repaired) *)
Theorem C18_order_independent : forall supers sub sh1 sh2 ops d,
  perm_fn sh1 -> perm_fn sh2 ->
  fst (run supers sub sh1 (init d) ops) = fst (run supers sub sh2 (init d) ops).
Proof. exact order_independent. Qed.

(** the search of _find_and_cache_method IS the reference resolution *)
Theorem C18_search_is_reference : forall (key H : Type) (key_eqb : key -> key -> bool)
    (isa : H -> key -> key -> bool),
  (forall a b, key_eqb a b = true <-> a = b) -> (forall h x, isa h x x = true) ->
  forall h (m : mfn key H) k,
  NoDup (map fst (methods m)) ->
  find key H key_eqb isa h m k = resolve_ref key key_eqb (isa h) (methods m) (prefs m) (dflt m) k.
Proof. exact find_is_resolve_ref. Qed.

(** and the reference resolution meets the prescription, which is deterministic *)
Theorem C18_reference_meets_prescription : forall (key : Type) (key_eqb : key -> key -> bool),
  (forall a b, key_eqb a b = true <-> a = b) ->
  forall isa M Pf d k, NoDup (map fst M) ->
  resolves key isa M Pf d k (resolve_ref key key_eqb isa M Pf d k).
Proof. exact resolve_ref_correct. Qed.

Theorem C18_prescription_deterministic : forall (key : Type) isa (M : list (key * N)) Pf d k r1 r2,
  (forall c m m', In (c, m) M -> In (c, m') M -> m = m') ->
  resolves key isa M Pf d k r1 -> resolves key isa M Pf d k r2 -> r1 = r2.
Proof. exact resolves_functional. Qed.

(** the reference resolution reads the method table and the preferences only as sets: the
    order in which methods were added / preferences declared is immaterial *)
Theorem C18_insertion_order_irrelevant : forall (key : Type) (key_eqb : key -> key -> bool),
  (forall a b, key_eqb a b = true <-> a = b) ->
  forall isa (M1 M2 : list (key * N)) (Pf1 Pf2 : list (key * key)) d,
  (forall e, In e M1 <-> In e M2) -> (forall e, In e Pf1 <-> In e Pf2) ->
  forall k, NoDup (map fst M1) -> NoDup (map fst M2) ->
  resolve_ref key key_eqb isa M1 Pf1 d k = resolve_ref key key_eqb isa M2 Pf2 d k.
Proof. exact resolve_ref_sets. Qed.

(** every step and every call of every history does what the specification's machine does --
    for every iteration order -- provided no call is made with a dispatch value that has a
    method of its own while another matching key dominates it ([s_guard], executable). *)
Theorem C18_choice_partial : forall (supers : N -> list N) (sub : N -> N -> bool),
  (forall a b, sub a b = true <-> a = b \/ In b (supers a)) ->
  forall sh ops d,
  perm_fn sh -> s_guard_run supers (s_init d) ops = true ->
  fst (run supers sub sh (init d) ops) = fst (s_run supers (s_init d) ops).
Proof. exact choice_partial. Qed.

Example C18_choice_guard_nontrivial :
  s_guard_run c_supers (s_init (K 0)) ops_guarded = true
  /\ fst (s_run c_supers (s_init (K 0)) ops_guarded)
     = [SOk; SOk; SOk; SOk; SRes RAmbiguous; SOk; SRes (RMethod 1); SOk; SOk; SRes (RMethod 3);
        SOk; SRes (RMethod 2); SRes RNoMethod]%N.
Proof. exact choice_guard_nontrivial. Qed.

(** without the guard the clause fails (finding F-18d, open): the exact key's method runs
    although a preference for one of its ancestors makes the choice ambiguous *)
Theorem C18_choice_refuted :
  exists ops d, fst (run c_supers c_sub id_shuffle (init d) ops) <> fst (s_run c_supers (s_init d) ops).
Proof. exact choice_refuted. Qed.

(** * the three repaired findings, on the functions of the pinned tree (kept in the model
      files as [find_legacy], [isa_legacy]) *)
Example C18_legacy_single_pass_order_dependent :
  Permutation [(kc, 3); (kb, 2); (ka, 1)]%N [(ka, 1); (kb, 2); (kc, 3)]%N
  /\ find_legacy tag hier tag_eqb (isa c_supers c_sub) h_f18b
       (mk_mfn h_f18b [(kc, 3); (kb, 2); (ka, 1)]%N pf_f18b) kx = RMethod 1
  /\ find_legacy tag hier tag_eqb (isa c_supers c_sub) h_f18b
       (mk_mfn h_f18b [(ka, 1); (kb, 2); (kc, 3)]%N pf_f18b) kx = RAmbiguous
  /\ find tag hier tag_eqb (isa c_supers c_sub) h_f18b
       (mk_mfn h_f18b [(kc, 3); (kb, 2); (ka, 1)]%N pf_f18b) kx = RAmbiguous
  /\ find tag hier tag_eqb (isa c_supers c_sub) h_f18b
       (mk_mfn h_f18b [(ka, 1); (kb, 2); (kc, 3)]%N pf_f18b) kx = RAmbiguous.
Proof. exact legacy_single_pass_order_dependent. Qed.

Example C18_legacy_single_pass_diamond :
  find_legacy tag hier tag_eqb (isa c_supers c_sub) h_diamond
    (mk_mfn h_diamond [(kd, 3); (kb, 1); (kc, 2)]%N []) kx = RMethod 3
  /\ find_legacy tag hier tag_eqb (isa c_supers c_sub) h_diamond
       (mk_mfn h_diamond [(kb, 1); (kc, 2); (kd, 3)]%N []) kx = RAmbiguous
  /\ find tag hier tag_eqb (isa c_supers c_sub) h_diamond
       (mk_mfn h_diamond [(kb, 1); (kc, 2); (kd, 3)]%N []) kx = RMethod 3.
Proof. exact legacy_single_pass_diamond. Qed.

Example C18_legacy_isa_vector_truncates :
  isa_legacy c_supers c_sub make_hierarchy (V [ka]) (V [ka; kb]) = true
  /\ isa_legacy c_supers c_sub make_hierarchy (V []) (V [ka]) = true
  /\ isa c_supers c_sub make_hierarchy (V [ka]) (V [ka; kb]) = false
  /\ isa c_supers c_sub make_hierarchy (V []) (V [ka]) = false.
Proof. exact legacy_isa_vector_truncates. Qed.

Example C18_legacy_class_isa_not_transitive :
  isa_legacy c_supers c_sub h_f18c (C 2) (C 1) = true
  /\ isa_legacy c_supers c_sub h_f18c (C 1) ka = true
  /\ isa_legacy c_supers c_sub h_f18c (C 2) ka = false
  /\ isa c_supers c_sub h_f18c (C 2) ka = true.
Proof. exact legacy_class_isa_not_transitive. Qed.

Print Assumptions C18_hierarchy_closed.
Print Assumptions C18_underive_recomputes.
Print Assumptions C18_derive_adds.
Print Assumptions C18_isa_is_closure.
Print Assumptions C18_isa_vector_length.
Print Assumptions C18_isa_ref_decided.
Print Assumptions C18_tc_decided.
Print Assumptions C18_class_env_ok.
Print Assumptions C18_cache_transparent.
Print Assumptions C18_calls_do_not_matter.
Print Assumptions C18_order_independent.
Print Assumptions C18_search_is_reference.
Print Assumptions C18_reference_meets_prescription.
Print Assumptions C18_prescription_deterministic.
Print Assumptions C18_insertion_order_irrelevant.
Print Assumptions C18_choice_partial.
Print Assumptions C18_choice_guard_nontrivial.
Print Assumptions C18_choice_refuted.
Print Assumptions C18_legacy_single_pass_order_dependent.
Print Assumptions C18_legacy_single_pass_diamond.
Print Assumptions C18_legacy_isa_vector_truncates.
Print Assumptions C18_legacy_class_isa_not_transitive.
