(** C11 -- Dynamic bindings are scoped, thread-local and conveyed to futures.
    Only statements, each closed by [exact], and Print Assumptions.

    [cfg] = which Vars are ^:dynamic, their validators, their roots (any).  A binding map [m]
    is the list of (Var, value) in the order the map's iterator yields them (any order).
    [tstate] = one thread's Var stacks + frame stack; [inv] holds of the state of a new
    thread and is preserved by every step.  Shape 1 of push_thread_bindings is the repaired
    code; the table obligations tie the shapes to runtime.py / core.lpy as they are now. *)
From Coq Require Import List Bool ZArith NArith Permutation.
Import ListNotations.
From Verif Require Import Gen.Tables C11.Bindings C11.Spec C11.Proofs C11.ProofsHist C11.ProofsSpec
  C11.Corr C11.ProofsCorr.

(** obligations on what is re-read from the source on every run *)
Theorem C11_table_push_rolls_back : push_thread_bindings_shape = 1%N.
Proof. reflexivity. Qed.
Theorem C11_table_pop_shape : pop_thread_bindings_shape = 1%N.
Proof. reflexivity. Qed.
Theorem C11_table_var_shape : var_bindings_shape = 1%N.
Proof. reflexivity. Qed.
Theorem C11_table_binding_forms : binding_forms_shape = 1%N.
Proof. reflexivity. Qed.

(** the state of a new thread satisfies the invariant, and every step of every history
    (well nested or not; maps have distinct keys) preserves it *)
Theorem C11_invariant : forall c,
  inv c clean /\
  (forall st o, inv c st -> wfop o -> inv c (fst (lstep c 1 st o))) /\
  (forall h st, inv c st -> Forall wfop h -> inv c (run c 1 h st)).
Proof.
  intros c. split.
  - apply inv_clean.
  - split.
    + apply inv_step.
    + intros. apply inv_run; assumption.
Qed.

(** A binding form (binding / with-bindings* ) that was established, around ANY well-nested
    body (any depth, any Vars, inner forms that fail, set!, exits by exception), left
    normally (b = false) or by an exception (b = true): the frame stack is as on entry; every
    Var's stack has its entry length and entry contents below the top; every Var the form
    binds, and every Var the body does not set!, has exactly its entry stack and value. *)
Theorem C11_well_nested_restores : forall c m body b st,
  inv c st -> NoDup (keys m) -> push_okb c m = true -> balanced c body ->
  let st' := run c 1 (WEnter m :: body ++ [WLeave b]) st in
  inv c st' /\ frames st' = frames st /\
  (forall u, length (stk st' u) = length (stk st u) /\ tl (stk st' u) = tl (stk st u)) /\
  (forall u, memb u (keys m) = true \/ ~ In u (setvars body) ->
             stk st' u = stk st u /\ value c st' u = value c st u).
Proof. exact well_nested_restores. Qed.

(** ... hence the whole thread state when the body only set!s Vars the form binds *)
Theorem C11_well_nested_restores_all : forall c m body b st,
  inv c st -> NoDup (keys m) -> push_okb c m = true -> balanced c body ->
  (forall u, In u (setvars body) -> In u (keys m)) ->
  steq (run c 1 (WEnter m :: body ++ [WLeave b]) st) st.
Proof. exact well_nested_restores_all. Qed.

(** Establishing a form fails half way (a non-dynamic Var or a rejected value at ANY position
    of ANY iteration order, after any number of successful pushes): an exception is raised
    and the thread state is exactly the entry state.  No premise on [st]. *)
Theorem C11_failed_push_restores : forall c m st,
  NoDup (keys m) -> push_okb c m = false ->
  exists st' code, push_thread_bindings c 1 m st = (st', code) /\ code <> 0%N /\
    frames st' = frames st /\
    forall u, stk st' u = stk st u /\ value c st' u = value c st u.
Proof. exact failed_push_restores. Qed.

(** the code before the repair (shape 0) violates it: (binding [v0 1  v3 2] ...) with v3 not
    dynamic, v0 first in iteration order, leaves v0 = 1 in the thread *)
Theorem C11_partial_push_leak_refuted :
  exists (m : list (var * val)) (v : var),
    NoDup (keys m) /\ push_okb cfg_w m = false /\
    snd (push_thread_bindings cfg_w 0 m clean) <> 0%N /\
    value cfg_w (fst (push_thread_bindings cfg_w 0 m clean)) v <> value cfg_w clean v.
Proof. exact partial_push_leak_refuted. Qed.

(** the iteration order of the map is irrelevant: same success, same stacks, same values *)
Theorem C11_push_order_irrelevant : forall c m m' st, NoDup (keys m) -> Permutation m m' ->
  let r := push_thread_bindings c 1 m st in
  let r' := push_thread_bindings c 1 m' st in
  (snd r = 0%N <-> snd r' = 0%N) /\
  (forall u, stk (fst r) u = stk (fst r') u) /\
  (forall u, value c (fst r) u = value c (fst r') u) /\
  Permutation (concat (frames (fst r))) (concat (frames (fst r'))).
Proof. exact push_order_irrelevant. Qed.

(** set! replaces the top of the current thread's stack of that Var and nothing else; it
    succeeds only on a thread-bound Var with an accepted value; otherwise nothing changes *)
Theorem C11_set_bang_innermost : forall c v x st,
  let st' := fst (set_bang c v x st) in
  frames st' = frames st /\
  (forall u, u <> v -> stk st' u = stk st u) /\
  tl (stk st' v) = tl (stk st v) /\
  (snd (set_bang c v x st) = 0%N ->
     thread_bound c st v = true /\ valid c v x = true /\ value c st' v = x) /\
  (snd (set_bang c v x st) <> 0%N -> st' = st).
Proof. exact set_bang_innermost. Qed.

(** threads: whatever the other threads do, in whatever interleaving, a thread's state (so
    every deref in it) is unchanged by steps that do not target it *)
Theorem C11_thread_isolation : forall c sched g u,
  (forall t o, In (t, o) sched -> target t o <> u) -> grun c 1 sched g u = g u.
Proof. exact thread_isolation. Qed.

(** conveyance: establishing the snapshot in the worker never fails; the work sees the
    creator's value of every Var the creator had bound, and of EVERY Var when the worker has
    no bindings of its own (pool thread, new thread) *)
Theorem C11_conveyance : forall c cr wk, inv c cr ->
  exists st1, push_thread_bindings c 1 (snapshot c cr) wk = (st1, 0%N) /\
    (forall v, value c st1 v = if thread_bound c cr v then value c cr v else value c wk v) /\
    ((forall u, stk wk u = []) -> forall v, value c st1 v = value c cr v).
Proof. exact conveyance. Qed.

(** ... and afterwards the worker thread is exactly as before (so set! inside conveyed work
    never reaches the creator or later jobs) *)
Theorem C11_conveyed_work_restores : forall c g t w work,
  inv c (g t) -> inv c (g w) -> balanced c work ->
  (w = t \/ forall u, stk (g w) u = []) ->
  steq (gstep c 1 g t (GSpawn true w work) w) (g w).
Proof. exact conveyed_work_restores. Qed.

(** the model refines the lexical-discipline reference (Spec.v) on EVERY history: same
    result (or one of the failure kinds the reference allows), related states, hence the
    same value of every Var after every step *)
Theorem C11_refines_lexical_step : forall c st th o, R st th -> wfth th -> wfop o ->
  let r := lstep c 1 st o in
  let s := sstep (dyn c) (valid c) th (ProofsSpec.erase o) in
  R (fst r) (fst s) /\ wfth (fst s) /\
  (snd s = [] -> snd r = 0%N) /\ (snd s <> [] -> In (snd r) (snd s)).
Proof. exact refines_step. Qed.
Theorem C11_refines_lexical : forall c h st th, R st th -> wfth th -> Forall wfop h ->
  R (run c 1 h st) (srun (dyn c) (valid c) (map ProofsSpec.erase h) th) /\
  forall v, value c (run c 1 h st) v
            = svalue (dyn c) (root c) (srun (dyn c) (valid c) (map ProofsSpec.erase h) th) v.
Proof. exact refines_run. Qed.

(** the executable model the correspondence check evaluates moves states as [gstep] *)
Theorem C11_corr_model_is_gstep : forall g t o, inv corr_cfg (g t) ->
  forall u, fst (fst (mstep g t o)) u = gstep corr_cfg 1 g t o u.
Proof. exact mstep_is_gstep. Qed.

(** non-vacuity: a depth-3 well-nested history with a failing inner form, set! on an outer
    Var and an exit by exception, from a state meeting the invariant *)
Example C11_nonvacuous :
  inv cfg_w clean /\ balanced cfg_w ex_body /\
  map (value cfg_w (run cfg_w 1 (WEnter [(0%N, 1%Z)] :: ex_body ++ [WLeave false]) clean))
      [0%N; 1%N; 2%N; 4%N] = [100%Z; 200%Z; 300%Z; 500%Z].
Proof. exact nonvacuous. Qed.

Print Assumptions C11_table_push_rolls_back.
Print Assumptions C11_table_pop_shape.
Print Assumptions C11_table_var_shape.
Print Assumptions C11_table_binding_forms.
Print Assumptions C11_invariant.
Print Assumptions C11_well_nested_restores.
Print Assumptions C11_well_nested_restores_all.
Print Assumptions C11_failed_push_restores.
Print Assumptions C11_partial_push_leak_refuted.
Print Assumptions C11_push_order_irrelevant.
Print Assumptions C11_set_bang_innermost.
Print Assumptions C11_thread_isolation.
Print Assumptions C11_conveyance.
Print Assumptions C11_conveyed_work_restores.
Print Assumptions C11_refines_lexical_step.
Print Assumptions C11_refines_lexical.
Print Assumptions C11_corr_model_is_gstep.
Print Assumptions C11_nonvacuous.
