(** C12 -- Atom updates are atomic under every thread schedule and always terminate.
    This file contains only statements, each closed by [exact]/[apply] of a lemma (or a
    closed computation for witnesses), and Print Assumptions.

    The machine ([Model.step]) is the model of atom.py / reference.py / the core.lpy retry
    loops with the lock explicit; [reach (init v0 progs) s] ranges over ALL interleavings of
    ANY number of threads running ANY operation lists.  [cas_ok] is the compare-and-set
    test regenerated from atom.py ([Gen.Tables.atom_cas_mode]); [apply], [valid] are the
    update functions / validator of the test universe (the abstract lemmas behind these
    statements are proved for arbitrary ones). *)
From Coq Require Import List Bool Arith ZArith NArith Lia.
Import ListNotations.
From Verif Require Import Common.ListX Gen.Tables.
From Verif Require Import C12.Spec C12.Model C12.Corr.
From Verif Require Import C12.Proofs C12.ProofsHist C12.ProofsLin C12.ProofsTerm C12.ProofsConc.

Notation mstep vld nw := (@step val fn cas_ok apply (valid vld) nw).
Notation mreach vld nw := (@reach val fn cas_ok apply (valid vld) nw).

(** Obligation on the regenerated table: the test in _compare_and_set is
    `self._state is not old and self._state != old` (identity first). *)
Theorem C12_table_cas_mode : atom_cas_mode = 1%N.
Proof. exact ProofsConc.cas_mode_is_1. Qed.

(** Mutual exclusion: at most one thread is between taking and releasing the lock. *)
Theorem C12_mutual_exclusion : forall vld nw v0 progs s t u,
  mreach vld nw (init v0 progs) s ->
  in_cs (t_pc (thr s t)) = true -> in_cs (t_pc (thr s u)) = true -> t = u.
Proof.
  intros vld nw v0 progs s t u R Ht Hu.
  destruct (reach_Inv cas_ok apply (valid vld) nw _ s (Inv_init _ _ _ _ v0 progs) R) as [IL _].
  apply IL in Ht. apply IL in Hu. congruence.
Qed.

(** Linearizability, for all interleavings, when every value in play is [plain] (its ==
    is identity: no 1/1.0, no pathological __eq__): the ghost history read in commit order
    is a sequential execution of the specification that ends in the current cell and
    produces, for every thread, exactly the results its calls returned, in program order;
    and every install compared against the very object then in the cell. *)
Theorem C12_linearizable_partial : forall vld nw v0 progs s,
  plain v0 = true -> (forall t, forallb (opP plain fn_plain) (progs t) = true) ->
  mreach vld nw (init v0 progs) s ->
  let lin := rev (hist s) in
  seq_run cas_ok apply (valid vld) v0 (map (@e_op val fn) lin) = (cell s, map (@e_res val fn) lin)
  /\ (forall t, evs t (hist s) = pend apply (valid vld) (thr s t) ++ dones (thr s t)
                /\ progs t = rev (map fst (dones (thr s t))) ++ t_ops (thr s t))
  /\ (forall e, In e (hist s) -> installs (e_op e) (e_res e) = true -> e_read e = e_before e).
Proof.
  intros vld nw v0 progs s Hv Hp R lin.
  destruct (AllInv_reach cas_ok apply (valid vld) nw v0 progs plain fn_plain plain_apply plain_id s Hv Hp R)
    as (I1 & [H1 H2] & I3 & I4 & I5 & _).
  split; [|split].
  - unfold lin. rewrite (chain_seq_run cas_ok apply (valid vld) v0 (hist s) H2).
    + rewrite <- H1. reflexivity.
    + intros e He. apply (I5 e He).
  - exact I3.
  - intros e He. apply (I5 e He).
Qed.

(** helpers to extract facts about a concrete run from a closed computation *)
Lemma run_case_chk (c : case) (chk : state val fn -> bool) :
  match run_case c with Some s => chk s | None => false end = true ->
  exists s, run_case c = Some s /\ chk s = true.
Proof. destruct (run_case c) as [s|]; intro H; [eauto|discriminate]. Qed.

Lemma run_case_reach (c : case) s :
  run_case c = Some s -> mreach (c_vld c) (c_nwatch c) (init_state c) s.
Proof. intro E. eapply run_schedule_reach; [apply reach_refl|exact E]. Qed.

(** the guard is satisfiable on a non-trivial execution: two racing swap! inc, one retry *)
Definition inc_inc_case : case :=
  mkCase (VInt 0) None 0 [[OSwap Py FInc false]; [OSwap Core FInc true]]
    [(0, LRead, false); (0, LCompute, false); (1, LDL, false); (1, LDRead, false); (1, LDL, false);
     (1, LCompute, false); (1, LVal, false); (1, LCL, false); (1, LCmp, false); (1, LSet, false);
     (1, LCL, false); (0, LVal, false); (0, LCL, false); (0, LCmp, false); (0, LCL, false);
     (0, LRead, false); (0, LCompute, false); (0, LVal, false); (0, LCL, false); (0, LCmp, false);
     (0, LSet, false); (0, LCL, false)].

Example C12_linearizable_guard_inhabited :
  exists s, mreach (c_vld inc_inc_case) (c_nwatch inc_inc_case) (init_state inc_inc_case) s
            /\ cell s = VInt 2 /\ length (hist s) = 2
            /\ (exists d, t_done (thr s 0) = [d] /\ snd d = 1)      (* thread 0 retried once *)
            /\ plain (c_init inc_inc_case) = true
            /\ forallb (forallb (opP plain fn_plain)) (c_threads inc_inc_case) = true.
Proof.
  pose (chk := fun s : state val fn =>
          val_eqb (cell s) (VInt 2) && Nat.eqb (length (hist s)) 2
          && match t_done (thr s 0) with [d] => Nat.eqb (snd d) 1 | _ => false end).
  destruct (run_case_chk inc_inc_case chk) as (s & E & H); [vm_compute; reflexivity|].
  exists s. split; [apply run_case_reach; exact E|].
  unfold chk in H. apply andb_true_iff in H as [H H3]. apply andb_true_iff in H as [H1 H2].
  split; [apply val_eqb_eq; exact H1|]. split; [apply Nat.eqb_eq; exact H2|].
  split; [|split; reflexivity].
  destruct (t_done (thr s 0)) as [|d [|? ?]]; try discriminate.
  exists d. split; [reflexivity|apply Nat.eqb_eq; exact H3].
Qed.

(** Without the guard the clause is false for the code as it is: 1 and 1.0.  Thread 0 runs
    (swap! a str), thread 1 (reset! a 1.0) on an atom holding 1; thread 0 reads 1, thread 1
    installs 1.0, thread 0's compare-and-set succeeds because 1.0 == 1 and installs "1":
    neither order of the two calls gives "1" as the final value. *)
Definition aba_case : case :=
  mkCase (VInt 1) None 0 [[OSwap Py FStr false]; [OReset Py (VFlt 1) false]]
    [(0, LRead, false); (0, LCompute, false); (0, LVal, false);
     (1, LRead, false); (1, LVal, false); (1, LCL, false); (1, LCmp, false); (1, LSet, false); (1, LCL, false);
     (0, LCL, false); (0, LCmp, false); (0, LSet, false); (0, LCL, false)].

Theorem C12_eq_aba_refuted :
  exists c s, run_case c = Some s
    /\ mreach (c_vld c) (c_nwatch c) (init_state c) s
    /\ (forall t, t < length (c_threads c) -> t_ops (thr s t) = [])   (* every call has returned *)
    /\ cell s = VStr [49%N]                                           (* final value "1" *)
    /\ (exists e, In e (hist s) /\ e_read e <> e_before e /\ installs (e_op e) (e_res e) = true)
    /\ spec_ok c (model c) = false.                       (* no sequential order explains it *)
Proof.
  exists aba_case.
  pose (chk := fun s : state val fn =>
          forallb (fun t => match t_ops (thr s t) with [] => true | _ => false end) (seq 0 2)
          && val_eqb (cell s) (VStr [49%N])
          && existsb (fun e => negb (val_eqb (e_read e) (e_before e)) && installs (e_op e) (e_res e)) (hist s)).
  destruct (run_case_chk aba_case chk) as (s & E & H); [vm_compute; reflexivity|].
  exists s. split; [exact E|].
  split; [apply run_case_reach; exact E|].
  unfold chk in H. apply andb_true_iff in H as [H H3]. apply andb_true_iff in H as [H1 H2].
  split; [|split; [apply val_eqb_eq; exact H2|split]].
  - intros t Ht. rewrite forallb_forall in H1. specialize (H1 t).
    assert (In t (seq 0 2)) as Hin by (apply in_seq; simpl in Ht; lia).
    specialize (H1 Hin). destruct (t_ops (thr s t)); [reflexivity|discriminate].
  - apply existsb_exists in H3 as (e & He & Hc). apply andb_true_iff in Hc as [Hc1 Hc2].
    exists e. split; [exact He|]. split; [|exact Hc2].
    intro Heq. rewrite Heq, val_eqb_refl in Hc1. discriminate.
  - vm_compute. reflexivity.
Qed.

(** A value rejected by the validator is never in the cell: for all interleavings, if the
    initial value is valid then so is every value the cell ever holds (hence every value
    any deref/read returns and every value passed to a watch). *)
Theorem C12_validator_never_visible : forall vld nw v0 progs s,
  valid vld v0 = true -> mreach vld nw (init v0 progs) s ->
  valid vld (cell s) = true
  /\ (forall e, In e (hist s) -> valid vld (e_before e) = true /\ valid vld (e_after e) = true)
  /\ (forall k o n, In (k, o, n) (wlog s) -> valid vld n = true).
Proof.
  intros vld nw v0 progs s Hv R.
  destruct (reach_hist cas_ok apply (valid vld) nw v0 progs s R) as (_ & _ & _ & [_ W2] & I5).
  destruct (I5 Hv) as [V1 V2]. split; [exact V1|split; [exact V2|]].
  intros k o n Hin. destruct (W2 k o n Hin) as [_ [t (e & He & _ & _ & Ha & _)]].
  rewrite <- Ha. apply (V2 e He).
Qed.

(** Every watch notification (k, old, new), under every interleaving, is the notification
    of a committed install: some event of the history installed [new] over a cell value
    [before] that passed the compare-and-set test against [old] ... *)
Theorem C12_watch_pairs_are_commits : forall vld nw v0 progs s k o n,
  mreach vld nw (init v0 progs) s -> In (k, o, n) (wlog s) ->
  k < nw /\ exists e, In e (hist s) /\ e_read e = o /\ e_after e = n
                      /\ cas_ok (e_before e) o = true.
Proof.
  intros vld nw v0 progs s k o n R Hin.
  destruct (reach_hist cas_ok apply (valid vld) nw v0 progs s R) as (_ & _ & _ & [_ W2] & _).
  destruct (W2 k o n Hin) as [Hk [t (e & He & _ & Hr & Ha & Hc)]].
  split; [exact Hk|]. exists e. auto.
Qed.

(** ... and for plain values it is exactly a transition the cell made: old -> new. *)
Theorem C12_watch_pairs_are_transitions_partial : forall vld nw v0 progs s k o n,
  plain v0 = true -> (forall t, forallb (opP plain fn_plain) (progs t) = true) ->
  mreach vld nw (init v0 progs) s -> In (k, o, n) (wlog s) ->
  exists e, In e (hist s) /\ e_before e = o /\ e_after e = n.
Proof.
  intros vld nw v0 progs s k o n Hv Hp R Hin.
  destruct (C12_watch_pairs_are_commits vld nw v0 progs s k o n R Hin) as [_ (e & He & Hr & Ha & Hc)].
  exists e. split; [exact He|]. split; [|exact Ha].
  destruct (AllInv_reach cas_ok apply (valid vld) nw v0 progs plain fn_plain plain_apply plain_id s Hv Hp R)
    as (_ & _ & _ & _ & _ & HP).
  destruct (HP e He) as (Pr & Pb & _).
  apply plain_id; [exact Pb|rewrite <- Hr; exact Pr|exact Hc].
Qed.
