(** C12 -- Atom updates are atomic under every thread schedule and always terminate.
    This file contains only statements, each closed by [exact]/[apply] of a lemma (or a
    closed computation for witnesses), and Print Assumptions.

    The machine ([Model.step]) is the model of atom.py / reference.py / the core.lpy retry
    loops with the lock explicit; [reach (init v0 progs) s] ranges over ALL interleavings of
    ANY number of threads running ANY operation lists.  [cas_ok] is the compare-and-set
    test regenerated from atom.py ([Gen.Tables.atom_cas_mode]); [apply], [valid] are the
    update functions / validator of the test universe (the abstract lemmas behind these
    statements are proved for arbitrary ones). *)
From Coq Require Import List Bool Arith ZArith NArith Lia.
Import ListNotations.
From Verif Require Import Common.ListX Gen.Tables.
From Verif Require Import C12.Spec C12.Model C12.Corr.
From Verif Require Import C12.Proofs C12.ProofsHist C12.ProofsLin C12.ProofsTerm C12.ProofsConc C12.Witness C12.Final.

Notation mstep vld nw := (@step val fn cas_ok apply (valid vld) nw).
Notation mreach vld nw := (@reach val fn cas_ok apply (valid vld) nw).

(** Obligation on the regenerated table: the test in _compare_and_set is
    `self._state is not old and self._state != old` (identity first). *)
Theorem C12_table_cas_mode : atom_cas_mode = 1%N.
Proof. exact ProofsConc.cas_mode_is_1. Qed.

(** Mutual exclusion: at most one thread is between taking and releasing the lock. *)
Theorem C12_mutual_exclusion : forall vld nw v0 progs s t u,
  mreach vld nw (init v0 progs) s ->
  in_cs (t_pc (thr s t)) = true -> in_cs (t_pc (thr s u)) = true -> t = u.
Proof. exact Final.mutual_exclusion. Qed.

(** Linearizability, for all interleavings, when every value in play is [plain] (its ==
    is identity: no 1/1.0, no pathological __eq__): the ghost history read in commit order
    is a sequential execution of the specification that ends in the current cell and
    produces, for every thread, exactly the results its calls returned, in program order;
    and every install compared against the very object then in the cell. *)
Theorem C12_linearizable_partial : forall vld nw v0 progs s,
  plain v0 = true -> (forall t, forallb (opP plain fn_plain) (progs t) = true) ->
  mreach vld nw (init v0 progs) s ->
  let lin := rev (hist s) in
  seq_run cas_ok apply (valid vld) v0 (map (@e_op val fn) lin) = (cell s, map (@e_res val fn) lin)
  /\ (forall t, evs t (hist s) = pend apply (valid vld) (thr s t) ++ dones (thr s t)
                /\ progs t = rev (map fst (dones (thr s t))) ++ t_ops (thr s t))
  /\ (forall e, In e (hist s) -> installs (e_op e) (e_res e) = true -> e_read e = e_before e).
Proof. exact Final.linearizable_partial. Qed.

(** the guard is satisfiable on a non-trivial execution: two racing swap! inc, one retry *)
Example C12_linearizable_guard_inhabited :
  exists s, mreach (c_vld inc_inc_case) (c_nwatch inc_inc_case) (init_state inc_inc_case) s
            /\ cell s = VInt 2 /\ length (hist s) = 2
            /\ (exists d, t_done (thr s 0) = [d] /\ snd d = 1)      (* thread 0 retried once *)
            /\ plain (c_init inc_inc_case) = true
            /\ forallb (forallb (opP plain fn_plain)) (c_threads inc_inc_case) = true.
Proof. exact Witness.guard_inhabited. Qed.

(** Without the guard the clause is false for the code as it is: 1 and 1.0.  Thread 0 runs
    (swap! a str), thread 1 (reset! a 1.0) on an atom holding 1; thread 0 reads 1, thread 1
    installs 1.0, thread 0's compare-and-set succeeds because 1.0 == 1 and installs "1":
    neither order of the two calls gives "1" as the final value. *)
Theorem C12_eq_aba_refuted :
  exists c s, run_case c = Some s
    /\ mreach (c_vld c) (c_nwatch c) (init_state c) s
    /\ (forall t, t < length (c_threads c) -> t_ops (thr s t) = [])   (* every call has returned *)
    /\ cell s = VStr [49%N]                                           (* final value "1" *)
    /\ (exists e, In e (hist s) /\ e_read e <> e_before e /\ installs (e_op e) (e_res e) = true)
    /\ spec_ok c (model c) = false.                       (* no sequential order explains it *)
Proof. exact Witness.eq_aba_refuted. Qed.

(** A value rejected by the validator is never in the cell: for all interleavings, if the
    initial value is valid then so is every value the cell ever holds (hence every value
    any deref/read returns and every value passed to a watch). *)
Theorem C12_validator_never_visible : forall vld nw v0 progs s,
  valid vld v0 = true -> mreach vld nw (init v0 progs) s ->
  valid vld (cell s) = true
  /\ (forall e, In e (hist s) -> valid vld (e_before e) = true /\ valid vld (e_after e) = true)
  /\ (forall k o n, In (k, o, n) (wlog s) -> valid vld n = true).
Proof. exact Final.validator_never_visible. Qed.

(** Every watch notification (k, old, new), under every interleaving, is the notification
    of a committed install: some event of the history installed [new] over a cell value
    [before] that passed the compare-and-set test against [old] ... *)
Theorem C12_watch_pairs_are_commits : forall vld nw v0 progs s k o n,
  mreach vld nw (init v0 progs) s -> In (k, o, n) (wlog s) ->
  k < nw /\ exists e, In e (hist s) /\ e_read e = o /\ e_after e = n
                      /\ cas_ok (e_before e) o = true.
Proof. exact Final.watch_pairs_are_commits. Qed.

(** ... and for plain values it is exactly a transition the cell made: old -> new. *)
Theorem C12_watch_pairs_are_transitions_partial : forall vld nw v0 progs s k o n,
  plain v0 = true -> (forall t, forallb (opP plain fn_plain) (progs t) = true) ->
  mreach vld nw (init v0 progs) s -> In (k, o, n) (wlog s) ->
  exists e, In e (hist s) /\ e_before e = o /\ e_after e = n.
Proof. exact Final.watch_pairs_are_transitions_partial. Qed.

(** Termination without interference, whatever the atom holds (NaN, objects with any
    __eq__): started with the lock free and left alone, every operation finishes within
    9 + #watches of its own steps, with NO retry (the retry counter recorded with the result
    is the one it started with), returns what the sequential specification prescribes and
    leaves the prescribed value in the cell.  [Fin] is defined in C12/ProofsTerm.v. *)
Theorem C12_terminates_solo : forall vld nw s t o rest,
  t_ops (thr s t) = o :: rest -> t_pc (thr s t) = PIdle -> lock s = None ->
  Fin cas_ok apply (valid vld) nw s t rest o
      (snd (seq_step cas_ok apply (valid vld) o (cell s)))
      (fst (seq_step cas_ok apply (valid vld) o (cell s))) (9 + nw).
Proof. exact Final.terminates_solo. Qed.

Example C12_terminates_solo_on_nan :
  exists n s', n <= 9
    /\ solo cas_ok apply (valid None) 0 0 n (init (VNaN 0) (progs_of [[OReset Py (VInt 1) false]])) = Some s'
    /\ cell s' = VInt 1 /\ t_ops (thr s' 0) = [].
Proof. exact Final.terminates_solo_on_nan. Qed.

(** The defect this replaced (finding F-12a, fixed): with the former test `self._state !=
    old` a reset on an atom holding NaN, running alone, never finishes. *)
Theorem C12_eq_only_cas_spins : forall k w vals rest t nw (s : state val fn),
  cell s = VNaN k -> t_ops (thr s t) = OReset Py w vals :: rest -> t_pc (thr s t) = PIdle ->
  lock s = None ->
  forall n, exists s', solo (cas_test 0) apply (valid None) nw t n s = Some s'
                       /\ t_ops (thr s' t) = OReset Py w vals :: rest.
Proof. exact Final.eq_only_cas_spins. Qed.

Print Assumptions C12_table_cas_mode.
Print Assumptions C12_mutual_exclusion.
Print Assumptions C12_linearizable_partial.
Print Assumptions C12_linearizable_guard_inhabited.
Print Assumptions C12_eq_aba_refuted.
Print Assumptions C12_validator_never_visible.
Print Assumptions C12_watch_pairs_are_commits.
Print Assumptions C12_watch_pairs_are_transitions_partial.
Print Assumptions C12_terminates_solo.
Print Assumptions C12_terminates_solo_on_nan.
Print Assumptions C12_eq_only_cas_spins.
