(** C15 -- the Python-AST optimization pass never changes what generated code does.
    Only statements, each closed by [exact], and Print Assumptions. *)
From Coq Require Import List ZArith NArith Bool.
Import ListNotations.
From Verif Require Import C15.Tree C15.Opt C15.Allowed C15.Corr C15.Sound C15.Refuted Gen.Tables.
From Verif Require C01.Lisp C01.Gen C15.Sem C15.SemL C01L.LLisp C01L.LPy C01L.LGen C01L.LTop.
From Verif Require C15.SemX C01X.XLisp C01X.XPy C01X.XGen C01X.XTop.
From Verif Require C15.SemC C01C.CLisp C01C.CPy C01C.CGen C01C.CTop.
Local Open Scope N_scope.

(** Obligations on the tables regenerated from optimizer.py on every run: each operator
    dictionary entry maps an operator-module function to the native operator with the
    reference meaning; the statement kinds that end a block and the droppable expression
    kinds are exactly those the specification allows. *)
Theorem C15_table_binops : forallb (fun p => ref_is ref_binops (fst p) (snd p)) opt_binops = true.
Proof. vm_compute. reflexivity. Qed.
Theorem C15_table_unaryops : forallb (fun p => ref_is ref_unaryops (fst p) (snd p)) opt_unaryops = true.
Proof. vm_compute. reflexivity. Qed.
Theorem C15_table_compareops : forallb (fun p => ref_is ref_compareops (fst p) (snd p)) opt_compareops = true.
Proof. vm_compute. reflexivity. Qed.
Theorem C15_table_terminators :
  forallb (fun tg => is_term_ref (Nd tg [])) opt_terminators = true.
Proof. vm_compute. reflexivity. Qed.
Theorem C15_table_expr_droppable :
  forallb (fun tg => is_bare (Nd T_Expr [Nd tg []])) opt_expr_droppable = true.
Proof. vm_compute. reflexivity. Qed.

(** Verified translation validation: every (before, after) pair the checker accepts is in
    the [allowed] relation (the five permitted kinds of change, closed under contexts,
    with the `global` scoping discipline) -- for all trees. *)
Theorem C15_check_sound : forall b a, check b a = true -> allowed b a.
Proof. exact Sound.check_sound. Qed.

(** ... and the full acceptance test additionally guarantees that a well-formed statement tree
    (no compound statement with an empty body, no `try` with neither handlers nor `finally`)
    stays well-formed *)
Theorem C15_accept_sound : forall b a, accept b a = true -> acceptable b a.
Proof. exact Sound.accept_sound. Qed.

(** Semantic preservation on the first-order Python subset the generator emits for the C01
    core: the optimised statements yield the same frame and effect trace whenever the
    unoptimised ones run, so C01's compile-correctness holds for optimised code. *)
Theorem C15_stmt_rewrites_preserve : forall l F F' t,
  Verif.C01.Py.exec F l = Some (F', t) -> Verif.C01.Py.exec F (Sem.opt_stmts l) = Some (F', t).
Proof. exact Sem.opt_stmts_preserves. Qed.
Theorem C15_optimized_compile_correct_partial : forall e v tr,
  Verif.C01.Lisp.eval (fun _ => None) e = Some (v, tr) -> Verif.C01.Gen.hazard_free e = true ->
  Sem.run_opt e = Some (v, tr).
Proof. exact Sem.optimized_compile_correct. Qed.

(** the same on the subset with `while True` / break / continue (dead code after a jump is
    dropped too), for every fuel; composed with the loop simulation theorem of C01L *)
Theorem C15_stmt_rewrites_preserve_loops : forall m F l r,
  LPy.lexec m F l = Some r -> LPy.lexec m F (SemL.lopt l) = Some r.
Proof. exact SemL.lopt_stmts_preserves. Qed.
Theorem C15_optimized_compile_correct_loops_partial : forall fuel e v tr,
  LLisp.leval fuel (fun _ => None) e = Some (LLisp.OVal v, tr) -> LGen.hazard_free e = true ->
  exists m, forall m', (m <= m')%nat -> SemL.lrun_opt m' e = Some (v, tr).
Proof. exact SemL.optimized_loops_compile_correct. Qed.
Example C15_dead_code_rule_fires :
  let '(d, _, _, _) := LGen.lgen (fun _ => None) [] 0 LTop.count_loop in SemL.lopt d <> d.
Proof. exact SemL.lopt_nonvacuous. Qed.

(** the same on the subset with raise and try/except/finally (dead code after `raise`, in try
    bodies, handlers and finally clauses; a `finally` clause emptied by the pass), for every
    fuel and every outcome, including an exception that leaves the program; composed with the
    simulation theorem of C01X *)
Theorem C15_stmt_rewrites_preserve_exceptions : forall m F l r,
  XPy.xexec m F l = Some r -> XPy.xexec m F (SemX.xopt l) = Some r.
Proof. exact SemX.xopt_stmts_preserves. Qed.
Theorem C15_optimized_compile_correct_exceptions_partial : forall fuel e o tr,
  XLisp.xeval fuel (fun _ => None) e = Some (o, tr) -> XGen.hazard_free e = true ->
  match o with
  | XLisp.OVal v => exists m, forall m', (m <= m')%nat -> SemX.xrun_opt m' e = Some (XGen.XRVal v tr)
  | XLisp.OExc c _ => exists m, forall m', (m <= m')%nat -> SemX.xrun_opt m' e = Some (XGen.XRExc c tr)
  | XLisp.ORec _ => True
  end.
Proof. exact SemX.optimized_exceptions_compile_correct. Qed.
Example C15_exception_rules_fire :
  (let '(d, _, _, _) := XGen.xgen (fun _ => None) [] 0 XTop.caught in SemX.xopt d <> d) /\
  (let '(d, _, _, _) := XGen.xgen (fun _ => None) [] 0
        (XLisp.XTry (XTop.tr1 1) None (XLisp.XConst Verif.C01.Lisp.VNil) true (XLisp.XConst (Verif.C01.Lisp.VInt 5))) in
   SemX.xopt d <> d).
Proof. exact SemX.xopt_nonvacuous. Qed.

(** the same on the subset with function definitions and calls: statements are also dropped
    inside function bodies, so the optimised run builds different function values; the two runs
    are related heap by heap (SemC.OH) and yield the same trace and observable value; composed
    with the simulation theorem of C01C *)
Theorem C15_stmt_rewrites_preserve_closures : forall m fid l H H1 t H',
  CPy.cexec m fid H l = Some (H1, t) -> SemC.OH H H' ->
  exists H1', CPy.cexec m fid H' (SemC.copt l) = Some (H1', t) /\ SemC.OH H1 H1'.
Proof. exact SemC.copt_stmts_preserve. Qed.
Theorem C15_optimized_compile_correct_closures_partial : forall fuel e v tr,
  CLisp.ceval fuel [] e = Some (v, tr) -> CGen.hazard_free e = true ->
  exists m, forall m', (m <= m')%nat -> SemC.crun_opt m' e = Some (CLisp.obs_of v, tr).
Proof. exact SemC.optimized_closures_compile_correct. Qed.

(** REFUTED clauses: the model of the pass (tied to the code by the correspondence run)
    performs rewrites that are not allowed. *)
Theorem C15_is_to_eq_not_allowed : ~ allowed Refuted.w_is (Opt.opt Refuted.w_is).
Proof. exact Refuted.is_to_eq_not_allowed. Qed.
Theorem C15_contains_swap_not_allowed : ~ allowed Refuted.w_contains (Opt.opt Refuted.w_contains).
Proof. exact Refuted.contains_swap_not_allowed. Qed.
Theorem C15_async_global_not_allowed : check Refuted.w_async (Opt.opt Refuted.w_async) = false /\ tag1 Refuted.w_async = 4.
Proof. exact Refuted.async_global_rejected. Qed.
Theorem C15_dead_global_not_allowed : check Refuted.w_dead (Opt.opt Refuted.w_dead) = false /\ tag1 Refuted.w_dead = 8.
Proof. exact Refuted.dead_global_rejected. Qed.
(** F-15e (repaired): a finally clause of which nothing is left.  The emptied statement is
    rejected by the acceptance test; the pass now leaves `finally: pass` (this obligation
    breaks if visit_Try goes back to producing the emptied statement). *)
Theorem C15_try_without_finally_rejected :
  accept Refuted.w_try (Refuted.w_try_with []) = false /\
  accept Refuted.w_try (Refuted.w_try_with [Nd T_Pass []]) = true /\
  Opt.opt Refuted.w_try = Refuted.w_try_with [Nd T_Pass []].
Proof. exact Refuted.try_without_finally_rejected. Qed.
Example C15_accepted_sample : check Refuted.w_ok (Opt.opt Refuted.w_ok) = true /\ tree_eqb Refuted.w_ok (Opt.opt Refuted.w_ok) = false.
Proof. exact Refuted.accepted_sample. Qed.

Print Assumptions C15_table_binops.
Print Assumptions C15_table_unaryops.
Print Assumptions C15_table_compareops.
Print Assumptions C15_table_terminators.
Print Assumptions C15_table_expr_droppable.
Print Assumptions C15_check_sound.
Print Assumptions C15_stmt_rewrites_preserve.
Print Assumptions C15_optimized_compile_correct_partial.
Print Assumptions C15_stmt_rewrites_preserve_loops.
Print Assumptions C15_optimized_compile_correct_loops_partial.
Print Assumptions C15_dead_code_rule_fires.
Print Assumptions C15_is_to_eq_not_allowed.
Print Assumptions C15_contains_swap_not_allowed.
Print Assumptions C15_async_global_not_allowed.
Print Assumptions C15_dead_global_not_allowed.
Print Assumptions C15_accepted_sample.
Print Assumptions C15_accept_sound.
Print Assumptions C15_try_without_finally_rejected.
Print Assumptions C15_stmt_rewrites_preserve_exceptions.
Print Assumptions C15_optimized_compile_correct_exceptions_partial.
Print Assumptions C15_exception_rules_fire.
Print Assumptions C15_stmt_rewrites_preserve_closures.
Print Assumptions C15_optimized_compile_correct_closures_partial.
