(** C15 -- placeholder until the soundness proofs are in (replaced below in the same session). *)
From Coq Require Import List NArith Bool.
Import ListNotations.
From Verif Require Import C15.Tree C15.Opt C15.Allowed C15.Corr Gen.Tables.

(** Obligations on the regenerated operator dictionaries: every entry maps an
    operator-module function to the native operator with the reference meaning. *)
Theorem C15_table_binops : forallb (fun p => match Allowed.assoc ref_binops (fst p) with Some op => N.eqb op (snd p) | None => false end) opt_binops = true.
Proof. vm_compute. reflexivity. Qed.
Theorem C15_table_unaryops : forallb (fun p => match Allowed.assoc ref_unaryops (fst p) with Some op => N.eqb op (snd p) | None => false end) opt_unaryops = true.
Proof. vm_compute. reflexivity. Qed.
Theorem C15_table_compareops : forallb (fun p => match Allowed.assoc ref_compareops (fst p) with Some op => N.eqb op (snd p) | None => false end) opt_compareops = true.
Proof. vm_compute. reflexivity. Qed.
Print Assumptions C15_table_binops.
Print Assumptions C15_table_unaryops.
Print Assumptions C15_table_compareops.
