(** C16 -- the reader is total, classifies incomplete input, and reports true locations.
    This file contains only statements, each closed by [exact], and Print Assumptions.
    [orc] is the oracle for CPython's re.compile / datetime.fromisoformat / uuid.UUID. *)
From Coq Require Import List Bool ZArith NArith.
Import ListNotations.
From Verif Require Import Common.ListX Gen.Tables C16.UcTables C16.Lex C16.Reader C16.Spec C16.RegexRef
  C16.ProofsTerm C16.ProofsLoc C16.ProofsRender C16.ProofsTables C16.ProofsRefute.
Local Open Scope N_scope.

(** ** obligations on the tables regenerated from reader.py, runtime.py and the running CPython *)
Theorem C16_table_str_escapes : rd_str_escapes = str_escapes /\ str_escapes = ref_escapes.
Proof. exact t_str_escapes. Qed.
Theorem C16_table_bytes_escapes : rd_bytes_escapes = bytes_escapes /\ bytes_escapes = ref_escapes.
Proof. exact t_bytes_escapes. Qed.
Theorem C16_table_special_chars : rd_special_chars = special_chars /\ special_chars = ref_special_chars.
Proof. exact t_special_chars. Qed.
Theorem C16_table_numeric_constants :
  rd_numeric_constants = numeric_constants /\ numeric_constants = ref_numeric_constants.
Proof. exact t_numeric_constants. Qed.
Theorem C16_table_dispatch :
  keys_small rd_dispatch = true /\
  forall c, In c codes256 -> (dispatch_code c =? table_code rd_dispatch c) = true.
Proof. exact t_dispatch. Qed.
Theorem C16_table_macro_dispatch :
  keys_small rd_macro_dispatch = true /\
  forall c, In c codes256 -> (macro_code c =? table_code rd_macro_dispatch c) = true.
Proof. exact t_macro_dispatch. Qed.
Theorem C16_table_token_terminators :
  forall c, In c codes256 ->
    Bool.eqb (is_term c) (negb (table_code rd_dispatch c =? 255) && negb (existsb (N.eqb c) rd_ns_term_exempt)) = true.
Proof. exact t_ns_term. Qed.
Theorem C16_table_regex_sources : rd_regex_sources = ref_regex_sources.
Proof. exact t_regex_sources. Qed.
Theorem C16_table_stream_consts :
  rd_pushback_depth - rd_default_index_neg = 3 /\ rd_unicode_lens = [4; 8].
Proof. exact t_stream_consts. Qed.
Theorem C16_table_unicode_classes :
  rd_uc_space = uc_space /\ rd_uc_digit = uc_digit /\ rd_uc_alnum = uc_alnum /\ rd_uc_numeric = uc_numeric.
Proof. exact t_unicode_classes. Qed.
Theorem C16_table_ascii_classes :
  forall c, In c codes128 ->
    (Bool.eqb (ascii_space c) (in_ranges c uc_space) && Bool.eqb (is_dig c) (in_ranges c uc_digit)
     && Bool.eqb (ascii_alnum c) (in_ranges c uc_alnum) && Bool.eqb (is_dig c) (in_ranges c uc_numeric)) = true.
Proof. exact t_ascii_classes. Qed.
Theorem C16_table_features : rd_features = features.
Proof. exact t_features. Qed.

(** ** totality: for every input text and every oracle, fuel [length s + 1] (nesting depth) and
    [length s + 1] (top-level forms) suffices: the reader answers with forms or an exception *)
Theorem C16_terminates : forall orc (s : list N), read_all orc s <> Err EFuel.
Proof. exact read_all_terminates. Qed.

(** ** only syntax errors: an exception which is neither SyntaxError nor UnexpectedEOFError can only
    arise while a syntax-quoted form is processed; for every text without a backquote the answer is
    forms, a syntax error or an unexpected-EOF error.  (Partial: the guard [no_backquote]; the
    refutation below shows that the guard is needed.) *)
Theorem C16_only_syntax_errors_partial :
  forall orc s t, no_backquote s = true -> read_all orc s <> Err (EOther t).
Proof. exact only_syntax_errors_partial. Qed.
Example C16_only_syntax_errors_nonvacuous :
  no_backquote [40; 97; 32; 35; 123; 49; 125; 32; 39; 98; 41] = true.      (* (a #{1} 'b) *)
Proof. reflexivity. Qed.

(** ** errors carry a true location: the line and column of every syntax error (of either class) is
    the location, in the sense of Spec.spec_loc, of a position 0..length s of the text, or the
    location of the end of input moved k columns to the right (the stream reader can be advanced
    past the end) *)
Theorem C16_errors_carry_loc :
  forall orc s l c,
    read_all orc s = Err (ESyntax l c) \/ read_all orc s = Err (EEof l c) ->
    (exists n, (n <= length s)%nat /\ (l, c) = spec_loc s n) \/
    (exists k, (l, c) = (fst (spec_loc s (length s)), snd (spec_loc s (length s)) + N.of_nat k)).
Proof. exact errors_carry_spec_loc. Qed.
(** the reader's incremental line/column bookkeeping (LF, CR LF, CR) is the true location *)
Theorem C16_update_loc_spec :
  forall s n, (n <= length s)%nat ->
    (line (adv_n n (init s)), col (adv_n n (init s))) = spec_loc s n.
Proof. exact update_loc_is_spec. Qed.

(** ** complete but malformed text is not reported as unexpected EOF: an UnexpectedEOFError is only
    ever raised with the reader at the end of the input (its location is the end of input, possibly
    moved k columns to the right) *)
Theorem C16_complete_malformed_not_eof :
  forall orc s l c,
    read_all orc s = Err (EEof l c) ->
    exists k, (l, c) = (fst (spec_loc s (length s)), snd (spec_loc s (length s)) + N.of_nat k).
Proof. exact eof_only_at_end_spec. Qed.

(** ** incomplete input: for every incomplete plain text of the grammar Spec.pctx (the input stops
    inside a string, inside a list or vector after any complete plain elements, or right after a
    quote or deref prefix, nested to any depth) the answer is an unexpected-EOF error located on the
    last line of the input.  (Partial: plain forms only -- see Spec.pform; the remaining prefixes
    ^ # ## #b #? are covered by C16_prefixes_at_end_are_eof and the refutation below.) *)
Theorem C16_incomplete_is_eof_partial :
  forall orc k, wf_ctx k = true ->
    exists c, read_all orc (render_ctx k)
              = Err (EEof (fst (spec_loc (render_ctx k) (length (render_ctx k)))) c).
Proof. exact incomplete_is_eof. Qed.
Example C16_incomplete_is_eof_nonvacuous :
  wf_ctx ex_ctx = true /\ render_ctx ex_ctx = [40; 97; 32; 34; 98; 34; 32; 39; 91; 99].
Proof. exact ex_ctx_ok. Qed.

(** ** spans: every plain form f (Spec.pform) is read back from its text as [reify f]: each symbol,
    list, vector, quote and deref form g inside it, whose text [render g] starts where the stream is
    in state s, is tagged with the span from the location of s to the location of the stream
    [length (render g)] characters later (ProofsRender.reify_loc; these are true locations by
    C16_update_loc_spec); and reading the text of that span alone, [render g], yields a form equal to
    the tagged one (locations aside).  (Partial: plain forms; sets, anonymous functions and
    namespaced maps are refuted below.) *)
Theorem C16_span_fidelity_partial :
  forall orc f, wf f = true ->
    read_all orc (render f) = Ok [reify f (init (render f))] (adv_n (length (render f)) (init (render f))) /\
    forall g s, wf g = true ->
      read_all orc (render g) = Ok [reify g (init (render g))] (adv_n (length (render g)) (init (render g))) /\
      feq false (reify g s) (reify g (init (render g))) = true.
Proof. exact span_fidelity. Qed.
Theorem C16_span_is_text_extent :
  forall g s, form_loc (reify g s) =
    match g with
    | PStr _ => None
    | _ => let e := adv_n (length (render g)) s in Some (line s, col s, line e, col e)
    end.
Proof. exact reify_loc. Qed.
Example C16_span_fidelity_nonvacuous :
  wf ex_form = true /\
  render ex_form = [40; 97; 32; 91; 39; 98; 32; 64; 99; 93; 32; 34; 120; 10; 121; 34; 41].
Proof. exact ex_form_ok. Qed.

(** ** witnesses *)
Theorem C16_only_syntax_errors_syntax_quote_refuted :
  exists s, forall orc, read_all orc s = Err (EOther 1).
Proof. exists w_sq. exact other_sq_refuted. Qed.
Theorem C16_incomplete_is_eof_reader_macro_refuted :
  forall orc,
    owed [35; 35] = true /\ read_all orc [35; 35] = Err (ESyntax 1 2) /\
    owed [35; 98] = true /\ read_all orc [35; 98] = Err (ESyntax 1 2) /\
    owed [35; 63] = true /\ read_all orc [35; 63] = Err (ESyntax 1 2) /\
    owed [34; 92] = true /\ read_all orc [34; 92] = Err (ESyntax 1 2).
Proof. exact owed_macro_refuted. Qed.
Theorem C16_span_fidelity_set_refuted :
  forall orc,
    read_all orc w_set = Ok [FSet [FSym None [97] (Some (1, 2, 1, 3))] (Some (1, 1, 1, 4))]
                            (mkst [] 1 4) /\
    slice w_set 1 1 1 4 = Some [123; 97; 125] /\
    read_all orc [123; 97; 125] = Err (ESyntax 1 3).
Proof. exact span_set_refuted. Qed.
Theorem C16_data_only_reader_conditional_refuted :
  forall orc, exists loc st',
    read_all orc w_rcond =
      Ok [FList [FSym None s_quote None; FRCond true [FKw None [97]; FNum (NInt 1)]] loc] st'.
Proof. exact rcond_leak_refuted. Qed.
Theorem C16_prefixes_at_end_are_eof :
  forall orc,
    read_all orc [39] = Err (EEof 1 1) /\ read_all orc [64] = Err (EEof 1 1) /\
    read_all orc [126] = Err (EEof 1 1) /\ read_all orc [126; 64] = Err (EEof 1 2) /\
    read_all orc [96] = Err (EEof 1 1) /\ read_all orc [94] = Err (EEof 1 1) /\
    read_all orc [35; 39] = Err (EEof 1 2) /\ read_all orc [35; 95] = Err (EEof 1 2) /\
    read_all orc [92] = Err (EEof 1 1) /\ read_all orc [35; 58; 97] = Err (EEof 1 3).
Proof. exact repaired_prefixes. Qed.

Print Assumptions C16_table_str_escapes.
Print Assumptions C16_table_bytes_escapes.
Print Assumptions C16_table_special_chars.
Print Assumptions C16_table_numeric_constants.
Print Assumptions C16_table_dispatch.
Print Assumptions C16_table_macro_dispatch.
Print Assumptions C16_table_token_terminators.
Print Assumptions C16_table_regex_sources.
Print Assumptions C16_table_stream_consts.
Print Assumptions C16_table_unicode_classes.
Print Assumptions C16_table_ascii_classes.
Print Assumptions C16_table_features.
Print Assumptions C16_terminates.
Print Assumptions C16_only_syntax_errors_partial.
Print Assumptions C16_only_syntax_errors_nonvacuous.
Print Assumptions C16_errors_carry_loc.
Print Assumptions C16_update_loc_spec.
Print Assumptions C16_complete_malformed_not_eof.
Print Assumptions C16_incomplete_is_eof_partial.
Print Assumptions C16_incomplete_is_eof_nonvacuous.
Print Assumptions C16_span_fidelity_partial.
Print Assumptions C16_span_is_text_extent.
Print Assumptions C16_span_fidelity_nonvacuous.
Print Assumptions C16_only_syntax_errors_syntax_quote_refuted.
Print Assumptions C16_incomplete_is_eof_reader_macro_refuted.
Print Assumptions C16_span_fidelity_set_refuted.
Print Assumptions C16_data_only_reader_conditional_refuted.
Print Assumptions C16_prefixes_at_end_are_eof.
