(** C03 -- readable printing round-trips through the reader (under construction). *)
From Verif Require Import C03.Corr.
Example C03_placeholder : True. Proof. exact I. Qed.
Print Assumptions C03_placeholder.
