(** C03 -- Readable printing round-trips through the reader.

    Model: C03/Printer.v (obj.lrepr and the _lrepr methods, as repaired by
    fixes/C03-str-printer-literal.patch), C03/ReadBack.v (basilisp.lang.reader restricted to the
    printer's output, as repaired by fixes/C03-sci-notation-float.patch), C03/Guard.v (the
    executable guards), C03/Limits.v (the printer with *print-length* / *print-level*, as
    repaired by fixes/C03-print-dup-ignores-level.patch).  CPython enters through the Section
    variables below (TRUSTED). *)
From Coq Require Import List NArith ZArith Bool.
Import ListNotations.
From Verif Require Import Common.ListX Gen.Tables C19.Bencode C19.Edn.
From Verif Require Import C03.Printer C03.ReadBack C03.Guard C03.Limits C03.Spec C03.Corr.
From Verif Require Import C03.ProofsBase C03.ProofsLeaf C03.ProofsColl C03.ProofsMain C03.ProofsTop C03.ProofsLimits.
Local Open Scope N_scope.

Section CPython.
  (** repr(float(t)), str(Decimal(t)), the printed form of complex(0, float(t) or int(t)),
      str(UUID(t)), isoformat(fromisoformat(t)) -- None when the constructor raises -- and whether
      re.compile accepts a pattern *)
  Variable py_float py_dec py_imag py_uuid py_inst : str -> option str.
  Variable re_ok : str -> bool.
  (** "t is what repr prints for some finite float", ... *)
  Variable is_repr is_dec is_imag is_uuid is_inst : str -> bool.
  Hypothesis H_float_repr_inverse : forall t, is_repr t = true -> py_float t = Some t.
  Hypothesis H_repr_grammar : forall t, is_repr t = true -> repr_grammar t = true.
  Hypothesis H_dec_str_inverse : forall t, is_dec t = true -> py_dec t = Some t.
  Hypothesis H_dec_grammar : forall t, is_dec t = true -> dec_grammar t = true.
  Hypothesis H_imag_inverse : forall t, is_imag t = true -> imag_plain t = true -> py_imag t = Some t.
  Hypothesis H_uuid_inverse : forall t, is_uuid t = true -> py_uuid t = Some t.
  Hypothesis H_inst_inverse : forall t, is_inst t = true -> py_inst t = Some t.

  Notation read_text := (read_text py_float py_dec py_imag py_uuid py_inst re_ok).
  Notation guard := (guard is_repr is_dec is_imag is_uuid is_inst re_ok).

  (** Every value of the readable universe that satisfies the executable guard -- nil, booleans,
      ALL integers, ratios, floats (repr tokens, ##Inf ##-Inf ##NaN), decimals under *print-dup*,
      exponent-free imaginary numbers, ALL strings, keywords/symbols over the reader's token
      alphabet, lists, vectors, sets, queues, maps (with and without namespace prefix), #py
      list/tuple/set/dict, uuids, instants, plain regex patterns, byte strings without a double
      quote, with metadata under *print-meta*, nested to any depth and width -- prints to a
      text which the reader reads back as exactly one form, that very value. *)
  Theorem C03_roundtrip_partial : forall pc v,
    guard pc v = true -> read_text (print pc v) = ROk [v].
  Proof. exact (roundtrip_guarded _ _ _ _ _ _ _ _ _ _ _ H_float_repr_inverse H_repr_grammar H_dec_str_inverse
                  H_dec_grammar H_imag_inverse H_uuid_inverse H_inst_inverse). Qed.

  Theorem C03_string_roundtrip : forall pc s,
    p_readably pc = true -> read_text (print pc (VStr s)) = ROk [VStr s].
  Proof. exact (string_roundtrip _ _ _ _ _ _ _ _ _ _ _ H_float_repr_inverse H_repr_grammar H_dec_str_inverse
                  H_dec_grammar H_imag_inverse H_uuid_inverse H_inst_inverse). Qed.

  Theorem C03_int_roundtrip : forall pc z, read_text (print pc (VInt z)) = ROk [VInt z].
  Proof. exact (int_roundtrip _ _ _ _ _ _ _ _ _ _ _ H_float_repr_inverse H_repr_grammar H_dec_str_inverse
                  H_dec_grammar H_imag_inverse H_uuid_inverse H_inst_inverse). Qed.

  Theorem C03_ratio : forall pc n d, (2 <= d)%Z -> Z.gcd n d = 1%Z ->
    read_text (print pc (VRatio n d)) = ROk [VRatio n d].
  Proof. exact (ratio_roundtrip _ _ _ _ _ _ _ _ _ _ _ H_float_repr_inverse H_repr_grammar H_dec_str_inverse
                  H_dec_grammar H_imag_inverse H_uuid_inverse H_inst_inverse). Qed.

  Theorem C03_kw_sym_partial : forall pc ns nm,
    (kw_ok3 ns nm = true -> read_text (print pc (VKw ns nm)) = ROk [VKw ns nm])
    /\ (sym_ok3 ns nm = true -> read_text (print pc (VSym ns nm None)) = ROk [VSym ns nm None]).
  Proof. exact (kw_sym_roundtrip _ _ _ _ _ _ _ _ _ _ _ H_float_repr_inverse H_repr_grammar H_dec_str_inverse
                  H_dec_grammar H_imag_inverse H_uuid_inverse H_inst_inverse). Qed.

  Theorem C03_float_roundtrip : forall pc tok, is_repr tok = true ->
    read_text (print pc (VFloat (FTok tok))) = ROk [VFloat (FTok tok)].
  Proof. exact (float_roundtrip _ _ _ _ _ _ _ _ _ _ _ H_float_repr_inverse H_repr_grammar H_dec_str_inverse
                  H_dec_grammar H_imag_inverse H_uuid_inverse H_inst_inverse). Qed.

  Theorem C03_special_floats : forall pc,
    read_text (print pc (VFloat FInf)) = ROk [VFloat FInf]
    /\ read_text (print pc (VFloat FNegInf)) = ROk [VFloat FNegInf]
    /\ read_text (print pc (VFloat FNaN)) = ROk [VFloat FNaN].
  Proof. exact (special_float_roundtrip _ _ _ _ _ _). Qed.

  Theorem C03_meta_roundtrip_partial : forall pc v, p_meta pc = true -> guard pc v = true ->
    read_text (print pc v) = ROk [v].
  Proof. exact (meta_roundtrip _ _ _ _ _ _ _ _ _ _ _ H_float_repr_inverse H_repr_grammar H_dec_str_inverse
                  H_dec_grammar H_imag_inverse H_uuid_inverse H_inst_inverse). Qed.

  Theorem C03_reprint_fixpoint_partial : forall pc v, guard pc v = true ->
    exists b, read_text (print pc v) = ROk [b] /\ print pc b = print pc v.
  Proof. exact (reprint_fixpoint _ _ _ _ _ _ _ _ _ _ _ H_float_repr_inverse H_repr_grammar H_dec_str_inverse
                  H_dec_grammar H_imag_inverse H_uuid_inverse H_inst_inverse). Qed.

  Theorem C03_print_injective_partial : forall pc v1 v2, guard pc v1 = true -> guard pc v2 = true ->
    print pc v1 = print pc v2 -> v1 = v2.
  Proof. exact (print_injective _ _ _ _ _ _ _ _ _ _ _ H_float_repr_inverse H_repr_grammar H_dec_str_inverse
                  H_dec_grammar H_imag_inverse H_uuid_inverse H_inst_inverse). Qed.

  (** Under *print-dup* the round trip holds whatever *print-length* and *print-level* are bound
      to: [printl] is the printer with all six print-control settings. *)
  Theorem C03_print_dup_roundtrip_any_limits_partial : forall pc lim v,
    p_dup pc = true -> guard pc v = true -> read_text (printl pc lim v) = ROk [v].
  Proof. exact (dup_roundtrip_any_limits _ _ _ _ _ _ _ _ _ _ _ H_float_repr_inverse H_repr_grammar H_dec_str_inverse
                  H_dec_grammar H_imag_inverse H_uuid_inverse H_inst_inverse). Qed.
End CPython.

(** The printer with *print-length* / *print-level* ([Limits.prl]: [seq_lrepr] for lists, vectors,
    sets, queues, #py list / tuple / set, [map_lrepr] for maps and #py dict, metadata and nesting
    included; the truncation tests carry [not print_dup] exactly where the source does, table
    [pr_trunc_guards]).  With *print-dup* true the text is the text printed with both limits
    nil -- for EVERY value, EVERY length limit, EVERY level limit -- and with both limits nil
    it is the text of Printer.v, on which the round-trip theorems are stated. *)
Theorem C03_print_dup_ignores_limits : forall pc lim v,
  p_dup pc = true -> printl pc lim v = printl pc lim_nil v.
Proof. exact printl_dup_eq_nil. Qed.

Theorem C03_limits_nil_is_printer : forall pc v, printl pc lim_nil v = print pc v.
Proof. exact printl_nil. Qed.

(** the same for any placement of the guards: ALL FOUR conjuncts [not print_dup] suffice ... *)
Theorem C03_print_dup_ignores_limits_guarded : forall tg pc len lvl strip v,
  all_guarded tg = true -> p_dup pc = true ->
  prl tg pc len lvl strip v = pr pc strip v /\ prl tg pc None None strip v = pr pc strip v.
Proof. exact prl_guarded_both. Qed.

(** ... and the level conjuncts (absent before fixes/C03-print-dup-ignores-level.patch: F-03m) and the
    length conjunct of [map_lrepr] (the seeded regression) are necessary: without them the text
    printed under *print-dup* is abbreviated and the reader rejects it. *)
Theorem C03_print_dup_level_legacy_refuted :
  let tg := TG false true false true in
  prl tg pc_dup None (Some 1%Z) false w_nested = [91; 49; 32; 35; 93]
  /\ prl tg pc_dup None (Some 0%Z) false w_nested = [35]
  /\ (exists e, read0 (prl tg pc_dup None (Some 1%Z) false w_nested) = RErr e)
  /\ read0 (print pc_dup w_nested) = ROk [w_nested].
Proof. exact legacy_level_refuted. Qed.

Theorem C03_print_dup_map_length_unguarded_refuted :
  let tg := TG true true true false in
  prl tg pc_dup (Some 2) None false w_map3
  = [123; 58; 97; 32; 49; 44; 32; 58; 98; 32; 50; 44; 32; 46; 46; 46; 125]
  /\ (exists e, read0 (prl tg pc_dup (Some 2) None false w_map3) = RErr e)
  /\ read0 (print pc_dup w_map3) = ROk [w_map3].
Proof. exact unguarded_map_length_refuted. Qed.

(** The string printer followed by the string reader is the identity on ALL strings, whatever
    follows the closing quote. *)
Theorem C03_string_reader_inverts_printer : forall s acc rest,
  read_str_body false (escape s ++ 34 :: rest) acc = ROk (acc ++ s, rest).
Proof. exact string_reader_inverts_printer. Qed.

(** A list / vector / set of ANY elements that round-trip (whatever their number and whether or
    not they are in the guarded universe) round-trips. *)
Theorem C03_coll_roundtrip : forall py_float py_dec py_imag py_uuid py_inst re_ok k (l : list (str * value * nat)),
  plain_kind k = true ->
  Forall (fun e => elem_ok py_float py_dec py_imag py_uuid py_inst re_ok (fst (fst e)) (snd (fst e)) (snd e)) l ->
  reads py_float py_dec py_imag py_uuid py_inst re_ok
        (open_of k ++ join sp (map (fun e => fst (fst e)) l) ++ [close_of k])
        (VSeq k (map (fun e => snd (fst e)) l) None) (2 + list_sum (map snd l)).
Proof. exact coll_roundtrip. Qed.

(** Every text of CPython's repr(float) grammar -- exponent forms included -- is handed by the
    reader's regexes, whole, to float(). *)
Theorem C03_float_routing : forall py_float py_dec py_imag tok rest, repr_grammar tok = true ->
  classify py_float py_dec py_imag tok rest = tok_or_err (py_float tok) (fun t => VFloat (FTok t)) rest.
Proof. exact float_routing_all. Qed.

(** The model prescribes that two printings of one value agree. *)
Theorem C03_print_deterministic : forall c,
  match model c with OOk _ _ _ _ det => det = true | _ => True end.
Proof. exact print_deterministic_model. Qed.

(** A value using every constructor, with nested metadata, satisfies the guard under all print
    settings on, and round-trips (with the CPython functions instantiated by the identity). *)
Example C03_guard_nonvacuous :
  guard yes yes yes yes yes yes pc_all sample = true
  /\ read_text idf idf idf idf idf yes (print pc_all sample) = ROk [sample].
Proof. exact (conj sample_guard sample_reads). Qed.

(** Refutations: [violates c] = the model of the code as it is fails the property's spec on the
    correspondence case [c] (each is a witness in known_findings.json). *)
Theorem C03_string_unicode_escape_legacy_refuted :
  read_str_body false (escape_legacy [31] ++ [34]) [] = RErr 1
  /\ read_str_body false (escape_legacy [233] ++ [34]) [] = RErr 1
  /\ read_str_body false (escape_legacy [20013; 97] ++ [34]) [] = RErr 1
  /\ read_str_body false (escape_legacy [20013; 45] ++ [34]) [] = ROk ([20013; 45], []).
Proof. exact legacy_escape_refuted. Qed.

Theorem C03_regex_quote_refuted : violates w_regex_backslash /\ violates w_regex_quote
  /\ model w_regex_backslash = OOk [35; 34; 92; 92; 115; 34] 1 (VRegex [92; 92; 115]) 0 true.
Proof. exact regex_refuted. Qed.

Theorem C03_int_digit_limit_refuted : violates w_int_limit /\ model w_int_limit = OPrintErr 2.
Proof. exact int_limit_refuted. Qed.

Theorem C03_int_digit_limit_spec : forall z, int_too_long z = (10 ^ 4300 <=? Z.abs_N z).
Proof. exact int_too_long_spec. Qed.

Theorem C03_bytes_quote_refuted : violates w_bytes_quote.
Proof. exact bytes_quote_refuted. Qed.

Theorem C03_imag_exponent_refuted : violates w_imag_exp /\ violates w_imag_negzero.
Proof. exact imag_refuted. Qed.

Theorem C03_kw_sym_refuted :
  violates w_kw_space /\ violates w_sym_empty /\ violates w_sym_digit /\ violates w_sym_nil
  /\ violates w_sym_gensym /\ violates w_kw_slash.
Proof. exact names_refuted. Qed.

Theorem C03_decimal_special_refuted : violates w_dec_nan.
Proof. exact dec_special_refuted. Qed.

Theorem C03_nsmap_key_refuted : violates w_nsmap_nil.
Proof. exact nsmap_refuted. Qed.

Theorem C03_reprint_fixpoint_meta_refuted : violates w_meta_reprint.
Proof. exact meta_reprint_refuted. Qed.

Theorem C03_read_string_eofthrow_refuted :
  violates w_eofthrow /\ model w_eofthrow = OReadErr (58 :: kw_eofthrow) 2.
Proof. exact eofthrow_refuted. Qed.

(** Obligations over the tables regenerated from obj.py / map.py / reader.py on every run. *)
Theorem C03_table_str_escapes : str_tables_ok = true.
Proof. exact table_str_escapes. Qed.
Theorem C03_table_delims : delims_ok = true.
Proof. exact table_delims. Qed.
Theorem C03_table_fstrings : fstrings_ok = true.
Proof. exact table_fstrings. Qed.
Theorem C03_table_special_floats :
  list_eqb str_eqb pr_special_floats [t_inf; t_ninf; t_nan] = true
  /\ str_eqb (fst pr_separators) sp = true /\ str_eqb (snd pr_separators) comma_sp = true.
Proof. exact table_special_floats. Qed.
Theorem C03_table_whitespace : forallb ws_agree (map N.of_nat (seq 0 (Nat.mul 124 100))) = true.
Proof. exact table_whitespace. Qed.
Theorem C03_table_terminators : terminators_ok = true.
Proof. exact table_terminators. Qed.
Theorem C03_table_reader_consts :
  assoc_str [73; 110; 102] rd_numeric_constants = Some 1
  /\ assoc_str [45; 73; 110; 102] rd_numeric_constants = Some 2
  /\ assoc_str [78; 97; 78] rd_numeric_constants = Some 0
  /\ rd_unicode_lens = [4; 8]
  /\ forallb (fun kv => match assoc (fst kv) rd_bytes_escapes with Some r => r =? snd kv | None => false end)
             rd_str_escapes = true.
Proof. exact table_reader_consts. Qed.
(** every truncation test of seq_lrepr / map_lrepr starts with [not print_dup and] *)
Theorem C03_table_trunc_guards : the_guards = TG true true true true /\ length pr_trunc_guards = 4%nat.
Proof. exact table_trunc_guards. Qed.
Theorem C03_table_print_defaults :
  assoc_str [80; 82; 73; 78; 84; 95; 82; 69; 65; 68; 65; 66; 76; 89] pr_print_defaults = Some 1
  /\ assoc_str [80; 82; 73; 78; 84; 95; 76; 69; 78; 71; 84; 72] pr_print_defaults = Some 0
  /\ assoc_str [80; 82; 73; 78; 84; 95; 76; 69; 86; 69; 76] pr_print_defaults = Some 0.
Proof. exact table_print_defaults. Qed.

Print Assumptions C03_roundtrip_partial.
Print Assumptions C03_string_roundtrip.
Print Assumptions C03_int_roundtrip.
Print Assumptions C03_ratio.
Print Assumptions C03_kw_sym_partial.
Print Assumptions C03_float_roundtrip.
Print Assumptions C03_special_floats.
Print Assumptions C03_meta_roundtrip_partial.
Print Assumptions C03_reprint_fixpoint_partial.
Print Assumptions C03_print_injective_partial.
Print Assumptions C03_string_reader_inverts_printer.
Print Assumptions C03_coll_roundtrip.
Print Assumptions C03_float_routing.
Print Assumptions C03_print_deterministic.
Print Assumptions C03_guard_nonvacuous.
Print Assumptions C03_string_unicode_escape_legacy_refuted.
Print Assumptions C03_regex_quote_refuted.
Print Assumptions C03_int_digit_limit_refuted.
Print Assumptions C03_int_digit_limit_spec.
Print Assumptions C03_bytes_quote_refuted.
Print Assumptions C03_imag_exponent_refuted.
Print Assumptions C03_kw_sym_refuted.
Print Assumptions C03_decimal_special_refuted.
Print Assumptions C03_nsmap_key_refuted.
Print Assumptions C03_reprint_fixpoint_meta_refuted.
Print Assumptions C03_read_string_eofthrow_refuted.
Print Assumptions C03_table_str_escapes.
Print Assumptions C03_table_delims.
Print Assumptions C03_table_fstrings.
Print Assumptions C03_table_special_floats.
Print Assumptions C03_table_whitespace.
Print Assumptions C03_table_terminators.
Print Assumptions C03_table_reader_consts.
Print Assumptions C03_table_print_defaults.
Print Assumptions C03_print_dup_roundtrip_any_limits_partial.
Print Assumptions C03_print_dup_ignores_limits.
Print Assumptions C03_limits_nil_is_printer.
Print Assumptions C03_print_dup_ignores_limits_guarded.
Print Assumptions C03_print_dup_level_legacy_refuted.
Print Assumptions C03_print_dup_map_length_unguarded_refuted.
Print Assumptions C03_table_trunc_guards.
