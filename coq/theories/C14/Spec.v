(** C14 specification: what the property prescribes, written without reference to the
    model of the loader.

    - A cache file is VALID for a source with stats (mtime, size) whose compilation dumps to
      [payload] iff it is exactly  magic ++ le32 mtime ++ le32 size ++ payload  (both
      stats representable in 32 bits).  A valid cache must be used; every other file --
      stale, truncated at any offset, empty, absent, other magic -- must not be executed:
      the loader compiles from source instead and (when bytecode writing is on) leaves the
      valid file behind.
    - Whatever the cache, an import executes the code of the CURRENT source, once, and
      raises what that code raises (observational equivalence with a from-source load).
    - Keywords are interned by (namespace, name): two requests yield the same object iff
      they name the same keyword, in every process. *)
From Coq Require Import List NArith ZArith Bool.
Import ListNotations.
From Verif Require Import Common.ListX.

Definition in_range (x : Z) : bool := (0 <=? x)%Z && (x <? 4294967296)%Z.

(** reference encoding of a 32-bit little-endian field *)
Definition le32 (v : N) : list N :=
  [v mod 256; (v / 256) mod 256; (v / 65536) mod 256; (v / 16777216) mod 256]%N.

Definition valid_file (magic : list N) (mtime size : Z) (payload : list N) : list N :=
  magic ++ le32 (Z.to_N mtime) ++ le32 (Z.to_N size) ++ payload.

Definition is_valid (magic : list N) (mtime size : Z) (payload : list N) (file : option (list N)) : bool :=
  match file with
  | None => false
  | Some d => in_range mtime && in_range size && list_eqb N.eqb d (valid_file magic mtime size payload)
  end.

(** What an import must look like, for code [c] of the current source that raises [r]:
    that code is executed exactly once (from the cache or from source), nothing else. *)
Inductive how := FromCache | FromSource.

Definition how_eqb (a b : how) : bool :=
  match a, b with FromCache, FromCache | FromSource, FromSource => true | _, _ => false end.

(** reference interning: the object a request denotes is determined by the name alone;
    objects are numbered in order of first request. *)
Fixpoint index_of {A} (eqb : A -> A -> bool) (x : A) (l : list A) : option nat :=
  match l with
  | [] => None
  | y :: r => if eqb x y then Some O else option_map S (index_of eqb x r)
  end.

Fixpoint ref_objects_from {A} (eqb : A -> A -> bool) (seen : list A) (names : list A) : list nat :=
  match names with
  | [] => []
  | n :: r =>
      match index_of eqb n seen with
      | Some i => i :: ref_objects_from eqb seen r
      | None => length seen :: ref_objects_from eqb (seen ++ [n]) r
      end
  end.

Definition ref_objects {A} (eqb : A -> A -> bool) (names : list A) : list nat :=
  ref_objects_from eqb [] names.

(** ** One process, several loads of one namespace file *)
(** What the property prescribes for a history of imports, reloads, edits of the source,
    damage to the cache file and [importlib.invalidate_caches()], on abstract states: a
    source is a version number with its stats; a COMPLETE cache file is described by the
    version whose code it holds and the stats its header claims (32-bit fields); any
    other file (absent, truncated, other magic) is [None].  Every (re)load makes the
    definitions of the CURRENT version visible; it takes them from the cache exactly when
    the header claims the current stats; and (bytecode writing on) it leaves the cache of
    the current version behind. *)
Fixpoint le_val (b : list N) : N :=
  match b with [] => 0%N | x :: r => (x + 256 * le_val r)%N end.

(** [file] starts with [magic] and two complete 32-bit little-endian fields holding
    [mtime] and [size] *)
Definition header_matches (magic : list N) (mtime size : Z) (file : list N) : Prop :=
  firstn 4 file = magic /\ (12 <= length file)%nat
  /\ Z.of_N (le_val (firstn 4 (skipn 4 file))) = mtime
  /\ Z.of_N (le_val (firstn 4 (skipn 8 file))) = size.

Record rcache := mkrc { rc_ver : N; rc_mtime : Z; rc_size : Z }.

Record rstate := mkrs {
  rs_ver : N; rs_mtime : Z; rs_size : Z;    (* the source file *)
  rs_cache : option rcache;
  rs_loaded : bool;                         (* the module is in sys.modules *)
  rs_visible : N;                           (* whose definitions the Vars hold; 0: none *)
  rs_dwb : bool                             (* sys.dont_write_bytecode *)
}.

Inductive rstep :=
| RImport | RReload | RInvalidate
| RSetDwb (b : bool)
| REdit (ver : N) (mtime size : Z)
| RBreak                      (* cache deleted, cut anywhere, or given another magic *)
| RHdrMtime (delta : Z)       (* mtime field of the header := current mtime + delta *)
| RHdrSize (delta : Z)
| RSkip.

Inductive robs :=
| RLoad (visible : N) (from_cache cache_valid_after : bool)
| RAlready (visible : N)
| RNotLoaded.

Definition claims (st : rstate) (rc : rcache) : bool :=
  in_range (rs_mtime st) && in_range (rs_size st)
  && Z.eqb (rc_mtime rc mod 4294967296) (rs_mtime st) && Z.eqb (rc_size rc mod 4294967296) (rs_size st).

Definition rc_valid (st : rstate) : bool :=
  match rs_cache st with Some rc => claims st rc | None => false end.

(** "mtime and size identify the content": a complete file that claims the current stats
    holds the current version *)
Definition rc_honest (st : rstate) : bool :=
  match rs_cache st with
  | Some rc => if claims st rc then N.eqb (rc_ver rc) (rs_ver st) else true
  | None => true
  end.

Definition ref_load (st : rstate) : robs * rstate :=
  let valid := rc_valid st in
  let cache' := if valid || rs_dwb st then rs_cache st
                else Some (mkrc (rs_ver st) (rs_mtime st) (rs_size st)) in
  let st' := mkrs (rs_ver st) (rs_mtime st) (rs_size st) cache' true (rs_ver st) (rs_dwb st) in
  (RLoad (rs_ver st) valid (rc_valid st'), st').

Definition with_rcache (st : rstate) (c : option rcache) : rstate :=
  mkrs (rs_ver st) (rs_mtime st) (rs_size st) c (rs_loaded st) (rs_visible st) (rs_dwb st).

(** one step: the observation (None: not a load), whether the premise held, the state *)
Definition ref_step (st : rstate) (s : rstep) : option robs * bool * rstate :=
  match s with
  | RImport =>
      if rs_loaded st then (Some (RAlready (rs_visible st)), true, st)
      else let (o, st') := ref_load st in (Some o, rc_honest st, st')
  | RReload =>
      if rs_loaded st then let (o, st') := ref_load st in (Some o, rc_honest st, st')
      else (Some RNotLoaded, true, st)
  | RInvalidate | RSkip => (None, true, st)
  | RSetDwb b =>
      (None, true, mkrs (rs_ver st) (rs_mtime st) (rs_size st) (rs_cache st) (rs_loaded st) (rs_visible st) b)
  | REdit v m s => (None, true, mkrs v m s (rs_cache st) (rs_loaded st) (rs_visible st) (rs_dwb st))
  | RBreak => (None, true, with_rcache st None)
  | RHdrMtime d =>
      (None, true, with_rcache st (option_map (fun rc => mkrc (rc_ver rc) (rs_mtime st + d) (rc_size rc)) (rs_cache st)))
  | RHdrSize d =>
      (None, true, with_rcache st (option_map (fun rc => mkrc (rc_ver rc) (rc_mtime rc) (rs_size st + d)) (rs_cache st)))
  end.

Fixpoint ref_hist (st : rstate) (steps : list rstep) : list robs * bool * rstate :=
  match steps with
  | [] => ([], true, st)
  | s :: r =>
      let '(o, h, st1) := ref_step st s in
      let '(os, hs, st2) := ref_hist st1 r in
      (match o with Some x => x :: os | None => os end, h && hs, st2)
  end.
