(** C14 specification: what the property prescribes, written without reference to the
    model of the loader.

    - A cache file is VALID for a source with stats (mtime, size) whose compilation dumps to
      [payload] iff it is exactly  magic ++ le32 mtime ++ le32 size ++ payload  (both
      stats representable in 32 bits).  A valid cache must be used; every other file --
      stale, truncated at any offset, empty, absent, other magic -- must not be executed:
      the loader compiles from source instead and (when bytecode writing is on) leaves the
      valid file behind.
    - Whatever the cache, an import executes the code of the CURRENT source, once, and
      raises what that code raises (observational equivalence with a from-source load).
    - Keywords are interned by (namespace, name): two requests yield the same object iff
      they name the same keyword, in every process. *)
From Coq Require Import List NArith ZArith Bool.
Import ListNotations.
From Verif Require Import Common.ListX.

Definition in_range (x : Z) : bool := (0 <=? x)%Z && (x <? 4294967296)%Z.

(** reference encoding of a 32-bit little-endian field *)
Definition le32 (v : N) : list N :=
  [v mod 256; (v / 256) mod 256; (v / 65536) mod 256; (v / 16777216) mod 256]%N.

Definition valid_file (magic : list N) (mtime size : Z) (payload : list N) : list N :=
  magic ++ le32 (Z.to_N mtime) ++ le32 (Z.to_N size) ++ payload.

Definition is_valid (magic : list N) (mtime size : Z) (payload : list N) (file : option (list N)) : bool :=
  match file with
  | None => false
  | Some d => in_range mtime && in_range size && list_eqb N.eqb d (valid_file magic mtime size payload)
  end.

(** What an import must look like, for code [c] of the current source that raises [r]:
    that code is executed exactly once (from the cache or from source), nothing else. *)
Inductive how := FromCache | FromSource.

Definition how_eqb (a b : how) : bool :=
  match a, b with FromCache, FromCache | FromSource, FromSource => true | _, _ => false end.

(** reference interning: the object a request denotes is determined by the name alone;
    objects are numbered in order of first request. *)
Fixpoint index_of {A} (eqb : A -> A -> bool) (x : A) (l : list A) : option nat :=
  match l with
  | [] => None
  | y :: r => if eqb x y then Some O else option_map S (index_of eqb x r)
  end.

Fixpoint ref_objects_from {A} (eqb : A -> A -> bool) (seen : list A) (names : list A) : list nat :=
  match names with
  | [] => []
  | n :: r =>
      match index_of eqb n seen with
      | Some i => i :: ref_objects_from eqb seen r
      | None => length seen :: ref_objects_from eqb (seen ++ [n]) r
      end
  end.

Definition ref_objects {A} (eqb : A -> A -> bool) (names : list A) : list nat :=
  ref_objects_from eqb [] names.
