(** C14 correspondence interface: cases, observable outputs, spec predicate, model.
    [marshal] is instantiated by a toy codec that meets the two hypotheses of the theorems
    (round trip; a proper prefix raises EOFError): the model never looks into a payload. *)
From Coq Require Import List NArith ZArith Bool.
Import ListNotations.
From Verif Require Export Common.ListX Gen.Tables C14.Cache C14.Spec C14.Reload.

(** ** toy marshal: the dump of code [c] is [L] copies of the byte [c] *)
Definition tcode := N.
Definition t_dumps (L : nat) (c : tcode) : bytes := repeat c L.
Definition t_loads (L : nat) (d : bytes) : res tcode :=
  let n := length d in
  if Nat.ltb n L then Raise EOFError
  else if Nat.eqb n L then Ok (hd 0%N d) else Raise ValueError.

(** ** decoding layer *)
Inductive dres :=
| DOk               (* returned the code objects that were written *)
| DOkOther          (* returned something else *)
| DErr (e : exc)
| DOther.           (* an exception class outside the model *)

Definition dres_eqb (a b : dres) : bool :=
  match a, b with
  | DOk, DOk | DOkOther, DOkOther | DOther, DOther => true
  | DErr x, DErr y => exc_eqb x y
  | _, _ => false
  end.

Definition decode (L : nat) (mtime size : Z) (file : bytes) : dres :=
  match get_basilisp_bytecode tcode (t_loads L) mtime size file with
  | Ok c => if N.eqb c 0 then DOk else DOkOther
  | Raise e => DErr e
  end.

Fixpoint rle (l : list dres) : list (N * dres) :=
  match l with
  | [] => []
  | x :: r =>
      match rle r with
      | (k, y) :: t => if dres_eqb x y then (N.succ k, y) :: t else (1%N, x) :: (k, y) :: t
      | [] => [(1%N, x)]
      end
  end.

Definition sweep (hdr : bytes) (L : nat) (mtime size : Z) : list dres :=
  let file := hdr ++ repeat 0%N L in
  map (fun n => decode L mtime size (firstn n file)) (seq 0 (S (length file))).

Record variant := mkvar { v_hdr : bytes; v_cut : option N; v_mtime : Z; v_size : Z }.

Definition variant_file (L : nat) (v : variant) : bytes :=
  let file := v_hdr v ++ repeat 0%N L in
  match v_cut v with Some n => firstn (N.to_nat n) file | None => file end.

(** ** full import path *)
Inductive pert :=
| PNone | PMissing
| PTrunc (n : N)               (* keep n (< 12) bytes *)
| PTruncPay (num den : N)      (* keep 12 + floor(paylen * num / den) bytes, num < den *)
| PTruncTail (n : N)           (* drop the last n (>= 1) bytes *)
| PMagic (b : bytes)           (* other first four bytes *)
| PHdrMtime (delta : Z)        (* header made for mtime + delta *)
| PHdrSize (delta : Z)
| PTouch (delta : Z)           (* the source's mtime moved by delta *)
| PEdit (extra delta : Z).     (* the source was edited: extra bytes, mtime moved by delta *)

(** one step of an in-process history *)
Inductive hstep :=
| HImport | HReload | HInvalidate
| HSetDwb (b : bool)                   (* sys.dont_write_bytecode = b *)
| HEdit (ver : N) (mtime size : Z)     (* the source becomes version [ver] with these stats *)
| HTouch (p : pert).                   (* damage to the cache file as it is at that moment *)

(** what a history shows at each import / reload *)
Inductive hobs :=
| HLoad (visible : N) (used_cache recompiled : bool) (decode_exc : option exc) (cache_valid_after : bool)
| HAlready (visible : N)
| HNotLoaded.

Inductive case :=
| CSweep (hdr : bytes) (paylen : N) (mtime size : Z)
| CBatch (paylen : N) (vs : list variant)
| CStale (m s m' s' : Z)       (* written for (m, s), read against (m', s') *)
| CKwOps (ops : list (N * N * bool))          (* (name, hash variant, literal?) *)
| CImport (p : pert) (mtime size : Z) (cross dwb again : bool)
| CXerr (e : exc)
| CShape                       (* static: who stats the source file, read off importer.py *)
| CHist (dwb again : bool) (mtime size : Z) (steps : list hstep).
       (* one process (sys.dont_write_bytecode = [dwb] at its start): version 1 of the source
          with these stats, no cache file, then the steps; [again]: afterwards a fresh
          process (same initial setting) imports the namespace *)

Inductive out :=
| OSweep (l : list (N * dres))
| OBatch (l : list dres)
| OStale (hdr : bytes) (r : dres)
| OKw (l : list (N * (bool * bool * bool * bool)))   (* object no., name ok, hash ok, = ok, lookup ok *)
| OImport (written_valid loaded recompiled same cache_valid_after again_ok kw_identical kw_sem : bool)
          (decode_exc : option exc)
| OXerr (ref_ticks ticks : N) (ref_raised raised : option exc)
| OHist (l : list hobs)
| OShape (stats_in_spec : option bool)
       (* Some false: exec_module calls path_stats(filename) at every execution and validates /
          writes the cache with that; Some true: find_spec puts the stats into loader_state and
          exec_module reads them from the spec; None: neither shape recognised *)
| OErr (n : N).

Definition oexc_eqb := option_eqb exc_eqb.
Definition b4_eqb (a b : bool * bool * bool * bool) : bool :=
  let '(a1, a2, a3, a4) := a in let '(b1, b2, b3, b4) := b in
  Bool.eqb a1 b1 && Bool.eqb a2 b2 && Bool.eqb a3 b3 && Bool.eqb a4 b4.

Definition hobs_eqb (a b : hobs) : bool :=
  match a, b with
  | HLoad v u r e c, HLoad v' u' r' e' c' =>
      N.eqb v v' && Bool.eqb u u' && Bool.eqb r r' && oexc_eqb e e' && Bool.eqb c c'
  | HAlready v, HAlready v' => N.eqb v v'
  | HNotLoaded, HNotLoaded => true
  | _, _ => false
  end.

Definition out_eqb (a b : out) : bool :=
  match a, b with
  | OSweep x, OSweep y => list_eqb (fun p q => N.eqb (fst p) (fst q) && dres_eqb (snd p) (snd q)) x y
  | OBatch x, OBatch y => list_eqb dres_eqb x y
  | OStale h r, OStale h' r' => bytes_eqb h h' && dres_eqb r r'
  | OKw x, OKw y => list_eqb (fun p q => N.eqb (fst p) (fst q) && b4_eqb (snd p) (snd q)) x y
  | OImport a1 a2 a3 a4 a5 a6 a7 a8 e, OImport b1 b2 b3 b4 b5 b6 b7 b8 e' =>
      Bool.eqb a1 b1 && Bool.eqb a2 b2 && Bool.eqb a3 b3 && Bool.eqb a4 b4 && Bool.eqb a5 b5
      && Bool.eqb a6 b6 && Bool.eqb a7 b7 && Bool.eqb a8 b8 && oexc_eqb e e'
  | OXerr a1 a2 e1 e2, OXerr b1 b2 e1' e2' => N.eqb a1 b1 && N.eqb a2 b2 && oexc_eqb e1 e1' && oexc_eqb e2 e2'
  | OHist x, OHist y => list_eqb hobs_eqb x y
  | OShape x, OShape y => option_eqb Bool.eqb x y
  | OErr x, OErr y => N.eqb x y
  | _, _ => false
  end.

(** *** the model of the import cases *)
Definition TL : nat := 16.
Definition i_compile (s : N) : tcode := s.          (* source text no. -> its code *)
Definition golden (m s : Z) : bytes := basilisp_bytecode tcode (t_dumps TL) m s 1%N.

Definition apply_pert (p : pert) (m s : Z) : fs N :=
  let g := golden m s in
  match p with
  | PNone => mkfs 1%N m s (Some g)
  | PMissing => mkfs 1%N m s None
  | PTrunc n => mkfs 1%N m s (Some (firstn (N.to_nat n) g))
  | PTruncPay num den => mkfs 1%N m s (Some (firstn (12 + N.to_nat (16 * num / den)) g))
  | PTruncTail n => mkfs 1%N m s (Some (firstn (length g - N.to_nat n) g))
  | PMagic b => mkfs 1%N m s (Some (b ++ skipn 4 g))
  | PHdrMtime d => mkfs 1%N m s (Some (firstn 4 g ++ w_long (m + d) ++ skipn 8 g))
  | PHdrSize d => mkfs 1%N m s (Some (firstn 8 g ++ w_long (s + d) ++ skipn 12 g))
  | PTouch d => mkfs 1%N (m + d)%Z s (Some g)
  | PEdit extra d => mkfs 2%N (m + d)%Z (s + extra)%Z (Some g)
  end.

Definition i_exec (run : tcode -> option exc) (dwb : bool) (f : fs N) : result tcode N :=
  exec_module tcode (t_dumps TL) (t_loads TL) N i_compile run dwb f.

Definition is_source (e : event tcode) : bool := match e with EvRunSource _ => true | _ => false end.
Definition executed (t : list (event tcode)) : list tcode :=
  flat_map (fun e => match e with EvRunCached c | EvRunSource c => [c] | EvWriteCache _ => [] end) t.
Definition is_none {A} (o : option A) : bool := match o with None => true | Some _ => false end.

(** keyword of the namespace, collision-free idealisation of hash((name, ns)) per seed *)
Definition toy_hash (seed : Z) (n : kwname) : Z := (seed * 65536 + Z.of_N (hd 0%N (snd n)))%Z.
Definition kwn (i : N) : kwname := (None, [i]).

Definition kw_pair (foreign : bool) : bool * bool :=
  let h := toy_hash 0 in
  let lit := KLit (toy_hash (if foreign then 1 else 0) (kwn 7)) (kwn 7) in
  match fst (run_ops h [] [lit; KNew (kwn 7)]) with
  | [a; b] => (kw_identical a b,
               kw_eq a b && Z.eqb (k_hash a) (k_hash b) && kwname_eqb (k_name a) (kwn 7) && Z.eqb (k_hash a) (h (kwn 7)))
  | _ => (false, false)
  end.

Definition import_model (p : pert) (m s : Z) (cross dwb again : bool) : out :=
  let f := apply_pert p m s in
  let r := i_exec (fun _ => None) dwb f in
  let c := i_compile (f_src f) in
  let recompiled := existsb is_source (r_trace r) in
  let kw := kw_pair (cross && negb recompiled) in
  let r2 := i_exec (fun _ => None) dwb (r_fs r) in
  OImport
    (is_valid importer_magic m s (t_dumps TL 1%N) (Some (golden m s)))
    (is_none (r_raised r))
    recompiled
    (list_eqb N.eqb (executed (r_trace r)) [c])
    (is_valid importer_magic (f_mtime f) (f_size f) (t_dumps TL c) (f_cache (r_fs r)))
    (if again then list_eqb N.eqb (executed (r_trace r2)) [c] && negb (existsb is_source (r_trace r2))
                   && is_none (r_raised r2)
     else true)
    (fst kw) (snd kw)
    (match get_cached_code tcode (t_loads TL) N f with Raise e => Some e | Ok _ => None end).

Definition xerr_model (e : exc) : out :=
  let f := mkfs 1%N 1700000000%Z 100%Z (Some (golden 1700000000 100)) in
  let ref := exec_source tcode (t_dumps TL) N i_compile (fun _ => Some e) true f in
  let r := i_exec (fun _ => Some e) false f in
  OXerr (N.of_nat (length (executed (r_trace ref)))) (N.of_nat (length (executed (r_trace r))))
        (r_raised ref) (r_raised r).

Definition kwops_model (ops : list (N * N * bool)) : out :=
  let h := toy_hash 0 in
  let mk (o : N * N * bool) : kwop :=
    let '(n, v, lit) := o in if lit then KLit (toy_hash (Z.of_N v) (kwn n)) (kwn n) else KNew (kwn n) in
  let objs := fst (run_ops h [] (map mk ops)) in
  OKw (map (fun ok : (N * N * bool) * kwobj =>
              let '((n, _, _), k) := ok in
              let ref := mkkw 0 (kwn n) (h (kwn n)) in
              (N.of_nat (k_id k),
               (kwname_eqb (k_name k) (kwn n), Z.eqb (k_hash k) (h (kwn n)),
                kwname_eqb (k_name k) (k_name ref), Z.eqb (k_hash k) (k_hash ref) && kwname_eqb (k_name k) (k_name ref))))
           (combine ops objs)).

(** *** the model of the in-process histories *)
(** the damage, on the bytes of the file as it is ([m], [s]: stats of the source now) *)
Definition touch_bytes (p : pert) (m s : Z) (d : bytes) : option bytes :=
  match p with
  | PMissing => None
  | PTrunc n => Some (firstn (N.to_nat n) d)
  | PTruncPay num den =>
      if Nat.ltb (length d) 12 then Some d
      else Some (firstn (12 + N.to_nat (N.of_nat (length d - 12) * num / den)) d)
  | PTruncTail n => Some (firstn (length d - N.to_nat n) d)
  | PMagic b => Some (b ++ skipn 4 d)
  | PHdrMtime dl => Some (firstn 4 d ++ w_long (m + dl) ++ skipn 8 d)
  | PHdrSize dl => Some (firstn 8 d ++ w_long (s + dl) ++ skipn 12 d)
  | PNone | PTouch _ | PEdit _ _ => Some d
  end.

Definition hstate : Type := state tcode N.

Definition h_step (f : fs N) (h : hstep) : step N :=
  match h with
  | HImport => SImport
  | HReload => SReload
  | HInvalidate => SInvalidate
  | HSetDwb b => SSetDwb b
  | HEdit v m s => SEdit v m s
  | HTouch p => SSetCache (match f_cache f with
                           | Some d => touch_bytes p (f_mtime f) (f_size f) d
                           | None => None
                           end)
  end.

Definition h_do (in_spec : bool) (st : hstate) (h : hstep) : obs tcode N * hstate :=
  do_step tcode (t_dumps TL) (t_loads TL) N i_compile (fun _ => None) in_spec st (h_step (fst st) h).

Definition is_cached (e : event tcode) : bool := match e with EvRunCached _ => true | _ => false end.
Definition visible_of (p : proc tcode) : N := match p_vars p with Some c => c | None => 0%N end.

Definition h_obs (f : fs N) (o : obs tcode N) (st' : hstate) : list hobs :=
  match o with
  | ONothing => []
  | OAlready => [HAlready (visible_of (snd st'))]
  | ONotLoaded => [HNotLoaded]
  | OLoad r =>
      let f' := fst st' in
      [HLoad (visible_of (snd st'))
             (existsb is_cached (r_trace r)) (existsb is_source (r_trace r))
             (match get_cached_code tcode (t_loads TL) N f with Raise e => Some e | Ok _ => None end)
             (is_valid importer_magic (f_mtime f') (f_size f') (t_dumps TL (i_compile (f_src f'))) (f_cache f'))]
  end.

Fixpoint h_run (in_spec : bool) (st : hstate) (hs : list hstep) : list hobs * hstate :=
  match hs with
  | [] => ([], st)
  | h :: r =>
      let (o, st') := h_do in_spec st h in
      let (os, st'') := h_run in_spec st' r in
      (h_obs (fst st) o st' ++ os, st'')
  end.

Definition hist_model_gen (in_spec dwb again : bool) (m s : Z) (hs : list hstep) : out :=
  let p0 : proc tcode := mkproc 0 None None None dwb in
  let (os, st) := h_run in_spec (mkfs 1%N m s None, p0) hs in
  OHist (os ++ (if again then fst (h_run in_spec (fst st, p0) [HImport]) else [])).

(** the code as it is: exec_module stats the source at every execution *)
Definition hist_model := hist_model_gen false.

Definition model (c : case) : out :=
  match c with
  | CSweep hdr L m s => OSweep (rle (sweep hdr (N.to_nat L) m s))
  | CBatch L vs => OBatch (map (fun v => decode (N.to_nat L) (v_mtime v) (v_size v) (variant_file (N.to_nat L) v)) vs)
  | CStale m s m' s' =>
      let file := basilisp_bytecode tcode (t_dumps TL) m s 0%N in
      OStale (firstn 12 file) (decode TL m' s' file)
  | CKwOps ops => kwops_model ops
  | CImport p m s cross dwb again => import_model p m s cross dwb again
  | CXerr e => xerr_model e
  | CHist dwb again m s hs => hist_model dwb again m s hs
  | CShape => OShape (Some false)
  end.

(** ** the specification on the same observables *)
Definition fallback (r : dres) : bool := match r with DErr e => caught e | _ => false end.

Definition valid_hdr (m s : Z) (hdr : bytes) : bool :=
  in_range m && in_range s && bytes_eqb hdr (valid_file importer_magic m s []).

Fixpoint total (l : list (N * dres)) : N := match l with [] => 0 | (k, _) :: r => k + total r end.

Fixpoint spec_sweep (valid : bool) (l : list (N * dres)) : bool :=
  match l with
  | [] => false
  | [(k, r)] => if valid then N.eqb k 1 && dres_eqb r DOk else fallback r
  | (_, r) :: t => fallback r && spec_sweep valid t
  end.

Definition spec_variant (L : nat) (v : variant) (r : dres) : bool :=
  let whole := match v_cut v with None => true | Some n => N.leb (N.of_nat (length (v_hdr v) + L)) n end in
  if whole && valid_hdr (v_mtime v) (v_size v) (v_hdr v) then dres_eqb r DOk else fallback r.

Fixpoint forall2b {A B} (f : A -> B -> bool) (l1 : list A) (l2 : list B) : bool :=
  match l1, l2 with
  | [], [] => true
  | x :: r1, y :: r2 => f x y && forall2b f r1 r2
  | _, _ => false
  end.

(** the perturbation leaves a cache that is valid for the current source *)
Definition pert_valid (p : pert) : bool :=
  match p with
  | PNone => true
  | PMagic b => bytes_eqb b importer_magic
  | PHdrMtime d | PHdrSize d => Z.eqb (d mod 4294967296) 0
  | PTouch d => Z.eqb d 0
  | PEdit _ _ | PMissing | PTrunc _ | PTruncPay _ _ | PTruncTail _ => false
  end.

(** histories: the abstract effect of each step, and the reference semantics of Spec.v *)
Definition r_step (h : hstep) : rstep :=
  match h with
  | HImport => RImport
  | HReload => RReload
  | HInvalidate => RInvalidate
  | HSetDwb b => RSetDwb b
  | HEdit v m s => REdit v m s
  | HTouch p =>
      match p with
      | PMissing | PTrunc _ => RBreak
      | PTruncPay num den => if N.ltb num den then RBreak else RSkip
      | PTruncTail n => if N.eqb n 0 then RSkip else RBreak
      | PMagic b => if bytes_eqb b importer_magic then RSkip else RBreak
      | PHdrMtime d => RHdrMtime d
      | PHdrSize d => RHdrSize d
      | PNone | PTouch _ | PEdit _ _ => RSkip
      end
  end.

Definition hobs_ok (e : robs) (o : hobs) : bool :=
  match e, o with
  | RLoad v fc cva, HLoad v' used rec de cva' =>
      N.eqb v v' && Bool.eqb used fc && Bool.eqb rec (negb fc) && Bool.eqb (is_none de) fc
      && (match de with Some x => caught x | None => true end) && Bool.eqb cva cva'
  | RAlready v, HAlready v' => N.eqb v v'
  | RNotLoaded, HNotLoaded => true
  | _, _ => false
  end.

(** expected observations, and whether "mtime and size identify the content" held at
    every load of the history (where it does not the property requires nothing) *)
Definition spec_hist (dwb again : bool) (m s : Z) (hs : list hstep) : list robs * bool :=
  let '(os, h, st) := ref_hist (mkrs 1%N m s None false 0%N dwb) (map r_step hs) in
  if again then
    let '(os2, h2, _) := ref_hist (mkrs (rs_ver st) (rs_mtime st) (rs_size st) (rs_cache st) false 0%N dwb) [RImport] in
    (os ++ os2, h && h2)
  else (os, h).

Definition spec_ok (c : case) (o : out) : bool :=
  match c, o with
  | CSweep hdr L m s, OSweep l =>
      N.eqb (total l) (N.of_nat (length hdr) + L + 1) && spec_sweep (valid_hdr m s hdr) l
  | CBatch L vs, OBatch rs => forall2b (spec_variant (N.to_nat L)) vs rs
  | CStale m s m' s', OStale hdr r =>
      if in_range m && in_range s then
        (* stats representable: the header is the reference encoding and only the very
           same stats are accepted *)
        bytes_eqb hdr (valid_file importer_magic m s [])
        && (if Z.eqb m m' && Z.eqb s s' then dres_eqb r DOk else fallback r)
      else
        (* outside 32 bits the property's guard does not hold (C14_stale_wraps_refuted):
           only "no escaping exception" is required *)
        dres_eqb r DOk || fallback r
  | CKwOps ops, OKw l =>
      Nat.eqb (length l) (length ops)
      && list_eqb Nat.eqb (map (fun e => N.to_nat (fst e)) l)
                  (ref_objects N.eqb (map (fun o => fst (fst o)) ops))
      && forallb (fun e => let '(a, b, c, d) := snd e in a && b && c && d) l
  | CImport p m s cross dwb again, OImport wv loaded recompiled same cva again_ok kid ksem de =>
      let valid := pert_valid p in
      wv && loaded && same
      && Bool.eqb recompiled (negb valid)
      && Bool.eqb (is_none de) valid
      && (match de with Some e => caught e | None => true end)
      && (if dwb then Bool.eqb cva valid else cva)
      && (if again then Bool.eqb again_ok (negb dwb || valid) else true)
      && kid && ksem
  | CXerr e, OXerr rt t rr r =>
      N.eqb rt 1 && N.eqb t 1 && oexc_eqb rr (Some e) && oexc_eqb r (Some e)
  | CHist dwb again m s hs, OHist l =>
      let (exp, honest) := spec_hist dwb again m s hs in
      if honest then forall2b hobs_ok exp l else true
  | CShape, OShape r =>
      (* the shape for which C14_reload_sees_current_source is stated (the other one is
         refuted by C14_reload_stale_when_stats_in_spec) *)
      option_eqb Bool.eqb r (Some false)
  | _, _ => false
  end.
