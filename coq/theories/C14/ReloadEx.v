(** C14, histories: the premises of [reload_sees_current_source] are met by a non-trivial
    history (toy marshal codec of Corr.v), and the same history refutes the property for
    the other shape of the loader (stats taken by find_spec and kept in the spec). *)
From Coq Require Import List NArith ZArith Bool Lia Arith.
Import ListNotations.
From Verif Require Import Common.ListX Gen.Tables C14.Cache C14.Spec C14.Corr C14.Proofs C14.Reload
  C14.ReloadProofs.

(** version 1 has mtime 1700000000, version 2 has mtime 1700000005, same size *)
Definition ex_reg (m s : Z) : tcode := if Z.eqb m 1700000000 then 1%N else 2%N.
Definition ex_f0 : fs N := mkfs 1%N 1700000000 100 None.
Definition ex_file2 : bytes := basilisp_bytecode tcode (t_dumps TL) 1700000005 100 2%N.

(** import; edit (same size, later mtime); reload; the cache is cut inside the payload;
    reload; invalidate_caches; reload *)
Definition ex_steps : list (step N) :=
  [SImport; SEdit 2%N 1700000005 100; SReload; SSetCache (Some (firstn 20 ex_file2)); SReload;
   SInvalidate; SReload].

Lemma ex_honest : honest_history tcode (t_dumps TL) N i_compile ex_reg ex_f0 ex_steps.
Proof.
  split; [split|].
  - apply B_missing.
  - reflexivity.
  - cbn [steps_honest ex_steps]. repeat split.
    apply (B_truncated tcode (t_dumps TL) ex_reg 1700000005 100 2%N 20). vm_compute. lia.
Qed.

(** per load of a history: the source version current at that moment, the code executed,
    whether it came from the cache, and the version the Vars show afterwards *)
Definition summary (l : list (fs N * obs tcode N * state tcode N)) : list (N * list tcode * bool * option tcode) :=
  flat_map (fun x => match x with
                     | (f, OLoad r, (_, p')) =>
                         [(f_src f, Corr.executed (r_trace r), existsb is_cached (r_trace r), p_vars p')]
                     | _ => []
                     end) l.

Definition ex_run (stats_in_spec : bool) :=
  run_hist tcode (t_dumps TL) (t_loads TL) N i_compile (fun _ => None) stats_in_spec (ex_f0, fresh) ex_steps.

Lemma ex_reload :
  honest_history tcode (t_dumps TL) N i_compile ex_reg ex_f0 ex_steps
  /\ summary (ex_run false)
     = [(1, [1], false, Some 1); (2, [2], false, Some 2); (2, [2], false, Some 2); (2, [2], true, Some 2)]%N
  /\ f_cache (fst (snd (last (ex_run false) (ex_f0, ONothing, (ex_f0, fresh))))) = Some ex_file2.
Proof. split; [exact ex_honest|]. vm_compute. split; reflexivity. Qed.

(** the other shape: the reload after the edit validates the cache against the stats of the
    first import, runs the code of version 1 and leaves version 1's Vars in place *)
Lemma reload_stale_when_stats_in_spec :
  honest_history tcode (t_dumps TL) N i_compile ex_reg ex_f0 ex_steps
  /\ exists f r f' p',
       In (f, OLoad r, (f', p')) (ex_run true)
       /\ f_src f = 2%N
       /\ Proofs.executed tcode (r_trace r) = [i_compile 1%N]
       /\ p_vars p' = Some (i_compile 1%N)
       /\ f_cache f' = Some (golden 1700000000 100).
Proof.
  split; [exact ex_honest|].
  pose (l := ex_run true). assert (E : ex_run true = l) by reflexivity.
  vm_compute in l. rewrite E. subst l.
  do 4 eexists. split; [right; right; left; reflexivity|].
  vm_compute. repeat split.
Qed.

(** ... the cut cache is then rejected (its header is not the one of the first import
    either), version 2 is compiled -- and written under the stats of the first import, a
    file no later process accepts; after invalidate_caches() exec_module falls back to the
    spec made by the reload itself and sees the file as it is *)
Lemma stats_in_spec_summary :
  summary (ex_run true)
  = [(1, [1], false, Some 1); (2, [1], true, Some 1); (2, [2], false, Some 2); (2, [2], false, Some 2)]%N.
Proof. vm_compute. reflexivity. Qed.
