(** C14 model, second part: one namespace file over the life of ONE process.

    Which methods of BasilispImporter run when (CPython 3.12 importlib + importer.py):

      first import   importlib.import_module -> _find_and_load: sys.modules miss ->
                     find_spec (a new ModuleSpec with its loader_state) ->
                     module_from_spec -> create_module (stores the spec in the importer's
                     own [_cache]) -> sys.modules[name] = module -> exec_module;
                     when exec_module raises the module is removed from sys.modules
      import again   sys.modules hit: nothing runs
      reload         importlib.reload (also Namespace.reload, (require 'ns :reload)):
                     find_spec (a NEW spec; module.__spec__ = spec) -> exec_module;
                     create_module is NOT called, so [_cache] keeps the spec of the first
                     import and exec_module takes its loader_state from THAT spec
      invalidate     importlib.invalidate_caches -> BasilispImporter.invalidate_caches:
                     [_cache] = {}; the next exec_module falls back to module.__spec__

      dont_write_bytecode  sys.dont_write_bytecode is process state, read by _exec_module

    exec_module calls path_stats(filename) itself, at every execution; that is what makes
    the stale spec of [_cache] harmless (filename and cache_filename do not change).  The
    parameter [stats_in_spec] describes the other shape -- find_spec stats the file once and
    leaves the result in loader_state, exec_module reads it from there -- for which the
    property fails on a reload ([reload_stale_when_stats_in_spec]). *)
From Coq Require Import List NArith ZArith Bool.
Import ListNotations.
From Verif Require Import Common.ListX Gen.Tables C14.Cache.

Section Process.
  Variable code : Type.
  Variable dumps : code -> bytes.
  Variable loads : bytes -> res code.
  Variable src : Type.
  Variable compile : src -> code.
  Variable run : code -> option exc.

  Variable stats_in_spec : bool.   (* false: the code as it is *)

  Notation fs := (fs src).
  Notation result := (result code src).

  (** ModuleSpec.loader_state as far as one file is concerned: "filename" and
      "cache_filename" are fixed; [sp_stats] is a key "path_stats" (absent in the code as it
      is); [sp_id] tells the specs of successive find_spec calls apart. *)
  Record mspec := mkspec { sp_id : nat; sp_stats : option (Z * Z) }.

  Record proc := mkproc {
    p_next : nat;                 (* number of find_spec calls so far *)
    p_icache : option mspec;      (* BasilispImporter._cache.get(fullname)["spec"] *)
    p_module : option mspec;      (* sys.modules.get(fullname).__spec__ *)
    p_vars : option code;         (* the code that (re)defined the namespace's Vars last *)
    p_dwb : bool                  (* sys.dont_write_bytecode *)
  }.

  Definition fresh : proc := mkproc 0 None None None false.

  (** path_stats: os.stat of the source file NOW *)
  Definition path_stats (f : fs) : Z * Z := (f_mtime f, f_size f).

  Definition find_spec (f : fs) (p : proc) : mspec * proc :=
    (mkspec (p_next p) (if stats_in_spec then Some (path_stats f) else None),
     mkproc (S (p_next p)) (p_icache p) (p_module p) (p_vars p) (p_dwb p)).

  (** create_module (and _load_unlocked's sys.modules[name] = module) *)
  Definition create_module (sp : mspec) (p : proc) : proc :=
    mkproc (p_next p) (Some sp) (Some sp) (p_vars p) (p_dwb p).

  Definition with_stats (f : fs) (st : Z * Z) : fs := mkfs (f_src f) (fst st) (snd st) (f_cache f).

  Definition last_executed (t : list (event code)) (before : option code) : option code :=
    fold_left (fun acc e => match e with EvRunCached c | EvRunSource c => Some c | EvWriteCache _ => acc end)
              t before.

  (** exec_module(module): the spec is the one of [_cache] when there is one, else
      module.__spec__ (then stored); the stats that validate the cache and go into a new
      cache file are [path_stats(filename)] -- or, in the other shape, what the spec holds *)
  Definition exec_module_h (f : fs) (p : proc) (module_spec : mspec) : result * proc :=
    let sp := match p_icache p with Some s => s | None => module_spec end in
    let st := match sp_stats sp with Some st => st | None => path_stats f end in
    let r := exec_module code dumps loads src compile run (p_dwb p) (with_stats f st) in
    (mkres (r_trace r) (r_raised r) (with_stats (r_fs r) (path_stats f)),
     mkproc (p_next p) (Some sp) (p_module p) (last_executed (r_trace r) (p_vars p)) (p_dwb p)).

  Inductive step :=
  | SImport                              (* importlib.import_module / (require 'ns) *)
  | SReload                              (* importlib.reload / Namespace.reload / (require 'ns :reload) *)
  | SInvalidate                          (* importlib.invalidate_caches() *)
  | SSetDwb (b : bool)                   (* sys.dont_write_bytecode = b *)
  | SEdit (s : src) (mtime size : Z)     (* the source file is replaced (or only touched) *)
  | SSetCache (d : option bytes).        (* something else happens to the cache file *)

  Inductive obs :=
  | ONothing                  (* not a load *)
  | OAlready                  (* import of a module that is in sys.modules: nothing runs *)
  | ONotLoaded                (* reload of a module that is not in sys.modules: ImportError *)
  | OLoad (r : result).

  Definition state : Type := fs * proc.

  Definition do_step (st : state) (s : step) : obs * state :=
    let (f, p) := st in
    match s with
    | SEdit s' m z => (ONothing, (mkfs s' m z (f_cache f), p))
    | SSetCache d => (ONothing, (set_cache f d, p))
    | SInvalidate => (ONothing, (f, mkproc (p_next p) None (p_module p) (p_vars p) (p_dwb p)))
    | SSetDwb b => (ONothing, (f, mkproc (p_next p) (p_icache p) (p_module p) (p_vars p) b))
    | SImport =>
        match p_module p with
        | Some _ => (OAlready, (f, p))
        | None =>
            let (sp, p1) := find_spec f p in
            let (r, p2) := exec_module_h f (create_module sp p1) sp in
            let p3 := match r_raised r with
                      | None => p2
                      | Some _ => mkproc (p_next p2) (p_icache p2) None (p_vars p2) (p_dwb p2)
                      end in
            (OLoad r, (r_fs r, p3))
        end
    | SReload =>
        match p_module p with
        | None => (ONotLoaded, (f, p))
        | Some _ =>
            let (sp, p1) := find_spec f p in
            let p1' := mkproc (p_next p1) (p_icache p1) (Some sp) (p_vars p1) (p_dwb p1) in
            let (r, p2) := exec_module_h f p1' sp in
            (OLoad r, (r_fs r, p2))
        end
    end.

  (** a history: for every step the file system it found, what was observed, and the
      state it left *)
  Fixpoint run_hist (st : state) (steps : list step) : list (fs * obs * state) :=
    match steps with
    | [] => []
    | s :: r => let (o, st') := do_step st s in (fst st, o, st') :: run_hist st' r
    end.
End Process.

Arguments mkproc {code}.
Arguments p_next {code}.
Arguments p_icache {code}.
Arguments p_module {code}.
Arguments p_vars {code}.
Arguments p_dwb {code}.
Arguments fresh {code}.
Arguments path_stats {src}.
Arguments with_stats {src}.
Arguments last_executed {code}.
Arguments OLoad {code src}.
Arguments ONothing {code src}.
Arguments OAlready {code src}.
Arguments ONotLoaded {code src}.
Arguments SImport {src}.
Arguments SReload {src}.
Arguments SInvalidate {src}.
Arguments SSetDwb {src}.
Arguments SEdit {src}.
Arguments SSetCache {src}.
