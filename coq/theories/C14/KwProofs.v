(** C14 proofs about keyword interning (keyword.py): what a keyword literal of cached code
    is in a process whose string hashes differ from the writer's. *)
From Coq Require Import List NArith ZArith Bool Lia Arith.
Import ListNotations.
From Verif Require Import Common.ListX C14.Cache.

Lemma kwname_eqb_eq a b : kwname_eqb a b = true <-> a = b.
Proof.
  destruct a as [a1 a2], b as [b1 b2]. unfold kwname_eqb. simpl.
  rewrite andb_true_iff, (option_eqb_spec str_eqb str_eqb_eq), str_eqb_eq.
  split; [intros [-> ->]; reflexivity|intro H; inversion H; auto].
Qed.

Section Keywords.
  Variable hash_kw : kwname -> Z.

  Notation intern := (intern).
  Notation step := (step hash_kw).
  Notation run_ops := (run_ops hash_kw).
  Notation kwop_key := (kwop_key hash_kw).

  (** ** one step *)
  Lemma step_cases t o :
    (exists k, val_at t (kwop_key o) = Some k /\ step t o = (k, t))
    \/ (val_at t (kwop_key o) = None
        /\ step t o = (mkkw (length t) (kwop_name o) (hash_kw (kwop_name o)),
                       (kwop_key o, mkkw (length t) (kwop_name o) (hash_kw (kwop_name o))) :: t)).
  Proof.
    unfold Cache.step, keyword_from_hash. destruct (val_at t (kwop_key o)) as [k|] eqn:E.
    - left. exists k. split; reflexivity.
    - right. split; reflexivity.
  Qed.

  Lemma step_val t o : val_at (snd (step t o)) (kwop_key o) = Some (fst (step t o)).
  Proof.
    destruct (step_cases t o) as [(k & E & ->)|(E & ->)]; simpl; [exact E|].
    now rewrite Z.eqb_refl.
  Qed.

  Lemma step_mono t o h k : val_at t h = Some k -> val_at (snd (step t o)) h = Some k.
  Proof.
    intro H. destruct (step_cases t o) as [(k' & E & ->)|(E & ->)]; simpl; [exact H|].
    destruct (Z.eqb h (kwop_key o)) eqn:Eh; [|exact H].
    apply Z.eqb_eq in Eh. subst h. congruence.
  Qed.

  (** ** semantics: name and hash of what a request returns *)
  Section Sem.
    (** no two requests of the history use one table key for two different names
        (no collision of the 64-bit hashes involved) *)
    Variable K : Z -> kwname.

    Definition sem_inv (t : intern) : Prop :=
      forall h k, val_at t h = Some k -> k_name k = K h /\ k_hash k = hash_kw (K h).

    Lemma step_sem t o :
      sem_inv t -> K (kwop_key o) = kwop_name o ->
      sem_inv (snd (step t o))
      /\ k_name (fst (step t o)) = kwop_name o
      /\ k_hash (fst (step t o)) = hash_kw (kwop_name o).
    Proof.
      intros I Ko. destruct (step_cases t o) as [(k & E & ->)|(E & ->)]; simpl.
      - destruct (I _ _ E) as [N H]. rewrite Ko in N, H. auto.
      - split; [|auto]. intros h k. simpl.
        destruct (Z.eqb h (kwop_key o)) eqn:Eh.
        + apply Z.eqb_eq in Eh. subst h. intro X; inversion X; subst k; simpl. rewrite Ko. auto.
        + apply I.
    Qed.

    Lemma run_ops_sem ops : forall t,
      sem_inv t -> Forall (fun o => K (kwop_key o) = kwop_name o) ops ->
      Forall2 (fun o k => k_name k = kwop_name o /\ k_hash k = hash_kw (kwop_name o))
              ops (fst (run_ops t ops)).
    Proof.
      induction ops as [|o r IH]; intros t I F; simpl; [constructor|].
      inversion F as [|? ? Ko Fr]; subst.
      destruct (step_sem t o I Ko) as (I' & N & H).
      destruct (step t o) as [k t1] eqn:Es. simpl in *.
      specialize (IH t1 I' Fr). destruct (run_ops t1 r) as [ks t2]. simpl in *.
      constructor; auto.
    Qed.
  End Sem.

  Lemma sem_inv_nil K : sem_inv K [].
  Proof. intros h k H. discriminate. Qed.

  (** the executable form of the premise *)
  Definition keys_consistentb (ops : list kwop) : bool :=
    forallb (fun o1 => forallb (fun o2 =>
      negb (Z.eqb (kwop_key o1) (kwop_key o2)) || kwname_eqb (kwop_name o1) (kwop_name o2)) ops) ops.

  Definition K_of (ops : list kwop) (h : Z) : kwname :=
    match find (fun o => Z.eqb (kwop_key o) h) ops with
    | Some o => kwop_name o
    | None => (None, [])
    end.

  Lemma K_of_ok ops :
    keys_consistentb ops = true -> Forall (fun o => K_of ops (kwop_key o) = kwop_name o) ops.
  Proof.
    intro H. apply Forall_forall. intros o Ho. unfold K_of.
    destruct (find (fun o' => Z.eqb (kwop_key o') (kwop_key o)) ops) as [o'|] eqn:E.
    - apply find_some in E as [Hin Hk].
      unfold keys_consistentb in H. rewrite forallb_forall in H.
      specialize (H o' Hin). rewrite forallb_forall in H. specialize (H o Ho).
      rewrite Hk in H. simpl in H. now apply kwname_eqb_eq.
    - exfalso. pose proof (find_none _ _ E o Ho) as X. simpl in X. now rewrite Z.eqb_refl in X.
  Qed.

  (** whatever hashes the literals carry (whatever process compiled them): the object a
      request yields has the requested name and THIS process's hash of it, so [=], [hash]
      and every hashed lookup treat it exactly as a keyword made here *)
  Theorem kw_semantics ops :
    keys_consistentb ops = true ->
    Forall2 (fun o k => k_name k = kwop_name o /\ k_hash k = hash_kw (kwop_name o))
            ops (fst (run_ops [] ops)).
  Proof.
    intro H. apply (run_ops_sem (K_of ops)); [apply sem_inv_nil|now apply K_of_ok].
  Qed.

  (** ** identity: which requests yield the same object *)
  Definition id_inv (t : intern) : Prop :=
    (forall h k, val_at t h = Some k -> (k_id k < length t)%nat)
    /\ (forall h h' k k', val_at t h = Some k -> val_at t h' = Some k' -> k_id k = k_id k' -> h = h').

  Lemma id_inv_nil : id_inv [].
  Proof. split; intros; discriminate. Qed.

  Lemma step_id t o : id_inv t -> id_inv (snd (step t o)).
  Proof.
    intros [B I]. destruct (step_cases t o) as [(k & E & ->)|(E & ->)]; simpl; [split; assumption|].
    split.
    - intros h k. simpl. destruct (Z.eqb h (kwop_key o)).
      + intro X; inversion X; simpl. lia.
      + intro X. apply B in X. lia.
    - intros h h' k k'. simpl.
      destruct (Z.eqb h (kwop_key o)) eqn:E1; destruct (Z.eqb h' (kwop_key o)) eqn:E2; intros X Y Z0.
      + apply Z.eqb_eq in E1, E2. congruence.
      + inversion X; subst k; simpl in Z0. apply B in Y. lia.
      + inversion Y; subst k'; simpl in Z0. apply B in X. lia.
      + eapply I; eassumption.
  Qed.

  Lemma run_ops_vals ops : forall t,
    id_inv t ->
    let r := run_ops t ops in
    id_inv (snd r)
    /\ (forall h k, val_at t h = Some k -> val_at (snd r) h = Some k)
    /\ Forall2 (fun o k => val_at (snd r) (kwop_key o) = Some k) ops (fst r).
  Proof.
    induction ops as [|o r IH]; intros t I; simpl.
    - repeat split; auto; try apply I.
    - pose proof (step_id t o I) as I1. pose proof (step_val t o) as V. pose proof (step_mono t o) as M.
      destruct (step t o) as [k t1]. simpl in *.
      destruct (IH t1 I1) as (I2 & M2 & F). destruct (run_ops t1 r) as [ks t2]. simpl in *.
      repeat split; try apply I2; auto.
  Qed.

  Lemma Forall2_nth {A B} (P : A -> B -> Prop) l1 l2 :
    Forall2 P l1 l2 -> forall i a b, nth_error l1 i = Some a -> nth_error l2 i = Some b -> P a b.
  Proof.
    induction 1; intros [|i] a b Ha Hb; simpl in *; try discriminate.
    - inversion Ha; inversion Hb; subst; assumption.
    - eapply IHForall2; eassumption.
  Qed.

  (** two requests of a process yield the very same object exactly when they present the
      same table key: a literal carries the hash computed by its compiler, a run-time
      construction uses the hash of the running process *)
  Theorem kw_identity_iff ops i j oi oj ki kj :
    nth_error ops i = Some oi -> nth_error ops j = Some oj ->
    nth_error (fst (run_ops [] ops)) i = Some ki -> nth_error (fst (run_ops [] ops)) j = Some kj ->
    (kw_identical ki kj = true <-> kwop_key oi = kwop_key oj).
  Proof.
    intros Hoi Hoj Hki Hkj.
    destruct (run_ops_vals ops [] id_inv_nil) as ([B I] & _ & F).
    pose proof (Forall2_nth _ _ _ F i oi ki Hoi Hki) as Vi.
    pose proof (Forall2_nth _ _ _ F j oj kj Hoj Hkj) as Vj. simpl in Vi, Vj.
    unfold kw_identical. rewrite Nat.eqb_eq. split; intro H.
    - eapply I; eassumption.
    - rewrite H in Vi. congruence.
  Qed.

  (** the case of the finding: a literal [:n] whose compiler computed hash [h], and
      [(keyword "n")] in the running process *)
  Corollary literal_vs_constructed h n a b :
    fst (run_ops [] [KLit h n; KNew n]) = [a; b] ->
    (kw_identical a b = true <-> h = hash_kw n)
    /\ kw_eq a b = true /\ k_hash a = k_hash b /\ k_name a = n /\ k_hash a = hash_kw n.
  Proof.
    intro E. split.
    - apply (kw_identity_iff [KLit h n; KNew n] 0 1 (KLit h n) (KNew n) a b); try reflexivity;
        rewrite E; reflexivity.
    - assert (C : keys_consistentb [KLit h n; KNew n] = true).
      { unfold keys_consistentb. simpl.
        assert (R : kwname_eqb n n = true) by now apply kwname_eqb_eq.
        rewrite R, !orb_true_r. reflexivity. }
      pose proof (kw_semantics _ C) as S. rewrite E in S.
      inversion S as [|? ? ? ? [Na Ha] S']; subst. inversion S' as [|? ? ? ? [Nb Hb] _]; subst.
      simpl in *. repeat split; try congruence.
      unfold kw_eq. rewrite Na, Nb.
      assert (R : kwname_eqb n n = true) by now apply kwname_eqb_eq.
      rewrite R. apply orb_true_r.
  Qed.
End Keywords.

(** the witness: hash(("kw", None)) is -7932231888299965713 under PYTHONHASHSEED=1 (the
    writer) and -5457030337372822090 under PYTHONHASHSEED=2 (the reader) *)
Lemma identity_refuted :
  exists (hash_kw : kwname -> Z) (h : Z) (n : kwname) (a b : kwobj),
    fst (run_ops hash_kw [] [KLit h n; KNew n]) = [a; b]
    /\ kw_identical a b = false /\ kw_eq a b = true /\ k_hash a = k_hash b.
Proof.
  exists (fun _ => (-5457030337372822090)%Z), (-7932231888299965713)%Z, (None, [107; 119]%N).
  eexists. eexists. vm_compute. repeat split.
Qed.
