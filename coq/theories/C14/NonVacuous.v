(** C14: the hypotheses of the theorems are satisfiable and their premises are met by
    non-trivial states (the toy marshal codec of Corr.v; concrete file systems). *)
From Coq Require Import List NArith ZArith Bool Lia Arith.
Import ListNotations.
From Verif Require Import Common.ListX Gen.Tables C14.Cache C14.Spec C14.Corr C14.Proofs C14.KwProofs.

Lemma toy_roundtrip L c : (1 <= L)%nat -> t_loads L (t_dumps L c) = Ok c.
Proof.
  intro H. unfold t_loads, t_dumps. rewrite repeat_length, Nat.ltb_irrefl, Nat.eqb_refl.
  destruct L; [lia|reflexivity].
Qed.

Lemma toy_prefix_fails L c n :
  (n < length (t_dumps L c))%nat -> t_loads L (firstn n (t_dumps L c)) = Raise EOFError.
Proof.
  unfold t_loads, t_dumps. rewrite repeat_length. intro H.
  rewrite firstn_length, repeat_length, Nat.min_l by lia.
  apply Nat.ltb_lt in H. now rewrite H.
Qed.

(** both marshal hypotheses hold of the toy codec *)
Lemma hypotheses_satisfiable :
  (forall c, t_loads TL (t_dumps TL c) = Ok c)
  /\ (forall c n, (n < length (t_dumps TL c))%nat -> t_loads TL (firstn n (t_dumps TL c)) = Raise EOFError).
Proof.
  split; [intro c; apply toy_roundtrip; unfold TL; lia|apply toy_prefix_fails].
Qed.

(** a cache cut in the middle of its payload is [unusable], and the loader does with it
    what [fallback_recompiles_and_rewrites] says *)
Definition ex_fs : fs N :=
  mkfs 1%N 1700000000%Z 321%Z (Some (firstn 20 (golden 1700000000 321))).

Lemma ex_unusable : unusable tcode (t_dumps TL) N ex_fs.
Proof.
  apply (U_truncated tcode (t_dumps TL) N ex_fs 1700000000 321 1%N 20); [vm_compute; lia|reflexivity].
Qed.

Lemma ex_fallback :
  let r := i_exec (fun _ => None) false ex_fs in
  r_trace r = [EvRunSource 1%N; EvWriteCache (golden 1700000000 321)]
  /\ r_raised r = None
  /\ r_trace (i_exec (fun _ => None) false (r_fs r)) = [EvRunCached 1%N].
Proof. vm_compute. repeat split. Qed.

(** a history mixing literals compiled under two other seeds with run-time constructions
    meets the premise of [kw_semantics] *)
Lemma ex_keys_consistent :
  keys_consistentb (toy_hash 0)
    [KLit (toy_hash 1 (kwn 7)) (kwn 7); KNew (kwn 7); KLit (toy_hash 2 (kwn 7)) (kwn 7);
     KLit (toy_hash 0 (kwn 8)) (kwn 8); KNew (kwn 8)] = true.
Proof. vm_compute. reflexivity. Qed.
