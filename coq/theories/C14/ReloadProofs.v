(** C14 proofs, second part: histories of one process (C14/Reload.v).

    For every history of imports, reloads, edits, damage to the cache file and
    invalidate_caches in which mtime and size identify the content ([honest_history]),
    every (re)load executes the code of the CURRENT source exactly once, takes it from the
    cache only when the header carries the current stats, and leaves behind the cache file
    of the current source. *)
From Coq Require Import List NArith ZArith Bool Lia Arith.
Import ListNotations.
From Verif Require Import Common.ListX Gen.Tables C14.Cache C14.Spec C14.Proofs C14.Reload.

Lemma r_long_le_val b : r_long b = le_val b.
Proof. induction b as [|x r IH]; simpl; [reflexivity|now rewrite IH]. Qed.

Lemma w_long_mod x : w_long (x mod two32) = w_long x.
Proof. unfold w_long. now rewrite Z.mod_mod by (unfold two32; lia). Qed.

Section Codec.
  Variable code : Type.
  Variable dumps : code -> bytes.
  Variable loads : bytes -> res code.

  Notation bytecode := (basilisp_bytecode code dumps).
  Notation get := (get_basilisp_bytecode code loads).

  Lemma bytecode_mod m s c m' s' :
    (m mod two32 = m')%Z -> (s mod two32 = s')%Z -> bytecode m s c = bytecode m' s' c.
  Proof.
    intros <- <-. unfold basilisp_bytecode. now rewrite !w_long_mod.
  Qed.

  (** whatever the bytes: the decoder returns code only when the header carries the magic
      number and exactly the stats it was asked about *)
  Lemma get_ok_header m s d c : get m s d = Ok c -> header_matches importer_magic m s d.
  Proof.
    unfold get_basilisp_bytecode, header_matches, slice. intro H.
    change (4 - 0)%nat with 4%nat in H. change (8 - 4)%nat with 4%nat in H.
    change (12 - 8)%nat with 4%nat in H. change (skipn 0 d) with d in H.
    destruct (bytes_eqb (firstn 4 d) importer_magic) eqn:E0; cbn [negb] in H; [|discriminate].
    destruct (Nat.eqb (length (firstn 4 (skipn 4 d))) 4) eqn:E1; cbn [negb] in H; [|discriminate].
    destruct (Z.eqb (Z.of_N (r_long (firstn 4 (skipn 4 d)))) m) eqn:E2; cbn [negb] in H; [|discriminate].
    destruct (Nat.eqb (length (firstn 4 (skipn 8 d))) 4) eqn:E3; cbn [negb] in H; [|discriminate].
    destruct (Z.eqb (Z.of_N (r_long (firstn 4 (skipn 8 d)))) s) eqn:E4; cbn [negb] in H; [|discriminate].
    apply bytes_eqb_eq in E0. apply Nat.eqb_eq in E3. apply Z.eqb_eq in E2, E4.
    rewrite r_long_le_val in E2, E4.
    rewrite firstn_length, skipn_length in E3.
    repeat split; try assumption. lia.
  Qed.

  Hypothesis H_marshal_roundtrip : forall c, loads (dumps c) = Ok c.
  Hypothesis H_marshal_prefix_fails :
    forall c n, (n < length (dumps c))%nat -> loads (firstn n (dumps c)) = Raise EOFError.

  Variable src : Type.
  Variable compile : src -> code.
  Variable run : code -> option exc.

  Notation fs := (fs src).
  Notation get_cached := (get_cached_code code loads src).
  Notation exec_source := (exec_source code dumps src compile run).
  Notation exec := (exec_module code dumps loads src compile run).
  Notation written := (written code dumps src compile).
  Notation executed := (executed code).
  Notation unusable := (unusable code dumps src).

  (** ** mtime and size identify the content *)
  (** [reg] assigns to every pair of stats (as 32-bit header fields show them) the code
      of the one content a file with these stats has.  A source state is honest when its
      code is the registered one; a cache file is benign when it is of one of the kinds the
      property talks about -- absent, shorter than a header, other magic, a proper prefix
      of a written file, or a complete file written for registered content. *)
  Variable reg : Z -> Z -> code.

  Definition registered (m s : Z) (c : code) : Prop := c = reg (m mod two32)%Z (s mod two32)%Z.

  Inductive benign : option bytes -> Prop :=
  | B_missing : benign None
  | B_short d : (length d < 12)%nat -> benign (Some d)
  | B_bad_magic d : slice 0 4 d <> importer_magic -> benign (Some d)
  | B_truncated m s c n : (n < length (bytecode m s c))%nat -> benign (Some (firstn n (bytecode m s c)))
  | B_complete m s c : registered m s c -> benign (Some (bytecode m s c)).

  Definition src_honest (f : fs) : Prop := registered (f_mtime f) (f_size f) (compile (f_src f)).
  Definition good (f : fs) : Prop := benign (f_cache f) /\ src_honest f.

  (** the kinds of damage of the correspondence keep a file benign *)
  Lemma benign_truncate d n : benign (Some d) -> benign (Some (firstn n d)).
  Proof.
    intro B. remember (Some d) as od eqn:E. destruct B as [|d' L|d' M|m s c k L|m s c R]; inversion E; subst.
    - apply B_short. rewrite firstn_length. lia.
    - destruct (Nat.lt_ge_cases n 4) as [Hn|Hn].
      + apply B_short. rewrite firstn_length. lia.
      + apply B_bad_magic. unfold slice in *. simpl skipn in *. change (4 - 0)%nat with 4%nat in *.
        rewrite firstn_firstn, Nat.min_l by lia. exact M.
    - rewrite firstn_firstn. apply B_truncated. lia.
    - destruct (Nat.lt_ge_cases n (length (bytecode m s c))) as [Hn|Hn].
      + now apply B_truncated.
      + rewrite firstn_all2 by lia. now apply B_complete.
  Qed.

  Lemma benign_other_magic b rest :
    length b = 4%nat -> b <> importer_magic -> benign (Some (b ++ rest)).
  Proof.
    intros L N. apply B_bad_magic. unfold slice. simpl skipn. change (4 - 0)%nat with 4%nat.
    now rewrite firstn_app_exact.
  Qed.

  Lemma benign_crashed_write (f : fs) m s c k :
    (k < length (bytecode m s c))%nat -> benign (f_cache (crashed_write f (bytecode m s c) k)).
  Proof. intro H. simpl. now apply B_truncated. Qed.

  (** ** one execution of exec_module on a good file system *)
  Lemma exec_cases dwb f : good f ->
    let c := compile (f_src f) in
    (exists e, get_cached f = Raise e /\ caught e = true /\ exec dwb f = exec_source dwb f)
    \/ (get_cached f = Ok c /\ f_cache f = Some (written f)
        /\ exec dwb f = mkres [EvRunCached c] (run c) f).
  Proof.
    intros [B S] c0. subst c0.
    assert (FB : forall e, get_cached f = Raise e -> caught e = true ->
                 exists e, get_cached f = Raise e /\ caught e = true /\ exec dwb f = exec_source dwb f).
    { intros e E C. exists e. repeat split; try assumption.
      apply (fallback_is_exec_source code dumps loads src compile run _ dwb f e E C). }
    assert (UN : unusable f ->
                 exists e, get_cached f = Raise e /\ caught e = true /\ exec dwb f = exec_source dwb f).
    { intro U. destruct (unusable_rejected code dumps loads H_marshal_prefix_fails src f U) as (e & E & C).
      now apply (FB e). }
    remember (f_cache f) as oc eqn:Ec. symmetry in Ec.
    destruct B as [|d L|d M|m s c n L|m s c R].
    - left. apply UN. now apply U_missing.
    - left. apply UN. now apply (U_short _ _ _ f d).
    - left. apply UN. now apply (U_bad_magic _ _ _ f d).
    - left. apply UN. now apply (U_truncated _ _ _ f m s c n).
    - destruct (complete_cache_cases code dumps loads H_marshal_roundtrip src f m s c Ec) as [(E & Em & Es)|E].
      + right.
        assert (c = compile (f_src f)) as ->.
        { unfold registered in R. unfold src_honest, registered in S.
          rewrite R, S, Em, Es, <- Em, <- Es.
          now rewrite !Z.mod_mod by (unfold two32; lia). }
        repeat split.
        * exact E.
        * unfold Proofs.written. now rewrite (bytecode_mod m s _ _ _ Em Es).
        * unfold exec_module. rewrite table_exec_outside_try. unfold exec_module_gen. rewrite E.
          destruct (run (compile (f_src f))); reflexivity.
      + left. apply (FB ImportError E caught_Import).
  Qed.

  (** what the property requires of one (re)load that found the file system [f], returned
      [r] and left the process with Vars defined by [vars] *)
  Definition load_ok (dwb : bool) (f : fs) (r : result code src) (vars : option code) : Prop :=
    let c := compile (f_src f) in
    executed (r_trace r) = [c] /\ r_raised r = run c /\ vars = Some c
    /\ (forall c', In (EvRunCached c') (r_trace r) ->
          exists d, f_cache f = Some d /\ header_matches importer_magic (f_mtime f) (f_size f) d)
    /\ (f_cache f = Some (written f) -> in_range (f_mtime f) = true -> in_range (f_size f) = true ->
          r_trace r = [EvRunCached c])
    /\ (r_raised r = None -> dwb = false -> f_cache (r_fs r) = Some (written f))
    /\ (r_raised r <> None \/ dwb = true -> r_fs r = f)
    /\ f_src (r_fs r) = f_src f /\ f_mtime (r_fs r) = f_mtime f /\ f_size (r_fs r) = f_size f.

  Lemma get_cached_header f c :
    get_cached f = Ok c ->
    exists d, f_cache f = Some d /\ header_matches importer_magic (f_mtime f) (f_size f) d.
  Proof.
    unfold get_cached_code, get_data. destruct (f_cache f) as [d|]; [|discriminate].
    intro H. exists d. split; [reflexivity|]. now apply (get_ok_header _ _ _ c).
  Qed.

  Lemma exec_load_ok dwb f before : good f ->
    let r := exec dwb f in
    load_ok dwb f r (last_executed (r_trace r) before) /\ good (r_fs r).
  Proof.
    intros G r. subst r. pose proof G as [B S].
    destruct (exec_cases dwb f G) as [(e & E & C & X)|(E & Hc & X)]; rewrite X.
    - (* compiled from source *)
      unfold Cache.exec_source.
      assert (NV : f_cache f = Some (written f) -> in_range (f_mtime f) = true -> in_range (f_size f) = true -> False).
      { intros Hc Hm Hs.
        pose proof (valid_cache_loads code dumps loads H_marshal_roundtrip src compile f Hc Hm Hs) as V.
        congruence. }
      destruct (run (compile (f_src f))) as [x|] eqn:R; [|destruct dwb eqn:D]; cbn [r_trace r_raised r_fs].
      + split; [|exact G]. unfold load_ok. cbn [r_trace r_raised r_fs]. rewrite R.
        repeat split; try reflexivity.
        * intros c' [H|[]]. discriminate H.
        * intros Hc Hm Hs. destruct (NV Hc Hm Hs).
        * intro H. discriminate H.
      + split; [|exact G]. unfold load_ok. cbn [r_trace r_raised r_fs]. rewrite R.
        repeat split; try reflexivity.
        * intros c' [H|[]]. discriminate H.
        * intros Hc Hm Hs. destruct (NV Hc Hm Hs).
        * intros _ H. congruence.
      + split.
        * unfold load_ok. cbn [r_trace r_raised r_fs]. rewrite R.
          repeat split; try reflexivity.
          -- intros c' [H|[H|[]]]; discriminate H.
          -- intros Hc Hm Hs. destruct (NV Hc Hm Hs).
          -- intros [H|H]; [now destruct H|congruence].
        * split; [|exact S]. cbn [set_cache f_cache]. apply B_complete. exact S.
    - (* taken from the cache *)
      split; [|exact G]. unfold load_ok. cbn [r_trace r_raised r_fs].
      repeat split; try reflexivity; try assumption.
      + intros c' _. now apply (get_cached_header f (compile (f_src f))).
      + intros _ _. exact Hc.
  Qed.

  (** ** histories *)
  Notation step := (step src).
  Notation proc := (proc code).
  Notation state := (state code src).
  Notation do_step := (do_step code dumps loads src compile run false).
  Notation run_hist := (run_hist code dumps loads src compile run false).
  Notation exec_module_h := (exec_module_h code dumps loads src compile run).

  Fixpoint steps_honest (steps : list step) : Prop :=
    match steps with
    | [] => True
    | SEdit s m z :: r => registered m z (compile s) /\ steps_honest r
    | SSetCache d :: r => benign d /\ steps_honest r
    | _ :: r => steps_honest r
    end.

  Definition honest_history (f0 : fs) (steps : list step) : Prop := good f0 /\ steps_honest steps.

  (** no spec of the process carries stats (the code as it is never puts them there) *)
  Definition no_stats (o : option mspec) : Prop := forall sp, o = Some sp -> sp_stats sp = None.
  Definition clean (p : proc) : Prop := no_stats (p_icache p) /\ no_stats (p_module p).

  Lemma with_stats_id (f : fs) : with_stats f (path_stats f) = f.
  Proof. now destruct f. Qed.

  Lemma exec_h_ok f p msp : good f -> clean p -> sp_stats msp = None ->
    let rp := exec_module_h f p msp in
    load_ok (p_dwb p) f (fst rp) (p_vars (snd rp)) /\ good (r_fs (fst rp)) /\ clean (snd rp)
    /\ p_module (snd rp) = p_module p /\ p_dwb (snd rp) = p_dwb p.
  Proof.
    intros G [Ci Cm] Hm rp. subst rp. unfold Reload.exec_module_h.
    assert (Hsp : sp_stats (match p_icache p with Some s => s | None => msp end) = None).
    { destruct (p_icache p) as [s|] eqn:E; [now apply Ci|exact Hm]. }
    rewrite Hsp, with_stats_id. cbn [fst snd p_vars p_module].
    destruct (exec_load_ok (p_dwb p) f (p_vars p) G) as [L G'].
    set (r := exec (p_dwb p) f) in *.
    destruct L as (L1 & L2 & L3 & L4 & L5 & L6 & L7 & L8 & L9 & L10).
    assert (W : with_stats (r_fs r) (path_stats f) = r_fs r).
    { unfold with_stats, path_stats. cbn [fst snd]. rewrite <- L9, <- L10. now destruct (r_fs r). }
    rewrite W. cbn [r_fs r_trace r_raised].
    split; [|split; [exact G'|split; [|split; reflexivity]]].
    - unfold load_ok. cbn [r_fs r_trace r_raised]. repeat split; assumption.
    - split; [|exact Cm]. cbn [p_icache]. intros sp E. inversion E; subst. exact Hsp.
  Qed.

  Definition inv (st : state) : Prop := good (fst st) /\ clean (snd st).

  Definition obs_ok (x : fs * obs code src * state) : Prop :=
    match x with
    | (f, OLoad r, (f', p')) => load_ok (p_dwb p') f r (p_vars p') /\ f' = r_fs r
    | _ => True
    end.

  Lemma find_spec_none f p :
    sp_stats (fst (find_spec code src false f p)) = None
    /\ p_icache (snd (find_spec code src false f p)) = p_icache p
    /\ p_module (snd (find_spec code src false f p)) = p_module p.
  Proof. repeat split. Qed.

  Lemma step_ok st s : inv st ->
    match s with SEdit s' m z => registered m z (compile s') | SSetCache d => benign d | _ => True end ->
    obs_ok (fst st, fst (do_step st s), snd (do_step st s)) /\ inv (snd (do_step st s)).
  Proof.
    destruct st as [f p]. intros [G [Ci Cm]] Hs. cbn [fst snd] in *.
    assert (C : clean p) by (split; assumption).
    assert (GI : inv (f, p)) by (split; assumption).
    destruct s as [| | |b|s' m z|d]; cbn [Reload.do_step].
    - (* import *)
      destruct (p_module p) as [ms|] eqn:Em; cbn [fst snd obs_ok].
      + split; [exact I|exact GI].
      + unfold find_spec, create_module. cbn [p_next p_icache p_module p_vars p_dwb].
        set (sp := mkspec (p_next p) None).
        set (p1 := mkproc (S (p_next p)) (Some sp) (Some sp) (p_vars p) (p_dwb p)).
        assert (C1 : clean p1) by (split; intros x E; inversion E; reflexivity).
        destruct (exec_h_ok f p1 sp G C1 eq_refl) as (L & G' & C' & M' & D').
        destruct (exec_module_h f p1 sp) as [r p2] eqn:Ex. cbn [fst snd] in *.
        change (p_dwb p1) with (p_dwb p) in *.
        destruct (r_raised r) eqn:Er; cbn [fst snd obs_ok p_vars p_dwb].
        * rewrite D'. split; [split; [exact L|reflexivity]|]. split; [exact G'|].
          destruct C' as [C'1 C'2]. split; [exact C'1|]. intros x E. discriminate E.
        * rewrite D'. split; [split; [exact L|reflexivity]|]. now split.
    - (* reload *)
      destruct (p_module p) as [ms|] eqn:Em; cbn [fst snd obs_ok].
      + unfold find_spec. cbn [p_next p_icache p_module p_vars p_dwb].
        set (sp := mkspec (p_next p) None).
        set (p1 := mkproc (S (p_next p)) (p_icache p) (Some sp) (p_vars p) (p_dwb p)).
        assert (C1 : clean p1) by (split; [exact Ci|intros x E; inversion E; reflexivity]).
        destruct (exec_h_ok f p1 sp G C1 eq_refl) as (L & G' & C' & M' & D').
        destruct (exec_module_h f p1 sp) as [r p2] eqn:Ex. cbn [fst snd] in *.
        change (p_dwb p1) with (p_dwb p) in *.
        rewrite D'. split; [split; [exact L|reflexivity]|]. now split.
      + split; [exact I|exact GI].
    - (* invalidate_caches *)
      cbn [fst snd obs_ok]. split; [exact I|]. split; [exact G|].
      split; [intros x E; discriminate E|exact Cm].
    - (* dont_write_bytecode *)
      cbn [fst snd obs_ok]. split; [exact I|]. split; [exact G|]. now split.
    - (* edit *)
      cbn [fst snd obs_ok]. split; [exact I|]. split; [|now split].
      destruct G as [B S]. split; [exact B|exact Hs].
    - (* the cache file changes *)
      cbn [fst snd obs_ok]. split; [exact I|]. split; [|now split].
      destruct G as [B S]. split; [exact Hs|]. now destruct f.
  Qed.

  Lemma hist_ok steps : forall st, inv st -> steps_honest steps -> Forall obs_ok (run_hist st steps).
  Proof.
    induction steps as [|s r IH]; intros st I H; cbn [Reload.run_hist]; [constructor|].
    assert (Hs : match s with SEdit s' m z => registered m z (compile s') | SSetCache d => benign d | _ => True end
                 /\ steps_honest r).
    { destruct s; cbn [steps_honest] in H; try (split; [exact Logic.I|exact H]); exact H. }
    destruct Hs as [Hs Hr].
    destruct (step_ok st s I Hs) as [O I'].
    destruct (do_step st s) as [o st'] eqn:E. cbn [fst snd] in *.
    constructor; [exact O|]. now apply IH.
  Qed.

  (** for all histories *)
  Theorem reload_sees_current_source f0 steps :
    honest_history f0 steps ->
    forall f r f' p',
    In (f, OLoad r, (f', p')) (run_hist (f0, fresh) steps) ->
    let c := compile (f_src f) in
    executed (r_trace r) = [c] /\ r_raised r = run c /\ p_vars p' = Some c
    /\ (forall c', In (EvRunCached c') (r_trace r) ->
          exists d, f_cache f = Some d /\ header_matches importer_magic (f_mtime f) (f_size f) d)
    /\ (f_cache f = Some (written f) -> in_range (f_mtime f) = true -> in_range (f_size f) = true ->
          r_trace r = [EvRunCached c])
    /\ (r_raised r = None -> p_dwb p' = false -> f_cache f' = Some (written f))
    /\ (r_raised r <> None \/ p_dwb p' = true -> f' = f)
    /\ f_src f' = f_src f /\ f_mtime f' = f_mtime f /\ f_size f' = f_size f.
  Proof.
    intros [G H] f r f' p' Hin.
    assert (I0 : inv (f0, fresh)).
    { split; [exact G|]. split; intros x E; discriminate E. }
    pose proof (hist_ok steps _ I0 H) as F. rewrite Forall_forall in F.
    destruct (F _ Hin) as [L ->]. exact L.
  Qed.
End Codec.
