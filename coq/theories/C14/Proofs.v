(** C14 proofs: codec, header checks, truncation, staleness, the loader automaton. *)
From Coq Require Import List NArith ZArith Bool Lia Arith.
Import ListNotations.
From Verif Require Import Common.ListX Gen.Tables C14.Cache C14.Spec.

(** * Obligations on the regenerated tables *)
Lemma magic_len : length importer_magic = 4%nat.
Proof. reflexivity. Qed.

Lemma magic_bytes : forallb (fun b => N.ltb b 256) importer_magic = true.
Proof. vm_compute. reflexivity. Qed.

Lemma table_checks : importer_header_checks = encode_checks model_checks.
Proof. vm_compute. reflexivity. Qed.

Lemma table_layout :
  importer_slices = [(0, 4); (4, 8); (8, 12); (12, 0)]%N
  /\ importer_write_layout = [1; 2; 3; 4]%N
  /\ importer_long_codec = [4294967295; 4; 1; 1]%N.
Proof. vm_compute. repeat split. Qed.

(** every class the cache-reading stage of the model can raise on an unusable file
    (see [unusable_rejected]) is in the [except] tuple of exec_module *)
Lemma table_caught_covers : forallb caught [EOFError; ImportError; OSError] = true.
Proof. vm_compute. reflexivity. Qed.

Lemma table_exec_outside_try : importer_exec_in_try = false.
Proof. reflexivity. Qed.

Lemma caught_EOF : caught EOFError = true.
Proof. vm_compute. reflexivity. Qed.
Lemma caught_Import : caught ImportError = true.
Proof. vm_compute. reflexivity. Qed.
Lemma caught_OS : caught OSError = true.
Proof. vm_compute. reflexivity. Qed.

(** * _w_long / _r_long *)
Lemma bytes_eqb_eq a b : bytes_eqb a b = true <-> a = b.
Proof. apply list_eqb_spec. intros; apply N.eqb_eq. Qed.

Lemma bytes_eqb_refl a : bytes_eqb a a = true.
Proof. apply bytes_eqb_eq; reflexivity. Qed.

Lemma bytes_eqb_neq a b : a <> b -> bytes_eqb a b = false.
Proof.
  intro H. destruct (bytes_eqb a b) eqn:E; [|reflexivity].
  apply bytes_eqb_eq in E. contradiction.
Qed.

Lemma to_le_length k : forall v, length (to_le k v) = k.
Proof. induction k; intro v; simpl; [reflexivity|]. now rewrite IHk. Qed.

Lemma r_long_to_le k : forall v, (v < 256 ^ N.of_nat k)%N -> r_long (to_le k v) = v.
Proof.
  induction k as [|k IH]; intros v Hv.
  - simpl in *. lia.
  - cbn [to_le r_long]. rewrite IH.
    + pose proof (N.div_mod' v 256). lia.
    + rewrite Nat2N.inj_succ, N.pow_succ_r' in Hv.
      apply N.div_lt_upper_bound; lia.
Qed.

Lemma w_long_length x : length (w_long x) = 4%nat.
Proof. apply to_le_length. Qed.

Lemma two32_pos : (0 < two32)%Z.
Proof. reflexivity. Qed.

Lemma r_w_long x : Z.of_N (r_long (w_long x)) = (x mod two32)%Z.
Proof.
  unfold w_long. pose proof (Z.mod_pos_bound x two32 two32_pos) as B.
  rewrite r_long_to_le.
  - rewrite Z2N.id; lia.
  - change (256 ^ N.of_nat 4)%N with (Z.to_N two32). apply Z2N.inj_lt; lia.
Qed.

Lemma in_range_iff x : in_range x = true <-> (0 <= x < two32)%Z.
Proof.
  unfold in_range, two32. rewrite andb_true_iff, Z.leb_le, Z.ltb_lt. reflexivity.
Qed.

Lemma in_range_mod x : in_range x = true <-> (x mod two32 = x)%Z.
Proof.
  rewrite in_range_iff. split; intro H.
  - apply Z.mod_small; exact H.
  - rewrite <- H. apply Z.mod_pos_bound. reflexivity.
Qed.

(** the model's writer produces the specification's reference encoding *)
Lemma w_long_le32 x : in_range x = true -> w_long x = le32 (Z.to_N x).
Proof.
  intro H. apply in_range_mod in H. unfold w_long. rewrite H.
  unfold le32. cbn [to_le]. rewrite !N.div_div by lia. reflexivity.
Qed.

(** * Slices *)
Lemma slice_length a b (d : bytes) : length (slice a b d) = Nat.min (b - a) (length d - a).
Proof. unfold slice. now rewrite firstn_length, skipn_length. Qed.

Lemma skipn_app_exact {A} (l1 l2 : list A) n : length l1 = n -> skipn n (l1 ++ l2) = l2.
Proof.
  intro H. subst n. rewrite skipn_app, skipn_all, Nat.sub_diag. reflexivity.
Qed.

Lemma firstn_app_exact {A} (l1 l2 : list A) n : length l1 = n -> firstn n (l1 ++ l2) = l1.
Proof.
  intro H. subst n. rewrite firstn_app, firstn_all, Nat.sub_diag. simpl. now rewrite app_nil_r.
Qed.

Section Header.
  (** a file that starts with a full 12-byte header *)
  Variables (g a b p : bytes).
  Hypothesis Hg : length g = 4%nat.
  Hypothesis Ha : length a = 4%nat.
  Hypothesis Hb : length b = 4%nat.

  Lemma slice_magic : slice 0 4 (g ++ a ++ b ++ p) = g.
  Proof. unfold slice. simpl skipn. change (4 - 0)%nat with 4%nat. now apply firstn_app_exact. Qed.

  Lemma slice_ts : slice 4 8 (g ++ a ++ b ++ p) = a.
  Proof.
    unfold slice. rewrite skipn_app_exact by exact Hg.
    change (8 - 4)%nat with 4%nat. now apply firstn_app_exact.
  Qed.

  Lemma slice_sz : slice 8 12 (g ++ a ++ b ++ p) = b.
  Proof.
    unfold slice. rewrite app_assoc. rewrite skipn_app_exact by (rewrite app_length; lia).
    change (12 - 8)%nat with 4%nat. now apply firstn_app_exact.
  Qed.

  Lemma skip_payload : skipn 12 (g ++ a ++ b ++ p) = p.
  Proof.
    rewrite !app_assoc. apply skipn_app_exact. rewrite !app_length. lia.
  Qed.
End Header.

Section Codec.
  Variable code : Type.
  Variable dumps : code -> bytes.
  Variable loads : bytes -> res code.

  Notation bytecode := (basilisp_bytecode code dumps).
  Notation get := (get_basilisp_bytecode code loads).

  (** the function is the interpreter of the extracted check table *)
  Lemma get_is_run_checks m s d :
    get m s d = match run_checks model_checks m s d with
                | Some e => Raise e
                | None => loads (skipn 12 d)
                end.
  Proof.
    unfold get_basilisp_bytecode, run_checks, model_checks, check_fires.
    repeat match goal with |- context [if negb ?c then _ else _] => destruct c; simpl end;
      reflexivity.
  Qed.

  (** what the checks do on a file with a complete header *)
  Lemma get_full_header (g a b p : bytes) m s :
    length g = 4%nat -> length a = 4%nat -> length b = 4%nat ->
    get m s (g ++ a ++ b ++ p) =
      if negb (bytes_eqb g importer_magic) then Raise ImportError
      else if negb (Z.eqb (Z.of_N (r_long a)) m) then Raise ImportError
      else if negb (Z.eqb (Z.of_N (r_long b)) s) then Raise ImportError
      else loads p.
  Proof.
    intros Hg Ha Hb. unfold get_basilisp_bytecode.
    rewrite (slice_magic g a b p Hg), (slice_ts g a b p Hg Ha), (slice_sz g a b p Hg Ha Hb),
      (skip_payload g a b p Hg Ha Hb), Ha, Hb.
    simpl. destruct (bytes_eqb g importer_magic); simpl; [|reflexivity].
    destruct (Z.eqb (Z.of_N (r_long a)) m); reflexivity.
  Qed.

  Lemma get_written m s m' s' (p : bytes) :
    get m' s' (importer_magic ++ w_long m ++ w_long s ++ p) =
      if negb (Z.eqb (m mod two32) m') then Raise ImportError
      else if negb (Z.eqb (s mod two32) s') then Raise ImportError
      else loads p.
  Proof.
    rewrite get_full_header by (try apply w_long_length; apply magic_len).
    rewrite bytes_eqb_refl, !r_w_long. reflexivity.
  Qed.

  (** any file shorter than the header is rejected by the header checks alone *)
  Lemma short_rejected m s d :
    (length d < 12)%nat ->
    get m s d = Raise ImportError \/ get m s d = Raise EOFError.
  Proof.
    intro H. unfold get_basilisp_bytecode.
    destruct (negb (bytes_eqb (slice 0 4 d) importer_magic)); [now left|].
    destruct (negb (length (slice 4 8 d) =? 4)%nat) eqn:E1; [now right|].
    destruct (negb (Z.of_N (r_long (slice 4 8 d)) =? m)%Z); [now left|].
    destruct (negb (length (slice 8 12 d) =? 4)%nat) eqn:E2; [now right|].
    exfalso. apply negb_false_iff, Nat.eqb_eq in E2. rewrite slice_length in E2. lia.
  Qed.

  Lemma bad_magic_rejected m s d :
    slice 0 4 d <> importer_magic -> get m s d = Raise ImportError.
  Proof.
    intro H. unfold get_basilisp_bytecode. now rewrite (bytes_eqb_neq _ _ H).
  Qed.

  Hypothesis H_marshal_roundtrip : forall c, loads (dumps c) = Ok c.

  Lemma roundtrip m s c :
    get m s (bytecode m s c) =
      if in_range m && in_range s then Ok c else Raise ImportError.
  Proof.
    unfold basilisp_bytecode. rewrite get_written.
    destruct (in_range m) eqn:Em.
    - apply in_range_mod in Em. rewrite Em, Z.eqb_refl. simpl.
      destruct (in_range s) eqn:Es.
      + apply in_range_mod in Es. rewrite Es, Z.eqb_refl. simpl. apply H_marshal_roundtrip.
      + destruct (Z.eqb (s mod two32) s) eqn:E; [|reflexivity].
        apply Z.eqb_eq, in_range_mod in E. congruence.
    - destruct (Z.eqb (m mod two32) m) eqn:E; [|reflexivity].
      apply Z.eqb_eq, in_range_mod in E. congruence.
  Qed.

  Lemma stale_rejected m s m' s' c :
    in_range m = true -> in_range s = true -> (m, s) <> (m', s') ->
    get m' s' (bytecode m s c) = Raise ImportError.
  Proof.
    intros Hm Hs Hne. unfold basilisp_bytecode. rewrite get_written.
    apply in_range_mod in Hm, Hs. rewrite Hm, Hs.
    destruct (Z.eqb m m') eqn:E1; [|reflexivity].
    destruct (Z.eqb s s') eqn:E2; [|reflexivity].
    apply Z.eqb_eq in E1, E2. congruence.
  Qed.

  Lemma stale_wraps c : get 0 5 (bytecode 0 4294967301 c) = Ok c.
  Proof. unfold basilisp_bytecode. rewrite get_written. simpl. apply H_marshal_roundtrip. Qed.

  Hypothesis H_marshal_prefix_fails :
    forall c n, (n < length (dumps c))%nat -> loads (firstn n (dumps c)) = Raise EOFError.

  Lemma bytecode_length m s c : length (bytecode m s c) = (12 + length (dumps c))%nat.
  Proof.
    unfold basilisp_bytecode. rewrite !app_length, !w_long_length, magic_len. lia.
  Qed.

  Lemma firstn_bytecode m s c n :
    (12 <= n)%nat ->
    firstn n (bytecode m s c) = importer_magic ++ w_long m ++ w_long s ++ firstn (n - 12) (dumps c).
  Proof.
    intro H. unfold basilisp_bytecode.
    rewrite firstn_app, magic_len.
    rewrite (firstn_all2 importer_magic) by (rewrite magic_len; lia). f_equal.
    rewrite firstn_app, w_long_length.
    rewrite (firstn_all2 (w_long m)) by (rewrite w_long_length; lia). f_equal.
    rewrite firstn_app, w_long_length.
    rewrite (firstn_all2 (w_long s)) by (rewrite w_long_length; lia). f_equal.
    f_equal. lia.
  Qed.

  (** every proper prefix of a written cache file, whatever the stats it is read against *)
  Lemma truncated_rejected m s c m' s' n :
    (n < length (bytecode m s c))%nat ->
    get m' s' (firstn n (bytecode m s c)) = Raise ImportError
    \/ get m' s' (firstn n (bytecode m s c)) = Raise EOFError.
  Proof.
    intro H. destruct (Nat.lt_ge_cases n 12) as [Hn|Hn].
    - apply short_rejected. rewrite firstn_length. lia.
    - rewrite firstn_bytecode by exact Hn. rewrite get_written.
      destruct (negb _); [now left|]. destruct (negb _); [now left|].
      right. apply H_marshal_prefix_fails. rewrite bytecode_length in H. lia.
  Qed.

  Lemma truncated_caught m s c m' s' n :
    (n < length (bytecode m s c))%nat ->
    exists e, get m' s' (firstn n (bytecode m s c)) = Raise e /\ caught e = true.
  Proof.
    intro H. destruct (truncated_rejected m s c m' s' n H) as [E|E]; rewrite E.
    - exists ImportError. split; [reflexivity|apply caught_Import].
    - exists EOFError. split; [reflexivity|apply caught_EOF].
  Qed.

  (** * The loader *)
  Variable src : Type.
  Variable compile : src -> code.
  Variable run : code -> option exc.

  Notation fs := (fs src).
  Notation get_cached := (get_cached_code code loads src).
  Notation exec_source := (exec_source code dumps src compile run).
  Notation exec_gen := (exec_module_gen code dumps loads src compile run).
  Notation exec := (exec_module code dumps loads src compile run).

  Definition executed (t : list (event code)) : list code :=
    flat_map (fun e => match e with EvRunCached c | EvRunSource c => [c] | EvWriteCache _ => [] end) t.

  (** the cache files the property calls unusable *)
  Inductive unusable (f : fs) : Prop :=
  | U_missing : f_cache f = None -> unusable f
  | U_short d : f_cache f = Some d -> (length d < 12)%nat -> unusable f
  | U_bad_magic d : f_cache f = Some d -> slice 0 4 d <> importer_magic -> unusable f
  | U_truncated m s c n :
      (n < length (bytecode m s c))%nat -> f_cache f = Some (firstn n (bytecode m s c)) -> unusable f
  | U_stale m s c :
      in_range m = true -> in_range s = true -> (m, s) <> (f_mtime f, f_size f) ->
      f_cache f = Some (bytecode m s c) -> unusable f.

  Lemma unusable_rejected f : unusable f -> exists e, get_cached f = Raise e /\ caught e = true.
  Proof.
    unfold get_cached_code, get_data.
    intros [H|d H L|d H M|m s c n L H|m s c Hm Hs Hne H]; rewrite H.
    - exists OSError. split; [reflexivity|apply caught_OS].
    - destruct (short_rejected (f_mtime f) (f_size f) d L) as [E|E]; rewrite E.
      + exists ImportError. split; [reflexivity|apply caught_Import].
      + exists EOFError. split; [reflexivity|apply caught_EOF].
    - rewrite bad_magic_rejected by exact M.
      exists ImportError. split; [reflexivity|apply caught_Import].
    - apply truncated_caught. exact L.
    - rewrite stale_rejected by assumption.
      exists ImportError. split; [reflexivity|apply caught_Import].
  Qed.

  Definition written (f : fs) : bytes := bytecode (f_mtime f) (f_size f) (compile (f_src f)).

  Lemma fallback_is_exec_source in_try dwb f e :
    get_cached f = Raise e -> caught e = true -> exec_gen in_try dwb f = exec_source dwb f.
  Proof. intros H C. unfold exec_module_gen. now rewrite H, C. Qed.

  Lemma valid_cache_loads f :
    f_cache f = Some (written f) -> in_range (f_mtime f) = true -> in_range (f_size f) = true ->
    get_cached f = Ok (compile (f_src f)).
  Proof.
    intros H Hm Hs. unfold get_cached_code, get_data. rewrite H. unfold written.
    rewrite roundtrip, Hm, Hs. reflexivity.
  Qed.

  (** any unusable cache: compiled from source, executed once, the valid file written,
      and the next import uses it without compiling *)
  Lemma fallback_recompiles_and_rewrites in_try f :
    unusable f -> run (compile (f_src f)) = None ->
    let c := compile (f_src f) in
    let r := exec_gen in_try false f in
    r_trace r = [EvRunSource c; EvWriteCache (written f)]
    /\ r_raised r = None
    /\ r_fs r = set_cache f (Some (written f))
    /\ (in_range (f_mtime f) = true -> in_range (f_size f) = true ->
        exec_gen in_try false (r_fs r) = mkres [EvRunCached c] None (r_fs r)).
  Proof.
    intros U R c r. destruct (unusable_rejected f U) as (e & E & C).
    subst r c. rewrite (fallback_is_exec_source in_try false f e E C).
    unfold Cache.exec_source. rewrite R. cbn [r_trace r_raised r_fs]. repeat split.
    intros Hm Hs.
    pose proof (valid_cache_loads (set_cache f (Some (written f))) eq_refl Hm Hs) as V.
    unfold written in V. cbn [f_src f_mtime f_size set_cache] in V. unfold exec_module_gen. rewrite V. now rewrite R.
  Qed.

  (** with bytecode writing off the unusable file is left alone *)
  Lemma fallback_without_writing in_try f :
    unusable f ->
    let c := compile (f_src f) in
    let r := exec_gen in_try true f in
    r_trace r = [EvRunSource c] /\ r_raised r = run c /\ r_fs r = f.
  Proof.
    intros U c r. destruct (unusable_rejected f U) as (e & E & C).
    subst r c. rewrite (fallback_is_exec_source in_try true f e E C).
    unfold Cache.exec_source. destruct (run (compile (f_src f))); simpl; repeat split.
  Qed.

  (** a crash at any point of the truncate-then-write leaves an unusable file *)
  Lemma crashed_write_unusable f m s c k :
    (k < length (bytecode m s c))%nat -> unusable (crashed_write f (bytecode m s c) k).
  Proof. intro H. eapply U_truncated; [exact H|reflexivity]. Qed.

  (** "mtime and size identify the content": a complete file made for stats that read as
      the current ones was made from the current source *)
  Definition honest (f : fs) : Prop :=
    forall m s c, f_cache f = Some (bytecode m s c) ->
      (m mod two32 = f_mtime f)%Z -> (s mod two32 = f_size f)%Z -> c = compile (f_src f).

  Lemma complete_cache_cases f m s c :
    f_cache f = Some (bytecode m s c) ->
    (get_cached f = Ok c /\ (m mod two32 = f_mtime f)%Z /\ (s mod two32 = f_size f)%Z)
    \/ get_cached f = Raise ImportError.
  Proof.
    intro H. unfold get_cached_code, get_data. rewrite H. unfold basilisp_bytecode.
    rewrite get_written.
    destruct (Z.eqb (m mod two32) (f_mtime f)) eqn:E1; simpl; [|now right].
    destruct (Z.eqb (s mod two32) (f_size f)) eqn:E2; simpl; [|now right].
    apply Z.eqb_eq in E1, E2. left. repeat split; try assumption. apply H_marshal_roundtrip.
  Qed.

  (** transparency: the code of the current source is executed, exactly once, and the
      import raises what that code raises -- as a from-source load does *)
  Lemma transparent dwb f :
    (unusable f \/ exists m s c, f_cache f = Some (bytecode m s c)) -> honest f ->
    let r := exec dwb f in
    executed (r_trace r) = [compile (f_src f)] /\ r_raised r = run (compile (f_src f)).
  Proof.
    intros [U|(m & s & c & Hc)] Hon r; subst r; unfold exec_module; rewrite table_exec_outside_try.
    - destruct (unusable_rejected f U) as (e & E & C).
      rewrite (fallback_is_exec_source false dwb f e E C). unfold Cache.exec_source.
      destruct (run (compile (f_src f))); [|destruct dwb]; simpl; split; reflexivity.
    - destruct (complete_cache_cases f m s c Hc) as [(E & Em & Es)|E].
      + pose proof (Hon m s c Hc Em Es) as ->. unfold exec_module_gen. rewrite E.
        destruct (run (compile (f_src f))); simpl; split; reflexivity.
      + rewrite (fallback_is_exec_source false dwb f ImportError E caught_Import). unfold Cache.exec_source.
        destruct (run (compile (f_src f))); [|destruct dwb]; simpl; split; reflexivity.
  Qed.

  (** the shape of exec_module before the repair: an exception of a caught class raised
      by the cached code itself made the loader run the module a second time *)
  Lemma retried_when_in_try dwb f c e :
    get_cached f = Ok c -> run c = Some e -> caught e = true ->
    executed (r_trace (exec_gen true dwb f)) = [c; compile (f_src f)].
  Proof.
    intros H R C. unfold exec_module_gen. rewrite H, R, C. simpl. unfold Cache.exec_source.
    destruct (run (compile (f_src f))); [|destruct dwb]; reflexivity.
  Qed.

  Lemma not_retried dwb f c :
    get_cached f = Ok c ->
    r_trace (exec dwb f) = [EvRunCached c] /\ r_raised (exec dwb f) = run c /\ r_fs (exec dwb f) = f.
  Proof.
    intro H. unfold exec_module. rewrite table_exec_outside_try. unfold exec_module_gen. rewrite H.
    destruct (run c); simpl; repeat split.
  Qed.
End Codec.
