(** C14 model: the bytecode cache of basilisp/importer.py as it is, and keyword interning
    as in basilisp/lang/keyword.py.

      MAGIC_NUMBER, _w_long, _r_long, _basilisp_bytecode, _get_basilisp_bytecode
      BasilispImporter.get_data / set_data / _exec_module / _exec_cached_module / exec_module
      keyword_from_hash / keyword (intern table keyed by hash only)

    [marshal], the compiler and the execution of a module's code are parameters of a
    Section; the theorems state as named hypotheses what they need from them.  The pieces
    regenerated from the source on every check ([importer_magic], [importer_caught],
    [importer_exec_in_try], the header check table) are used by the model directly. *)
From Coq Require Import List NArith ZArith Bool.
Import ListNotations.
From Verif Require Import Common.ListX Gen.Tables.

Definition bytes := list N.
Definition bytes_eqb : bytes -> bytes -> bool := list_eqb N.eqb.

(** ** Exceptions (the classes the cache path can see) *)
Inductive exc := EOFError | ImportError | OSError | ValueError | TypeError.

Definition exc_eqb (a b : exc) : bool :=
  match a, b with
  | EOFError, EOFError | ImportError, ImportError | OSError, OSError
  | ValueError, ValueError | TypeError, TypeError => true
  | _, _ => false
  end.

Definition exc_name (e : exc) : str :=
  match e with
  | EOFError => [69; 79; 70; 69; 114; 114; 111; 114]
  | ImportError => [73; 109; 112; 111; 114; 116; 69; 114; 114; 111; 114]
  | OSError => [79; 83; 69; 114; 114; 111; 114]
  | ValueError => [86; 97; 108; 117; 101; 69; 114; 114; 111; 114]
  | TypeError => [84; 121; 112; 101; 69; 114; 114; 111; 114]
  end%N.

(** [except (EOFError, ImportError, OSError)] of exec_module: the tuple is the regenerated
    table; the five classes of the model are not subclasses of one another. *)
Definition caught (e : exc) : bool := existsb (str_eqb (exc_name e)) importer_caught.

Inductive res (A : Type) := Ok (a : A) | Raise (e : exc).
Arguments Ok {A} a.
Arguments Raise {A} e.

(** ** _w_long / _r_long *)
Definition two32 : Z := 4294967296.

Fixpoint to_le (k : nat) (v : N) : bytes :=
  match k with O => [] | S k' => (v mod 256)%N :: to_le k' (v / 256)%N end.

(** [(int(x) & 0xFFFFFFFF).to_bytes(4, "little")]; on Python ints [&] with a non-negative
    mask is the mathematical [mod]. *)
Definition w_long (x : Z) : bytes := to_le 4 (Z.to_N (x mod two32)).

(** [int.from_bytes(b, "little")], for a slice of any length (also shorter than 4). *)
Fixpoint r_long (b : bytes) : N :=
  match b with [] => 0%N | x :: r => (x + 256 * r_long r)%N end.

(** ** The file layout and the header checks *)
Section Codec.
  Variable code : Type.                 (* the list of code objects of a namespace *)
  Variable dumps : code -> bytes.       (* marshal.dumps *)
  Variable loads : bytes -> res code.   (* marshal.loads *)

  Definition basilisp_bytecode (mtime size : Z) (c : code) : bytes :=
    importer_magic ++ w_long mtime ++ w_long size ++ dumps c.

  (** Python slices never fail: [data[a:b]] of a short [data] is just shorter. *)
  Definition slice (a b : nat) (d : bytes) : bytes := firstn (b - a) (skipn a d).

  Definition get_basilisp_bytecode (mtime size : Z) (cache_data : bytes) : res code :=
    let magic := slice 0 4 cache_data in
    let raw_timestamp := slice 4 8 cache_data in
    let raw_size := slice 8 12 cache_data in
    if negb (bytes_eqb magic importer_magic) then Raise ImportError
    else if negb (Nat.eqb (length raw_timestamp) 4) then Raise EOFError
    else if negb (Z.eqb (Z.of_N (r_long raw_timestamp)) mtime) then Raise ImportError
    else if negb (Nat.eqb (length raw_size) 4) then Raise EOFError
    else if negb (Z.eqb (Z.of_N (r_long raw_size)) size) then Raise ImportError
    else loads (skipn 12 cache_data).

  (** The same function as an interpreter of a check table (kind, exception), which is
      what the translator extracts from the [if/elif] chain of the source. *)
  Inductive check := CkMagic | CkTsLen | CkTsVal | CkSzLen | CkSzVal.

  Definition check_fires (k : check) (mtime size : Z) (d : bytes) : bool :=
    match k with
    | CkMagic => negb (bytes_eqb (slice 0 4 d) importer_magic)
    | CkTsLen => negb (Nat.eqb (length (slice 4 8 d)) 4)
    | CkTsVal => negb (Z.eqb (Z.of_N (r_long (slice 4 8 d))) mtime)
    | CkSzLen => negb (Nat.eqb (length (slice 8 12 d)) 4)
    | CkSzVal => negb (Z.eqb (Z.of_N (r_long (slice 8 12 d))) size)
    end.

  Fixpoint run_checks (cs : list (check * exc)) (mtime size : Z) (d : bytes) : option exc :=
    match cs with
    | [] => None
    | (k, e) :: r => if check_fires k mtime size d then Some e else run_checks r mtime size d
    end.

  Definition model_checks : list (check * exc) :=
    [(CkMagic, ImportError); (CkTsLen, EOFError); (CkTsVal, ImportError);
     (CkSzLen, EOFError); (CkSzVal, ImportError)].

  Definition check_code (k : check) : N :=
    match k with CkMagic => 1 | CkTsLen => 2 | CkTsVal => 3 | CkSzLen => 4 | CkSzVal => 5 end%N.

  Definition encode_checks (cs : list (check * exc)) : list (N * str) :=
    map (fun p => (check_code (fst p), exc_name (snd p))) cs.

  (** ** The loader (BasilispImporter.exec_module) *)
  Variable src : Type.                      (* content of the .lpy file *)
  Variable compile : src -> code.           (* reader + compiler *)
  Variable run : code -> option exc.        (* executing the forms: completes, or raises *)

  Record fs := mkfs {
    f_src : src;                 (* the source file ...               *)
    f_mtime : Z;                 (* ... int(stat.st_mtime)            *)
    f_size : Z;                  (* ... stat.st_size                  *)
    f_cache : option bytes       (* content of the .lpyc, if it exists *)
  }.

  Definition set_cache (f : fs) (c : option bytes) : fs := mkfs (f_src f) (f_mtime f) (f_size f) c.

  (** get_data: [open(path, "r+b")] raises FileNotFoundError (an OSError) when absent. *)
  Definition get_data (f : fs) : res bytes :=
    match f_cache f with Some d => Ok d | None => Raise OSError end.

  (** reading and validating the cache *)
  Definition get_cached_code (f : fs) : res code :=
    match get_data f with
    | Raise e => Raise e
    | Ok d => get_basilisp_bytecode (f_mtime f) (f_size f) d
    end.

  Inductive event :=
  | EvRunCached (c : code)      (* compile_bytecode: the cached code objects are executed *)
  | EvRunSource (c : code)      (* compile_module: compiled from source and executed *)
  | EvWriteCache (d : bytes).   (* set_data(cache_path, d) *)

  Record result := mkres {
    r_trace : list event;
    r_raised : option exc;       (* what exec_module raises, None = returns normally *)
    r_fs : fs
  }.

  (** _exec_module: compile and execute; then (unless sys.dont_write_bytecode) write the
      cache.  A raising module writes nothing. *)
  Definition exec_source (dwb : bool) (f : fs) : result :=
    let c := compile (f_src f) in
    match run c with
    | Some e => mkres [EvRunSource c] (Some e) f
    | None =>
        if dwb then mkres [EvRunSource c] None f
        else let d := basilisp_bytecode (f_mtime f) (f_size f) c in
             mkres [EvRunSource c; EvWriteCache d] None (set_cache f (Some d))
    end.

  (** exec_module.  [in_try] says whether the execution of the cached code is itself inside
      the [try] whose handler falls back to the source (the shape of the code before the
      repair fixes/C14-exec-error-retried.patch); the regenerated value is
      [importer_exec_in_try]. *)
  Definition exec_module_gen (in_try : bool) (dwb : bool) (f : fs) : result :=
    match get_cached_code f with
    | Raise e => if caught e then exec_source dwb f else mkres [] (Some e) f
    | Ok c =>
        match run c with
        | None => mkres [EvRunCached c] None f
        | Some e =>
            if in_try && caught e then
              let r := exec_source dwb f in mkres (EvRunCached c :: r_trace r) (r_raised r) (r_fs r)
            else mkres [EvRunCached c] (Some e) f
        end
    end.

  Definition exec_module := exec_module_gen importer_exec_in_try.

  (** set_data is [open(path, "w+b")] followed by one [write]: a crash in between leaves a
      prefix of the data (possibly empty) in place of the old file. *)
  Definition crashed_write (f : fs) (d : bytes) (k : nat) : fs := set_cache f (Some (firstn k d)).
End Codec.

Arguments mkfs {src}.
Arguments f_src {src}.
Arguments f_mtime {src}.
Arguments f_size {src}.
Arguments f_cache {src}.
Arguments set_cache {src}.
Arguments get_data {src}.
Arguments EvRunCached {code}.
Arguments EvRunSource {code}.
Arguments EvWriteCache {code}.
Arguments mkres {code src}.
Arguments r_trace {code src}.
Arguments r_raised {code src}.
Arguments r_fs {code src}.
Arguments crashed_write {src}.

(** ** Keyword interning (keyword.py) *)
(** A keyword's (namespace, name). *)
Definition kwname : Type := option str * str.
Definition kwname_eqb (a b : kwname) : bool :=
  option_eqb str_eqb (fst a) (fst b) && str_eqb (snd a) (snd b).

Section Keywords.
  (** [hash((name, ns))]: a function of the process (its PYTHONHASHSEED).  The table of the
      running process is keyed by these integers. *)
  Variable hash_kw : kwname -> Z.

  Record kwobj := mkkw {
    k_id : nat;          (* object identity (allocation number) *)
    k_name : kwname;
    k_hash : Z           (* Keyword._hash, computed by __init__ in the running process *)
  }.

  Definition intern := list (Z * kwobj).       (* _INTERN : hash -> Keyword *)

  Fixpoint val_at (t : intern) (h : Z) : option kwobj :=
    match t with
    | [] => None
    | (h', k) :: r => if Z.eqb h h' then Some k else val_at r h
    end.

  (** keyword_from_hash(kw_hash, name, ns): whatever is stored under [kw_hash] is returned
      as it is; otherwise a new object is made -- with the hash of THIS process -- and
      stored under the hash it was asked for. *)
  Definition keyword_from_hash (t : intern) (h : Z) (n : kwname) : kwobj * intern :=
    match val_at t h with
    | Some k => (k, t)
    | None => let k := mkkw (length t) n (hash_kw n) in (k, (h, k) :: t)
    end.

  (** keyword(name, ns) *)
  Definition keyword (t : intern) (n : kwname) : kwobj * intern :=
    keyword_from_hash t (hash_kw n) n.

  (** What a process does with keywords: evaluates literals of compiled code (each carries
      the hash its compiler computed) and constructs keywords at run time. *)
  Inductive kwop :=
  | KLit (h : Z) (n : kwname)      (* a literal [:n] of compiled (possibly cached) code *)
  | KNew (n : kwname).             (* (keyword "n") *)

  Definition kwop_name (o : kwop) : kwname := match o with KLit _ n | KNew n => n end.
  Definition kwop_key (o : kwop) : Z := match o with KLit h _ => h | KNew n => hash_kw n end.

  Definition step (t : intern) (o : kwop) : kwobj * intern :=
    keyword_from_hash t (kwop_key o) (kwop_name o).

  Fixpoint run_ops (t : intern) (ops : list kwop) : list kwobj * intern :=
    match ops with
    | [] => ([], t)
    | o :: r => let '(k, t1) := step t o in let '(ks, t2) := run_ops t1 r in (k :: ks, t2)
    end.

  (** Keyword.__eq__ / __hash__ / identical? *)
  Definition kw_eq (a b : kwobj) : bool := Nat.eqb (k_id a) (k_id b) || kwname_eqb (k_name a) (k_name b).
  Definition kw_identical (a b : kwobj) : bool := Nat.eqb (k_id a) (k_id b).
End Keywords.
