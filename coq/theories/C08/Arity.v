(** C08 -- executable model OF THE CODE AS IT IS.

    Transcribed from
      generator.py  __single_arity_fn_to_py_ast / __fn_args_to_py_ast  (Python `def f(p1..pm, *rest)`)
                    __multi_arity_dispatch_fn                          (dispatch on len(args))
                    __fn_recur_to_py_ast                               (`_TrampolineArgs(is_variadic, *exprs)`)
                    __loop_recur_to_py_ast                             (`while True: ... continue`)
      runtime.py    apply, _fn_apply_to, _WrappedRestArgs, _unwrap_rest_args,
                    partial, _update_signature_for_partial, _trampoline, _TrampolineArgs.args
      core.lpy      apply, partial.                                                          *)
From Coq Require Import List Arith Bool Lia NArith.
Import ListNotations.
From Verif Require Export C08.Base.
From Verif Require Import Gen.Tables.

(** A generated table entry that is a yes/no fact about the source (1 = yes). *)
Definition tbl_flag (n : N) : bool := N.eqb n 1.

Section Model.
  Context {A : Type}.

  (** A Python positional argument: a value, or the `_WrappedRestArgs(rest)` sentinel that
      `apply_to` puts in the last position (rest = the tail from position [pos] on). *)
  Inductive parg := PV (a : A) | PW (pos : nat).

  Fixpoint vals (l : list parg) : option (list A) :=
    match l with
    | [] => Some []
    | PV a :: r => match vals r with Some v => Some (a :: v) | None => None end
    | PW _ :: _ => None
    end.

  (** `def f(p1, ..., pn)` called with `f( *args)`: CPython raises TypeError on a count
      mismatch before the first statement of the body. *)
  Definition py_bind_fixed (n : nat) (args : list parg) : result A :=
    if length args =? n then
      match vals args with Some v => RBound (AFix n) v RestNil | None => RLeak end
    else RArityErr TypeErr.

  (** runtime._unwrap_rest_args on the non-empty `*rest` tuple:
        *final, last = args
        if isinstance(last, _WrappedRestArgs): return concat(final, last.rest)
        return concat(final, [last])                                             *)
  Fixpoint unwrap (r : list parg) : option (list A * option nat) :=
    match r with
    | [] => None
    | [PW p] => Some ([], Some p)
    | [PV a] => Some ([a], None)
    | PV a :: r' => match unwrap r' with Some (pre, lz) => Some (a :: pre, lz) | None => None end
    | PW _ :: _ => None
    end.

  (** `def f(p1, ..., pm, *rest): r = _unwrap_rest_args(rest) if rest else None` *)
  Definition py_bind_rest (m : nat) (args : list parg) : result A :=
    if length args <? m then RArityErr TypeErr
    else match vals (firstn m args) with
         | None => RLeak
         | Some ps =>
             match skipn m args with
             | [] => RBound (ARest m) ps RestNil
             | r => match unwrap r with
                    | Some (pre, lz) => RBound (ARest m) ps (RestSeq pre lz)
                    | None => RLeak
                    end
             end
         end.

  Definition call_arity (ar : arity) (args : list parg) : result A :=
    match ar with AFix n => py_bind_fixed n args | ARest m => py_bind_rest m args end.

  (** The dispatch function emitted for a fn with more than one arity:
        nargs = len(args); arity = dispatch_map.get(nargs)      # fixed arities only
        if arity is not None: return arity( *args)
        if nargs >= max_fixed_arity: return default( *args)      # only when there is a rest arity
        raise RuntimeException("Wrong number of args ...")                        *)
  Definition dispatch (s : sig) (args : list parg) : result A :=
    let nargs := length args in
    if existsb (Nat.eqb nargs) (fixed s) then py_bind_fixed nargs args
    else match variadic s with
         | Some m => if max_fixed s <=? nargs then py_bind_rest m args else RArityErr RuntimeExc
         | None => RArityErr RuntimeExc
         end.

  (** generator._fn_to_py_ast: one arity -> the Python def itself; several -> the dispatcher *)
  Definition call_fn (s : sig) (args : list parg) : result A :=
    match fixed s, variadic s with
    | [n], None => py_bind_fixed n args
    | [], Some m => py_bind_rest m args
    | _, _ => dispatch s args
    end.

  (** A callable: a compiled fn, or `runtime.partial` applied to a callable (core `partial`
      with no extra arguments returns f itself, so [pa] is non-empty when built from Lisp). *)
  Inductive callee := CFn (s : sig) | CPartial (c : callee) (pa : list A).

  (** `partial_f( *inner) = f( *args, *inner)` *)
  Fixpoint call (c : callee) (args : list parg) : result A :=
    match c with
    | CFn s => call_fn s args
    | CPartial c' pa => call c' (map PV pa ++ args)
    end.

  (** The `arities` attribute: its integer members (as a list: the code has a set) and whether
      the keyword :rest is a member.  _basilisp_fn gets `(fixed..., rest_fixed, :rest)`.
      _update_signature_for_partial keeps :rest and
        [ge = true]  (the code after repair F-08c) `a - n` for the integers `a >= n`;
        [ge = false] (the code before) `a - n` for `a > n`, and, only if the new set is EMPTY,
                     0 when `n` was a member.
      Which of the two the working tree has is re-derived on every run ([arity_partial_cmp]). *)
  Fixpoint arities_gen (ge : bool) (c : callee) : list nat * bool :=
    match c with
    | CFn s => (all_counts s, is_variadic s)
    | CPartial c' pa =>
        let '(ints, r) := arities_gen ge c' in
        let p := length pa in
        if ge then (map (fun a => a - p) (filter (fun a => p <=? a) ints), r)
        else
          let new := map (fun a => a - p) (filter (fun a => p <? a) ints) in
          match new, r with
          | [], false => (if existsb (Nat.eqb p) ints then [0] else [], false)
          | _, _ => (new, r)
          end
    end.

  Definition arities : callee -> list nat * bool := arities_gen (tbl_flag arity_partial_cmp).

  (** the `max_fixed_arity` captured by the callable's `apply_to` closure *)
  Definition apply_M (c : callee) : nat := lmax (fst (arities c)).

  Section Apply.
    Variable t : tail A.

    (** realizing cell [p] of the tail (`to_seq(rest)` when `rest` is the tail from p on) *)
    Definition force_upto (forced p : nat) : nat :=
      Nat.max forced (match tlen t with None => S p | Some L => Nat.min (S p) L end).

    (** `while num_missing_args > 0 and to_seq(rest): e, rest = rest.first, rest.rest; ...` *)
    Fixpoint pull (missing pos forced : nat) (acc : list A) : nat * nat * list A :=
      match missing with
      | 0 => (pos, forced, acc)
      | S mi =>
          let forced' := force_upto forced pos in
          if has_elem t pos then pull mi (S pos) forced' (acc ++ [telt t pos])
          else (pos, forced', acc)
      end.

    (** the `apply_to` closure of _fn_apply_to for a callable whose arities contain :rest *)
    Definition apply_to_lazy (M : nat) (c : callee) (lead : list A) (forced0 : nat) : result A * nat :=
      let k := length lead in
      if k <? M then
        let '(pos, forced, rem) := pull (M - k) 0 forced0 [] in
        let forced' := force_upto forced pos in
        if has_elem t pos
        then (call c (map PV lead ++ map PV rem ++ [PW pos]), forced')
        else (call c (map PV lead ++ map PV rem), forced')
      else (call c (map PV lead ++ [PW 0]), forced0).

    Definition tail_list (L : nat) : list A := map (telt t) (seq 0 L).

    (** runtime.apply (via core `apply`): `(apply f a1 .. ak tail)`.  [via_var]: f is the Var
        (no `_basilisp_fn` attribute -> `final.extend(s)`, then Var.__call__).
        Result and the number of tail elements realized when the body starts. *)
    Definition apply (via_var : bool) (c : callee) (lead : list A) : result A * nat :=
      let forced0 := force_upto 0 0 in            (* s = to_seq(last) *)
      if has_elem t 0 then
        if negb via_var && snd (arities c) then apply_to_lazy (apply_M c) c lead forced0
        else match tlen t with
             | None => (RDiverge, 0)
             | Some L => (call c (map PV (lead ++ tail_list L)), L)
             end
      else (call c (map PV lead), 0).
  End Apply.
End Model.

Arguments parg : clear implicits.
Arguments callee : clear implicits.

(** ------------------------------------------------------------------------------------
    recur: the trampoline.  Values that can be handed to `recur`. *)

(** _TrampolineArgs.args:
      if not self._has_varargs: return self._args
      try:
          final = self._args[-1]
          if final is None: return self._args[:-1]          # only after repair F-08a [nil_drops]
          if isinstance(final, ISeq): return tuple(itertools.chain(self._args[:-1], final))
          return self._args
      except IndexError: return ()
    [None] = the chain over an infinite seq never returns. *)
Definition tramp_args_gen (nil_drops has_varargs : bool) (vs : list rval) : option (list rval) :=
  if negb has_varargs then Some vs
  else match rev vs with
       | [] => Some []
       | VNil :: ri => if nil_drops then Some (rev ri) else Some vs
       | VSeq l :: ri => Some (rev ri ++ map VAtom l)
       | VInf :: _ => None
       | _ => Some vs
       end.

(** `(recur e1 .. en)` inside arity [ar] of a fn with signature [s]: the body returns
    `_TrampolineArgs(flag, v1..vn)` and `_trampoline`'s loop calls the ARITY function (the
    decorated def, not the dispatcher) with `ret.args`.  The flag is
      [per_arity = true]  (after repair F-08b) that of the arity the recur is in,
      [per_arity = false] (before) that of the WHOLE fn: generator.py had
                          `new_recur_point(arity.loop_id, RecurType.FN, is_variadic=node.is_variadic)`. *)
Definition recur_step_gen (per_arity nil_drops : bool) (s : sig) (ar : arity) (vs : list rval) : result rval :=
  let flag := if per_arity then match ar with ARest _ => true | AFix _ => false end else is_variadic s in
  match tramp_args_gen nil_drops flag vs with
  | None => RDiverge
  | Some args => call_arity ar (map PV args)
  end.

(** the working tree's variant, re-derived on every run *)
Definition recur_step : sig -> arity -> list rval -> result rval :=
  recur_step_gen (tbl_flag arity_recur_flag) (tbl_flag arity_tramp_nil).

(** ------------------------------------------------------------------------------------
    Python stack depth.  A frame per active Python function. *)
Inductive frame := FHost | FDispatch | FTrampoline | FBody.

Section Stack.
  (** [again i] = does the i-th execution of the body end in `recur`? *)
  Variable again : nat -> bool.

  (** _trampoline:  while True: ret = f( *args); if isinstance(ret, _TrampolineArgs): continue; return ret
      [stack] = the frames below f (the trampoline's own frame on top).  Records the depth
      seen inside the body at every execution. *)
  Fixpoint tramp_run (fuel : nat) (stack : list frame) (i : nat) (trace : list nat) : option (list nat) :=
    match fuel with
    | 0 => None
    | S f =>
        let inside := FBody :: stack in              (* ret = f( *args): push *)
        let trace' := length inside :: trace in
        if again i then tramp_run f stack (S i) trace'   (* f returned: pop; continue *)
        else Some (rev trace')
    end.

  (** `loop`: `while True: <body>; <assign targets>; continue` in the enclosing frame *)
  Fixpoint loop_run (fuel : nat) (stack : list frame) (i : nat) (trace : list nat) : option (list nat) :=
    match fuel with
    | 0 => None
    | S f =>
        let trace' := length stack :: trace in
        if again i then loop_run f stack (S i) trace' else Some (rev trace')
    end.

  (** for contrast: a self-call by name instead of recur keeps every caller's frame *)
  Fixpoint selfcall_run (fuel : nat) (stack : list frame) (i : nat) (trace : list nat) : option (list nat) :=
    match fuel with
    | 0 => None
    | S f =>
        let inside := FBody :: stack in
        let trace' := length inside :: trace in
        if again i then selfcall_run f inside (S i) trace' else Some (rev trace')
    end.
End Stack.

Inductive rkind := KLoop | KFnSingle | KFnMulti.

(** frames between the caller and the body: a single-arity fn with recur is
    `trampoline(f)`; a multi-arity fn is `dispatch -> trampoline(arity_k) -> arity_k` *)
Definition frames_of (k : rkind) (host : list frame) : list frame :=
  match k with
  | KLoop => host
  | KFnSingle => FTrampoline :: host
  | KFnMulti => FTrampoline :: FDispatch :: host
  end.

Definition run_kind (k : rkind) (again : nat -> bool) (fuel : nat) (host : list frame) : option (list nat) :=
  match k with
  | KLoop => loop_run again fuel host 0 []
  | _ => tramp_run again fuel (frames_of k host) 0 []
  end.

(** closed form used by the correspondence: depth inside the body relative to the caller *)
Definition rel_depth (k : rkind) : nat :=
  match k with KLoop => 0 | KFnSingle => 2 | KFnMulti => 3 end.
