(** C08 -- recur: what the trampoline re-binds, and the Python stack depth. *)
From Coq Require Import List Arith Bool Lia NArith.
Import ListNotations.
From Verif Require Import C08.Base C08.Arity C08.Spec C08.Proofs.

(** ---------------------------------------------------------------- re-binding *)
Lemma last_rev {B} (l : list B) d : last l d = hd d (rev l).
Proof. induction l as [|a l IH]; [easy|]. destruct l as [|b l'].
  - easy.
  - change (last (a :: b :: l') d) with (last (b :: l') d). rewrite IH. simpl rev.
    destruct (rev l' ++ [b]) eqn:E; [now destruct (rev l')|easy]. Qed.

Lemma rev_last_split {B} (l : list B) x r : rev l = x :: r -> l = rev r ++ [x].
Proof. intros H. apply (f_equal (@rev _)) in H. rewrite rev_involutive in H. now subst. Qed.

Lemma tramp_args_not_iseq nd vs : is_iseq (last vs VNil) = false -> (nd = false \/ last vs VNil <> VNil) ->
  tramp_args_gen nd true vs = Some vs.
Proof. unfold tramp_args_gen. simpl negb. cbv iota. rewrite last_rev.
  destruct (rev vs) as [|v r] eqn:E.
  - intros _ _. apply (f_equal (@rev _)) in E. rewrite rev_involutive in E. now subst.
  - simpl. destruct v; try easy. intros _ [->|H]; easy. Qed.

Section Rebind.
  Variable s : sig.

  (** a recur in a FIXED arity re-binds its parameters to the values as they are, whatever the
      values (per-arity flag, repair F-08b) *)
  Lemma recur_fixed nd n vs : length vs = n -> recur_step_gen true nd s (AFix n) vs = RBound (AFix n) vs RestNil.
  Proof. intros <-. unfold recur_step_gen, tramp_args_gen. simpl. apply py_bind_fixed_vals. Qed.

  Lemma firstn_skipn_exact {B} (pre X : list B) m : length pre = m ->
    firstn m (pre ++ X) = pre /\ skipn m (pre ++ X) = X.
  Proof. intros H. split.
    - rewrite firstn_app, H, Nat.sub_diag. simpl. rewrite app_nil_r. rewrite <- H. apply firstn_all.
    - rewrite skipn_app, H, Nat.sub_diag. simpl. rewrite <- H. now rewrite skipn_all. Qed.

  (** the variadic arity, last value a finite ISeq or (repair F-08a) nil *)
  Lemma recur_rest_ok m vs : length vs = S m -> recur_safe (ARest m) vs = true ->
    recur_ok (ARest m) vs (recur_step_gen true true s (ARest m) vs).
  Proof. intros Hlen Hsafe. unfold recur_step_gen, tramp_args_gen. simpl negb. cbv iota.
    simpl in Hsafe. rewrite last_rev in Hsafe. unfold recur_ok. rewrite last_rev.
    destruct (rev vs) as [|v ri] eqn:E; [apply (f_equal (@length _)) in E; rewrite rev_length in E; simpl in E; lia|].
    apply rev_last_split in E. subst vs. rewrite app_length, rev_length in Hlen. simpl in Hlen.
    assert (Hri : length (rev ri) = m) by (rewrite rev_length; lia).
    destruct (firstn_skipn_exact (rev ri) [v] m Hri) as [F1 _]. rewrite F1.
    simpl in Hsafe. simpl hd. destruct v; try discriminate.
    - (* nil: dropped *)
      simpl call_arity. rewrite py_bind_rest_vals by lia.
      destruct (firstn_skipn_exact (rev ri) [] m Hri) as [G1 G2]. rewrite app_nil_r in G1, G2. now rewrite G1, G2.
    - (* a finite ISeq: spliced *)
      simpl call_arity. rewrite py_bind_rest_vals by (rewrite app_length; lia).
      destruct (firstn_skipn_exact (rev ri) (map VAtom l) m Hri) as [F2 F3]. rewrite F2, F3.
      destruct l; easy. Qed.
End Rebind.

(** recur_rebinds_partial (current, repaired code): every recur in a fixed arity; a recur in
    the variadic arity under the executable guard [recur_safe] *)
Theorem recur_rebinds_partial_gen (s : sig) (ar : arity) (vs : list rval) :
  recur_legal ar vs -> recur_safe ar vs = true -> recur_ok ar vs (recur_step_gen true true s ar vs).
Proof. intros Hlen Hsafe. destruct ar as [n|m]; simpl in Hlen.
  - simpl. now apply recur_fixed.
  - now apply recur_rest_ok. Qed.

(** and it never ends in an arity error any more, guard or not *)
Theorem recur_never_arity_error_gen (s : sig) (ar : arity) (vs : list rval) :
  recur_legal ar vs -> forall e, recur_step_gen true true s ar vs <> RArityErr e.
Proof. intros Hlen e. destruct ar as [n|m]; simpl in Hlen.
  - now rewrite recur_fixed.
  - unfold recur_step_gen, tramp_args_gen. simpl negb. cbv iota.
    destruct (rev vs) as [|v ri] eqn:E; [apply (f_equal (@length _)) in E; rewrite rev_length in E; simpl in E; lia|].
    apply rev_last_split in E. subst vs. rewrite app_length, rev_length in Hlen. simpl in Hlen.
    assert (Hri : length (rev ri) = m) by (rewrite rev_length; lia).
    assert (G : forall X, py_bind_rest m (map PV (rev ri ++ X)) <> RArityErr e).
    { intros X. rewrite py_bind_rest_vals by (rewrite app_length; lia). easy. }
    destruct v; try easy; simpl call_arity.
    + specialize (G []). now rewrite app_nil_r in G.
    + apply G.
    + apply G.
    + apply G. Qed.

Example recur_rebinds_nonvacuous :
  let s := mkSig [0; 1] (Some 1) in
  let vs := [VAtom 5%N; VSeq [7%N; 8%N]] in
  wf_sig s = true /\ recur_legal (ARest 1) vs /\ recur_safe (ARest 1) vs = true
  /\ recur_step_gen true true s (ARest 1) vs = RBound (ARest 1) [VAtom 5%N] (RestSeq [VAtom 7%N; VAtom 8%N] None)
  /\ recur_step_gen true true s (ARest 1) [VAtom 5%N; VNil] = RBound (ARest 1) [VAtom 5%N] RestNil
  /\ recur_step_gen true true s (AFix 1) [VSeq [7%N; 8%N]] = RBound (AFix 1) [VSeq [7%N; 8%N]] RestNil.
Proof. now vm_compute. Qed.

(** F-08e (open): without the guard the clause still fails in the variadic arity.  Witnesses:
    (fn [a & xs] .. (recur a <infinite lazy seq>))   never returns (the seq is realized eagerly)
    (fn [a & xs] .. (recur a [7 8]))                 rest = ([7 8]) instead of (7 8) *)
Theorem recur_rebinds_refuted_gen :
  (exists s ar vs, wf_sig s = true /\ arity_of s ar /\ recur_legal ar vs
      /\ recur_step_gen true true s ar vs = RDiverge /\ ~ recur_ok ar vs (recur_step_gen true true s ar vs))
  /\ (exists s ar vs, wf_sig s = true /\ arity_of s ar /\ recur_legal ar vs
      /\ recur_step_gen true true s ar vs = RBound (ARest 1) [VAtom 1%N] (RestSeq [VVec [7%N; 8%N]] None)
      /\ ~ recur_ok ar vs (recur_step_gen true true s ar vs)).
Proof. split.
  - exists (mkSig [] (Some 1)), (ARest 1), [VAtom 1%N; VInf]. vm_compute. repeat split; try easy.
    intros (pre & lz & H). discriminate.
  - exists (mkSig [] (Some 1)), (ARest 1), [VAtom 1%N; VVec [7%N; 8%N]]. vm_compute. repeat split; try easy. Qed.

(** The code BEFORE the repairs ([recur_step_gen false false]): F-08a and F-08b.
    1. (fn [& xs] .. (recur nil))                          rest = (nil) instead of nil
    2. (fn ([a b] .. (recur a '(7 8))) ([a b & r] ..))     TypeError, after the body ran
    3. (fn ([a b] .. (recur a '(7))) ([a b & r] ..))       b = 7 instead of (7) *)
Theorem recur_old_shape_refuted :
  (exists s ar vs, wf_sig s = true /\ arity_of s ar /\ recur_legal ar vs
      /\ recur_step_gen false false s ar vs = RBound (ARest 0) [] (RestSeq [VNil] None)
      /\ ~ recur_ok ar vs (recur_step_gen false false s ar vs))
  /\ (exists s ar vs, wf_sig s = true /\ arity_of s ar /\ recur_legal ar vs
      /\ recur_step_gen false false s ar vs = RArityErr TypeErr
      /\ ~ recur_ok ar vs (recur_step_gen false false s ar vs))
  /\ (exists s ar vs, wf_sig s = true /\ arity_of s ar /\ recur_legal ar vs
      /\ recur_step_gen false false s ar vs = RBound (AFix 2) [VAtom 1%N; VAtom 7%N] RestNil
      /\ ~ recur_ok ar vs (recur_step_gen false false s ar vs)).
Proof. repeat split.
  - exists (mkSig [] (Some 0)), (ARest 0), [VNil]. vm_compute. repeat split; try easy.
  - exists (mkSig [2] (Some 2)), (AFix 2), [VAtom 1%N; VSeq [7%N; 8%N]]. vm_compute. repeat split; try easy. now left.
  - exists (mkSig [2] (Some 2)), (AFix 2), [VAtom 1%N; VSeq [7%N]]. vm_compute. repeat split; try easy. now left. Qed.

(** ... and on which sub-domain that code was right *)
Theorem recur_old_shape_partial (s : sig) (ar : arity) (vs : list rval) :
  arity_of s ar -> recur_legal ar vs -> recur_safe_old s ar vs = true ->
  recur_ok ar vs (recur_step_gen false false s ar vs).
Proof. intros Har Hlen Hsafe. unfold recur_step_gen. destruct ar as [n|m]; simpl in *.
  - assert (T : tramp_args_gen false (is_variadic s) vs = Some vs).
    { destruct (is_variadic s); [|easy]. simpl in Hsafe. apply negb_true_iff in Hsafe.
      apply tramp_args_not_iseq; [easy|now left]. }
    rewrite T. subst n. apply py_bind_fixed_vals.
  - unfold is_variadic. rewrite Har. rewrite last_rev in *.
    unfold tramp_args_gen. simpl negb. cbv iota.
    destruct (rev vs) as [|v ri] eqn:E; [apply (f_equal (@length _)) in E; rewrite rev_length in E; simpl in E; lia|].
    simpl in Hsafe. destruct v; try discriminate. simpl hd.
    apply rev_last_split in E. subst vs. rewrite app_length, rev_length in Hlen. simpl in Hlen.
    assert (Hri : length (rev ri) = m) by (rewrite rev_length; lia).
    destruct (firstn_skipn_exact (rev ri) [VSeq l] m Hri) as [F1 _]. rewrite F1.
    rewrite py_bind_rest_vals by (rewrite app_length; lia).
    destruct (firstn_skipn_exact (rev ri) (map VAtom l) m Hri) as [F2 F3]. rewrite F2, F3.
    destruct l; easy. Qed.

(** ---------------------------------------------------------------- stack depth *)
Section Depth.
  Variable again : nat -> bool.

  Lemma tramp_run_spec : forall n fuel stack i trace,
    (forall j, i <= j < i + n -> again j = true) -> again (i + n) = false -> n < fuel ->
    tramp_run again fuel stack i trace = Some (rev trace ++ repeat (S (length stack)) (S n)).
  Proof. induction n as [|n IH]; intros fuel stack i trace Hyes Hno Hf; (destruct fuel as [|f]; [lia|]); simpl tramp_run.
    - rewrite Nat.add_0_r in Hno. rewrite Hno. easy.
    - rewrite (Hyes i) by lia. rewrite IH; try lia.
      + simpl rev. now rewrite <- app_assoc.
      + intros j Hj. apply Hyes. lia.
      + now replace (S i + n) with (i + S n) by lia. Qed.

  Lemma loop_run_spec : forall n fuel stack i trace,
    (forall j, i <= j < i + n -> again j = true) -> again (i + n) = false -> n < fuel ->
    loop_run again fuel stack i trace = Some (rev trace ++ repeat (length stack) (S n)).
  Proof. induction n as [|n IH]; intros fuel stack i trace Hyes Hno Hf; (destruct fuel as [|f]; [lia|]); simpl loop_run.
    - rewrite Nat.add_0_r in Hno. rewrite Hno. easy.
    - rewrite (Hyes i) by lia. rewrite IH; try lia.
      + simpl rev. now rewrite <- app_assoc.
      + intros j Hj. apply Hyes. lia.
      + now replace (S i + n) with (i + S n) by lia. Qed.

  Lemma selfcall_run_spec : forall n fuel stack i trace,
    (forall j, i <= j < i + n -> again j = true) -> again (i + n) = false -> n < fuel ->
    selfcall_run again fuel stack i trace = Some (rev trace ++ map (fun d => S (length stack) + d) (seq 0 (S n))).
  Proof. induction n as [|n IH]; intros fuel stack i trace Hyes Hno Hf; (destruct fuel as [|f]; [lia|]); simpl selfcall_run.
    - rewrite Nat.add_0_r in Hno. rewrite Hno. simpl. now rewrite Nat.add_0_r.
    - rewrite (Hyes i) by lia. rewrite IH; try lia.
      + simpl rev. rewrite <- app_assoc.
        change (seq 0 (S (S n))) with (0 :: seq 1 (S n)). rewrite <- seq_shift, map_cons, map_map.
        f_equal. f_equal. cbn [app length]. f_equal; [lia|]. apply map_ext. intros a. lia.
      + intros j Hj. apply Hyes. lia.
      + now replace (S i + n) with (i + S n) by lia. Qed.

  (** C08_recur_constant_stack: a body that recurs n times (any n) and then returns observes the
      same Python stack depth at each of its n+1 executions: that of the caller plus 0 (loop),
      2 (single-arity fn: trampoline + fn) or 3 (multi-arity fn: dispatcher + trampoline +
      arity fn) -- independent of n *)
  Theorem recur_constant_stack (k : rkind) (host : list frame) (n fuel : nat) :
    (forall j, j < n -> again j = true) -> again n = false -> n < fuel ->
    run_kind k again fuel host = Some (repeat (length host + rel_depth k) (S n)).
  Proof. intros Hyes Hno Hf. unfold run_kind.
    assert (Hy : forall j, 0 <= j < 0 + n -> again j = true) by (intros; apply Hyes; lia).
    destruct k; simpl rel_depth.
    - rewrite (loop_run_spec n) by easy. simpl. now rewrite Nat.add_0_r.
    - rewrite (tramp_run_spec n) by easy. simpl. do 3 f_equal; lia.
    - rewrite (tramp_run_spec n) by easy. simpl. do 3 f_equal; lia. Qed.

  (** the contrast that makes the depth counter meaningful: the same iteration written as a
      self-call by name deepens the stack by one frame per iteration *)
  Theorem selfcall_stack_grows (host : list frame) (n fuel : nat) :
    (forall j, j < n -> again j = true) -> again n = false -> n < fuel ->
    selfcall_run again fuel host 0 [] = Some (map (fun d => S (length host) + d) (seq 0 (S n))).
  Proof. intros Hyes Hno Hf. rewrite (selfcall_run_spec n); try easy. intros; apply Hyes; lia. Qed.
End Depth.

Example recur_stack_nonvacuous :
  run_kind KFnMulti (fun i => i <? 5) 100 [FHost; FHost] = Some [5; 5; 5; 5; 5; 5]
  /\ selfcall_run (fun i => i <? 5) 100 [FHost; FHost] 0 [] = Some [3; 4; 5; 6; 7; 8].
Proof. now vm_compute. Qed.
