(** C08 -- proofs about direct calls, apply and partial. *)
From Coq Require Import List Arith Bool Lia NArith.
Import ListNotations.
From Verif Require Import C08.Base C08.Arity C08.Spec.

(** ---------------------------------------------------------------- lists and maxima *)
Lemma lmax_ge l a : In a l -> a <= lmax l.
Proof. induction l; simpl; intros H; [easy|]. destruct H; subst; [lia|]. specialize (IHl H). lia. Qed.

Lemma lmax_le l b : (forall a, In a l -> a <= b) -> lmax l <= b.
Proof. induction l; simpl; intros H; [lia|]. assert (a <= b) by (apply H; now left).
  assert (lmax l <= b) by (apply IHl; intros; apply H; now right). lia. Qed.

Lemma lmax_app l1 l2 : lmax (l1 ++ l2) = Nat.max (lmax l1) (lmax l2).
Proof. induction l1; simpl; [lia|]. rewrite IHl1. lia. Qed.

Lemma existsb_eqb_In n l : existsb (Nat.eqb n) l = true <-> In n l.
Proof. rewrite existsb_exists. split.
  - intros [x [Hx He]]. apply Nat.eqb_eq in He. now subst.
  - intros H. exists n. split; [easy|apply Nat.eqb_refl]. Qed.

Lemma existsb_eqb_notIn n l : existsb (Nat.eqb n) l = false <-> ~ In n l.
Proof. rewrite <- existsb_eqb_In. destruct (existsb _ _); intuition congruence. Qed.

Lemma nodupb_NoDup l : nodupb l = true -> NoDup l.
Proof. induction l; simpl; intros H; [constructor|]. apply andb_prop in H as [H1 H2].
  constructor; [|now apply IHl]. apply negb_true_iff in H1. now apply existsb_eqb_notIn in H1. Qed.

(** ---------------------------------------------------------------- well-formed signatures *)
Lemma wf_fixed_le s m a : wf_sig s = true -> variadic s = Some m -> In a (fixed s) -> a <= m.
Proof. unfold wf_sig. intros H Hv Ha. rewrite Hv in H.
  apply andb_prop in H as [H _]. apply andb_prop in H as [_ H].
  rewrite forallb_forall in H. apply H in Ha. now apply Nat.leb_le in Ha. Qed.

Lemma wf_max_fixed s m : wf_sig s = true -> variadic s = Some m -> max_fixed s = m.
Proof. intros H Hv. unfold max_fixed, all_counts, ovar. rewrite Hv, lmax_app. simpl.
  assert (lmax (fixed s) <= m) by (apply lmax_le; intros; eapply wf_fixed_le; eauto). lia. Qed.

Lemma wf_nodup s : wf_sig s = true -> NoDup (fixed s).
Proof. unfold wf_sig. intros H. apply andb_prop in H as [H _]. apply andb_prop in H as [H _].
  now apply nodupb_NoDup. Qed.

(** ---------------------------------------------------------------- the chosen arity is the matching one *)
Lemma choose_matches s n ar : choose s n = Some ar -> matches s n ar.
Proof. unfold choose, matches. destruct n as [k|].
  - destruct (existsb (Nat.eqb k) (fixed s)) eqn:E.
    + intros [= <-]. apply existsb_eqb_In in E. easy.
    + destruct (variadic s) as [m|]; [|easy]. destruct (m <=? k) eqn:L; [|easy].
      intros [= <-]. apply Nat.leb_le in L. easy.
  - destruct (variadic s) as [m|]; [|easy]. intros [= <-]. easy. Qed.

(** every matching arity is the chosen one, except that at the overlap (a fixed arity with
    as many parameters as the variadic arity has fixed ones, no surplus) the fixed arity wins *)
Lemma matches_choose s n ar : wf_sig s = true -> matches s n ar ->
  exists ar', choose s n = Some ar' /\
    (ar' = ar \/ exists m, ar = ARest m /\ ar' = AFix m /\ n = Some m /\ In m (fixed s)).
Proof. intros Hwf. unfold matches, choose. destruct ar as [a|m].
  - intros [Hi ->]. apply existsb_eqb_In in Hi. rewrite Hi. eauto.
  - intros [Hv Hn]. rewrite Hv. destruct n as [k|]; [|eauto].
    destruct (existsb (Nat.eqb k) (fixed s)) eqn:E.
    + exists (AFix k). split; [easy|]. apply existsb_eqb_In in E.
      assert (k <= m) by (eapply wf_fixed_le; eauto). assert (k = m) by lia. subst. right. eauto.
    + apply Nat.leb_le in Hn. rewrite Hn. eauto. Qed.

Lemma choose_none s n : choose s n = None -> forall ar, ~ matches s n ar.
Proof. unfold choose, matches. intros H ar Hm. destruct ar as [a|m].
  - destruct Hm as [Hi ->]. apply existsb_eqb_In in Hi. now rewrite Hi in H.
  - destruct Hm as [Hv Hn]. rewrite Hv in H. destruct n as [k|]; [|easy].
    destruct (existsb _ _); [easy|]. apply Nat.leb_le in Hn. now rewrite Hn in H. Qed.

(** two distinct fixed arities never match the same call *)
Lemma fixed_match_unique s n a b : matches s n (AFix a) -> matches s n (AFix b) -> a = b.
Proof. unfold matches. intros [_ ->] [_ [= ->]]. easy. Qed.

(** ---------------------------------------------------------------- Python binding *)
Arguments unwrap {A} r : simpl never.

Section Bind.
  Context {A : Type}.
  Implicit Types (xs : list A) (args : list (parg A)).

  Lemma vals_PV xs : vals (map PV xs) = Some xs.
  Proof. induction xs; simpl; [easy|]. now rewrite IHxs. Qed.

  Lemma firstn_map_PV n xs : firstn n (map (@PV A) xs) = map PV (firstn n xs).
  Proof. apply firstn_map. Qed.

  Lemma skipn_map_PV n xs : skipn n (map (@PV A) xs) = map PV (skipn n xs).
  Proof. apply skipn_map. Qed.

  Lemma unwrap_cons a b (r : list (parg A)) :
    unwrap (PV a :: b :: r) =
      match unwrap (b :: r) with Some (pre, lz) => Some (a :: pre, lz) | None => None end.
  Proof. reflexivity. Qed.

  Lemma unwrap_PV xs : xs <> [] -> unwrap (map PV xs) = Some (xs, None).
  Proof. induction xs as [|a r IH]; [easy|]. intros _. destruct r as [|b r']; [easy|].
    simpl map in *. rewrite unwrap_cons, IH by easy. easy. Qed.

  Lemma unwrap_PV_PW xs p : unwrap (map PV xs ++ [PW p]) = Some (xs, Some p).
  Proof. induction xs as [|a r IH]; [easy|]. destruct r as [|b r'].
    - easy.
    - simpl map in *. simpl app in *. rewrite unwrap_cons, IH. easy. Qed.

  Lemma py_bind_fixed_vals xs : py_bind_fixed (length xs) (map PV xs) = RBound (AFix (length xs)) xs RestNil.
  Proof. unfold py_bind_fixed. rewrite map_length, Nat.eqb_refl, vals_PV. easy. Qed.

  Lemma py_bind_rest_vals m xs : m <= length xs ->
    py_bind_rest m (map PV xs) =
      RBound (ARest m) (firstn m xs) (match skipn m xs with [] => RestNil | r => RestSeq r None end).
  Proof. intros H. unfold py_bind_rest. rewrite map_length.
    destruct (length xs <? m) eqn:E; [apply Nat.ltb_lt in E; lia|].
    rewrite firstn_map_PV, vals_PV, skipn_map_PV.
    destruct (skipn m xs) as [|b r] eqn:S; [easy|].
    pose proof (unwrap_PV (b :: r) ltac:(easy)) as U. simpl map in U |- *. cbv beta iota. now rewrite U. Qed.

  Lemma py_bind_rest_wrapped m xs p : m <= length xs ->
    py_bind_rest m (map PV xs ++ [PW p]) = RBound (ARest m) (firstn m xs) (RestSeq (skipn m xs) (Some p)).
  Proof. intros H. unfold py_bind_rest. rewrite app_length, map_length. simpl.
    destruct (length xs + 1 <? m) eqn:E; [apply Nat.ltb_lt in E; lia|].
    rewrite firstn_app, map_length. replace (m - length xs) with 0 by lia. simpl. rewrite app_nil_r.
    rewrite firstn_map_PV, vals_PV.
    rewrite skipn_app, map_length. replace (m - length xs) with 0 by lia. simpl.
    rewrite skipn_map_PV.
    destruct (map PV (skipn m xs) ++ [PW p]) eqn:E2; [now destruct (map PV (skipn m xs))|].
    cbv beta iota. rewrite <- E2, unwrap_PV_PW. easy. Qed.

  (** the single-arity shortcut and the dispatcher agree except for the class of the arity error *)
  Lemma call_fn_dispatch s args :
    call_fn s args = dispatch s args \/
    (exists c c', call_fn s args = RArityErr c /\ dispatch s args = RArityErr c').
  Proof. unfold call_fn, dispatch.
    destruct (fixed s) as [|n [|n2 l]] eqn:F; destruct (variadic s) as [m|] eqn:V; try (now left).
    - (* [] , Some m : py_bind_rest *)
      simpl. unfold max_fixed, all_counts, ovar. rewrite F, V. simpl. rewrite Nat.max_0_r.
      destruct (m <=? length args) eqn:E; [now left|]. right.
      unfold py_bind_rest. apply Nat.leb_gt in E. apply Nat.ltb_lt in E. rewrite E. eauto.
    - (* [n], None *)
      simpl. rewrite orb_false_r. destruct (length args =? n) eqn:E.
      + apply Nat.eqb_eq in E. subst. now left.
      + right. unfold py_bind_fixed. rewrite E. eauto. Qed.

  Lemma call_fn_bound s args ar ps rv : dispatch s args = RBound ar ps rv -> call_fn s args = RBound ar ps rv.
  Proof. intros H. destruct (call_fn_dispatch s args) as [->|[c [c' [_ H2]]]]; [easy|congruence]. Qed.

  Lemma call_fn_err s args c : dispatch s args = RArityErr c -> exists c', call_fn s args = RArityErr c'.
  Proof. intros H. destruct (call_fn_dispatch s args) as [->|[c1 [c2 [H1 _]]]]; eauto. Qed.

  (** the three outcomes of a call with fully materialized arguments *)
  Lemma call_fixed s xs : In (length xs) (fixed s) ->
    call_fn s (map PV xs) = RBound (AFix (length xs)) xs RestNil.
  Proof. intros H. apply call_fn_bound. unfold dispatch. rewrite map_length.
    apply existsb_eqb_In in H. rewrite H. apply py_bind_fixed_vals. Qed.

  Lemma call_rest s m xs : wf_sig s = true -> variadic s = Some m -> ~ In (length xs) (fixed s) -> m <= length xs ->
    call_fn s (map PV xs) =
      RBound (ARest m) (firstn m xs) (match skipn m xs with [] => RestNil | r => RestSeq r None end).
  Proof. intros Hwf Hv Hn Hm. apply call_fn_bound. unfold dispatch. rewrite map_length.
    apply existsb_eqb_notIn in Hn. rewrite Hn, Hv, (wf_max_fixed s m Hwf Hv).
    apply Nat.leb_le in Hm. rewrite Hm. apply py_bind_rest_vals. now apply Nat.leb_le. Qed.

  Lemma call_err s xs : ~ In (length xs) (fixed s) ->
    (variadic s = None \/ exists m, variadic s = Some m /\ wf_sig s = true /\ length xs < m) ->
    exists c, call_fn s (map PV xs) = RArityErr c.
  Proof. intros Hn Hv. apply call_fn_err with (c := RuntimeExc). unfold dispatch. rewrite map_length.
    apply existsb_eqb_notIn in Hn. rewrite Hn.
    destruct Hv as [->|[m [Hv [Hwf Hl]]]]; [easy|]. rewrite Hv, (wf_max_fixed s m Hwf Hv).
    apply Nat.leb_gt in Hl. now rewrite Hl. Qed.

  Lemma call_wrapped s m xs p : wf_sig s = true -> variadic s = Some m -> m <= length xs ->
    call_fn s (map PV xs ++ [PW p]) = RBound (ARest m) (firstn m xs) (RestSeq (skipn m xs) (Some p)).
  Proof. intros Hwf Hv Hm. apply call_fn_bound. unfold dispatch. rewrite app_length, map_length. simpl.
    assert (Hn : ~ In (length xs + 1) (fixed s)).
    { intros Hi. pose proof (wf_fixed_le s m _ Hwf Hv Hi). lia. }
    apply existsb_eqb_notIn in Hn. rewrite Hn, Hv, (wf_max_fixed s m Hwf Hv).
    assert (E : m <=? length xs + 1 = true) by (apply Nat.leb_le; lia). rewrite E.
    now apply py_bind_rest_wrapped. Qed.
End Bind.

(** ---------------------------------------------------------------- the specification on materialized / wrapped calls *)
Lemma nth_error_firstn_lt {B} (l : list B) m i : i < m -> nth_error (firstn m l) i = nth_error l i.
Proof. revert m i. induction l; intros m i H; destruct m, i; simpl; try easy; try lia. apply IHl. lia. Qed.

Lemma nth_error_skipn' {B} (l : list B) m i : nth_error (skipn m l) i = nth_error l (m + i).
Proof. revert m. induction l; intros m; destruct m; simpl; try easy. now destruct i. Qed.

Lemma skipn_nil_iff {B} (l : list B) m : skipn m l = [] <-> length l <= m.
Proof. revert m. induction l; intros m; destruct m; simpl; split; intros; try easy; try lia.
  - apply IHl in H. lia.
  - apply IHl. lia. Qed.

Section BindOk.
  Context {A : Type}.
  Implicit Types (xs lead : list A) (t : tail A).

  Lemma has_elem_spec t p : has_elem t p = true <-> match tlen t with None => True | Some L => p < L end.
  Proof. unfold has_elem. destruct (tlen t); [apply Nat.ltb_lt|easy]. Qed.

  Lemma arg_at_nil t q : arg_at [] t q = if has_elem t q then Some (telt t q) else None.
  Proof. unfold arg_at. simpl. now rewrite Nat.sub_0_r. Qed.

  Lemma arg_at_lead lead t i : i < length lead -> arg_at lead t i = nth_error lead i.
  Proof. intros H. unfold arg_at. apply Nat.ltb_lt in H. now rewrite H. Qed.

  Lemma arg_at_tail lead t j : arg_at lead t (length lead + j) = arg_at [] t j.
  Proof. rewrite arg_at_nil. unfold arg_at.
    destruct (length lead + j <? length lead) eqn:E; [apply Nat.ltb_lt in E; lia|].
    now replace (length lead + j - length lead) with j by lia. Qed.

  Lemma arg_at_some_total lead t i a : arg_at lead t i = Some a ->
    match total lead t with Some k => i < k | None => True end.
  Proof. unfold arg_at, total. destruct (i <? length lead) eqn:E.
    - intros _. apply Nat.ltb_lt in E. destruct (tlen t); [lia|easy].
    - destruct (has_elem t (i - length lead)) eqn:H; [|easy]. intros _.
      apply has_elem_spec in H. apply Nat.ltb_ge in E. destruct (tlen t); [lia|easy]. Qed.

  (** (A) every argument was materialized into the Python argument tuple *)
  Lemma bind_ok_materialized s lead t xs :
    wf_sig s = true -> total lead t = Some (length xs) -> (forall i, arg_at lead t i = nth_error xs i) ->
    bind_ok s lead t (call_fn s (map PV xs)).
  Proof. intros Hwf Htot Harg. unfold bind_ok. rewrite Htot. unfold choose.
    destruct (existsb (Nat.eqb (length xs)) (fixed s)) eqn:E.
    - apply existsb_eqb_In in E. rewrite (call_fixed s xs E). exists xs, RestNil. simpl.
      repeat split; try easy; intros i _; now rewrite Harg.
    - apply existsb_eqb_notIn in E. destruct (variadic s) as [m|] eqn:V.
      + destruct (m <=? length xs) eqn:L.
        * apply Nat.leb_le in L. rewrite (call_rest s m xs Hwf V E L).
          eexists _, _. split; [reflexivity|]. simpl. split; [|split; [|split]].
          -- rewrite firstn_length. lia.
          -- intros i Hi. now rewrite nth_error_firstn_lt, Harg.
          -- destruct (skipn m xs) eqn:S.
             ++ apply skipn_nil_iff in S. split; [intros _; f_equal; lia|easy].
             ++ split; [easy|]. intros [= H]. assert (skipn m xs = []) by (apply skipn_nil_iff; lia). congruence.
          -- intros i. rewrite Harg. destruct (skipn m xs) as [|b r] eqn:S.
             ++ apply skipn_nil_iff in S. simpl. symmetry. apply nth_error_None. lia.
             ++ rewrite <- S. unfold rest_nth. rewrite <- nth_error_skipn'.
                destruct (i <? length (skipn m xs)) eqn:E2; [easy|].
                apply Nat.ltb_ge in E2. symmetry. now apply nth_error_None.
        * apply Nat.leb_gt in L. apply call_err; [easy|]. right. eauto.
      + apply call_err; [easy|]. now left. Qed.

  (** (B) the arguments up to [xs] were materialized, the rest travels as _WrappedRestArgs *)
  Lemma bind_ok_wrapped s m lead t xs p :
    wf_sig s = true -> variadic s = Some m -> m <= length xs -> has_elem t p = true ->
    (forall i, i < length xs -> arg_at lead t i = nth_error xs i) ->
    (forall j, arg_at lead t (length xs + j) = arg_at [] t (p + j)) ->
    bind_ok s lead t (call_fn s (map PV xs ++ [PW p])).
  Proof. intros Hwf V Hm Hp Hpre Hsuf. unfold bind_ok.
    assert (Hbig : match total lead t with Some k => length xs < k | None => True end).
    { apply arg_at_some_total with (a := telt t p). rewrite <- (Nat.add_0_r (length xs)), Hsuf, arg_at_nil.
      now rewrite Nat.add_0_r, Hp. }
    assert (Hch : choose s (total lead t) = Some (ARest m)).
    { unfold choose. destruct (total lead t) as [k|]; [|now rewrite V].
      assert (E : ~ In k (fixed s)) by (intros Hi; pose proof (wf_fixed_le s m _ Hwf V Hi); lia).
      apply existsb_eqb_notIn in E. rewrite E, V.
      assert (L : m <=? k = true) by (apply Nat.leb_le; lia). now rewrite L. }
    rewrite Hch, (call_wrapped s m xs p Hwf V Hm).
    eexists _, _. split; [reflexivity|]. simpl. split; [|split; [|split]].
    - rewrite firstn_length. lia.
    - intros i Hi. rewrite nth_error_firstn_lt by easy. symmetry. apply Hpre. lia.
    - split; [easy|]. intros H. rewrite H in Hbig. lia.
    - intros i. destruct (i <? length (skipn m xs)) eqn:E.
      + apply Nat.ltb_lt in E. rewrite skipn_length in E. rewrite nth_error_skipn'. symmetry. apply Hpre. lia.
      + apply Nat.ltb_ge in E. rewrite skipn_length in *.
        replace (m + i) with (length xs + (i - (length xs - m))) by lia. now rewrite Hsuf. Qed.
End BindOk.

(** ---------------------------------------------------------------- partial *)
Section Partial.
  Context {A : Type}.

  Fixpoint base (c : callee A) : sig := match c with CFn s => s | CPartial c' _ => base c' end.
  (** all partially applied arguments, in the order the function receives them *)
  Fixpoint pargs (c : callee A) : list A := match c with CFn _ => [] | CPartial c' pa => pargs c' ++ pa end.

  Lemma call_base c : forall args, call c args = call_fn (base c) (map PV (pargs c) ++ args).
  Proof. induction c as [s|c' IH pa]; intros args; simpl; [easy|].
    now rewrite IH, map_app, <- app_assoc. Qed.

  Lemma arities_gen_rest ge c : snd (arities_gen ge c) = is_variadic (base c).
  Proof. induction c as [s|c' IH pa]; simpl; [easy|].
    destruct (arities_gen ge c') as [ints r]. simpl in IH. subst r. destruct ge; [easy|].
    destruct (map _ _); destruct (is_variadic (base c')); easy. Qed.

  Lemma arities_rest c : snd (arities c) = is_variadic (base c).
  Proof. apply arities_gen_rest. Qed.

  Lemma lmax_shift l p : lmax (map (fun a => a - p) (filter (fun a => p <? a) l)) = lmax l - p.
  Proof. induction l as [|a l IH]; simpl; [easy|]. destruct (p <? a) eqn:E; simpl.
    - apply Nat.ltb_lt in E. rewrite IH. lia.
    - apply Nat.ltb_ge in E. rewrite IH. lia. Qed.

  Lemma lmax_shift_ge l p : lmax (map (fun a => a - p) (filter (fun a => p <=? a) l)) = lmax l - p.
  Proof. induction l as [|a l IH]; simpl; [easy|]. destruct (p <=? a) eqn:E; simpl.
    - apply Nat.leb_le in E. rewrite IH. lia.
    - apply Nat.leb_gt in E. rewrite IH. lia. Qed.

  (** the max_fixed_arity captured by the apply_to of a (nested) partial: the same for the
      code before and after repair F-08c *)
  Lemma apply_M_gen ge c : lmax (fst (arities_gen ge c)) = max_fixed (base c) - length (pargs c).
  Proof. induction c as [s|c' IH pa]; simpl.
    - unfold max_fixed. lia.
    - destruct (arities_gen ge c') as [ints r]. simpl in IH. rewrite app_length. destruct ge.
      + simpl fst. rewrite lmax_shift_ge. lia.
      + pose proof (lmax_shift ints (length pa)) as Hs.
        destruct (map (fun a => a - length pa) (filter (fun a => length pa <? a) ints)) eqn:E.
        * destruct r; simpl in *.
          -- lia.
          -- destruct (existsb _ _); simpl; lia.
        * simpl fst. rewrite Hs. lia. Qed.

  Lemma apply_M_base c : apply_M c = max_fixed (base c) - length (pargs c).
  Proof. apply apply_M_gen. Qed.

  (** the `arities` attribute after repair F-08c, for arbitrarily nested partials *)
  Lemma shift_counts_0 l : shift_counts l 0 = l.
  Proof. induction l as [|a l IH]; [easy|]. unfold shift_counts in *. simpl filter. simpl map.
    f_equal; [lia|exact IH]. Qed.

  Lemma shift_counts_add l p q : shift_counts (shift_counts l p) q = shift_counts l (p + q).
  Proof. unfold shift_counts. induction l as [|a l IH]; simpl; [easy|].
    destruct (p <=? a) eqn:E1; simpl.
    - apply Nat.leb_le in E1. destruct (q <=? a - p) eqn:E2; simpl.
      + apply Nat.leb_le in E2. assert (E3 : p + q <=? a = true) by (apply Nat.leb_le; lia).
        rewrite E3. simpl. rewrite IH. f_equal. lia.
      + apply Nat.leb_gt in E2. assert (E3 : p + q <=? a = false) by (apply Nat.leb_gt; lia).
        now rewrite E3.
    - apply Nat.leb_gt in E1. assert (E3 : p + q <=? a = false) by (apply Nat.leb_gt; lia).
      now rewrite E3. Qed.

  Lemma arities_ge_spec c :
    arities_gen true c = (shift_counts (all_counts (base c)) (length (pargs c)), is_variadic (base c)).
  Proof. induction c as [s|c' IH pa]; simpl.
    - now rewrite shift_counts_0.
    - rewrite IH, app_length. fold (shift_counts (shift_counts (all_counts (base c')) (length (pargs c'))) (length pa)).
      now rewrite shift_counts_add. Qed.
End Partial.

(** at the level of the specification: (partial f a1..ap) called with n arguments chooses the
    shifted image of the arity f chooses for p + n arguments *)
Lemma choose_shift s p n : wf_sig s = true ->
  choose (shift_sig s p) (Some n) = option_map (shift_arity p) (choose s (Some (p + n))).
Proof. intros Hwf. unfold choose, shift_sig. simpl.
  destruct (existsb (Nat.eqb (p + n)) (fixed s)) eqn:E.
  - apply existsb_eqb_In in E.
    assert (H : existsb (Nat.eqb n) (map (fun a => a - p) (filter (fun a => p <=? a) (fixed s))) = true).
    { apply existsb_eqb_In. apply in_map_iff. exists (p + n). split; [lia|]. apply filter_In. split; [easy|].
      apply Nat.leb_le. lia. }
    rewrite H. simpl. f_equal. f_equal. lia.
  - apply existsb_eqb_notIn in E.
    assert (H : existsb (Nat.eqb n) (map (fun a => a - p) (filter (fun a => p <=? a) (fixed s))) = false).
    { apply existsb_eqb_notIn. intros Hi. apply in_map_iff in Hi as [a [Ha Hf]]. apply filter_In in Hf as [Hf Hl].
      apply Nat.leb_le in Hl. apply E. now replace (p + n) with a by lia. }
    rewrite H. destruct (variadic s) as [m|]; [|easy].
    destruct (m <=? p + n) eqn:L.
    + apply Nat.leb_le in L. assert (L2 : m - p <=? n = true) by (apply Nat.leb_le; lia). now rewrite L2.
    + apply Nat.leb_gt in L. assert (L2 : m - p <=? n = false) by (apply Nat.leb_gt; lia). now rewrite L2. Qed.

(** ---------------------------------------------------------------- apply *)
Lemma nth_error_seq' a n i : i < n -> nth_error (seq a n) i = Some (a + i).
Proof. revert a i. induction n; intros a i H; [lia|]. destruct i; simpl; [f_equal; lia|].
  rewrite IHn by lia. f_equal. lia. Qed.

Section ApplyProofs.
  Context {A : Type}.
  Variable t : tail A.

  (** at most as many elements as the tail has *)
  Definition clamp (x : nat) : nat := match tlen t with None => x | Some L => Nat.min x L end.

  Lemma clamp_mono x y : x <= y -> clamp x <= clamp y.
  Proof. unfold clamp. destruct (tlen t); lia. Qed.

  Lemma clamp_le x : clamp x <= x.
  Proof. unfold clamp. destruct (tlen t); lia. Qed.

  Lemma force_upto_clamp forced p : force_upto t forced p = Nat.max forced (clamp (S p)).
  Proof. unfold force_upto, clamp. now destruct (tlen t). Qed.

  Lemma clamp_has_elem p : has_elem t p = true -> clamp (S p) = S p.
  Proof. intros H. apply has_elem_spec in H. unfold clamp. destruct (tlen t); lia. Qed.

  Lemma pull_spec : forall missing pos forced acc pos' forced' acc',
    pull t missing pos forced acc = (pos', forced', acc') ->
    pos <= pos' <= pos + missing
    /\ acc' = acc ++ map (telt t) (seq pos (pos' - pos))
    /\ (forall q, pos <= q < pos' -> has_elem t q = true)
    /\ (pos' < pos + missing -> has_elem t pos' = false)
    /\ forced <= forced' <= Nat.max forced (clamp (S pos')).
  Proof. induction missing as [|mi IH]; intros pos forced acc pos' forced' acc' H; simpl in H.
    - injection H as <- <- <-. rewrite Nat.sub_diag. simpl. rewrite app_nil_r.
      repeat split; try lia; intros q Hq; lia.
    - destruct (has_elem t pos) eqn:E.
      + apply IH in H as (H1 & H2 & H3 & H4 & H5). rewrite force_upto_clamp in H5.
        pose proof (clamp_mono (S pos) (S pos') ltac:(lia)).
        split; [lia|]. split; [|split; [|split]].
        * rewrite H2, <- app_assoc. f_equal. replace (pos' - pos) with (S (pos' - S pos)) by lia. easy.
        * intros q Hq. destruct (Nat.eq_dec q pos) as [->|]; [easy|]. apply H3. lia.
        * intros Hlt. apply H4. lia.
        * lia.
      + injection H as <- <- <-. rewrite Nat.sub_diag. simpl. rewrite app_nil_r, force_upto_clamp.
        repeat split; try lia; try easy; intros q Hq; lia. Qed.

  Lemma nth_error_tail_list j i : i < j -> nth_error (map (telt t) (seq 0 j)) i = Some (telt t i).
  Proof. intros H. rewrite nth_error_map, nth_error_seq' by easy. easy. Qed.

  (** the argument sequence, when its first [j] tail elements have been pulled into a list *)
  Lemma arg_at_pulled lead j i : (forall q, q < j -> has_elem t q = true) ->
    i < length lead + j -> arg_at lead t i = nth_error (lead ++ map (telt t) (seq 0 j)) i.
  Proof. intros Hj Hi. destruct (Nat.lt_ge_cases i (length lead)) as [L|L].
    - rewrite arg_at_lead, nth_error_app1; easy.
    - rewrite nth_error_app2 by easy. replace i with (length lead + (i - length lead)) at 1 by lia.
      rewrite arg_at_tail, arg_at_nil, Hj by lia. symmetry. apply nth_error_tail_list. lia. Qed.

  Lemma arg_at_after lead j q :
    arg_at lead t (length (lead ++ map (telt t) (seq 0 j)) + q) = arg_at [] t (j + q).
  Proof. rewrite app_length, map_length, seq_length, <- Nat.add_assoc. apply arg_at_tail. Qed.

  Lemma arg_at_beyond lead i L : tlen t = Some L -> length lead + L <= i -> arg_at lead t i = None.
  Proof. intros HL Hi. replace i with (length lead + (i - length lead)) by lia.
    rewrite arg_at_tail, arg_at_nil. unfold has_elem. rewrite HL.
    destruct (i - length lead <? L) eqn:E; [apply Nat.ltb_lt in E; lia|easy]. Qed.

  Variable s : sig.
  Variable c : callee A.
  Hypothesis Hwf : wf_sig s = true.
  Hypothesis Hbase : base c = s.

  (** direct call (also: Var.__call__, a call site naming the global): lead is everything *)
  Lemma direct_ok xs : tlen t = Some 0 -> bind_ok s (pargs c ++ xs) t (call c (map PV xs)).
  Proof. intros HL. rewrite call_base, Hbase, <- map_app. apply bind_ok_materialized; [easy| |].
    - unfold total. rewrite HL. f_equal. lia.
    - intros i. destruct (Nat.lt_ge_cases i (length (pargs c ++ xs))) as [L|L].
      + now apply arg_at_lead.
      + rewrite (arg_at_beyond _ i 0 HL) by lia. symmetry. now apply nth_error_None. Qed.

  (** eager paths: the whole finite tail is appended *)
  Lemma eager_ok lead L : tlen t = Some L ->
    bind_ok s (pargs c ++ lead) t (call c (map PV (lead ++ tail_list t L))).
  Proof. intros HL. rewrite call_base, Hbase, <- map_app, app_assoc. unfold tail_list.
    assert (Hall : forall q, q < L -> has_elem t q = true).
    { intros q Hq. apply has_elem_spec. now rewrite HL. }
    apply bind_ok_materialized; [easy| |].
    - unfold total. rewrite HL. now rewrite !app_length, map_length, seq_length.
    - intros i. destruct (Nat.lt_ge_cases i (length (pargs c ++ lead) + L)) as [Hi|Hi].
      + now apply arg_at_pulled.
      + rewrite (arg_at_beyond _ i L HL) by easy. symmetry. apply nth_error_None.
        rewrite app_length, map_length, seq_length. lia. Qed.

  Section Lazy.
    Variable m : nat.
    Hypothesis Hv : variadic s = Some m.

    Lemma lazy_flag : snd (arities c) = true.
    Proof. rewrite arities_rest, Hbase. unfold is_variadic. now rewrite Hv. Qed.

    Lemma lazy_M : apply_M c = m - length (pargs c).
    Proof. now rewrite apply_M_base, Hbase, (wf_max_fixed s m Hwf Hv). Qed.

    (** C08_bind_correct for `apply` on a variadic callable, any tail (also infinite) *)
    Lemma apply_lazy_ok lead : bind_ok s (pargs c ++ lead) t (fst (apply t false c lead)).
    Proof. unfold apply. destruct (has_elem t 0) eqn:H0.
      - rewrite lazy_flag. simpl negb. simpl andb. unfold apply_to_lazy. rewrite lazy_M.
        set (P := pargs c). destruct (length lead <? m - length P) eqn:K.
        + apply Nat.ltb_lt in K.
          destruct (pull t (m - length P - length lead) 0 (force_upto t 0 0) []) as [[pos forced] rem] eqn:PU.
          apply pull_spec in PU as (H1 & H2 & H3 & H4 & _). simpl in H2. rewrite Nat.sub_0_r in H2. subst rem.
          assert (Hq : forall q, q < pos -> has_elem t q = true) by (intros q Hq; apply H3; lia).
          destruct (has_elem t pos) eqn:HP; simpl fst.
          * assert (pos = m - length P - length lead).
            { destruct (Nat.eq_dec pos (m - length P - length lead)); [easy|]. exfalso. assert (X : true = false) by (apply H4; lia). discriminate. }
            rewrite call_base, Hbase. fold P. rewrite !app_assoc, <- !map_app, <- app_assoc.
            apply bind_ok_wrapped with (m := m); try easy.
            -- rewrite !app_length, map_length, seq_length. lia.
            -- intros i Hi. rewrite app_assoc. apply arg_at_pulled; [easy|].
               rewrite !app_length, map_length, seq_length in Hi. rewrite app_length. lia.
            -- intros j. rewrite app_assoc. apply arg_at_after.
          * assert (HL : tlen t = Some pos).
            { unfold has_elem in HP. destruct (tlen t) as [L|] eqn:TL; [|easy]. apply Nat.ltb_ge in HP.
              f_equal. destruct pos; [lia|]. specialize (Hq pos ltac:(lia)). apply has_elem_spec in Hq.
              rewrite TL in Hq. lia. }
            rewrite <- map_app. now apply eager_ok.
        + apply Nat.ltb_ge in K. simpl fst. rewrite call_base, Hbase. fold P. rewrite app_assoc, <- map_app.
          apply bind_ok_wrapped with (m := m); try easy.
          * rewrite app_length. lia.
          * intros i Hi. now apply arg_at_lead.
          * intros j. apply arg_at_tail.
      - simpl fst. assert (HL : tlen t = Some 0).
        { unfold has_elem in H0. destruct (tlen t) as [L|]; [|easy]. apply Nat.ltb_ge in H0. f_equal. lia. }
        now apply direct_ok. Qed.
  End Lazy.

  (** how much of the tail `apply` has realized when the body starts, for every callable whose
      arities contain :rest (no well-formedness needed) *)
  Lemma apply_forced lead : snd (arities c) = true ->
    snd (apply t false c lead) = clamp ((apply_M c - length lead) + 1).
  Proof. intros Hr. unfold apply. rewrite Hr. simpl negb. simpl andb. destruct (has_elem t 0) eqn:H0.
    - unfold apply_to_lazy. pose proof (clamp_has_elem 0 H0) as C1.
      destruct (length lead <? apply_M c) eqn:K.
      + apply Nat.ltb_lt in K.
        destruct (pull t (apply_M c - length lead) 0 (force_upto t 0 0) []) as [[pos forced] rem] eqn:PU.
        apply pull_spec in PU as (H1 & _ & H3 & H4 & H5). rewrite force_upto_clamp in H5.
        pose proof (clamp_mono 1 (S pos) ltac:(lia)).
        assert (F : force_upto t forced pos = clamp (S pos)) by (rewrite force_upto_clamp; lia).
        destruct (has_elem t pos) eqn:HP; simpl snd; rewrite F.
        * assert (pos = apply_M c - length lead).
          { destruct (Nat.eq_dec pos (apply_M c - length lead)); [easy|]. exfalso. assert (X : true = false) by (apply H4; lia). discriminate. }
          f_equal. lia.
        * unfold has_elem in HP. unfold clamp. destruct (tlen t) as [L|]; [|easy]. apply Nat.ltb_ge in HP. lia.
      + apply Nat.ltb_ge in K. simpl snd. rewrite force_upto_clamp. replace (apply_M c - length lead) with 0 by lia.
        simpl. lia.
    - simpl snd. unfold has_elem in H0. unfold clamp. destruct (tlen t) as [L|]; [|easy].
      apply Nat.ltb_ge in H0. lia. Qed.
End ApplyProofs.

(** ---------------------------------------------------------------- the theorems *)
Section Top.
  Context {A : Type}.
  Implicit Types (c : callee A) (t : tail A).

  (** C08_bind_correct: every signature the analyzer accepts, every (nested) partial of it,
      every call shape, every argument count, finite or infinite tail *)
  Theorem bind_correct (s : sig) c : wf_sig s = true -> base c = s ->
    (* direct call, Var.__call__, call site naming the global *)
    (forall xs t, tlen t = Some 0 -> bind_ok s (pargs c ++ xs) t (call c (map PV xs)))
    (* (apply f a1..ak tail): a finite tail, or an infinite one when f is variadic *)
    /\ (forall lead t, (tlen t = None -> is_variadic s = true) ->
          bind_ok s (pargs c ++ lead) t (fst (apply t false c lead)))
    (* (apply #'f a1..ak tail): finite tails only (see apply_via_var_refuted) *)
    /\ (forall lead t L, tlen t = Some L -> bind_ok s (pargs c ++ lead) t (fst (apply t true c lead))).
  Proof. intros Hwf Hb. split; [|split].
    - intros xs t HL. now apply direct_ok.
    - intros lead t Hinf. destruct (variadic s) as [m|] eqn:V.
      + now apply apply_lazy_ok with (m := m).
      + unfold apply. rewrite arities_rest, Hb. unfold is_variadic in *. rewrite V in *. simpl andb.
        destruct (has_elem t 0) eqn:H0.
        * destruct (tlen t) as [L|] eqn:TL; [|now specialize (Hinf eq_refl)]. simpl fst. now apply eager_ok.
        * simpl fst. apply direct_ok; try easy. unfold has_elem in H0. destruct (tlen t); [|easy].
          apply Nat.ltb_ge in H0. f_equal. lia.
    - intros lead t L HL. unfold apply. simpl andb. rewrite HL. destruct (has_elem t 0) eqn:H0.
      + simpl fst. now apply eager_ok.
      + simpl fst. apply direct_ok; try easy. unfold has_elem in H0. rewrite HL in *.
        apply Nat.ltb_ge in H0. f_equal. lia. Qed.

  (** what bind_ok says about errors, spelled out: an arity error is raised exactly when no
      arity matches, and then the outcome is not the start of any body; when an arity
      matches, the outcome is the start of THAT arity's body *)
  Lemma bind_ok_error_iff s lead t r : bind_ok s lead t r ->
    ((exists e, r = RArityErr e) <-> forall ar, ~ matches s (total lead t) ar)
    /\ (forall ar ps rv, r = RBound ar ps rv -> choose s (total lead t) = Some ar).
  Proof. unfold bind_ok. destruct (choose s (total lead t)) as [ar|] eqn:C.
    - intros (ps & rv & -> & _). split.
      + split; [intros [e [=]]|]. intros H. exfalso. apply (H ar). now apply choose_matches.
      + now intros ar' ps' rv' [= <- _ _].
    - intros [e ->]. split.
      + split; [|eauto]. intros _. now apply choose_none.
      + easy. Qed.

  (** the dispatcher of a multi-arity fn never lets CPython's own TypeError escape from the
      arity function it selected: whatever the arguments, whatever the signature *)
  Lemma dispatch_no_typeerror (s : sig) (args : list (parg A)) : dispatch s args <> RArityErr TypeErr.
  Proof. unfold dispatch. destruct (existsb _ (fixed s)).
    - unfold py_bind_fixed. rewrite Nat.eqb_refl. now destruct (vals args).
    - destruct (variadic s) as [m|] eqn:V; [|easy].
      destruct (max_fixed s <=? length args) eqn:L; [|easy]. apply Nat.leb_le in L.
      assert (m <= max_fixed s).
      { apply lmax_ge. unfold all_counts, ovar. rewrite V. apply in_or_app. right. now left. }
      unfold py_bind_rest. destruct (length args <? m) eqn:E; [apply Nat.ltb_lt in E; lia|].
      destruct (vals (firstn m args)); [|easy]. destruct (skipn m args); [easy|].
      destruct (unwrap _) as [[? ?]|]; easy. Qed.

  Theorem no_arity_error_after_body_starts (s : sig) c : wf_sig s = true -> base c = s ->
    forall lead t via_var, (tlen t = None -> is_variadic s = true /\ via_var = false) ->
      let r := fst (apply t via_var c lead) in
      ((exists e, r = RArityErr e) <-> forall ar, ~ matches s (total (pargs c ++ lead) t) ar)
      /\ (forall ar ps rv, r = RBound ar ps rv -> choose s (total (pargs c ++ lead) t) = Some ar)
      /\ r <> RLeak /\ r <> RDiverge.
  Proof. intros Hwf Hb lead t vv Hinf r.
    assert (Hok : bind_ok s (pargs c ++ lead) t r).
    { destruct (bind_correct s c Hwf Hb) as (_ & H2 & H3). destruct vv.
      - destruct (tlen t) as [L|] eqn:TL; [now apply H3 with (L := L)|]. now destruct (Hinf eq_refl).
      - apply H2. intros Hn. now destruct (Hinf Hn). }
    destruct (bind_ok_error_iff _ _ _ _ Hok) as [H1 H2]. split; [easy|]. split; [easy|].
    unfold bind_ok in Hok. destruct (choose _ _).
    - destruct Hok as (ps & rv & -> & _). easy.
    - destruct Hok as [e ->]. easy. Qed.

  (** C08_apply_forces: exact count, the bound of the property, and the true minimum *)
  Theorem apply_forces_exactly (s : sig) c lead t : base c = s -> is_variadic s = true ->
    snd (apply t false c lead) = clamp t ((max_fixed s - length (pargs c ++ lead)) + 1).
  Proof. intros Hb Hv. rewrite apply_forced by (now rewrite arities_rest, Hb).
    rewrite apply_M_base, Hb, app_length. f_equal. lia. Qed.

  Theorem apply_forces_at_most (s : sig) c m lead t : wf_sig s = true -> base c = s -> variadic s = Some m ->
    let k := length (pargs c ++ lead) in
    let forced := snd (apply t false c lead) in
    forced <= force_bound m k
    /\ (forall a, choose s (total (pargs c ++ lead) t) = Some (AFix a) -> forced <= force_bound a k)
    /\ (match tlen t with Some L => forced <= L | None => True end).
  Proof. intros Hwf Hb Hv k forced. unfold forced.
    rewrite (apply_forces_exactly s c lead t Hb) by (unfold is_variadic; now rewrite Hv).
    rewrite (wf_max_fixed s m Hwf Hv). fold k. unfold force_bound. split; [apply clamp_le|]. split.
    - intros a Hc. unfold total in Hc. unfold clamp. destruct (tlen t) as [L|].
      + unfold choose in Hc. fold k in Hc. destruct (existsb _ _).
        * injection Hc as <-. lia.
        * rewrite Hv in Hc. now destruct (m <=? k + L).
      + unfold choose in Hc. now rewrite Hv in Hc.
    - unfold clamp. destruct (tlen t); [lia|easy]. Qed.

  (** with k <= m leading arguments the code realizes exactly what any implementation must;
      with k > m it realizes one element (the emptiness test of `apply`) where none is needed *)
  Theorem apply_forces_vs_needed (s : sig) c m lead t : wf_sig s = true -> base c = s -> variadic s = Some m ->
    let k := length (pargs c ++ lead) in
    let forced := snd (apply t false c lead) in
    (k <= m -> forced = force_needed m k (tlen t))
    /\ (m < k -> force_needed m k (tlen t) = 0 /\ forced = clamp t 1).
  Proof. intros Hwf Hb Hv k forced. unfold forced.
    rewrite (apply_forces_exactly s c lead t Hb) by (unfold is_variadic; now rewrite Hv).
    rewrite (wf_max_fixed s m Hwf Hv). fold k. unfold force_needed, clamp. split.
    - intros H. assert (E : m <? k = false) by (apply Nat.ltb_ge; lia). rewrite E. destruct (tlen t); lia.
    - intros H. assert (E : m <? k = true) by (now apply Nat.ltb_lt). rewrite E. split; [easy|].
      replace (m - k) with 0 by lia. easy. Qed.

  (** C08_partial_arities: what `partial` recomputes, for arbitrarily nested partials *)
  Theorem partial_arities c :
    apply_M c = max_fixed (base c) - length (pargs c)
    /\ snd (arities c) = is_variadic (base c)
    /\ forall args, call c args = call_fn (base c) (map PV (pargs c) ++ args).
  Proof. split; [apply apply_M_base|]. split; [apply arities_rest|]. apply call_base. Qed.

  (** BEFORE repair F-08c: the `arities` attribute of a one-level partial was right only under
      the executable guard [partial_report_ok] *)
  Theorem partial_reported_old_partial (s : sig) (pa : list A) : partial_report_ok s (length pa) = true ->
    arities_gen false (CPartial (CFn s) pa) = (shift_counts (all_counts s) (length pa), is_variadic s).
  Proof. unfold partial_report_ok. intros H. apply andb_prop in H as [H1 H2]. apply negb_true_iff in H1.
    apply existsb_eqb_notIn in H1. set (p := length pa) in *.
    assert (Hf : forall l, ~ In p l -> filter (fun a => p <? a) l = filter (fun a => p <=? a) l).
    { induction l as [|a l IH]; [easy|]. intros Hn. simpl.
      assert (a <> p) by (intros ->; apply Hn; now left).
      assert (E : (p <? a) = (p <=? a)).
      { destruct (p <? a) eqn:E1; destruct (p <=? a) eqn:E2; try easy.
        - apply Nat.ltb_lt in E1. apply Nat.leb_gt in E2. lia.
        - apply Nat.ltb_ge in E1. apply Nat.leb_le in E2. lia. }
      rewrite E, IH; [easy|]. intros Hi. apply Hn. now right. }
    cbn [arities_gen]. fold p. rewrite (Hf _ H1). fold (shift_counts (all_counts s) p).
    destruct (shift_counts (all_counts s) p) eqn:X; [|easy].
    destruct (is_variadic s) eqn:V; [|apply existsb_eqb_notIn in H1; now rewrite H1].
    (* variadic with p < m: the shifted list contains m - p, so it is not empty *)
    exfalso. unfold is_variadic in V. destruct (variadic s) as [m|] eqn:Vm; [|easy].
    apply Nat.ltb_lt in H2. unfold shift_counts, all_counts, ovar in X. rewrite Vm, filter_app, map_app in X.
    simpl in X. assert (E : p <=? m = true) by (apply Nat.leb_le; lia). rewrite E in X. simpl in X.
    now destruct (map (fun a => a - p) (filter (fun a => p <=? a) (fixed s))). Qed.
End Top.

(** F-08c (repaired): BEFORE the repair (partial (fn ([a] ..) ([a b c] ..)) x) accepted a call with
    no arguments (arity [a] runs) but its `arities` attribute was #{2}: 0 was missing *)
Theorem partial_reported_old_refuted :
  exists (s : sig) (pa : list unit),
    wf_sig s = true
    /\ In 0 (shift_counts (all_counts s) (length pa))
    /\ ~ In 0 (fst (arities_gen false (CPartial (CFn s) pa)))
    /\ call (CPartial (CFn s) pa) [] = RBound (AFix 1) pa RestNil.
Proof. exists (mkSig [1; 3] None), [tt]. vm_compute. repeat split; try tauto. intros [H|H]; [discriminate|easy]. Qed.

(** F-08d: apply through the Var does not use apply_to: an infinite tail is consumed eagerly,
    and a finite one is realized completely although the bound of the property is 1 *)
Theorem apply_via_var_refuted :
  exists (s : sig) (t : tail nat), wf_sig s = true /\ is_variadic s = true /\ tlen t = None
    /\ fst (apply t true (CFn s) []) = RDiverge
    /\ fst (apply t false (CFn s) []) = RBound (ARest 0) [] (RestSeq [] (Some 0))
    /\ exists t6 : tail nat, tlen t6 = Some 6 /\ snd (apply t6 true (CFn s) []) = 6 /\ force_bound 0 0 = 1.
Proof. exists (mkSig [] (Some 0)), (mkTail None (fun i => i)). repeat split.
  exists (mkTail (Some 6) (fun i => i)). now vm_compute. Qed.

(** non-vacuity of bind_correct's premises and of the lazy path: fixed {1}, variadic 3,
    (apply (partial f :p) :x <infinite>) binds [:p :x 0] and the rest from position 1, having
    realized 2 elements *)
Example bind_nonvacuous :
  let s := mkSig [1] (Some 3) in
  let c := CPartial (CFn s) [200] in
  let t := mkTail None (fun i => i) in
  wf_sig s = true /\ apply t false c [100] = (RBound (ARest 3) [200; 100; 0] (RestSeq [] (Some 1)), 2).
Proof. now vm_compute. Qed.
