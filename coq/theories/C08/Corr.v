(** C08 correspondence interface: cases, observable outputs, spec predicate, model.
    Must not import the proofs. *)
From Coq Require Import List Arith Bool NArith.
Import ListNotations.
From Verif Require Export Common.ListX C08.Base C08.Arity C08.Spec.

(** Argument values are numbers: leading argument i is 100+i, the j-th partially applied
    argument (innermost `partial` first) is 200+j, element i of the tail is i. *)
Inductive shape :=
| ShDirect (n : N)                                   (* (f a0 .. a(n-1)) *)
| ShApply (via_var : bool) (k : N) (tl : option N).  (* (apply f a0..a(k-1) tail); tl = None: infinite lazy tail *)

Inductive case :=
| CCall (fx : list N) (vr : option N) (ps : list N) (how : N) (sh : shape)
    (* fn with fixed arities fx and optional variadic arity with vr fixed params; ps: sizes of the
       nested partial applications, innermost first; how (not used by the model): 0 the fn object,
       1 the Var object is called, 2 a call site naming the global *)
| CArities (fx : list N) (vr : option N) (ps : list N)   (* the `arities` attribute of that callable *)
| CRecur (fx : list N) (vr : option N) (ar : N) (vs : list rval)
    (* first execution of arity [ar] (code: a fixed arity is its count, the variadic one 100+m)
       does (recur v1..vn); what does the second execution see *)
| CStack (kind : N) (iters : N).   (* 0 loop, 1 single-arity fn recur, 2 multi-arity fn recur, 3 single-arity variadic fn recur *)

Inductive out :=
| OBound (ar : N) (params : list N) (rest : option (list N)) (forced : N)
    (* which arity ran, its fixed parameters, the rest parameter (nil or its first 10 elements),
       how many elements of the lazy tail were realized when the body started *)
| OArityErr (forced : N)       (* TypeError (Python binding) / RuntimeException (dispatcher) "wrong number of args" *)
| ODiverge                     (* the instrumented infinite tail was realized beyond 200 elements *)
| OArities (ints : list N) (rest : bool)      (* sorted, without duplicates *)
| ORBound (ar : N) (params : list rval) (rest : option (list rval))
| ODepths (l : list N)         (* Python stack depth inside the body minus depth at the call site, at 3 iterations *)
| OErr (c : N).                (* anything else: 1 other exception, 2 timeout/hang, 9 model-only (leak) *)

Definition nat_of := N.to_nat.
Definition mk_sig (fx : list N) (vr : option N) : sig :=
  mkSig (map nat_of fx) (option_map nat_of vr).
Definition lead_vals (k : nat) : list N := map (fun i => 100 + N.of_nat i)%N (seq 0 k).
Definition part_vals (from cnt : nat) : list N := map (fun i => 200 + N.of_nat i)%N (seq from cnt).
Definition mk_tail (tl : option N) : tail N := mkTail (option_map nat_of tl) N.of_nat.

Fixpoint mk_callee_from (c : callee N) (from : nat) (ps : list N) : callee N :=
  match ps with
  | [] => c
  | p :: r => mk_callee_from (CPartial c (part_vals from (nat_of p))) (from + nat_of p) r
  end.
Definition mk_callee (s : sig) (ps : list N) : callee N := mk_callee_from (CFn s) 0 ps.
Definition n_partial (ps : list N) : nat := fold_right (fun p acc => nat_of p + acc) 0 ps.

Definition arity_code (ar : arity) : N :=
  match ar with AFix n => N.of_nat n | ARest m => (100 + N.of_nat m)%N end.
Definition arity_of_code (c : N) : arity :=
  if (c <? 100)%N then AFix (nat_of c) else ARest (nat_of (c - 100)).

Fixpoint take_rest (t : tail N) (r : restv N) (i cnt : nat) : list N :=
  match cnt with
  | 0 => []
  | S c => match rest_nth t r i with Some a => a :: take_rest t r (S i) c | None => [] end
  end.

Fixpoint take_args (lead : list N) (t : tail N) (i cnt : nat) : list N :=
  match cnt with
  | 0 => []
  | S c => match arg_at lead t i with Some a => a :: take_args lead t (S i) c | None => [] end
  end.

Definition observe (t : tail N) (rf : result N * nat) : out :=
  match fst rf with
  | RBound ar ps rv =>
      OBound (arity_code ar) ps (if rest_is_nil rv then None else Some (take_rest t rv 0 10)) (N.of_nat (snd rf))
  | RArityErr _ => OArityErr (N.of_nat (snd rf))
  | RLeak => OErr 9
  | RDiverge => ODiverge
  end.

Definition observe_r (r : result rval) : out :=
  match r with
  | RBound ar ps RestNil => ORBound (arity_code ar) ps None
  | RBound ar ps (RestSeq pre _) => ORBound (arity_code ar) ps (Some (firstn 10 pre))
  | RArityErr _ => OArityErr 0
  | RLeak => OErr 9
  | RDiverge => ODiverge
  end.

(** sorted duplicate-free list of the members of l below 32 *)
Definition as_set (l : list nat) : list N :=
  map N.of_nat (filter (fun i => existsb (Nat.eqb i) l) (seq 0 32)).

Definition kind_of (k : N) : rkind :=
  match k with 0%N => KLoop | 2%N => KFnMulti | _ => KFnSingle end.

Definition model (c : case) : out :=
  match c with
  | CCall fx vr ps _ sh =>
      let s := mk_sig fx vr in
      let ce := mk_callee s ps in
      match sh with
      | ShDirect n => observe (mk_tail (Some 0%N)) (call ce (map PV (lead_vals (nat_of n))), 0)
      | ShApply vv k tl => observe (mk_tail tl) (apply (mk_tail tl) vv ce (lead_vals (nat_of k)))
      end
  | CArities fx vr ps =>
      let '(ints, r) := arities (mk_callee (mk_sig fx vr) ps) in OArities (as_set ints) r
  | CRecur fx vr ar vs => observe_r (recur_step (mk_sig fx vr) (arity_of_code ar) vs)
  | CStack k _ => let d := N.of_nat (rel_depth (kind_of k)) in ODepths [d; d; d]
  end.

(** ---------------------------------------------------------------------------------- spec *)
Definition olist_eqb (a b : option (list N)) : bool := option_eqb (list_eqb N.eqb) a b.

Definition rval_eqb (a b : rval) : bool :=
  match a, b with
  | VNil, VNil => true
  | VAtom x, VAtom y => N.eqb x y
  | VSeq x, VSeq y => list_eqb N.eqb x y
  | VInf, VInf => true
  | VVec x, VVec y => list_eqb N.eqb x y
  | _, _ => false
  end.

Definition onat_eqb (a b : option nat) : bool := option_eqb Nat.eqb a b.

(** the binding the property prescribes for the argument sequence lead ++ tail *)
Definition spec_binding (s : sig) (lead : list N) (t : tail N) : option (arity * list N * option (list N)) :=
  match choose s (total lead t) with
  | None => None
  | Some ar =>
      Some (ar, take_args lead t 0 (arity_count ar),
            match ar with
            | AFix _ => None
            | ARest m => if onat_eqb (total lead t) (Some m) then None else Some (take_args lead t m 10)
            end)
  end.

Definition forced_ok (s : sig) (sh : shape) (np : nat) (chosen : option arity) (forced : N) : bool :=
  match sh with
  | ShDirect _ => N.eqb forced 0
  | ShApply _ k tl =>
      match tl with Some L => (forced <=? L)%N | None => true end
      && (negb (is_variadic s)
          || (nat_of forced <=? force_bound (match chosen with Some ar => arity_count ar | None => max_fixed s end)
                                            (np + nat_of k)))
  end.

Fixpoint all_eqb (l : list N) : bool :=
  match l with a :: (b :: _) as r => N.eqb a b && all_eqb r | _ => true end.

Definition naturals (n : nat) : list rval := map (fun i => VAtom (N.of_nat i)) (seq 0 n).

Definition spec_ok (c : case) (o : out) : bool :=
  match c with
  | CCall fx vr ps _ sh =>
      let s := mk_sig fx vr in
      let np := n_partial ps in
      let '(lead, t) := match sh with
                        | ShDirect n => (part_vals 0 np ++ lead_vals (nat_of n), mk_tail (Some 0%N))
                        | ShApply _ k tl => (part_vals 0 np ++ lead_vals (nat_of k), mk_tail tl)
                        end in
      match spec_binding s lead t, o with
      | Some (ar, ps', rv), OBound a ps'' rv' forced =>
          N.eqb a (arity_code ar) && list_eqb N.eqb ps' ps'' && olist_eqb rv rv'
          && forced_ok s sh np (Some ar) forced
      | None, OArityErr forced => forced_ok s sh np None forced
      | _, _ => false
      end
  | CArities fx vr ps =>
      let s := mk_sig fx vr in
      match o with
      | OArities ints r =>
          list_eqb N.eqb ints (as_set (shift_counts (all_counts s) (n_partial ps))) && Bool.eqb r (is_variadic s)
      | _ => false
      end
  | CRecur fx vr ar vs =>
      match arity_of_code ar, o with
      | AFix n, ORBound a ps None => N.eqb a ar && list_eqb rval_eqb ps vs
      | ARest m, ORBound a ps rv =>
          N.eqb a ar && list_eqb rval_eqb ps (firstn m vs)
          && match last vs VNil, rv with
             | (VNil | VSeq [] | VVec []), None => true
             | (VSeq ((_ :: _) as l) | VVec ((_ :: _) as l)), Some r => list_eqb rval_eqb r (map VAtom (firstn 10 l))
             | VInf, Some r => list_eqb rval_eqb r (naturals 10)
             | VAtom _, _ => true
             | _, _ => false
             end
      | _, _ => false
      end
  | CStack _ _ =>
      match o with ODepths ((_ :: _) as l) => all_eqb l | _ => false end
  end.

Definition orl_eqb (a b : option (list rval)) : bool := option_eqb (list_eqb rval_eqb) a b.

Definition out_eqb (a b : out) : bool :=
  match a, b with
  | OBound a1 p1 r1 f1, OBound a2 p2 r2 f2 => N.eqb a1 a2 && list_eqb N.eqb p1 p2 && olist_eqb r1 r2 && N.eqb f1 f2
  | OArityErr f1, OArityErr f2 => N.eqb f1 f2
  | ODiverge, ODiverge => true
  | OArities i1 r1, OArities i2 r2 => list_eqb N.eqb i1 i2 && Bool.eqb r1 r2
  | ORBound a1 p1 r1, ORBound a2 p2 r2 => N.eqb a1 a2 && list_eqb rval_eqb p1 p2 && orl_eqb r1 r2
  | ODepths l1, ODepths l2 => list_eqb N.eqb l1 l2
  | OErr x, OErr y => N.eqb x y
  | _, _ => false
  end.

(** defect tags of the OPEN findings (computed from the case alone; 0 = none):
    1  F-08d  apply through the Var of a variadic fn (eager)
    2  F-08e  recur into the variadic arity with a last value that is neither nil nor a finite
              ISeq (a vector, an infinite lazy seq)
    8  F-08c  the `arities` attribute of a partial loses 0: the outermost partial supplies exactly
              as many arguments as one of the (correct) arity counts of its callable, and a larger
              count or :rest exists
    The repaired findings F-08a/b have no tag: the model follows the source through the
    regenerated flags, so a reverted repair shows as impl = model <> spec with no open finding
    to explain it. *)
Definition arities_defect (s : sig) (ps : list N) : bool :=
  match rev ps with
  | [] => false
  | p :: before =>
      let ints := shift_counts (all_counts s) (n_partial (rev before)) in
      existsb (Nat.eqb (nat_of p)) ints
      && (is_variadic s || existsb (fun a => nat_of p <? a) ints)
  end.

Definition tag (c : case) : N :=
  match c with
  | CCall fx vr _ _ (ShApply true _ _) => if is_variadic (mk_sig fx vr) then 1 else 0
  | CRecur fx vr ar vs => if recur_safe (arity_of_code ar) vs then 0 else 2
  | CArities fx vr ps => if arities_defect (mk_sig fx vr) ps then 8 else 0
  | _ => 0
  end%N.
