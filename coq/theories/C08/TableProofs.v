(** C08 -- obligations on the definitions regenerated from generator.py / runtime.py /
    analyzer.py (harness/tr/tr_arity.py).  A source edit that changes the extracted value, or
    makes the translator refuse AND the committed fallback differ, breaks these by name. *)
From Coq Require Import NArith.
From Verif Require Import Gen.Tables.

(** the model's [dispatch] uses `max_fixed s <=? nargs`, i.e. `nargs >= max_fixed_arity` *)
Lemma dispatch_cmp_ok : arity_dispatch_cmp = 0%N.
Proof. reflexivity. Qed.

Lemma shapes_ok :
  arity_apply_to_shape = 1%N /\ arity_apply_shape = 1%N /\ arity_unwrap_shape = 1%N
  /\ arity_partial_shape = 1%N /\ arity_trampoline_shape = 1%N /\ arity_analyzer_rule = 1%N.
Proof. repeat split; reflexivity. Qed.

(** the repairs F-08a, F-08b are in the working tree: the model ([recur_step]) follows these
    flags, and the theorems of Properties/C08.v about it are stated for the repaired shape --
    reverting a repair flips a flag and breaks them by name *)
Lemma repairs_present : arity_tramp_nil = 1%N /\ arity_recur_flag = 1%N.
Proof. repeat split; reflexivity. Qed.

(** _update_signature_for_partial still has the shape of the open finding F-08c (the proposed
    repair contradicts an expectation of the repo's own test-suite and is not applied) *)
Lemma partial_cmp_open : arity_partial_cmp = 0%N.
Proof. reflexivity. Qed.
