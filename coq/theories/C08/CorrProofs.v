(** C08 -- the executable specification used by the correspondence ([spec_binding] of Corr.v)
    is the observation of exactly the outcomes the declarative specification [bind_ok] allows. *)
From Coq Require Import List Arith Bool Lia NArith.
Import ListNotations.
From Verif Require Import C08.Base C08.Arity C08.Spec C08.Corr C08.Proofs.

Lemma take_args_spec (lead : list N) (t : tail N) : forall cnt i ps,
  length ps = cnt -> (forall j, j < cnt -> nth_error ps j = arg_at lead t (i + j)) ->
  take_args lead t i cnt = ps.
Proof. induction cnt as [|cnt IH]; intros i ps Hl Hn.
  - now destruct ps.
  - destruct ps as [|a ps]; [easy|]. simpl. specialize (Hn 0 ltac:(lia)) as H0. simpl in H0.
    rewrite Nat.add_0_r in H0. rewrite <- H0. f_equal. apply IH; [simpl in Hl; lia|].
    intros j Hj. specialize (Hn (S j) ltac:(lia)). simpl in Hn. now replace (S i + j) with (i + S j) by lia. Qed.

Lemma take_rest_args (lead : list N) (t : tail N) (rv : restv N) : forall n a b,
  (forall i, rest_nth t rv (a + i) = arg_at lead t (b + i)) ->
  take_rest t rv a n = take_args lead t b n.
Proof. induction n as [|n IH]; intros a b H; [easy|]. simpl.
  specialize (H 0) as H0. rewrite !Nat.add_0_r in H0. rewrite H0.
  destruct (arg_at lead t b); [|easy]. f_equal. apply IH. intros i.
  specialize (H (S i)). now replace (S a + i) with (a + S i) by lia; replace (S b + i) with (b + S i) by lia. Qed.

Lemma onat_eqb_eq a b : onat_eqb a b = true <-> a = b.
Proof. unfold onat_eqb, option_eqb. destruct a, b; split; intros H; try easy.
  - apply Nat.eqb_eq in H. now subst.
  - injection H as ->. apply Nat.eqb_refl. Qed.

Theorem observe_of_bind_ok (s : sig) (lead : list N) (t : tail N) (r : result N) (forced : nat) :
  bind_ok s lead t r ->
  match spec_binding s lead t with
  | Some (ar, ps, rv) => observe t (r, forced) = OBound (arity_code ar) ps rv (N.of_nat forced)
  | None => observe t (r, forced) = OArityErr (N.of_nat forced)
  end.
Proof. unfold bind_ok, spec_binding. destruct (choose s (total lead t)) as [ar|].
  - intros (ps & rv & -> & Hl & Hn & Hr). unfold observe. simpl fst. simpl snd.
    rewrite (take_args_spec lead t (arity_count ar) 0 ps Hl) by (intros j Hj; now apply Hn).
    f_equal. destruct ar as [n|m].
    + now subst rv.
    + destruct Hr as [Hnil Hnth]. destruct (onat_eqb (total lead t) (Some m)) eqn:E.
      * apply onat_eqb_eq in E. apply Hnil in E. now subst rv.
      * destruct rv as [|pre lz].
        -- assert (X : total lead t = Some m) by now apply Hnil. apply onat_eqb_eq in X. congruence.
        -- simpl rest_is_nil. cbv iota. f_equal. apply take_rest_args. intros i. apply Hnth.
  - now intros [e ->]. Qed.

(** hence, for every case of the correspondence in the property's domain, the observation of the
    Coq model's outcome is the binding [spec_ok] demands *)
Corollary model_direct_meets_spec (s : sig) (ps : list N) (n : nat) :
  wf_sig s = true ->
  let c := mk_callee s ps in
  let t := mk_tail (Some 0%N) in
  base c = s ->
  match spec_binding s (pargs c ++ lead_vals n) t with
  | Some (ar, p, rv) => observe t (call c (map PV (lead_vals n)), 0) = OBound (arity_code ar) p rv 0
  | None => observe t (call c (map PV (lead_vals n)), 0) = OArityErr 0
  end.
Proof. intros Hwf c t Hb. apply (observe_of_bind_ok s _ t _ 0).
  destruct (bind_correct s c Hwf Hb) as (H1 & _ & _). now apply H1. Qed.

(** the callables the correspondence builds: signature and pre-supplied arguments *)
Lemma part_vals_app from a b : part_vals from a ++ part_vals (from + a) b = part_vals from (a + b).
Proof. unfold part_vals. now rewrite seq_app, map_app. Qed.

Lemma mk_callee_from_spec : forall ps c from,
  base (mk_callee_from c from ps) = base c
  /\ pargs (mk_callee_from c from ps) = pargs c ++ part_vals from (n_partial ps).
Proof. induction ps as [|p ps IH]; intros c from; simpl.
  - unfold part_vals. simpl. now rewrite app_nil_r.
  - destruct (IH (CPartial c (part_vals from (nat_of p))) (from + nat_of p)) as [H1 H2].
    split; [now rewrite H1|]. rewrite H2. simpl. now rewrite <- app_assoc, part_vals_app. Qed.

Lemma mk_callee_spec s ps :
  base (mk_callee s ps) = s /\ pargs (mk_callee s ps) = part_vals 0 (n_partial ps).
Proof. unfold mk_callee. destruct (mk_callee_from_spec ps (CFn s) 0) as [H1 H2]. now rewrite H1, H2. Qed.
