(** C08 -- what the property prescribes, independent of the model of the code.

    A call supplies the argument sequence `lead ++ tail` (the tail possibly infinite, possibly
    lazy).  The ONE matching arity runs: the fixed arity with exactly that many parameters if
    there is one, otherwise the variadic arity when at least its fixed parameters are
    supplied.  Parameters are bound in order; surplus arguments are the rest parameter, a
    sequence in order, nil if there are none.  Otherwise: an arity error, before any body. *)
From Coq Require Import List Arith Bool Lia NArith.
Import ListNotations.
From Verif Require Export C08.Base.

(** [ar] is an arity of [s] that accepts [n] arguments (None = infinitely many). *)
Definition matches (s : sig) (n : option nat) (ar : arity) : Prop :=
  match ar with
  | AFix a => In a (fixed s) /\ n = Some a
  | ARest m => variadic s = Some m /\ match n with Some k => m <= k | None => True end
  end.

(** the arity that must run: an exact fixed arity has priority over the variadic one (they
    overlap only when the variadic arity has as many fixed parameters as that fixed arity
    and there is no surplus) *)
Definition choose (s : sig) (n : option nat) : option arity :=
  match n with
  | Some k =>
      if existsb (Nat.eqb k) (fixed s) then Some (AFix k)
      else match variadic s with
           | Some m => if m <=? k then Some (ARest m) else None
           | None => None
           end
  | None => match variadic s with Some m => Some (ARest m) | None => None end
  end.

Definition arity_count (ar : arity) : nat := match ar with AFix n => n | ARest m => m end.

Section Spec.
  Context {A : Type}.

  (** the call `lead ++ tail` to a function with signature [s] ended (before its body) in [r] *)
  Definition bind_ok (s : sig) (lead : list A) (t : tail A) (r : result A) : Prop :=
    match choose s (total lead t) with
    | None => exists c, r = RArityErr c
    | Some ar =>
        exists ps rv,
          r = RBound ar ps rv
          /\ length ps = arity_count ar
          /\ (forall i, i < arity_count ar -> nth_error ps i = arg_at lead t i)
          /\ match ar with
             | AFix _ => rv = RestNil
             | ARest m =>
                 (rv = RestNil <-> total lead t = Some m)
                 /\ forall i, rest_nth t rv i = arg_at lead t (m + i)
             end
    end.

  (** how many elements of a lazy tail `apply f a1..ak tail` may realize before the body of
      a variadic function starts: the fixed parameters not covered by a1..ak, plus one for the
      test whether anything is left *)
  Definition force_bound (m k : nat) : nat := (m - k) + 1.

  (** what any implementation must realize to decide the binding: with k <= m leading
      arguments it has to know min(L, m - k + 1); with k > m the surplus is already
      non-empty, nothing needs to be realized *)
  Definition force_needed (m k : nat) (L : option nat) : nat :=
    if m <? k then 0
    else match L with Some l => Nat.min l (m - k + 1) | None => m - k + 1 end.
End Spec.

(** `(partial f a1..ap)` behaves like a function of this signature *)
Definition shift_sig (s : sig) (p : nat) : sig :=
  mkSig (map (fun a => a - p) (filter (fun a => p <=? a) (fixed s)))
        (match variadic s with Some m => Some (m - p) | None => None end).

Definition shift_arity (p : nat) (ar : arity) : arity :=
  match ar with AFix a => AFix (a - p) | ARest m => ARest (m - p) end.

(** recur: `(recur v1..vn)` in the body of arity [ar] re-enters THAT arity with its
    parameters bound to v1..vn in order; for the variadic arity the last value is the
    surplus: nothing (nil or an empty seq) -> rest is nil, otherwise the seq of its elements *)

Definition recur_ok (ar : arity) (vs : list rval) (r : result rval) : Prop :=
  match ar with
  | AFix n => r = RBound (AFix n) vs RestNil
  | ARest m =>
      match last vs VNil with
      | VNil | VSeq [] | VVec [] => r = RBound (ARest m) (firstn m vs) RestNil
      | VSeq l | VVec l => r = RBound (ARest m) (firstn m vs) (RestSeq (map VAtom l) None)
      | VInf => exists pre lz, r = RBound (ARest m) (firstn m vs) (RestSeq pre lz)   (* must not diverge *)
      | VAtom _ => True                                   (* not a legal rest value *)
      end
  end.

(** a recur form the analyzer accepts: as many expressions as the arity has parameters *)
Definition recur_legal (ar : arity) (vs : list rval) : Prop :=
  match ar with AFix n => length vs = n | ARest m => length vs = S m end.

(** [ar] is one of the arities of [s] *)
Definition arity_of (s : sig) (ar : arity) : Prop :=
  match ar with AFix n => In n (fixed s) | ARest m => variadic s = Some m end.

(** Executable guards of the `_partial` theorems (the sub-domains on which the current code
    meets the property). *)
Definition is_iseq (v : rval) : bool := match v with VSeq _ | VInf => true | _ => false end.

(** the current code re-binds correctly at every recur in a fixed arity, and in the variadic
    arity when the last value is nil or a finite ISeq (open finding F-08e: a vector is wrapped
    as one surplus argument, a lazy seq is realized completely, an infinite one never returns) *)
Definition recur_safe (ar : arity) (vs : list rval) : bool :=
  match ar with
  | AFix _ => true
  | ARest _ => match last vs VNil with VSeq _ | VNil => true | _ => false end
  end.

(** the guard that was needed BEFORE the repairs F-08a (nil) and F-08b (flag of the whole fn) *)
Definition recur_safe_old (s : sig) (ar : arity) (vs : list rval) : bool :=
  match ar with
  | AFix _ => negb (is_variadic s) || negb (is_iseq (last vs VNil))
  | ARest _ => match last vs VNil with VSeq _ => true | _ => false end
  end.

(** the integer members of the `arities` attribute of (partial f a1..ap): n is a member iff
    p + n is a member for f *)
Definition shift_counts (l : list nat) (p : nat) : list nat :=
  map (fun a => a - p) (filter (fun a => p <=? a) l).

(** BEFORE repair F-08c the `arities` attribute of (partial f a1..ap) was right only when p
    was not itself an arity count of f and lay below the fixed count of the variadic arity *)
Definition partial_report_ok (s : sig) (p : nat) : bool :=
  negb (existsb (Nat.eqb p) (all_counts s))
  && match variadic s with Some m => p <? m | None => true end.
