(** C08 -- shared vocabulary of model and specification: arity signatures, the arities of a
    function, lazily realized argument tails, the observable result of a call. *)
From Coq Require Import List Arith Bool Lia NArith.
Import ListNotations.

(** A function definition: the parameter counts of its non-variadic arities and, optionally,
    the number of fixed parameters of its one variadic arity ([a b & r] has 2). *)
Record sig := mkSig { fixed : list nat; variadic : option nat }.

Definition ovar (s : sig) : list nat := match variadic s with Some m => [m] | None => [] end.
(** `arity.fixed_arity` of every arity of the fn node (analyzer), variadic one last. *)
Definition all_counts (s : sig) : list nat := fixed s ++ ovar s.
Definition n_arities (s : sig) : nat := length (all_counts s).
Definition lmax (l : list nat) : nat := fold_right Nat.max 0 l.
(** analyzer.py `max_fixed_arity=max(node.fixed_arity for node in arities)` (over ALL arities) *)
Definition max_fixed (s : sig) : nat := lmax (all_counts s).
Definition is_variadic (s : sig) : bool := match variadic s with Some _ => true | None => false end.

Fixpoint nodupb (l : list nat) : bool :=
  match l with [] => true | x :: r => negb (existsb (Nat.eqb x) r) && nodupb r end.

(** What analyzer.py:_fn_ast accepts (:2297-2331): at least one arity, at most one variadic
    arity (by construction of [sig]), no two fixed arities with the same count, and the
    variadic arity has no FEWER fixed parameters than any fixed arity (equal is accepted). *)
Definition wf_sig (s : sig) : bool :=
  nodupb (fixed s)
  && match variadic s with Some m => forallb (fun a => a <=? m) (fixed s) | None => true end
  && (0 <? n_arities s).

Inductive arity := AFix (n : nat) | ARest (m : nat).

Definition arity_eqb (a b : arity) : bool :=
  match a, b with
  | AFix x, AFix y => Nat.eqb x y
  | ARest x, ARest y => Nat.eqb x y
  | _, _ => false
  end.

Section Vals.
  Context {A : Type}.

  (** The last argument of `apply`: a lazily realized sequence.  [tlen = None] is an infinite
      one; [telt i] is its i-th element (only consulted below the length). *)
  Record tail := mkTail { tlen : option nat; telt : nat -> A }.

  Definition has_elem (t : tail) (p : nat) : bool :=
    match tlen t with None => true | Some L => p <? L end.

  Definition empty_tail (d : A) : tail := mkTail (Some 0) (fun _ => d).

  (** The value a rest parameter is bound to: nil, or the sequence `concat(pre, tail[from:])`
      whose lazy part has not been touched by the binding itself. *)
  Inductive restv := RestNil | RestSeq (pre : list A) (lazy_from : option nat).

  Inductive errcls := TypeErr | RuntimeExc.

  (** Outcome of a call up to the moment the body starts. *)
  Inductive result :=
  | RBound (ar : arity) (params : list A) (rest : restv)   (* the body of arity [ar] starts with these bindings *)
  | RArityErr (c : errcls)      (* raised before any body code ran *)
  | RLeak                       (* a _WrappedRestArgs object reached a fixed parameter / was not last *)
  | RDiverge.                   (* an infinite sequence was consumed eagerly *)

  (** i-th element of the argument sequence `lead ++ tail`. *)
  Definition arg_at (lead : list A) (t : tail) (i : nat) : option A :=
    if i <? length lead then nth_error lead i
    else if has_elem t (i - length lead) then Some (telt t (i - length lead)) else None.

  (** number of arguments of the call; None = infinitely many *)
  Definition total (lead : list A) (t : tail) : option nat :=
    match tlen t with Some L => Some (length lead + L) | None => None end.

  (** i-th element of the sequence a rest parameter denotes (relative to the tail [t]) *)
  Definition rest_nth (t : tail) (r : restv) (i : nat) : option A :=
    match r with
    | RestNil => None
    | RestSeq pre lz =>
        if i <? length pre then nth_error pre i
        else match lz with
             | Some p => arg_at [] t (p + (i - length pre))
             | None => None
             end
    end.

  Definition rest_is_nil (r : restv) : bool := match r with RestNil => true | _ => false end.
End Vals.

Arguments tail : clear implicits.
Arguments restv : clear implicits.
Arguments result : clear implicits.

(** Values that can be handed to `recur` (one level of nesting is enough for the property). *)
Inductive rval :=
| VNil
| VAtom (n : N)
| VSeq (l : list N)     (* a finite ISeq (list, cons, realized lazy seq), possibly empty *)
| VInf                  (* an infinite lazy ISeq *)
| VVec (l : list N).    (* a seqable collection that is not an ISeq (vector) *)
