(** C18 specification: what the property prescribes, written without reference to the code.

    A hierarchy is just its set of parent pairs [P].  [isa_ref] is the reflexive-transitive
    closure of (parent pairs + class inheritance), pointwise on vectors of equal length.
    A multimethod is a finite map of methods, a set of preference pairs and a default key.
    [resolves] says which method a call must run: the unique matching key that dominates
    every other matching key (x dominates y when x is preferred over y or isa x y; basilisp,
    unlike Clojure, does not propagate preferences to ancestors, and neither does this
    spec), else the default method, else an error; an error when no unique dominant key
    exists.  Nothing here mentions a cache or an iteration order. *)
From Coq Require Import List Bool NArith Relations.
Import ListNotations.
From Verif Require Export C18.Base.

(** * dispatch *)
Section Resolve.
  Variable key : Type.
  Variable key_eqb : key -> key -> bool.
  Variable isa : key -> key -> bool.          (* under the current hierarchy *)
  Variable M : list (key * N).                (* the method table, as a set of pairs *)
  Variable Pf : list (key * key).             (* declared preferences *)
  Variable d : key.                           (* the default dispatch value *)

  Definition has_method (c : key) : Prop := exists m, In (c, m) M.
  Definition matches (k c : key) : Prop := has_method c /\ isa k c = true.
  Definition dominates (x y : key) : Prop := In (x, y) Pf \/ isa x y = true.
  Definition dominant (k c : key) : Prop :=
    matches k c /\ forall o, matches k o -> o <> c -> dominates c o.

  Inductive resolves (k : key) : res -> Prop :=
  | res_best c m :
      dominant k c -> (forall c', dominant k c' -> c' = c) -> In (c, m) M ->
      resolves k (RMethod m)
  | res_default m :
      (forall c, ~ matches k c) -> In (d, m) M -> resolves k (RMethod m)
  | res_nomethod :
      (forall c, ~ matches k c) -> (forall m, ~ In (d, m) M) -> resolves k RNoMethod
  | res_ambiguous :
      (exists c, matches k c) ->
      ~ (exists c, dominant k c /\ forall c', dominant k c' -> c' = c) ->
      resolves k RAmbiguous.

  (** an executable reference for the correspondence check (SpecProofs.resolve_ref_correct:
      it satisfies [resolves] whenever M is a finite map) *)
  Fixpoint s_lookup (k : key) (l : list (key * N)) : option N :=
    match l with
    | [] => None
    | (k', v) :: r => if key_eqb k k' then Some v else s_lookup k r
    end.
  Definition s_pref (x y : key) : bool :=
    existsb (fun q => key_eqb x (fst q) && key_eqb y (snd q)) Pf.
  Definition s_dominates (x y : key) : bool := s_pref x y || isa x y.
  Definition s_dominant (cands : list key) (c : key) : bool :=
    forallb (fun o => key_eqb o c || s_dominates c o) cands.

  Definition resolve_ref (k : key) : res :=
    let cands := filter (fun c => isa k c) (map fst M) in
    match cands with
    | [] => match s_lookup d M with Some v => RMethod v | None => RNoMethod end
    | _ => match filter (s_dominant cands) cands with
           | [c] => match s_lookup c M with Some v => RMethod v | None => RAmbiguous end
           | _ => RAmbiguous
           end
    end.
End Resolve.

(** * hierarchies *)

(** decidable transitive closure of a finite relation: follow an edge out of x, then never
    use an edge out of x again (SpecProofs.tc_dec_spec: = clos_trans) *)
Fixpoint reach (fuel : nat) (P : rel) (x y : tag) : bool :=
  match fuel with
  | O => false
  | S f =>
      (* [if] rather than [&&]/[||]: vm_compute evaluates both operands of those *)
      existsb (fun q => if tag_eqb (fst q) x
                        then (if tag_eqb (snd q) y then true
                              else reach f (filter (fun e => negb (tag_eqb (fst e) x)) P) (snd q) y)
                        else false) P
  end.
Definition tc_dec (P : rel) (x y : tag) : bool := reach (length P) P x y.

Section IsaRef.
  Variable supers : N -> list N.       (* proper superclasses of a class (its MRO without itself) *)

  (** one step up: a declared parent, or a proper superclass *)
  Definition edge (P : rel) (x y : tag) : Prop :=
    In (x, y) P \/ exists a s, x = C a /\ y = C s /\ In s (supers a).

  (** isa? on keywords, symbols and classes is the reflexive-transitive closure of [edge];
      on vectors it is pointwise and needs equal lengths *)
  Inductive isa_ref (P : rel) : tag -> tag -> Prop :=
  | isa_atom x y :
      (forall l, x <> V l) -> (forall l, y <> V l) ->
      clos_refl_trans tag (edge P) x y -> isa_ref P x y
  | isa_vec xs ys : Forall2 (isa_ref P) xs ys -> isa_ref P (V xs) (V ys).

  Fixpoint isa_ref_b (P : rel) (x y : tag) {struct x} : bool :=
    tag_eqb x y
    || match x with
       | K _ => tc_dec P x y
       | C a => tc_dec P x y
                || existsb (fun s => tag_eqb (C s) y || tc_dec P (C s) y) (supers a)
       | V xs =>
           match y with
           | V ys =>
               Nat.eqb (length xs) (length ys)
               && (fix go (xs ys : list tag) {struct xs} : bool :=
                     match xs, ys with
                     | a :: xs', b :: ys' => isa_ref_b P a b && go xs' ys'
                     | _, _ => true
                     end) xs ys
           | _ => false
           end
       end.

  (** parents / ancestors / descendants as sets *)
  Definition parents_ref (bases : N -> list N) (P : rel) (x : tag) : list tag :=
    image P x ++ match x with C c => map C (bases c) | _ => [] end.
  Definition ancestors_ref (P : rel) (univ : list tag) (x : tag) : list tag :=
    filter (fun y => negb (tag_eqb x y) && isa_ref_b P x y) univ.
  Definition descendants_ref (P : rel) (univ : list tag) (x : tag) : list tag :=
    filter (fun y => tc_dec P y x) univ.
End IsaRef.

(** derive refuses equal tags, a parent that is not a keyword/symbol, a tag that is neither
    that nor a class, and an edge that would close a cycle *)
Definition spec_derive (P : rel) (t p : tag) : option rel :=
  if tag_eqb t p || negb (is_ident p) || negb (is_ident t || is_class t) || tc_dec P p t
  then None else Some (radd t p P).
Definition spec_underive (P : rel) (t p : tag) : rel :=
  filter (fun q => negb (pair_eqb (t, p) q)) P.

(** * histories *)
Record sstate := { sP : rel; sM : list (tag * N); sPf : list (tag * tag); sD : tag }.

Definition s_init (d : tag) : sstate := {| sP := []; sM := []; sPf := []; sD := d |}.

Definition s_remove (k : tag) (M : list (tag * N)) : list (tag * N) :=
  filter (fun e => negb (tag_eqb k (fst e))) M.

Definition s_call (supers : N -> list N) (s : sstate) (k : tag) : res :=
  resolve_ref tag tag_eqb (isa_ref_b supers (sP s)) (sM s) (sPf s) (sD s) k.

Definition s_step (supers : N -> list N) (s : sstate) (o : op) : sres * sstate :=
  match o with
  | OAdd k m => (SOk, {| sP := sP s; sM := (k, m) :: s_remove k (sM s); sPf := sPf s; sD := sD s |})
  | ORemove k => (SOk, {| sP := sP s; sM := s_remove k (sM s); sPf := sPf s; sD := sD s |})
  | ORemoveAll => (SOk, {| sP := sP s; sM := []; sPf := sPf s; sD := sD s |})
  | OPrefer x y =>
      if rmem y x (sPf s) then (SErr, s)
      else (SOk, {| sP := sP s; sM := sM s; sPf := (x, y) :: sPf s; sD := sD s |})
  | ODerive t p =>
      match spec_derive (sP s) t p with
      | Some P' => (SOk, {| sP := P'; sM := sM s; sPf := sPf s; sD := sD s |})
      | None => (SErr, s)
      end
  | OUnderive t p =>
      (SOk, {| sP := spec_underive (sP s) t p; sM := sM s; sPf := sPf s; sD := sD s |})
  | OCall k => (SRes (s_call supers s k), s)
  end.

Fixpoint s_run (supers : N -> list N) (s : sstate) (ops : list op) : list sres * sstate :=
  match ops with
  | [] => ([], s)
  | o :: r => let (x, s1) := s_step supers s o in
              let (xs, s2) := s_run supers s1 r in (x :: xs, s2)
  end.

(** the situation in which the code is known to deviate (finding F-18d): the dispatch value
    itself has a method, and some other matching key dominates it (through a preference
    declared against the direction of isa?) *)
Definition s_guard (supers : N -> list N) (s : sstate) (k : tag) : bool :=
  match s_lookup tag tag_eqb k (sM s) with
  | None => true
  | Some _ =>
      forallb (fun c => tag_eqb c k
                        || negb (s_dominates tag tag_eqb (isa_ref_b supers (sP s)) (sPf s) c k))
              (filter (fun c => isa_ref_b supers (sP s) k c) (map fst (sM s)))
  end.

Fixpoint s_guard_run (supers : N -> list N) (s : sstate) (ops : list op) : bool :=
  match ops with
  | [] => true
  | o :: r => match o with OCall k => s_guard supers s k | _ => true end
              && s_guard_run supers (snd (s_step supers s o)) r
  end.
