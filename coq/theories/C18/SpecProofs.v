(** C18: the executable parts of the specification are what their declarative parts say.
    - [tc_dec] decides the transitive closure of a finite relation;
    - [resolve_ref] satisfies [resolves], and [resolves] is deterministic;
    - [isa_ref_b] decides [isa_ref]. *)
From Coq Require Import List Bool NArith Arith Relations Lia.
Import ListNotations.
From Verif Require Import C18.Base C18.Hierarchy C18.HierarchyProofs C18.Spec.

(** * transitive closure *)
Definition drop_from (x : tag) (P : rel) : rel := filter (fun e => negb (tag_eqb (fst e) x)) P.

Lemma In_drop_from x P a b : In (a, b) (drop_from x P) <-> In (a, b) P /\ a <> x.
Proof.
  unfold drop_from. rewrite filter_In. simpl. rewrite negb_true_iff, tag_eqb_neq. tauto.
Qed.

Lemma reach_sound : forall fuel P x y, reach fuel P x y = true -> clos_trans tag (R P) x y.
Proof.
  induction fuel as [|f IH]; simpl; intros P x y H; [discriminate|].
  apply existsb_exists in H. destruct H as [[a b] [Hq H]]. simpl in H.
  destruct (tag_eqb a x) eqn:Ha; [|discriminate]. apply tag_eqb_eq in Ha. subst a.
  destruct (tag_eqb b y) eqn:Hb.
  - apply tag_eqb_eq in Hb. subst. now apply t_step.
  - apply IH in H. eapply t_trans; [apply t_step; exact Hq|].
    eapply clos_trans_mono; [|exact H]. intros u v Huv. apply In_drop_from in Huv. apply Huv.
Qed.

Lemma last_departure P x : forall z y, clos_trans tag (R P) z y ->
  clos_trans tag (R (drop_from x P)) z y \/
  exists w, In (x, w) P /\ (w = y \/ clos_trans tag (R (drop_from x P)) w y).
Proof.
  intros z y H. apply clos_trans_t1n in H. induction H as [z y H|z u y H _ IH].
  - destruct (tag_eqb z x) eqn:E.
    + apply tag_eqb_eq in E. subst. right. exists y. auto.
    + apply tag_eqb_neq in E. left. apply t_step. apply In_drop_from. auto.
  - destruct IH as [IH|IH]; auto.
    destruct (tag_eqb z x) eqn:E.
    + apply tag_eqb_eq in E. subst. right. exists u. auto.
    + apply tag_eqb_neq in E. left. eapply t_trans; [|exact IH]. apply t_step. apply In_drop_from. auto.
Qed.

Lemma no_start P x y : ~ clos_trans tag (R (drop_from x P)) x y.
Proof.
  intros H. apply clos_trans_t1n in H.
  destruct H as [y H|u y H _]; apply In_drop_from in H; destruct H; congruence.
Qed.

Lemma first_step_from P x y : clos_trans tag (R P) x y ->
  exists w, In (x, w) P /\ (w = y \/ clos_trans tag (R (drop_from x P)) w y).
Proof.
  intros H. destruct (last_departure P x x y H) as [H'|H']; auto. now apply no_start in H'.
Qed.

Lemma filter_length_le' {A} (f : A -> bool) (l : list A) : length (filter f l) <= length l.
Proof. induction l as [|b l IH]; simpl; auto. destruct (f b); simpl; lia. Qed.

Lemma filter_length_lt {A} (f : A -> bool) (l : list A) a :
  In a l -> f a = false -> length (filter f l) < length l.
Proof.
  induction l as [|b l IH]; simpl; [tauto|]. intros [->|H] Hf.
  - rewrite Hf. pose proof (filter_length_le' f l). lia.
  - specialize (IH H Hf). destruct (f b); simpl; lia.
Qed.

Lemma reach_complete : forall fuel P x y,
  length P <= fuel -> clos_trans tag (R P) x y -> reach fuel P x y = true.
Proof.
  induction fuel as [|f IH]; intros P x y Hl H.
  - destruct P; simpl in Hl; [|lia]. apply first_step_from in H. destruct H as [w [[] _]].
  - apply first_step_from in H. destruct H as [w [Hw H]]. simpl.
    apply existsb_exists. exists (x, w). split; auto. simpl. rewrite tag_eqb_refl.
    destruct H as [->|H]; [now rewrite tag_eqb_refl|].
    destruct (tag_eqb w y); auto. apply IH; auto.
    assert (length (drop_from x P) < length P).
    { apply (filter_length_lt _ P (x, w)); auto. simpl. now rewrite tag_eqb_refl. }
    fold (drop_from x P). lia.
Qed.

Theorem tc_dec_spec P x y : tc_dec P x y = true <-> clos_trans tag (R P) x y.
Proof.
  split; [apply reach_sound|]. apply reach_complete. auto.
Qed.

(** * dispatch *)
Lemma NoDup_filter {A} (f : A -> bool) l : NoDup l -> NoDup (filter f l).
Proof.
  induction 1 as [|a l Hn _ IH]; simpl; [constructor|].
  destruct (f a); auto. constructor; auto. intros H. apply filter_In in H. destruct H. contradiction.
Qed.

Section LookupProofs.
  Variable key : Type.
  Variable key_eqb : key -> key -> bool.
  Hypothesis key_eqb_spec : forall a b, key_eqb a b = true <-> a = b.
  Notation s_lookup := (s_lookup key key_eqb).

  Lemma key_eqb_refl a : key_eqb a a = true.
  Proof. now apply key_eqb_spec. Qed.

  Lemma s_lookup_Some k l v : s_lookup k l = Some v -> In (k, v) l.
  Proof.
    induction l as [|[k' v'] l IH]; simpl; [discriminate|].
    destruct (key_eqb k k') eqn:E.
    - apply key_eqb_spec in E. subst. intros H. inversion H. auto.
    - auto.
  Qed.

  Lemma s_lookup_None k l : s_lookup k l = None -> forall v, ~ In (k, v) l.
  Proof.
    induction l as [|[k' v'] l IH]; simpl; [intros _ v []|].
    destruct (key_eqb k k') eqn:E; [discriminate|].
    intros H v [H1|H1].
    - inversion H1. subst. rewrite key_eqb_refl in E. discriminate.
    - eapply IH; eauto.
  Qed.

  Lemma s_lookup_In k l v : In (k, v) l -> exists v', s_lookup k l = Some v'.
  Proof.
    intros H. destruct (s_lookup k l) eqn:E; eauto. exfalso. eapply s_lookup_None; eauto.
  Qed.

  Lemma s_lookup_NoDup k l v : NoDup (map fst l) -> In (k, v) l -> s_lookup k l = Some v.
  Proof.
    induction l as [|[k' v'] l IH]; simpl; [intros _ []|]. intros Hn [H|H].
    - inversion H. subst. now rewrite key_eqb_refl.
    - inversion Hn as [|? ? Hni Hn']. subst.
      destruct (key_eqb k k') eqn:E.
      + apply key_eqb_spec in E. subst. exfalso. apply Hni. apply in_map_iff. exists (k', v). auto.
      + auto.
  Qed.

End LookupProofs.

Section ResolveProofs.
  Variable key : Type.
  Variable key_eqb : key -> key -> bool.
  Hypothesis key_eqb_spec : forall a b, key_eqb a b = true <-> a = b.
  Variable isa : key -> key -> bool.
  Variable M : list (key * N).
  Variable Pf : list (key * key).
  Variable d : key.

  Notation s_lookup := (s_lookup key key_eqb).
  Notation s_lookup_Some := (s_lookup_Some key key_eqb key_eqb_spec).
  Notation s_lookup_None := (s_lookup_None key key_eqb key_eqb_spec).
  Notation s_lookup_In := (s_lookup_In key key_eqb key_eqb_spec).
  Notation key_eqb_refl := (key_eqb_refl key key_eqb key_eqb_spec).
  Notation matches := (matches key isa M).
  Notation dominates := (dominates key isa Pf).
  Notation dominant := (dominant key isa M Pf).
  Notation resolves := (resolves key isa M Pf d).

  Lemma s_pref_In x y : s_pref key key_eqb Pf x y = true <-> In (x, y) Pf.
  Proof.
    unfold s_pref. rewrite existsb_exists. split.
    - intros [[a b] [H E]]. simpl in E. apply andb_true_iff in E. destruct E as [E1 E2].
      apply key_eqb_spec in E1, E2. now subst.
    - intros H. exists (x, y). split; auto. simpl. now rewrite !key_eqb_refl.
  Qed.

  Lemma s_dominates_spec x y : s_dominates key key_eqb isa Pf x y = true <-> dominates x y.
  Proof.
    unfold s_dominates, Spec.dominates. now rewrite orb_true_iff, s_pref_In.
  Qed.

  Lemma has_method_map c : has_method key M c <-> In c (map fst M).
  Proof.
    unfold has_method. rewrite in_map_iff. split.
    - intros [m H]. exists (c, m). auto.
    - intros [[c' m] [E H]]. simpl in E. subst. eauto.
  Qed.

  Lemma In_cands k c : In c (filter (fun c => isa k c) (map fst M)) <-> matches k c.
  Proof. rewrite filter_In. unfold Spec.matches. now rewrite has_method_map. Qed.

  Lemma s_dominant_spec k c :
    matches k c ->
    (s_dominant key key_eqb isa Pf (filter (fun c => isa k c) (map fst M)) c = true <-> dominant k c).
  Proof.
    intros Hc. unfold s_dominant, Spec.dominant. rewrite forallb_forall. split.
    - intros H. split; auto. intros o Ho Hne. apply In_cands in Ho. apply H in Ho.
      apply orb_true_iff in Ho. destruct Ho as [Ho|Ho].
      + apply key_eqb_spec in Ho. contradiction.
      + now apply s_dominates_spec.
    - intros [_ H] o Ho. apply In_cands in Ho. destruct (key_eqb o c) eqn:E; auto. simpl.
      apply s_dominates_spec. apply H; auto. intros ->. rewrite key_eqb_refl in E. discriminate.
  Qed.

  Theorem resolve_ref_correct k :
    NoDup (map fst M) -> resolves k (resolve_ref key key_eqb isa M Pf d k).
  Proof.
    intros Hn. unfold resolve_ref.
    set (cands := filter (fun c => isa k c) (map fst M)).
    assert (Hc : forall c, In c cands <-> matches k c) by (intros; apply In_cands).
    destruct cands as [|c0 cs] eqn:Ec.
    - assert (Hno : forall c, ~ matches k c). { intros c H. apply Hc in H. destruct H. }
      destruct (s_lookup d M) eqn:E.
      + apply res_default with (m := n); auto. now apply s_lookup_Some.
      + apply res_nomethod; auto. now apply s_lookup_None.
    - rewrite <- Ec in *.
      assert (Hex : exists c, matches k c). { exists c0. apply Hc. rewrite Ec. left. auto. }
      set (L := filter (s_dominant key key_eqb isa Pf cands) cands).
      assert (HL : forall c, In c L <-> dominant k c).
      { intros c. unfold L. rewrite filter_In. split.
        - intros [H1 H2]. apply Hc in H1. unfold cands in H2. now apply s_dominant_spec in H2.
        - intros H. assert (Hm : matches k c) by apply H. split; [now apply Hc|].
          unfold cands. now apply s_dominant_spec. }
      assert (HnL : NoDup L). { unfold L, cands. now repeat apply NoDup_filter. }
      destruct L as [|c1 [|c2 L']] eqn:EL.
      + apply res_ambiguous; auto. intros [c [H _]]. apply HL in H. destruct H.
      + assert (Hd : dominant k c1). { apply HL. left. auto. }
        destruct Hd as [[[m Hm] Hi] Hd'].
        destruct (s_lookup_In _ _ _ Hm) as [v Hv]. rewrite Hv.
        apply res_best with (c := c1).
        * split; [split; [exists m; exact Hm|exact Hi]|exact Hd'].
        * intros c' H. apply HL in H. destruct H as [H|[]]. auto.
        * now apply s_lookup_Some.
      + apply res_ambiguous; auto. intros [c [_ Hu]].
        assert (c1 = c) by (apply Hu, HL; left; auto).
        assert (c2 = c) by (apply Hu, HL; right; left; auto).
        subst. inversion HnL as [|? ? Hni _]. apply Hni. left. auto.
  Qed.

  (** the prescription is deterministic when M is a finite map *)
  Theorem resolves_functional k r1 r2 :
    (forall c m m', In (c, m) M -> In (c, m') M -> m = m') ->
    resolves k r1 -> resolves k r2 -> r1 = r2.
  Proof.
    intros HF H1 H2.
    destruct H1 as [c m Hd Hu Hm|m Hno Hm|Hno Hm|Hex Hnu];
      destruct H2 as [c' m' Hd' Hu' Hm'|m' Hno' Hm'|Hno' Hm'|Hex' Hnu']; auto.
    all: try solve [assert (c' = c) by auto; subst; f_equal; eapply HF; eauto].
    all: try solve [f_equal; eapply HF; eauto].
    all: try solve [exfalso; apply (Hno' c); apply Hd].
    all: try solve [exfalso; apply (Hno c'); apply Hd'].
    all: try solve [exfalso; apply Hnu'; eauto].
    all: try solve [exfalso; apply Hnu; eauto].
    all: try solve [exfalso; eapply Hm'; eauto].
    all: try solve [exfalso; eapply Hm; eauto].
    all: try solve [exfalso; destruct Hex' as [c0 Hc0]; eapply Hno; eauto].
    all: try solve [exfalso; destruct Hex as [c0 Hc0]; eapply Hno'; eauto].
  Qed.
End ResolveProofs.

(** the prescription, hence the reference resolution, reads the method table and the
    preferences only as SETS: the order in which methods were added or preferences declared
    is immaterial *)
Section ResolveSets.
  Variable key : Type.
  Variable key_eqb : key -> key -> bool.
  Hypothesis key_eqb_spec : forall a b, key_eqb a b = true <-> a = b.
  Variable isa : key -> key -> bool.
  Variables M1 M2 : list (key * N).
  Variables Pf1 Pf2 : list (key * key).
  Variable d : key.
  Hypothesis HM : forall e, In e M1 <-> In e M2.
  Hypothesis HP : forall e, In e Pf1 <-> In e Pf2.

  Lemma matches_ext k c : matches key isa M1 k c -> matches key isa M2 k c.
  Proof. intros [[m Hm] Hi]. split; auto. exists m. now apply HM. Qed.

  Lemma matches_ext' k c : matches key isa M2 k c -> matches key isa M1 k c.
  Proof. intros [[m Hm] Hi]. split; auto. exists m. now apply HM. Qed.

  Lemma dominant_ext k c : dominant key isa M1 Pf1 k c -> dominant key isa M2 Pf2 k c.
  Proof.
    intros [Hm Hd]. split; [now apply matches_ext|]. intros o Ho Hne.
    destruct (Hd o (matches_ext' k o Ho) Hne) as [H|H]; [left; now apply HP|right; exact H].
  Qed.

  Lemma dominant_ext' k c : dominant key isa M2 Pf2 k c -> dominant key isa M1 Pf1 k c.
  Proof.
    intros [Hm Hd]. split; [now apply matches_ext'|]. intros o Ho Hne.
    destruct (Hd o (matches_ext k o Ho) Hne) as [H|H]; [left; now apply HP|right; exact H].
  Qed.

  Lemma resolves_ext k r : resolves key isa M1 Pf1 d k r -> resolves key isa M2 Pf2 d k r.
  Proof.
    intros H. destruct H as [c m Hd Hu Hm|m Hno Hm|Hno Hm|Hex Hnu].
    - apply res_best with (c := c).
      + now apply dominant_ext.
      + intros c' Hc'. apply Hu. now apply dominant_ext'.
      + now apply HM.
    - apply res_default with (m := m).
      + intros c Hc. apply (Hno c). now apply matches_ext'.
      + now apply HM.
    - apply res_nomethod.
      + intros c Hc. apply (Hno c). now apply matches_ext'.
      + intros m Hm'. apply (Hm m). now apply HM.
    - apply res_ambiguous.
      + destruct Hex as [c Hc]. exists c. now apply matches_ext.
      + intros [c [Hc Hu]]. apply Hnu. exists c. split.
        * now apply dominant_ext'.
        * intros c' Hc'. apply Hu. now apply dominant_ext.
  Qed.

  Lemma NoDup_fst_functional (M : list (key * N)) :
    NoDup (map fst M) -> forall c m m', In (c, m) M -> In (c, m') M -> m = m'.
  Proof.
    intros Hn c m m' H1 H2.
    pose proof (s_lookup_NoDup key key_eqb key_eqb_spec c M m Hn H1) as E1.
    pose proof (s_lookup_NoDup key key_eqb key_eqb_spec c M m' Hn H2) as E2. congruence.
  Qed.

  Theorem resolve_ref_sets k :
    NoDup (map fst M1) -> NoDup (map fst M2) ->
    resolve_ref key key_eqb isa M1 Pf1 d k = resolve_ref key key_eqb isa M2 Pf2 d k.
  Proof.
    intros N1 N2.
    apply (resolves_functional key isa M2 Pf2 d k).
    - now apply NoDup_fst_functional.
    - apply resolves_ext. now apply resolve_ref_correct.
    - now apply resolve_ref_correct.
  Qed.
End ResolveSets.

(** * isa? *)
Section IsaProofs.
  Variable supers : N -> list N.
  Hypothesis supers_trans : forall a s s', In s (supers a) -> In s' (supers s) -> In s' (supers a).

  Definition atom (x : tag) : Prop := forall l, x <> V l.

  Lemma atom_K n : atom (K n). Proof. intros l. discriminate. Qed.
  Lemma atom_C n : atom (C n). Proof. intros l. discriminate. Qed.
  Lemma ident_atom x : is_ident x = true -> atom x.
  Proof. destruct x; simpl; try discriminate. Qed.

  Lemma tc_target P x y : wf_pairs P -> clos_trans tag (R P) x y -> is_ident y = true.
  Proof.
    intros Hwf H. induction H; auto. now apply Hwf in H.
  Qed.

  Lemma tc_source P x y : wf_pairs P -> clos_trans tag (R P) x y -> (is_ident x || is_class x) = true.
  Proof.
    intros Hwf H. induction H; auto. now apply Hwf in H.
  Qed.

  Lemma tc_edge P x y : clos_trans tag (R P) x y -> clos_refl_trans tag (edge supers P) x y.
  Proof.
    intros H. induction H.
    - apply rt_step. left. exact H.
    - eapply rt_trans; eauto.
  Qed.

  Lemma isa_ref_b_K P n y : isa_ref_b supers P (K n) y = tag_eqb (K n) y || tc_dec P (K n) y.
  Proof. reflexivity. Qed.
  Lemma isa_ref_b_C P a y :
    isa_ref_b supers P (C a) y =
    tag_eqb (C a) y || (tc_dec P (C a) y
                        || existsb (fun s => tag_eqb (C s) y || tc_dec P (C s) y) (supers a)).
  Proof. reflexivity. Qed.

  Lemma isa_ref_b_atoms_sound P x y :
    atom x -> isa_ref_b supers P x y = true -> clos_refl_trans tag (edge supers P) x y.
  Proof.
    intros Hx H. destruct x as [n|a|l]; [| |exfalso; now apply (Hx l)].
    - rewrite isa_ref_b_K in H. apply orb_true_iff in H. destruct H as [H|H].
      + apply tag_eqb_eq in H. subst. apply rt_refl.
      + apply tc_dec_spec in H. now apply tc_edge.
    - rewrite isa_ref_b_C in H. apply orb_true_iff in H. destruct H as [H|H].
      { apply tag_eqb_eq in H. subst. apply rt_refl. }
      apply orb_true_iff in H. destruct H as [H|H].
      { apply tc_dec_spec in H. now apply tc_edge. }
      apply existsb_exists in H. destruct H as [s [Hs H]].
      assert (E : edge supers P (C a) (C s)). { right. exists a, s. auto. }
      apply orb_true_iff in H. destruct H as [H|H].
      + apply tag_eqb_eq in H. subst. now apply rt_step.
      + apply tc_dec_spec in H. eapply rt_trans; [apply rt_step; exact E|now apply tc_edge].
  Qed.

  Lemma isa_ref_b_edge P x z y :
    wf_pairs P -> edge supers P x z -> isa_ref_b supers P z y = true -> isa_ref_b supers P x y = true.
  Proof.
    intros Hwf [E|[a [s [-> [-> Hs]]]]] H.
    - destruct (Hwf _ _ E) as [Hz Hx]. destruct z as [n| |]; try discriminate.
      rewrite isa_ref_b_K in H. assert (T : tc_dec P x y = true).
      { apply tc_dec_spec. apply orb_true_iff in H. destruct H as [H|H].
        - apply tag_eqb_eq in H. subst. now apply t_step.
        - apply tc_dec_spec in H. eapply t_trans; [apply t_step; exact E|exact H]. }
      destruct x as [m|a|l]; try discriminate.
      + rewrite isa_ref_b_K, T. apply orb_true_r.
      + rewrite isa_ref_b_C, T. simpl. apply orb_true_r.
    - rewrite isa_ref_b_C in *. apply orb_true_iff. right. apply orb_true_iff. right.
      apply existsb_exists.
      apply orb_true_iff in H. destruct H as [H|H]; [exists s; split; auto; now rewrite H|].
      apply orb_true_iff in H. destruct H as [H|H]; [exists s; split; auto; rewrite H; apply orb_true_r|].
      apply existsb_exists in H. destruct H as [s' [Hs' H]]. exists s'. split; eauto.
  Qed.

  Lemma isa_ref_b_refl P x : isa_ref_b supers P x x = true.
  Proof.
    destruct x.
    - now rewrite isa_ref_b_K, tag_eqb_refl.
    - now rewrite isa_ref_b_C, tag_eqb_refl.
    - change (tag_eqb (V l) (V l) || (Nat.eqb (length l) (length l) &&
        (fix go (xs ys : list tag) {struct xs} : bool :=
           match xs, ys with
           | a :: xs', b :: ys' => isa_ref_b supers P a b && go xs' ys'
           | _, _ => true
           end) l l) = true). now rewrite tag_eqb_refl.
  Qed.

  Lemma isa_ref_b_atoms_complete P x y :
    wf_pairs P -> clos_refl_trans tag (edge supers P) x y -> isa_ref_b supers P x y = true.
  Proof.
    intros Hwf H. apply clos_rt_rt1n in H. induction H as [x|x z y E _ IH].
    - apply isa_ref_b_refl.
    - eapply isa_ref_b_edge; eauto.
  Qed.

  (** the pointwise part *)
  Definition go_ref (P : rel) :=
    fix go (xs ys : list tag) {struct xs} : bool :=
      match xs, ys with
      | a :: xs', b :: ys' => isa_ref_b supers P a b && go xs' ys'
      | _, _ => true
      end.

  Lemma isa_ref_b_V P xs y :
    isa_ref_b supers P (V xs) y =
    tag_eqb (V xs) y || match y with
                        | V ys => Nat.eqb (length xs) (length ys) && go_ref P xs ys
                        | _ => false
                        end.
  Proof. reflexivity. Qed.

  Lemma go_ref_Forall2 P (Q : tag -> tag -> Prop) xs :
    Forall (fun x => forall y, isa_ref_b supers P x y = true <-> Q x y) xs ->
    forall ys, (Nat.eqb (length xs) (length ys) && go_ref P xs ys = true) <-> Forall2 Q xs ys.
  Proof.
    induction 1 as [|x xs Hx _ IH]; intros [|y ys]; simpl.
    - split; auto.
    - split; [discriminate|]. intros H. inversion H.
    - split; [discriminate|]. intros H. inversion H.
    - specialize (IH ys). fold (go_ref P) in *. split.
      + intros H. apply andb_true_iff in H. destruct H as [Hl H].
        apply andb_true_iff in H. destruct H as [Hxy H]. constructor.
        * now apply Hx.
        * apply IH. now rewrite Hl, H.
      + intros H. inversion H; subst. apply IH in H5. apply andb_true_iff in H5. destruct H5 as [Hl Hg].
        rewrite Hl, Hg. simpl. rewrite andb_true_r. now apply Hx.
  Qed.

  Theorem isa_ref_b_spec P : wf_pairs P ->
    forall x y, isa_ref_b supers P x y = true <-> isa_ref supers P x y.
  Proof.
    intros Hwf. induction x as [n|a|xs IH] using tag_ind'; intros y.
    - split.
      + intros H. destruct y as [m|b|l].
        * apply isa_atom; [apply atom_K|apply atom_K|apply isa_ref_b_atoms_sound; [apply atom_K|exact H]].
        * apply isa_atom; [apply atom_K|apply atom_C|apply isa_ref_b_atoms_sound; [apply atom_K|exact H]].
        * exfalso. rewrite isa_ref_b_K in H. simpl in H. apply tc_dec_spec in H. apply tc_target in H; auto. discriminate.
      + intros H. inversion H; subst. now apply isa_ref_b_atoms_complete.
    - split.
      + intros H. destruct y as [m|b|l].
        * apply isa_atom; [apply atom_C|apply atom_K|apply isa_ref_b_atoms_sound; [apply atom_C|exact H]].
        * apply isa_atom; [apply atom_C|apply atom_C|apply isa_ref_b_atoms_sound; [apply atom_C|exact H]].
        * exfalso. rewrite isa_ref_b_C in H. simpl in H. apply orb_true_iff in H. destruct H as [H|H].
          -- apply tc_dec_spec in H. apply tc_target in H; auto. discriminate.
          -- apply existsb_exists in H. destruct H as [s [_ H]]. simpl in H.
             apply tc_dec_spec in H. apply tc_target in H; auto. discriminate.
      + intros H. inversion H; subst. now apply isa_ref_b_atoms_complete.
    - rewrite isa_ref_b_V. split.
      + intros H. apply orb_true_iff in H. destruct H as [H|H].
        * apply tag_eqb_eq in H. subst y. apply isa_vec.
          assert (G : Nat.eqb (length xs) (length xs) && go_ref P xs xs = true).
          { rewrite Nat.eqb_refl. simpl. clear IH. induction xs; simpl; auto.
            fold (go_ref P). now rewrite isa_ref_b_refl, IHxs. }
          now apply (go_ref_Forall2 P (isa_ref supers P) xs IH xs).
        * destruct y as [| |ys]; try discriminate. apply isa_vec.
          now apply (go_ref_Forall2 P (isa_ref supers P) xs IH ys).
      + intros H. inversion H as [? ? Hx _ _|? ys HF]; subst.
        * exfalso. now apply (Hx xs).
        * apply orb_true_iff. right. now apply (go_ref_Forall2 P (isa_ref supers P) xs IH ys).
  Qed.
End IsaProofs.
