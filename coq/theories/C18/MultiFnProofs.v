(** C18 proofs, part 2 (generic in the dispatch values and the hierarchy):
    G1  the dispatch cache is transparent: [cache_ok] is established by every mutator,
        kept by every call, and under it a call returns what a from-scratch search returns;
    G3  the search does not depend on the order of the method table;
    G4  the search computes the reference resolution of the specification; a call does so
        whenever the exact dispatch value is not dominated by another matching key. *)
From Coq Require Import List Bool NArith Permutation.
Import ListNotations.
From Verif Require Import C18.Base C18.MultiFn C18.Spec C18.SpecProofs.

Section MultiFnProofs.
  Variables key H : Type.
  Variable key_eqb : key -> key -> bool.
  Variable isa : H -> key -> key -> bool.
  Variable Heqb : H -> H -> bool.
  Hypothesis key_eqb_spec : forall a b, key_eqb a b = true <-> a = b.
  Hypothesis Heqb_isa : forall h1 h2, Heqb h1 h2 = true -> forall x y, isa h1 x y = isa h2 x y.

  Notation lookup := (@lookup key key_eqb N).
  Notation remove_key := (@remove_key key key_eqb N).
  Notation has_pref := (has_pref key key_eqb).
  Notation precedes := (precedes key H key_eqb isa).
  Notation matching := (matching key H isa).
  Notation best := (best key H key_eqb isa).
  Notation find := (find key H key_eqb isa).
  Notation fresh := (fresh key H key_eqb isa).
  Notation call := (call key H key_eqb isa Heqb).
  Notation sync := (sync key H Heqb).
  Notation reset := (reset key H).
  Notation mfn := (mfn key H).
  Notation world := (world key H).

  Lemma keqb_refl a : key_eqb a a = true.
  Proof. now apply key_eqb_spec. Qed.

  Lemma lookup_is_s_lookup k l : lookup k l = s_lookup key key_eqb k l.
  Proof. induction l as [|[k' v] l IH]; simpl; auto. now rewrite IH. Qed.

  (** ** extensionality in the hierarchy *)
  Lemma filter_ext' {A} (f g : A -> bool) l : (forall x, f x = g x) -> filter f l = filter g l.
  Proof. intros E. induction l; simpl; auto. now rewrite E, IHl. Qed.

  Lemma forallb_ext' {A} (f g : A -> bool) l : (forall x, f x = g x) -> forallb f l = forallb g l.
  Proof. intros E. induction l; simpl; auto. now rewrite E, IHl. Qed.

  Lemma find_ext h1 h2 (m : mfn) k :
    (forall x y, isa h1 x y = isa h2 x y) -> find h1 m k = find h2 m k.
  Proof.
    intros E. unfold MultiFn.find, MultiFn.matching, MultiFn.best, MultiFn.precedes.
    assert (E1 : filter (fun e => isa h1 k (fst e)) (methods m) = filter (fun e => isa h2 k (fst e)) (methods m)).
    { apply filter_ext'. intros. apply E. }
    rewrite E1. set (c := filter _ (methods m)).
    assert (E2 : filter (fun e => forallb (fun o => has_pref (prefs m) (fst e) (fst o) || isa h1 (fst e) (fst o)) c) c
                 = filter (fun e => forallb (fun o => has_pref (prefs m) (fst e) (fst o) || isa h2 (fst e) (fst o)) c) c).
    { apply filter_ext'. intros. apply forallb_ext'. intros. now rewrite E. }
    now rewrite E2.
  Qed.

  Lemma fresh_ext h1 h2 (m : mfn) k :
    (forall x y, isa h1 x y = isa h2 x y) -> fresh h1 m k = fresh h2 m k.
  Proof. intros E. unfold MultiFn.fresh. destruct (lookup k (methods m)); auto. now apply find_ext. Qed.

  (** the search only reads methods, prefs and the default *)
  Lemma fresh_same h (m m' : mfn) k :
    methods m = methods m' -> prefs m = prefs m' -> dflt m = dflt m' -> fresh h m k = fresh h m' k.
  Proof.
    intros E1 E2 E3. unfold MultiFn.fresh, MultiFn.find. now rewrite E1, E2, E3.
  Qed.

  (** ** G1: the cache *)
  Definition cache_ok (m : mfn) : Prop :=
    (forall k v, lookup k (cache m) = Some v -> fresh (cached_h m) m k = RMethod v) /\
    (forall k, lookup k (cache m) = None -> lookup k (methods m) = None).

  Lemma reset_ok (w : world) : cache_ok (mf (reset w)).
  Proof.
    split; simpl.
    - intros k v E. unfold MultiFn.fresh. simpl. now rewrite E.
    - auto.
  Qed.

  Lemma new_ok h d : cache_ok (mf_new key H h d).
  Proof. split; simpl; auto. discriminate. Qed.

  (** what does not depend on the cache *)
  Definition core (w : world) : H * list (key * N) * list (key * key) * key :=
    (w_hier w, methods (mf w), prefs (mf w), dflt (mf w)).

  Lemma sync_props (w : world) :
    cache_ok (mf w) ->
    cache_ok (mf (sync w)) /\ core (sync w) = core w /\
    (forall x y, isa (cached_h (mf (sync w))) x y = isa (w_hier w) x y).
  Proof.
    intros Hc. unfold MultiFn.sync. destruct (Heqb (cached_h (mf w)) (w_hier w)) eqn:E.
    - split; [exact Hc|]. split; [reflexivity|]. intros. now apply Heqb_isa.
    - split; [apply reset_ok|]. split; auto.
  Qed.

  Theorem call_transparent k (w : world) :
    cache_ok (mf w) ->
    fst (call k w) = fresh (w_hier w) (mf w) k /\
    cache_ok (mf (snd (call k w))) /\
    core (snd (call k w)) = core w.
  Proof.
    intros Hc. destruct (sync_props w Hc) as [Hs [Hcore Hisa]].
    unfold MultiFn.call. fold (sync w). set (w1 := sync w) in *.
    assert (Eh : w_hier w1 = w_hier w) by (unfold core in Hcore; congruence).
    assert (Em : methods (mf w1) = methods (mf w)) by (unfold core in Hcore; congruence).
    assert (Ep : prefs (mf w1) = prefs (mf w)) by (unfold core in Hcore; congruence).
    assert (Ed : dflt (mf w1) = dflt (mf w)) by (unfold core in Hcore; congruence).
    assert (F : forall k', fresh (cached_h (mf w1)) (mf w1) k' = fresh (w_hier w) (mf w) k').
    { intros k'. rewrite (fresh_ext _ (w_hier w)) by exact Hisa. now apply fresh_same. }
    destruct Hs as [Hs1 Hs2].
    destruct (lookup k (cache (mf w1))) as [v|] eqn:El.
    - simpl. split; [|split; auto; now split].
      apply Hs1 in El. rewrite F in El. congruence.
    - assert (Ff : fresh (w_hier w) (mf w) k = find (w_hier w1) (mf w1) k).
      { rewrite <- F. unfold MultiFn.fresh. rewrite (Hs2 k El).
        apply find_ext. intros. rewrite Hisa. now rewrite Eh. }
      destruct (find (w_hier w1) (mf w1) k) as [v| | |] eqn:Ef; simpl;
        try (split; [congruence|split; [now split|exact Hcore]]).
      split; [congruence|]. split; [|unfold core in *; simpl; congruence].
      split; simpl.
      + intros k' v'. destruct (key_eqb k' k) eqn:Ek.
        * apply key_eqb_spec in Ek. subst k'. intros E. inversion E; subst v'.
          rewrite <- (fresh_same (cached_h (mf w1)) (mf w1)) by reflexivity.
          rewrite F. congruence.
        * intros E. apply Hs1 in E.
          now rewrite <- (fresh_same (cached_h (mf w1)) (mf w1)) by reflexivity.
      + intros k'. destruct (key_eqb k' k); [discriminate|]. apply Hs2.
  Qed.

  (** ** G3: order of the table *)
  Lemma Permutation_filter' {A} (f : A -> bool) l1 l2 :
    Permutation l1 l2 -> Permutation (filter f l1) (filter f l2).
  Proof.
    induction 1; simpl; auto.
    - destruct (f x); auto.
    - destruct (f x), (f y); auto. apply perm_swap.
    - eapply perm_trans; eauto.
  Qed.

  Lemma forallb_perm {A} (f : A -> bool) l1 l2 : Permutation l1 l2 -> forallb f l1 = forallb f l2.
  Proof.
    induction 1; simpl; auto.
    - now rewrite IHPermutation.
    - destruct (f x), (f y); auto.
    - congruence.
  Qed.

  Lemma lookup_perm k (l1 l2 : list (key * N)) :
    Permutation l1 l2 -> NoDup (map fst l1) -> lookup k l1 = lookup k l2.
  Proof.
    intros Hp Hn. rewrite !lookup_is_s_lookup.
    assert (Hn2 : NoDup (map fst l2)).
    { eapply Permutation_NoDup; [|exact Hn]. now apply Permutation_map. }
    destruct (s_lookup key key_eqb k l1) eqn:E1.
    - apply (s_lookup_Some key key_eqb key_eqb_spec) in E1. symmetry.
      apply (s_lookup_NoDup key key_eqb key_eqb_spec); auto.
      eapply Permutation_in; eauto.
    - destruct (s_lookup key key_eqb k l2) eqn:E2; auto.
      apply (s_lookup_Some key key_eqb key_eqb_spec) in E2. exfalso.
      eapply (s_lookup_None key key_eqb key_eqb_spec k l1 E1).
      eapply Permutation_in; [apply Permutation_sym; exact Hp|exact E2].
  Qed.

  Theorem fresh_perm h (m1 m2 : mfn) k :
    Permutation (methods m1) (methods m2) -> NoDup (map fst (methods m1)) ->
    prefs m1 = prefs m2 -> dflt m1 = dflt m2 ->
    fresh h m1 k = fresh h m2 k.
  Proof.
    intros Hp Hn Epf Ed. unfold MultiFn.fresh.
    rewrite (lookup_perm k _ _ Hp Hn). destruct (lookup k (methods m2)); auto.
    unfold MultiFn.find. rewrite <- Epf, <- Ed, (lookup_perm (dflt m1) _ _ Hp Hn).
    set (c1 := matching h (methods m1) k). set (c2 := matching h (methods m2) k).
    assert (Hc : Permutation c1 c2) by now apply Permutation_filter'.
    assert (Hb : Permutation (best h (prefs m1) c1) (best h (prefs m1) c2)).
    { unfold MultiFn.best.
      rewrite (filter_ext' (fun e => forallb (fun o => precedes h (prefs m1) (fst e) (fst o)) c1)
                           (fun e => forallb (fun o => precedes h (prefs m1) (fst e) (fst o)) c2) c1).
      - now apply Permutation_filter'.
      - intros. now apply forallb_perm. }
    assert (R : match best h (prefs m1) c1 with [e] => RMethod (snd e) | _ => RAmbiguous end
                = match best h (prefs m1) c2 with [e] => RMethod (snd e) | _ => RAmbiguous end).
    { destruct (best h (prefs m1) c1) as [|e1 [|e1' l1]] eqn:E1.
      - apply Permutation_nil in Hb. now rewrite Hb.
      - apply Permutation_length_1_inv in Hb. now rewrite Hb.
      - apply Permutation_length in Hb. destruct (best h (prefs m1) c2) as [|e2 [|e2' l2]]; simpl in Hb; auto; discriminate. }
    destruct c1 as [|a1 c1'] eqn:Ec1.
    - apply Permutation_nil in Hc. now rewrite Hc.
    - destruct c2 as [|a2 c2'] eqn:Ec2.
      + apply Permutation_sym, Permutation_nil in Hc. discriminate.
      + exact R.
  Qed.

  (** ** G4: the search is the reference resolution *)
  Hypothesis isa_refl : forall h x, isa h x x = true.

  Lemma filter_map_fst (f : key -> bool) (l : list (key * N)) :
    filter f (map fst l) = map fst (filter (fun e => f (fst e)) l).
  Proof. induction l as [|a l IH]; simpl; auto. destruct (f (fst a)); simpl; now rewrite IH. Qed.

  Lemma forallb_map_fst (f : key -> bool) (l : list (key * N)) :
    forallb f (map fst l) = forallb (fun e => f (fst e)) l.
  Proof. induction l as [|a l IH]; simpl; auto. now rewrite IH. Qed.

  Lemma s_dominant_is_best h pf (cands : list (key * N)) c :
    s_dominant key key_eqb (isa h) pf (map fst cands) c
    = forallb (fun o => precedes h pf c (fst o)) cands.
  Proof.
    unfold s_dominant. rewrite forallb_map_fst. apply forallb_ext'. intros o.
    unfold MultiFn.precedes, s_dominates, s_pref, MultiFn.has_pref.
    destruct (key_eqb (fst o) c) eqn:E; auto. apply key_eqb_spec in E. subst c.
    now rewrite isa_refl, orb_true_r.
  Qed.

  Lemma NoDup_fst_filter (f : key * N -> bool) l : NoDup (map fst l) -> NoDup (map fst (filter f l)).
  Proof.
    induction l as [|a l IH]; simpl; auto. intros Hn. inversion Hn as [|? ? Hni Hn']; subst.
    destruct (f a); simpl; auto. constructor; auto.
    intros Hin. apply Hni. apply in_map_iff in Hin. destruct Hin as [e [E Hin]].
    apply filter_In in Hin. apply in_map_iff. exists e. tauto.
  Qed.

  Theorem find_is_resolve_ref h (m : mfn) k :
    NoDup (map fst (methods m)) ->
    find h m k = resolve_ref key key_eqb (isa h) (methods m) (prefs m) (dflt m) k.
  Proof.
    intros Hn. unfold MultiFn.find, resolve_ref. cbv zeta.
    rewrite filter_map_fst. fold (matching h (methods m) k).
    set (c := matching h (methods m) k).
    assert (Hb : filter (s_dominant key key_eqb (isa h) (prefs m) (map fst c)) (map fst c)
                 = map fst (best h (prefs m) c)).
    { rewrite filter_map_fst. f_equal. unfold MultiFn.best. apply filter_ext'.
      intros e. apply s_dominant_is_best. }
    rewrite Hb. rewrite <- !lookup_is_s_lookup.
    assert (Hsub : forall e, In e (best h (prefs m) c) -> In e (methods m)).
    { intros e Hi. unfold MultiFn.best in Hi. apply filter_In in Hi. destruct Hi as [Hi _].
      unfold c, MultiFn.matching in Hi. apply filter_In in Hi. apply Hi. }
    destruct c as [|a c']; [reflexivity|]. simpl map at 1.
    destruct (best h (prefs m) (a :: c')) as [|e [|e' l]] eqn:Eb; simpl; auto.
    destruct e as [ek ev]. simpl.
    rewrite (s_lookup_NoDup key key_eqb key_eqb_spec ek (methods m) ev Hn); auto.
    apply Hsub. left. auto.
  Qed.

  (** the exact dispatch value has a method and no other matching key dominates it *)
  Definition exact_ok h (m : mfn) (k : key) : bool :=
    match lookup k (methods m) with
    | None => true
    | Some _ =>
        forallb (fun c => key_eqb c k || negb (s_dominates key key_eqb (isa h) (prefs m) c k))
                (filter (fun c => isa h k c) (map fst (methods m)))
    end.

  Lemma all_same_singleton {A} (l : list A) a :
    NoDup l -> In a l -> (forall x, In x l -> x = a) -> l = [a].
  Proof.
    intros Hn Hi Hall. destruct l as [|x [|y l]].
    - destruct Hi.
    - f_equal. apply Hall. left. auto.
    - exfalso. inversion Hn as [|? ? Hni _]; subst. apply Hni.
      rewrite (Hall x) by (left; auto). rewrite (Hall y) by (right; left; auto). left. auto.
  Qed.

  Theorem fresh_is_resolve_ref h (m : mfn) k :
    NoDup (map fst (methods m)) -> exact_ok h m k = true ->
    fresh h m k = resolve_ref key key_eqb (isa h) (methods m) (prefs m) (dflt m) k.
  Proof.
    intros Hn Hg. unfold MultiFn.fresh, exact_ok in *.
    destruct (lookup k (methods m)) as [v|] eqn:El; [|now apply find_is_resolve_ref].
    rewrite lookup_is_s_lookup in El.
    assert (Hin : In (k, v) (methods m)) by now apply (s_lookup_Some key key_eqb key_eqb_spec).
    unfold resolve_ref. set (cands := filter (fun c => isa h k c) (map fst (methods m))) in *.
    assert (Hk : In k cands).
    { unfold cands. apply filter_In. split; [|apply isa_refl]. apply in_map_iff. exists (k, v). auto. }
    set (L := filter (s_dominant key key_eqb (isa h) (prefs m) cands) cands).
    assert (HL : L = [k]).
    { apply all_same_singleton.
      - unfold L, cands. repeat apply NoDup_filter. exact Hn.
      - unfold L. apply filter_In. split; auto. unfold s_dominant. apply forallb_forall.
        intros o Ho. apply orb_true_iff. right. unfold s_dominates. apply orb_true_iff. right.
        unfold cands in Ho. apply filter_In in Ho. tauto.
      - intros c Hc. unfold L in Hc. apply filter_In in Hc. destruct Hc as [Hc Hd].
        rewrite forallb_forall in Hg. specialize (Hg c Hc).
        apply orb_true_iff in Hg. destruct Hg as [Hg|Hg]; [now apply key_eqb_spec|].
        unfold s_dominant in Hd. rewrite forallb_forall in Hd. specialize (Hd k Hk).
        apply orb_true_iff in Hd. destruct Hd as [Hd|Hd]; [now apply key_eqb_spec in Hd|].
        rewrite Hd in Hg. discriminate. }
    destruct cands as [|c0 cs] eqn:Ec; [destruct Hk|]. rewrite <- Ec in *.
    fold L. rewrite HL. now rewrite El.
  Qed.
End MultiFnProofs.
