(** C18 shared vocabulary: dispatch values (tags), relations as lists of pairs, the
    operations of a history and what a step can be observed to do. *)
From Coq Require Import List Bool NArith.
Import ListNotations.

Inductive tag := K (n : N) | C (n : N) | V (l : list tag).

Fixpoint tag_eqb (a b : tag) {struct a} : bool :=
  match a, b with
  | K x, K y => N.eqb x y
  | C x, C y => N.eqb x y
  | V xs, V ys =>
      (fix go (xs ys : list tag) {struct xs} : bool :=
         match xs, ys with
         | [], [] => true
         | x :: xs', y :: ys' => tag_eqb x y && go xs' ys'
         | _, _ => false
         end) xs ys
  | _, _ => false
  end.

Definition rel := list (tag * tag).

Definition pair_eqb (p q : tag * tag) : bool := tag_eqb (fst p) (fst q) && tag_eqb (snd p) (snd q).
Definition rmem (x y : tag) (r : rel) : bool := existsb (pair_eqb (x, y)) r.
Definition tmem (x : tag) (l : list tag) : bool := existsb (tag_eqb x) l.
(** [(get-in h [:ancestors x] #{})] and friends: the set stored under key x *)
Definition image (r : rel) (x : tag) : list tag :=
  map snd (filter (fun q => tag_eqb (fst q) x) r).
Definition product (xs ys : list tag) : rel :=
  flat_map (fun x => map (fun y => (x, y)) ys) xs.
Definition radd (t p : tag) (r : rel) : rel := if rmem t p r then r else (t, p) :: r.
(** set union: the pairs of l that r lacks are added *)
Definition runion (r l : rel) : rel := fold_left (fun acc q => radd (fst q) (snd q) acc) l r.

Definition is_ident (t : tag) : bool := match t with K _ => true | _ => false end.
Definition is_class (t : tag) : bool := match t with C _ => true | _ => false end.

(** what a call of the multimethod is observed to do *)
Inductive res :=
| RMethod (m : N)      (* the method body that ran (each body returns its own number) *)
| RAmbiguous           (* RuntimeException "Cannot resolve a unique method ..." *)
| RNoMethod            (* NotImplementedError: nothing matches and no default method *)
| ROther.              (* any other exception (never prescribed, never produced by the model) *)

(** one step of a history *)
Inductive op :=
| OAdd (k : tag) (m : N)         (* (defmethod mf k [_] m) *)
| ORemove (k : tag)              (* (remove-method mf k) *)
| ORemoveAll                     (* (remove-all-methods mf) *)
| OPrefer (x y : tag)            (* (prefer-method mf x y) *)
| ODerive (t p : tag)            (* (swap! h derive t p) *)
| OUnderive (t p : tag)          (* (swap! h underive t p) *)
| OCall (k : tag).               (* (mf k) *)

Inductive sres :=
| SOk                            (* returned normally *)
| SErr                           (* raised (ExceptionInfo of derive, RuntimeException of prefer-method) *)
| SRes (r : res)                 (* a call *)
| SBad.                          (* any other exception (never prescribed, never produced by the model) *)

Definition res_eqb (a b : res) : bool :=
  match a, b with
  | RMethod x, RMethod y => N.eqb x y
  | RAmbiguous, RAmbiguous => true
  | RNoMethod, RNoMethod => true
  | ROther, ROther => true
  | _, _ => false
  end.

Definition sres_eqb (a b : sres) : bool :=
  match a, b with
  | SOk, SOk => true
  | SErr, SErr => true
  | SRes x, SRes y => res_eqb x y
  | SBad, SBad => true
  | _, _ => false
  end.
