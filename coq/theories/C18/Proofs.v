(** C18 proofs, part 4: histories.
    L1  the model with its dispatch cache computes what the cache-free machine [cstep]
        computes on (hierarchy, methods, preferences, default) alone;
    L2  the cache-free machine gives the same answers for every re-arrangement of the table;
    L3  with the table in insertion order it is the specification's machine [s_step], as long
        as no call hits an exact key that another matching key dominates ([s_guard]). *)
From Coq Require Import List Bool NArith Permutation.
Import ListNotations.
From Verif Require Import C18.Base C18.Hierarchy C18.HierarchyProofs C18.MultiFn C18.MultiFnProofs
     C18.Spec C18.SpecProofs C18.IsaProofs C18.Model.

Definition perm_fn (sh : list (tag * N) -> list (tag * N)) : Prop := forall l, Permutation (sh l) l.

Lemma tag_eqb_spec' : forall a b, tag_eqb a b = true <-> a = b.
Proof. exact tag_eqb_eq. Qed.

Section Machine.
  Variable supers : N -> list N.
  Variable sub : N -> N -> bool.
  Hypothesis sub_spec : forall a b, sub a b = true <-> a = b \/ In b (supers a).

  Notation m_isa := (m_isa supers sub).
  Notation step := (step supers sub).
  Notation run := (run supers sub).
  Notation cache_ok := (cache_ok tag hier tag_eqb m_isa).
  Notation core := (core tag hier).
  Notation fresh := (fresh tag hier tag_eqb m_isa).
  Notation call := (call tag hier tag_eqb m_isa hier_eqb).
  Notation lookup := (@lookup tag tag_eqb N).
  Notation remove_key := (@remove_key tag tag_eqb N).
  Notation has_pref := (has_pref tag tag_eqb).

  Lemma Heqb_isa : forall h1 h2, hier_eqb h1 h2 = true -> forall x y, m_isa h1 x y = m_isa h2 x y.
  Proof. exact (hier_eqb_isa supers sub). Qed.

  Lemma m_isa_refl : forall h x, m_isa h x x = true.
  Proof. exact (isa_refl supers sub). Qed.

  (** * the cache-free machine *)
  Definition cstate := (hier * list (tag * N) * list (tag * tag) * tag)%type.

  Definition mfn_of (c : cstate) : mfn tag hier :=
    let '(h, ms, pf, d) := c in
    {| methods := ms; prefs := pf; cache := ms; cached_h := h; dflt := d |}.

  Definition cfresh (c : cstate) (k : tag) : res := fresh (fst (fst (fst c))) (mfn_of c) k.

  Definition cstep (sh : list (tag * N) -> list (tag * N)) (c : cstate) (o : op) : sres * cstate :=
    let '(h, ms, pf, d) := c in
    match o with
    | OAdd k m => (SOk, (h, sh ((k, m) :: remove_key k ms), pf, d))
    | ORemove k => (SOk, (h, match lookup k ms with Some _ => sh (remove_key k ms) | None => ms end, pf, d))
    | ORemoveAll => (SOk, (h, [], pf, d))
    | OPrefer x y => if has_pref pf y x then (SErr, c) else (SOk, (h, ms, (x, y) :: pf, d))
    | ODerive t p => match derive h t p with Some h' => (SOk, (h', ms, pf, d)) | None => (SErr, c) end
    | OUnderive t p => match underive h t p with Some h' => (SOk, (h', ms, pf, d)) | None => (SErr, c) end
    | OCall k => (SRes (cfresh c k), c)
    end.

  Fixpoint crun sh (c : cstate) (ops : list op) : list sres * cstate :=
    match ops with
    | [] => ([], c)
    | o :: r => let (x, c1) := cstep sh c o in
                let (xs, c2) := crun sh c1 r in (x :: xs, c2)
    end.

  (** * L1: the cache is transparent *)
  Lemma cfresh_core (w : W) k : cfresh (core w) k = fresh (w_hier w) (mf w) k.
  Proof. unfold cfresh, MultiFnProofs.core. simpl. apply fresh_same; reflexivity. Qed.

  Lemma step_core sh (w : W) o :
    cache_ok (mf w) ->
    cstep sh (core w) o = (fst (step sh w o), core (snd (step sh w o))) /\ cache_ok (mf (snd (step sh w o))).
  Proof.
    intros Hc. destruct o as [k m|k| |x y|t p|t p|k]; unfold Model.step; cbn [fst snd].
    - split; [reflexivity|apply reset_ok].
    - unfold remove_method, MultiFnProofs.core, cstep. cbn beta iota. cbn [fst snd].
      destruct (lookup k (methods (mf w))); (split; [reflexivity|apply reset_ok]).
    - split; [reflexivity|apply reset_ok].
    - unfold prefer_method, MultiFnProofs.core, cstep. cbn beta iota. cbn [fst snd].
      destruct (has_pref (prefs (mf w)) y x); cbn [fst snd].
      + split; auto.
      + split; [reflexivity|apply reset_ok].
    - unfold MultiFnProofs.core, cstep. cbn beta iota. cbn [fst snd].
      destruct (derive (w_hier w) t p); cbn [fst snd]; split; auto.
    - unfold MultiFnProofs.core, cstep. cbn beta iota. cbn [fst snd].
      destruct (underive (w_hier w) t p); cbn [fst snd]; split; auto.
    - destruct (call_transparent tag hier tag_eqb m_isa hier_eqb tag_eqb_spec' Heqb_isa k w Hc) as [H1 [H2 H3]].
      destruct (call k w) as [r w'] eqn:E. cbn [fst snd] in *. split; auto.
      rewrite H3. subst r. rewrite <- cfresh_core. unfold MultiFnProofs.core.
      destruct w as [h [ms pf ca ch d]]. reflexivity.
  Qed.

  Theorem run_core sh : forall ops (w : W),
    cache_ok (mf w) ->
    crun sh (core w) ops = (fst (run sh w ops), core (snd (run sh w ops))) /\ cache_ok (mf (snd (run sh w ops))).
  Proof.
    induction ops as [|o ops IH]; intros w Hc; [simpl; auto|]. cbn [crun Model.run].
    destruct (step_core sh w o Hc) as [E Hc1]. rewrite E.
    destruct (step sh w o) as [x w1]. cbn [fst snd] in *.
    destruct (IH w1 Hc1) as [E2 Hc2]. rewrite E2.
    destruct (run sh w1 ops) as [xs w2]. cbn [fst snd] in *. auto.
  Qed.

  Lemma init_ok d : cache_ok (mf (init d)).
  Proof. apply new_ok. Qed.

  (** the invariant, and what a call returns, after any history *)
  Theorem cache_transparent sh ops d :
    let w := snd (run sh (init d) ops) in
    cache_ok (mf w) /\ forall k, fst (call k w) = fresh (w_hier w) (mf w) k.
  Proof.
    intros w. destruct (run_core sh ops (init d) (init_ok d)) as [_ Hc]. split; auto.
    intros k. now destruct (call_transparent tag hier tag_eqb m_isa hier_eqb tag_eqb_spec' Heqb_isa k w Hc).
  Qed.

  Theorem cache_transparent_explicit sh ops d :
    let w := snd (run sh (init d) ops) in
    (forall k v, lookup k (cache (mf w)) = Some v -> fresh (cached_h (mf w)) (mf w) k = RMethod v) /\
    (forall k, fst (call k w) = fresh (w_hier w) (mf w) k).
  Proof.
    intros w. destruct (cache_transparent sh ops d) as [[H1 _] H2]. fold w in H1, H2. auto.
  Qed.

  (** earlier calls do not matter *)
  Definition is_call (o : op) : bool := match o with OCall _ => true | _ => false end.

  Lemma crun_cons_snd sh c o ops : snd (crun sh c (o :: ops)) = snd (crun sh (snd (cstep sh c o)) ops).
  Proof.
    cbn [crun]. destruct (cstep sh c o) as [x c1]. cbn [snd]. now destruct (crun sh c1 ops).
  Qed.

  Lemma cstep_call_snd sh c k : snd (cstep sh c (OCall k)) = c.
  Proof. destruct c as [[[h ms] pf] d]. reflexivity. Qed.

  Lemma crun_skip_calls sh : forall ops c,
    snd (crun sh c ops) = snd (crun sh c (filter (fun o => negb (is_call o)) ops)).
  Proof.
    induction ops as [|o ops IH]; intros c; [reflexivity|].
    rewrite crun_cons_snd. cbn [filter]. destruct (is_call o) eqn:E; cbn [negb].
    - destruct o; try discriminate. rewrite cstep_call_snd. apply IH.
    - rewrite crun_cons_snd. apply IH.
  Qed.

  Theorem calls_do_not_matter sh ops d k :
    fst (call k (snd (run sh (init d) ops)))
    = fst (call k (snd (run sh (init d) (filter (fun o => negb (is_call o)) ops)))).
  Proof.
    destruct (cache_transparent sh ops d) as [_ H1].
    destruct (cache_transparent sh (filter (fun o => negb (is_call o)) ops) d) as [_ H2].
    rewrite H1, H2, <- !cfresh_core.
    destruct (run_core sh ops (init d) (init_ok d)) as [E1 _].
    destruct (run_core sh (filter (fun o => negb (is_call o)) ops) (init d) (init_ok d)) as [E2 _].
    assert (core (snd (run sh (init d) ops)) = snd (crun sh (core (init d)) ops)) by now rewrite E1.
    assert (core (snd (run sh (init d) (filter (fun o => negb (is_call o)) ops)))
            = snd (crun sh (core (init d)) (filter (fun o => negb (is_call o)) ops))) by now rewrite E2.
    rewrite H, H0. now rewrite crun_skip_calls.
  Qed.

  (** * L2: the order of the table *)
  Definition psim (c1 c2 : cstate) : Prop :=
    let '(h1, ms1, pf1, d1) := c1 in
    let '(h2, ms2, pf2, d2) := c2 in
    h1 = h2 /\ Permutation ms1 ms2 /\ pf1 = pf2 /\ d1 = d2 /\ NoDup (map fst ms1).

  Lemma remove_key_not_in k ms : ~ In k (map fst (remove_key k ms)).
  Proof.
    intros H. apply in_map_iff in H. destruct H as [e [E H]]. apply filter_In in H.
    destruct H as [_ H]. rewrite <- E, tag_eqb_refl in H. discriminate.
  Qed.

  Lemma NoDup_add k m ms : NoDup (map fst ms) -> NoDup (map fst ((k, m) :: remove_key k ms)).
  Proof.
    intros Hn. simpl. constructor; [apply remove_key_not_in|].
    now apply (NoDup_fst_filter tag).
  Qed.

  Lemma NoDup_perm (l1 l2 : list (tag * N)) : Permutation l1 l2 -> NoDup (map fst l2) -> NoDup (map fst l1).
  Proof.
    intros Hp Hn. eapply Permutation_NoDup; [|exact Hn]. apply Permutation_map, Permutation_sym, Hp.
  Qed.

  Lemma cfresh_perm h ms1 ms2 pf d k :
    Permutation ms1 ms2 -> NoDup (map fst ms1) -> cfresh (h, ms1, pf, d) k = cfresh (h, ms2, pf, d) k.
  Proof.
    intros Hp Hn. unfold cfresh. simpl.
    apply (fresh_perm tag hier tag_eqb m_isa tag_eqb_spec'); auto.
  Qed.

  Lemma cstep_psim sh1 sh2 c1 c2 o :
    perm_fn sh1 -> perm_fn sh2 -> psim c1 c2 ->
    fst (cstep sh1 c1 o) = fst (cstep sh2 c2 o) /\ psim (snd (cstep sh1 c1 o)) (snd (cstep sh2 c2 o)).
  Proof.
    intros P1 P2. destruct c1 as [[[h1 ms1] pf1] d1], c2 as [[[h2 ms2] pf2] d2].
    intros [-> [Hp [-> [-> Hn]]]].
    assert (Hrk : forall k, Permutation (remove_key k ms1) (remove_key k ms2)).
    { intros. now apply Permutation_filter'. }
    destruct o as [k m|k| |x y|t p|t p|k]; simpl.
    - split; auto. repeat split; auto.
      + eapply perm_trans; [apply P1|]. eapply perm_trans; [|apply Permutation_sym, P2].
        now apply perm_skip.
      + eapply NoDup_perm; [apply P1|]. now apply NoDup_add.
    - split; auto. rewrite <- (lookup_perm tag tag_eqb tag_eqb_spec' k ms1 ms2 Hp Hn).
      destruct (lookup k ms1); repeat split; auto.
      + eapply perm_trans; [apply P1|]. eapply perm_trans; [|apply Permutation_sym, P2]. auto.
      + eapply NoDup_perm; [apply P1|]. now apply (NoDup_fst_filter tag).
    - split; auto. repeat split; auto. constructor.
    - destruct (has_pref pf2 y x); simpl; split; auto; repeat split; auto.
    - destruct (derive h2 t p); simpl; split; auto; repeat split; auto.
    - destruct (underive h2 t p); simpl; split; auto; repeat split; auto.
    - split; [|repeat split; auto]. f_equal. now apply cfresh_perm.
  Qed.

  Lemma crun_psim sh1 sh2 : perm_fn sh1 -> perm_fn sh2 -> forall ops c1 c2,
    psim c1 c2 ->
    fst (crun sh1 c1 ops) = fst (crun sh2 c2 ops) /\ psim (snd (crun sh1 c1 ops)) (snd (crun sh2 c2 ops)).
  Proof.
    intros P1 P2. induction ops as [|o ops IH]; intros c1 c2 Hs; simpl; auto.
    destruct (cstep_psim sh1 sh2 c1 c2 o P1 P2 Hs) as [E Hs1].
    destruct (cstep sh1 c1 o) as [x1 c1'], (cstep sh2 c2 o) as [x2 c2']. simpl in *.
    destruct (IH c1' c2' Hs1) as [E2 Hs2].
    destruct (crun sh1 c1' ops) as [xs1 c1''], (crun sh2 c2' ops) as [xs2 c2'']. simpl in *.
    split; auto. congruence.
  Qed.

  Lemma psim_init d : psim (core (init d)) (core (init d)).
  Proof. simpl. repeat split; auto. constructor. Qed.

  Theorem order_independent sh1 sh2 ops d :
    perm_fn sh1 -> perm_fn sh2 -> fst (run sh1 (init d) ops) = fst (run sh2 (init d) ops).
  Proof.
    intros P1 P2.
    destruct (run_core sh1 ops (init d) (init_ok d)) as [E1 _].
    destruct (run_core sh2 ops (init d) (init_ok d)) as [E2 _].
    destruct (crun_psim sh1 sh2 P1 P2 ops _ _ (psim_init d)) as [E _].
    rewrite E1, E2 in E. exact E.
  Qed.

  (** * L3: the specification's machine *)
  Definition rsim (c : cstate) (s : sstate) : Prop :=
    let '(h, ms, pf, d) := c in
    hsim h (sP s) /\ ms = sM s /\ pf = sPf s /\ d = sD s /\ NoDup (map fst ms).

  Lemma rsim_intro h ms pf d s :
    hsim h (sP s) -> ms = sM s -> pf = sPf s -> d = sD s -> NoDup (map fst ms) -> rsim (h, ms, pf, d) s.
  Proof. intros. unfold rsim. auto. Qed.

  Lemma remove_key_absent k ms : lookup k ms = None -> remove_key k ms = ms.
  Proof.
    induction ms as [|[k' v] ms IH]; simpl; auto.
    destruct (tag_eqb k k'); [discriminate|]. simpl. intros H. now rewrite IH.
  Qed.

  Lemma has_pref_rmem pf x y : has_pref pf x y = rmem x y pf.
  Proof. unfold MultiFn.has_pref, rmem. induction pf as [|q pf IH]; simpl; auto; try now rewrite IH. Qed.

  Lemma resolve_ref_ext (isa1 isa2 : tag -> tag -> bool) M Pf d k :
    (forall x y, isa1 x y = isa2 x y) ->
    resolve_ref tag tag_eqb isa1 M Pf d k = resolve_ref tag tag_eqb isa2 M Pf d k.
  Proof.
    intros E. unfold resolve_ref.
    rewrite (filter_ext' (fun c => isa1 k c) (fun c => isa2 k c)) by (intros; apply E).
    set (cands := filter (fun c => isa2 k c) (map fst M)).
    rewrite (filter_ext' (s_dominant tag tag_eqb isa1 Pf cands) (s_dominant tag tag_eqb isa2 Pf cands)); auto.
    intros c. unfold s_dominant. apply forallb_ext'. intros o. unfold s_dominates. now rewrite E.
  Qed.

  Lemma exact_ok_guard h s ms pf d k :
    hsim h (sP s) -> ms = sM s -> pf = sPf s ->
    exact_ok tag hier tag_eqb m_isa h {| methods := ms; prefs := pf; cache := ms; cached_h := h; dflt := d |} k
    = s_guard supers s k.
  Proof.
    intros Hs -> ->. unfold exact_ok, s_guard. simpl. rewrite lookup_is_s_lookup.
    destruct (s_lookup tag tag_eqb k (sM s)); auto.
    assert (E : forall x y, m_isa h x y = isa_ref_b supers (sP s) x y).
    { intros. now apply (isa_model_spec supers sub sub_spec h (sP s)). }
    rewrite (filter_ext' (fun c => m_isa h k c) (fun c => isa_ref_b supers (sP s) k c)) by (intros; apply E).
    apply forallb_ext'. intros c. unfold s_dominates. now rewrite E.
  Qed.

  Definition id_sh (l : list (tag * N)) := l.

  Lemma cstep_rsim c s o :
    rsim c s -> (match o with OCall k => s_guard supers s k | _ => true end) = true ->
    fst (cstep id_sh c o) = fst (s_step supers s o) /\ rsim (snd (cstep id_sh c o)) (snd (s_step supers s o)).
  Proof.
    destruct c as [[[h ms] pf] d]. intros [Hs [Em [Ep [Ed Hn]]]] Hg. subst ms pf d.
    destruct o as [k m|k| |x y|t p|t p|k]; unfold cstep, s_step.
    - cbn [fst snd]. split; auto. unfold id_sh. apply rsim_intro; cbn [sP sM sPf sD]; auto.
      now apply NoDup_add.
    - cbn [fst snd]. split; auto. apply rsim_intro; cbn [sP sM sPf sD]; auto.
      + destruct (lookup k (sM s)) eqn:El.
        * reflexivity.
        * symmetry. exact (remove_key_absent k (sM s) El).
      + destruct (lookup k (sM s)); auto. unfold id_sh. now apply (NoDup_fst_filter tag).
    - cbn [fst snd]. split; auto. apply rsim_intro; cbn [sP sM sPf sD]; auto. constructor.
    - rewrite has_pref_rmem. destruct (rmem y x (sPf s)); cbn [fst snd]; split; auto;
        apply rsim_intro; cbn [sP sM sPf sD]; auto.
    - pose proof (derive_refines h (sP s) t p Hs) as D.
      destruct (derive h t p), (spec_derive (sP s) t p); cbn [fst snd]; try contradiction; split; auto;
        apply rsim_intro; cbn [sP sM sPf sD]; auto.
    - destruct (underive_refines h (sP s) t p Hs) as [h' [U Hs']]. rewrite U. cbn [fst snd].
      split; auto. apply rsim_intro; cbn [sP sM sPf sD]; auto.
    - cbn [fst snd]. split; [|apply rsim_intro; auto]. f_equal. unfold cfresh, s_call. cbn [fst snd mfn_of].
      rewrite (fresh_is_resolve_ref tag hier tag_eqb m_isa tag_eqb_spec' m_isa_refl); cbn [methods prefs dflt]; auto.
      + apply resolve_ref_ext. intros.
        now apply (isa_model_spec supers sub sub_spec h (sP s)).
      + rewrite (exact_ok_guard h s (sM s) (sPf s) (sD s) k); auto.
  Qed.

  Lemma crun_rsim : forall ops c s,
    rsim c s -> s_guard_run supers s ops = true ->
    fst (crun id_sh c ops) = fst (s_run supers s ops) /\ rsim (snd (crun id_sh c ops)) (snd (s_run supers s ops)).
  Proof.
    induction ops as [|o ops IH]; intros c s Hs Hg; simpl; auto.
    simpl in Hg. apply andb_true_iff in Hg. destruct Hg as [Hg1 Hg2].
    destruct (cstep_rsim c s o Hs Hg1) as [E Hs1].
    destruct (cstep id_sh c o) as [x1 c1], (s_step supers s o) as [x2 s1]. simpl in *.
    destruct (IH c1 s1 Hs1 Hg2) as [E2 Hs2].
    destruct (crun id_sh c1 ops) as [xs1 c2], (s_run supers s1 ops) as [xs2 s2]. simpl in *.
    split; auto. congruence.
  Qed.

  Lemma rsim_init d : rsim (core (init d)) (s_init d).
  Proof. apply rsim_intro; simpl; auto. apply hsim_make. constructor. Qed.

  Lemma id_sh_perm : perm_fn id_sh.
  Proof. intros l. apply Permutation_refl. Qed.

  (** every step result and every call result is the one the specification prescribes *)
  Theorem choice_partial sh ops d :
    perm_fn sh -> s_guard_run supers (s_init d) ops = true ->
    fst (run sh (init d) ops) = fst (s_run supers (s_init d) ops).
  Proof.
    intros Psh Hg. rewrite (order_independent sh id_sh ops d Psh id_sh_perm).
    destruct (run_core id_sh ops (init d) (init_ok d)) as [E1 _].
    destruct (crun_rsim ops _ _ (rsim_init d) Hg) as [E _].
    rewrite E1 in E. exact E.
  Qed.

  (** the hierarchy seen by the multimethod after any history is closed *)
  Theorem run_hier_closed sh ops d : closed (w_hier (snd (run sh (init d) ops))).
  Proof.
    assert (G : forall ops (w : W), closed (w_hier w) -> closed (w_hier (snd (run sh w ops)))).
    { induction ops0 as [|o ops0 IH]; intros w Hc; simpl; auto.
      assert (Hc1 : closed (w_hier (snd (step sh w o)))).
      { destruct o; simpl; auto.
        - unfold remove_method. destruct (lookup k (methods (mf w))); auto.
        - unfold prefer_method. destruct (has_pref (prefs (mf w)) y x); auto.
        - destruct (derive (w_hier w) t p) eqn:D; simpl; auto. now destruct (derive_closed _ _ _ _ Hc D).
        - destruct (underive_closed (w_hier w) t p Hc) as [h' [U [Hc' _]]]. rewrite U. auto.
        - destruct (call k w) as [r w'] eqn:E. simpl.
          assert (w_hier w' = w_hier w).
          { unfold MultiFn.call in E. unfold MultiFn.sync in E.
            destruct (hier_eqb (cached_h (mf w)) (w_hier w)); simpl in E;
              repeat match type of E with
                     | context [match ?x with _ => _ end] => destruct x
                     end; inversion E; reflexivity. }
          congruence. }
      destruct (step sh w o) as [x w1]. simpl in *.
      specialize (IH w1 Hc1). destruct (run sh w1 ops0) as [xs w2]. auto. }
    apply G. apply closed_make.
  Qed.
End Machine.
