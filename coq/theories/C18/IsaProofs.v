(** C18 proofs, part 3: on every hierarchy value that derive/underive can produce, the
    code's isa? is the specification's [isa_ref_b] (hence the reflexive-transitive closure of
    parent pairs + class inheritance, pointwise on equal-length vectors); derive and underive
    refine the specification's operations on the set of parent pairs. *)
From Coq Require Import List Bool NArith Arith Relations.
Import ListNotations.
From Verif Require Import C18.Base C18.Hierarchy C18.HierarchyProofs C18.Spec C18.SpecProofs.

(** the code's hierarchy value h represents the set P of parent pairs *)
Definition hsim (h : hier) (P : rel) : Prop :=
  closed h /\ forall x y, In (x, y) (hp h) <-> In (x, y) P.

Lemma hsim_make : hsim make_hierarchy [].
Proof. split; [apply closed_make|]. intros; simpl; tauto. Qed.

Lemma hsim_tc h P x y : hsim h P -> (In (x, y) (ha h) <-> clos_trans tag (R P) x y).
Proof.
  intros [Hc Hp]. rewrite (cl_anc _ Hc). split; apply clos_trans_mono; intros a b; apply Hp.
Qed.

Lemma hsim_anc h P x y : hsim h P -> tmem y (image (ha h) x) = tc_dec P x y.
Proof.
  intros Hs. apply eq_true_iff_eq. now rewrite tmem_In, In_image, tc_dec_spec, (hsim_tc h P).
Qed.

Lemma hsim_wf h P : hsim h P -> wf_pairs P.
Proof. intros [Hc Hp] x y H. apply (cl_wf _ Hc). now apply Hp. Qed.

Lemma derive_refines h P t p :
  hsim h P ->
  match derive h t p, spec_derive P t p with
  | Some h', Some P' => hsim h' P'
  | None, None => True
  | _, _ => False
  end.
Proof.
  intros Hs. destruct (derive h t p) as [h'|] eqn:D.
  - destruct Hs as [Hc Hp]. destruct (derive_closed _ _ _ _ Hc D) as [Hc' Hp'].
    unfold derive in D. unfold spec_derive.
    destruct (tag_eqb t p); [discriminate|].
    destruct (is_ident p); simpl in *; [|discriminate].
    destruct (is_ident t || is_class t); simpl in *; [|discriminate].
    rewrite <- (hsim_anc h P p t) by (split; auto).
    destruct (tmem t (image (ha h) p)); [discriminate|].
    split; auto. intros x y. rewrite Hp', In_radd, Hp. split.
    + intros [H|[-> ->]]; auto.
    + intros [H|H]; auto. inversion H. auto.
  - unfold derive in D. unfold spec_derive.
    destruct (tag_eqb t p); simpl; auto.
    destruct (is_ident p); simpl in *; auto.
    destruct (is_ident t || is_class t); simpl in *; auto.
    rewrite <- (hsim_anc h P p t) by exact Hs.
    destruct (tmem t (image (ha h) p)); auto. discriminate.
Qed.

Lemma underive_refines h P t p :
  hsim h P -> exists h', underive h t p = Some h' /\ hsim h' (spec_underive P t p).
Proof.
  intros [Hc Hp]. destruct (underive_closed h t p Hc) as [h' [U [Hc' Hp']]].
  exists h'. split; auto. split; auto. intros x y. rewrite Hp'. unfold spec_underive.
  rewrite filter_In, negb_true_iff, Hp. split; intros [H1 H2]; split; auto.
  - destruct (pair_eqb (t, p) (x, y)) eqn:E; auto. apply pair_eqb_eq in E. congruence.
  - intros E. rewrite E in H2. assert (pair_eqb (t, p) (t, p) = true) by now apply pair_eqb_eq. congruence.
Qed.

Section IsaModel.
  Variable supers : N -> list N.
  Variable sub : N -> N -> bool.
  Hypothesis sub_spec : forall a b, sub a b = true <-> a = b \/ In b (supers a).

  Notation isa := (isa supers sub).

  Definition go_model (h : hier) :=
    fix go (xs ys : list tag) {struct xs} : bool :=
      match xs, ys with
      | a :: xs', b :: ys' => isa h a b && go xs' ys'
      | _, _ => true
      end.

  Lemma isa_K h n y : isa h (K n) y = tag_eqb (K n) y || false || tmem y (image (ha h) (K n) ++ []) || false.
  Proof. reflexivity. Qed.

  Lemma isa_C h a y :
    isa h (C a) y =
    tag_eqb (C a) y || false
    || tmem y (image (ha h) (C a) ++ flat_map (fun s => C s :: image (ha h) (C s)) (supers a))
    || match y with C b => sub a b | _ => false end.
  Proof. reflexivity. Qed.

  Lemma isa_V h xs y :
    isa h (V xs) y =
    tag_eqb (V xs) y
    || match y with
       | V ys => Nat.eqb (length xs) (length ys) && go_model h xs ys
       | _ => false
       end
    || tmem y (image (ha h) (V xs) ++ []) || false.
  Proof. destruct y; reflexivity. Qed.

  Lemma isa_refl h x : isa h x x = true.
  Proof.
    destruct x.
    - now rewrite isa_K, tag_eqb_refl.
    - now rewrite isa_C, tag_eqb_refl.
    - now rewrite isa_V, tag_eqb_refl.
  Qed.

  Lemma go_model_ref h P xs :
    Forall (fun x => forall y, isa h x y = isa_ref_b supers P x y) xs ->
    forall ys, go_model h xs ys = go_ref supers P xs ys.
  Proof.
    induction 1 as [|x xs Hx _ IH]; intros [|y ys]; simpl; auto.
    fold (go_model h). fold (go_ref supers P). now rewrite Hx, IH.
  Qed.

  Theorem isa_model_spec h P : hsim h P -> forall x y, isa h x y = isa_ref_b supers P x y.
  Proof.
    intros Hs. induction x as [n|a|xs IH] using tag_ind'; intros y.
    - rewrite isa_K, isa_ref_b_K, app_nil_r, !orb_false_r. now rewrite (hsim_anc h P).
    - rewrite isa_C, isa_ref_b_C, orb_false_r.
      destruct (tag_eqb (C a) y) eqn:E; [reflexivity|]. cbn [orb].
      apply eq_true_iff_eq. rewrite !orb_true_iff, tmem_In, in_app_iff, In_image, in_flat_map,
        existsb_exists, tc_dec_spec, (hsim_tc h P _ _ Hs). split.
      + intros [[H|[s [Hs' H]]]|H]; auto.
        * right. exists s. split; auto. apply orb_true_iff. destruct H as [H|H].
          -- left. subst. apply tag_eqb_refl.
          -- right. apply tc_dec_spec. apply In_image in H. now apply (hsim_tc h P).
        * destruct y as [|b|]; try discriminate. apply sub_spec in H. destruct H as [->|H].
          -- rewrite tag_eqb_refl in E. discriminate.
          -- right. exists b. split; auto. now rewrite tag_eqb_refl.
      + intros [H|[s [Hs' H]]]; auto. left. right. exists s. split; auto.
        apply orb_true_iff in H. destruct H as [H|H].
        * left. apply tag_eqb_eq in H. auto.
        * right. apply In_image. apply (hsim_tc h P); auto. now apply tc_dec_spec.
    - rewrite isa_V, isa_ref_b_V, app_nil_r, orb_false_r.
      assert (Z : tmem y (image (ha h) (V xs)) = false).
      { destruct (tmem y (image (ha h) (V xs))) eqn:E; auto.
        apply tmem_In, In_image in E. apply (hsim_tc h P _ _ Hs) in E.
        apply tc_source in E; [discriminate|]. now apply (hsim_wf h). }
      rewrite Z, orb_false_r. f_equal. destruct y as [| |ys]; auto.
      now rewrite (go_model_ref h P xs IH).
  Qed.

  (** equal hierarchy values answer isa? alike *)
  Lemma isa_ext h1 h2 :
    (forall x y, In (x, y) (ha h1) <-> In (x, y) (ha h2)) -> forall x y, isa h1 x y = isa h2 x y.
  Proof.
    intros E.
    assert (Ei : forall x y, tmem y (image (ha h1) x) = tmem y (image (ha h2) x)).
    { intros. apply eq_true_iff_eq. now rewrite !tmem_In, !In_image. }
    induction x as [n|a|xs IH] using tag_ind'; intros y.
    - rewrite !isa_K, !app_nil_r. now rewrite Ei.
    - rewrite !isa_C. f_equal. f_equal. apply eq_true_iff_eq.
      rewrite !tmem_In, !in_app_iff, !In_image, !in_flat_map, E.
      split; (intros [H|[s [H1 H2]]]; [auto|right; exists s; split; auto]);
        simpl in *; rewrite In_image in *; destruct H2 as [H2|H2]; auto; right; now apply E.
    - assert (G : forall ys, go_model h1 xs ys = go_model h2 xs ys).
      { clear Ei y. induction IH as [|x xs Hx _ IHxs]; intros [|y ys]; simpl; auto.
        fold (go_model h1). fold (go_model h2). now rewrite Hx, IHxs. }
      rewrite !isa_V, !app_nil_r, Ei. destruct y as [| |ys]; auto. now rewrite G.
  Qed.

  Lemma hier_eqb_isa h1 h2 : hier_eqb h1 h2 = true -> forall x y, isa h1 x y = isa h2 x y.
  Proof.
    unfold hier_eqb. rewrite !andb_true_iff. intros [[_ H] _]. apply isa_ext. now apply rel_eqb_spec.
  Qed.

  (** ** the statement in terms of closures *)
  Hypothesis supers_trans : forall a s s', In s (supers a) -> In s' (supers s) -> In s' (supers a).

  Theorem isa_is_closure h : closed h -> forall x y, isa h x y = true <-> isa_ref supers (hp h) x y.
  Proof.
    intros Hc x y. assert (Hs : hsim h (hp h)) by (split; auto; tauto).
    rewrite (isa_model_spec h (hp h) Hs). apply isa_ref_b_spec; auto. now apply (hsim_wf h).
  Qed.

  Lemma Forall2_imp {A B} (R1 R2 : A -> B -> Prop) l1 l2 :
    (forall a b, R1 a b -> R2 a b) -> Forall2 R1 l1 l2 -> Forall2 R2 l1 l2.
  Proof. intros HR H. induction H; constructor; auto. Qed.

  (** isa? on two vectors: same length and pointwise *)
  Theorem isa_vector_pointwise h : closed h -> forall xs ys,
    isa h (V xs) (V ys) = true <-> Forall2 (fun a b => isa h a b = true) xs ys.
  Proof.
    intros Hc xs ys. rewrite (isa_is_closure h Hc). split.
    - intros H. inversion H as [? ? Hx _ _|? ? HF]; subst.
      + exfalso. now apply (Hx xs).
      + eapply Forall2_imp; [|exact HF]. intros a b. now apply (isa_is_closure h Hc).
    - intros H. apply isa_vec. eapply Forall2_imp; [|exact H]. intros a b. now apply (isa_is_closure h Hc).
  Qed.

  Corollary isa_vector_length h : closed h -> forall xs ys,
    isa h (V xs) (V ys) = true -> length xs = length ys.
  Proof.
    intros Hc xs ys H. apply (isa_vector_pointwise h Hc) in H. induction H; simpl; auto.
  Qed.
End IsaModel.
