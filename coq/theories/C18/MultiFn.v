(** C18 model, part 2: basilisp.lang.multifn.MultiFunction, method by method, AFTER the
    repair fixes/C18-dispatch-order.patch (_find_and_cache_method compares every matching
    key with every other one).  The single-pass search of the pinned tree is kept as
    [find_legacy] (finding F-18b).

    Generic in the type of dispatch values [key], of hierarchy values [H] and in [isa]
    (instantiated with Hierarchy.tag / hier / isa in Model.v).

    The method table is an immutables.Map: its iteration order is hash order, i.e. outside
    the repo's logic.  It is modelled as an association list whose order IS the iteration
    order, re-arranged by an arbitrary function [shuffle] after every update; theorems
    quantify over all [shuffle]s that permute.  A method body is identified by a number
    (what the body returns when called). *)
From Coq Require Import List Bool NArith.
Import ListNotations.

From Verif Require Export C18.Base.

Section MultiFn.
  Variables key H : Type.
  Variable key_eqb : key -> key -> bool.
  Variable isa : H -> key -> key -> bool.
  Variable Heqb : H -> H -> bool.
  Variable shuffle : list (key * N) -> list (key * N).

  Record mfn := {
    methods : list (key * N);      (* _methods, in iteration order *)
    prefs : list (key * key);      (* _prefers: (x, y) present iff y in _prefers[x] *)
    cache : list (key * N);        (* _cache *)
    cached_h : H;                  (* _cached_hierarchy *)
    dflt : key                     (* _default *)
  }.

  (** the hierarchy reference lives outside the multimethod *)
  Record world := { w_hier : H; mf : mfn }.

  Fixpoint lookup {B} (k : key) (l : list (key * B)) : option B :=
    match l with
    | [] => None
    | (k', v) :: r => if key_eqb k k' then Some v else lookup k r
    end.

  Definition remove_key {B} (k : key) (l : list (key * B)) : list (key * B) :=
    filter (fun e => negb (key_eqb k (fst e))) l.

  Definition has_pref (p : list (key * key)) (x y : key) : bool :=
    existsb (fun q => key_eqb x (fst q) && key_eqb y (snd q)) p.

  (** _precedes *)
  Definition precedes (h : H) (p : list (key * key)) (x y : key) : bool :=
    has_pref p x y || isa h x y.

  (** MultiFunction(name, dispatch, default, hierarchy) *)
  Definition mf_new (h : H) (d : key) : mfn :=
    {| methods := []; prefs := []; cache := []; cached_h := h; dflt := d |}.

  (** _reset_cache *)
  Definition reset (w : world) : world :=
    {| w_hier := w_hier w;
       mf := {| methods := methods (mf w); prefs := prefs (mf w);
                cache := methods (mf w); cached_h := w_hier w; dflt := dflt (mf w) |} |}.

  Definition with_methods (w : world) (ms : list (key * N)) : world :=
    {| w_hier := w_hier w;
       mf := {| methods := ms; prefs := prefs (mf w); cache := cache (mf w);
                cached_h := cached_h (mf w); dflt := dflt (mf w) |} |}.

  (** add_method *)
  Definition add_method (k : key) (m : N) (w : world) : world :=
    reset (with_methods w (shuffle ((k, m) :: remove_key k (methods (mf w))))).

  (** remove_method *)
  Definition remove_method (k : key) (w : world) : world :=
    match lookup k (methods (mf w)) with
    | Some _ => reset (with_methods w (shuffle (remove_key k (methods (mf w)))))
    | None => reset w
    end.

  (** remove_all_methods *)
  Definition remove_all_methods (w : world) : world := reset (with_methods w []).

  (** prefer_method; [None] = RuntimeException (the opposite preference exists) *)
  Definition prefer_method (x y : key) (w : world) : option world :=
    if has_pref (prefs (mf w)) y x then None
    else Some (reset {| w_hier := w_hier w;
                        mf := {| methods := methods (mf w); prefs := (x, y) :: prefs (mf w);
                                 cache := cache (mf w); cached_h := cached_h (mf w);
                                 dflt := dflt (mf w) |} |}).

  (** the reference is set to another hierarchy value (alter-var-root / swap! with derive or
      underive); the multimethod is not told *)
  Definition set_hier (h : H) (w : world) : world := {| w_hier := h; mf := mf w |}.

  (** the search of _find_and_cache_method *)
  Definition matching (h : H) (ms : list (key * N)) (k : key) : list (key * N) :=
    filter (fun e => isa h k (fst e)) ms.

  Definition best (h : H) (p : list (key * key)) (cands : list (key * N)) : list (key * N) :=
    filter (fun e => forallb (fun o => precedes h p (fst e) (fst o)) cands) cands.

  Definition find (h : H) (m : mfn) (k : key) : res :=
    let cands := matching h (methods m) k in
    match cands with
    | [] => match lookup (dflt m) (methods m) with
            | Some v => RMethod v
            | None => RNoMethod
            end
    | _ => match best h (prefs m) cands with
           | [e] => RMethod (snd e)
           | _ => RAmbiguous
           end
    end.

  (** get_method followed by the call of what it returned *)
  Definition sync (w : world) : world :=
    if Heqb (cached_h (mf w)) (w_hier w) then w else reset w.

  Definition call (k : key) (w : world) : res * world :=
    let w := sync w in
    match lookup k (cache (mf w)) with
    | Some v => (RMethod v, w)
    | None =>
        match find (w_hier w) (mf w) k with
        | RMethod v =>
            (RMethod v,
             {| w_hier := w_hier w;
                mf := {| methods := methods (mf w); prefs := prefs (mf w);
                         cache := (k, v) :: cache (mf w); cached_h := cached_h (mf w);
                         dflt := dflt (mf w) |} |})
        | r => (r, w)
        end
    end.

  (** what a call computes on a multimethod whose cache was just reset *)
  Definition fresh (h : H) (m : mfn) (k : key) : res :=
    match lookup k (methods m) with
    | Some v => RMethod v
    | None => find h m k
    end.

  (** * the pinned tree's single pass (finding F-18b) *)
  Fixpoint pass (h : H) (p : list (key * key)) (k : key) (ms : list (key * N))
           (bst : option (key * N)) : option (option (key * N)) :=   (* None = raised *)
    match ms with
    | [] => Some bst
    | (mk, mv) :: r =>
        if isa h k mk then
          let bst' := match bst with
                      | None => (mk, mv)
                      | Some (bk, bv) => if precedes h p mk bk then (mk, mv) else (bk, bv)
                      end in
          if precedes h p (fst bst') mk then pass h p k r (Some bst') else None
        else pass h p k r bst
    end.

  Definition find_legacy (h : H) (m : mfn) (k : key) : res :=
    match pass h (prefs m) k (methods m) None with
    | None => RAmbiguous
    | Some (Some (_, v)) => RMethod v
    | Some None => match lookup (dflt m) (methods m) with
                   | Some v => RMethod v
                   | None => RNoMethod
                   end
    end.
End MultiFn.

Arguments methods {key H}.
Arguments prefs {key H}.
Arguments cache {key H}.
Arguments cached_h {key H}.
Arguments dflt {key H}.
Arguments w_hier {key H}.
Arguments mf {key H}.
