(** C18 model, part 3: one multimethod whose :hierarchy is a private reference, driven by a
    history of operations.  Instantiates MultiFn with Hierarchy's tags, hierarchy values,
    isa? and value equality of hierarchies. *)
From Coq Require Import List Bool NArith.
Import ListNotations.
From Verif Require Export C18.Base C18.Hierarchy C18.MultiFn.

Section Model.
  Variable supers : N -> list N.
  Variable sub : N -> N -> bool.
  Variable shuffle : list (tag * N) -> list (tag * N).

  Definition W := world tag hier.
  Definition m_isa : hier -> tag -> tag -> bool := isa supers sub.

  (** (def h (atom (make-hierarchy)))  (defmulti mf identity :default d :hierarchy h) *)
  Definition init (d : tag) : W :=
    {| w_hier := make_hierarchy; mf := mf_new tag hier make_hierarchy d |}.

  Definition step (w : W) (o : op) : sres * W :=
    match o with
    | OAdd k m => (SOk, add_method tag hier tag_eqb shuffle k m w)
    | ORemove k => (SOk, remove_method tag hier tag_eqb shuffle k w)
    | ORemoveAll => (SOk, remove_all_methods tag hier w)
    | OPrefer x y =>
        match prefer_method tag hier tag_eqb x y w with
        | Some w' => (SOk, w')
        | None => (SErr, w)
        end
    | ODerive t p =>
        match derive (w_hier w) t p with
        | Some h' => (SOk, set_hier tag hier h' w)
        | None => (SErr, w)             (* swap! lets the exception through; the atom is unchanged *)
        end
    | OUnderive t p =>
        match underive (w_hier w) t p with
        | Some h' => (SOk, set_hier tag hier h' w)
        | None => (SErr, w)
        end
    | OCall k =>
        let (r, w') := call tag hier tag_eqb m_isa hier_eqb k w in (SRes r, w')
    end.

  Fixpoint run (w : W) (ops : list op) : list sres * W :=
    match ops with
    | [] => ([], w)
    | o :: r => let (s, w1) := step w o in
                let (ss, w2) := run w1 r in (s :: ss, w2)
    end.

End Model.
