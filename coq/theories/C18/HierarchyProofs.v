(** C18 proofs, part 1: derive/underive keep the three maps of a hierarchy mutually
    consistent:  :ancestors = transitive closure of :parents, :descendants = its converse,
    no cycles; underive never fails on such a hierarchy and yields the closure of the
    remaining parent pairs whatever the order of re-derivation. *)
From Coq Require Import List Bool NArith Relations Lia.
Import ListNotations.
From Verif Require Import C18.Hierarchy.

(** * tags *)
Section TagInd.
  Variable P : tag -> Prop.
  Hypothesis HK : forall n, P (K n).
  Hypothesis HC : forall n, P (C n).
  Hypothesis HV : forall l, Forall P l -> P (V l).
  Fixpoint tag_ind' (t : tag) : P t :=
    match t with
    | K n => HK n
    | C n => HC n
    | V l => HV l ((fix go (l : list tag) : Forall P l :=
                      match l with
                      | [] => Forall_nil P
                      | x :: r => Forall_cons x (tag_ind' x) (go r)
                      end) l)
    end.
End TagInd.

Lemma tag_eqb_eq : forall a b, tag_eqb a b = true <-> a = b.
Proof.
  induction a as [n|n|l IH] using tag_ind'; intros [m|m|l']; simpl; try (split; congruence).
  - rewrite N.eqb_eq. split; congruence.
  - rewrite N.eqb_eq. split; congruence.
  - revert l'. induction IH as [|x xs Hx _ IHxs]; intros [|y ys]; try (split; congruence).
    rewrite andb_true_iff, Hx, IHxs. split.
    + intros [-> H]. congruence.
    + intros H. inversion H. auto.
Qed.

Lemma tag_eqb_refl a : tag_eqb a a = true.
Proof. now apply tag_eqb_eq. Qed.

Lemma tag_eqb_neq a b : tag_eqb a b = false <-> a <> b.
Proof.
  split.
  - intros H E. apply tag_eqb_eq in E. congruence.
  - intros H. destruct (tag_eqb a b) eqn:E; auto. apply tag_eqb_eq in E. contradiction.
Qed.

Lemma tag_eqb_sym a b : tag_eqb a b = tag_eqb b a.
Proof.
  destruct (tag_eqb a b) eqn:E.
  - apply tag_eqb_eq in E. subst. now rewrite tag_eqb_refl.
  - symmetry. apply tag_eqb_neq. apply tag_eqb_neq in E. congruence.
Qed.

Lemma pair_eqb_eq p q : pair_eqb p q = true <-> p = q.
Proof.
  destruct p, q. unfold pair_eqb. simpl. rewrite andb_true_iff, !tag_eqb_eq.
  split; [intros [-> ->]; auto | intros H; inversion H; auto].
Qed.

Lemma rmem_In x y r : rmem x y r = true <-> In (x, y) r.
Proof.
  unfold rmem. rewrite existsb_exists. split.
  - intros [q [Hq E]]. apply pair_eqb_eq in E. now subst.
  - intros H. exists (x, y). split; auto. now apply pair_eqb_eq.
Qed.

Lemma tmem_In x l : tmem x l = true <-> In x l.
Proof.
  unfold tmem. rewrite existsb_exists. split.
  - intros [q [Hq E]]. apply tag_eqb_eq in E. now subst.
  - intros H. exists x. split; auto. apply tag_eqb_refl.
Qed.

Lemma In_image r x y : In y (image r x) <-> In (x, y) r.
Proof.
  unfold image. rewrite in_map_iff. split.
  - intros [[a b] [E H]]. simpl in E. subst. apply filter_In in H. destruct H as [H E].
    simpl in E. apply tag_eqb_eq in E. now subst.
  - intros H. exists (x, y). split; auto. apply filter_In. split; auto. simpl. apply tag_eqb_refl.
Qed.

Lemma In_product x y A B : In (x, y) (product A B) <-> In x A /\ In y B.
Proof.
  unfold product. rewrite in_flat_map. split.
  - intros [a [Ha H]]. apply in_map_iff in H. destruct H as [b [E Hb]]. inversion E. subst. auto.
  - intros [Ha Hb]. exists x. split; auto. apply in_map_iff. exists y. auto.
Qed.

Lemma In_radd q t p r : In q (radd t p r) <-> q = (t, p) \/ In q r.
Proof.
  unfold radd. destruct (rmem t p r) eqn:E.
  - apply rmem_In in E. split; auto. intros [->|H]; auto.
  - simpl. split; intros [H|H]; auto.
Qed.

Lemma In_runion q l : forall r, In q (runion r l) <-> In q r \/ In q l.
Proof.
  unfold runion. induction l as [|[a b] l IH]; intros r; simpl.
  - tauto.
  - rewrite IH, In_radd. split.
    + intros [[->|H]|H]; auto.
    + intros [H|[<-|H]]; auto.
Qed.

(** * the invariant *)
Definition R (r : rel) : tag -> tag -> Prop := fun x y => In (x, y) r.

Record closed (h : hier) : Prop := {
  cl_anc : forall x y, In (x, y) (ha h) <-> clos_trans tag (R (hp h)) x y;
  cl_desc : forall x y, In (x, y) (hd h) <-> In (y, x) (ha h);
  cl_acyc : forall x, ~ In (x, x) (ha h);
  cl_wf : forall x y, In (x, y) (hp h) -> is_ident y = true /\ (is_ident x || is_class x) = true
}.

Lemma closed_make : closed make_hierarchy.
Proof.
  constructor; simpl; try tauto.
  intros x y. split; [tauto|]. intros H. apply clos_trans_t1n in H. destruct H as [? H|? ? H _]; exact H.
Qed.

Lemma clos_trans_mono (A B : tag -> tag -> Prop) :
  (forall x y, A x y -> B x y) -> forall x y, clos_trans tag A x y -> clos_trans tag B x y.
Proof.
  intros HAB x y H. induction H.
  - apply t_step. auto.
  - eapply t_trans; eauto.
Qed.

(** transitive closure after adding one edge (t,p) *)
Lemma tc_add_edge (P P' : tag -> tag -> Prop) t p :
  (forall x y, P' x y <-> P x y \/ (x = t /\ y = p)) ->
  forall x y, clos_trans tag P' x y <->
              clos_trans tag P x y \/
              ((x = t \/ clos_trans tag P x t) /\ (y = p \/ clos_trans tag P p y)).
Proof.
  intros HP' x y. split.
  - intros H. apply clos_trans_t1n in H. induction H as [x y H|x z y H _ IH].
    + apply HP' in H. destruct H as [H|[-> ->]].
      * left. now apply t_step.
      * right. auto.
    + apply HP' in H. destruct H as [H|[-> ->]].
      * destruct IH as [IH|[[->|IH1] IH2]].
        -- left. eapply t_trans; [apply t_step; eauto|auto].
        -- right. split; auto. right. now apply t_step.
        -- right. split; auto. right. eapply t_trans; [apply t_step; eauto|auto].
      * destruct IH as [IH|[_ IH2]].
        -- right. auto.
        -- right. auto.
  - assert (M : forall a b, clos_trans tag P a b -> clos_trans tag P' a b).
    { apply clos_trans_mono. intros. apply HP'. auto. }
    assert (E : clos_trans tag P' t p). { apply t_step. apply HP'. auto. }
    intros [H|[H1 H2]]; auto.
    assert (X : clos_trans tag P' x p).
    { destruct H1 as [->|H1]; auto. eapply t_trans; eauto. }
    destruct H2 as [->|H2]; auto. eapply t_trans; eauto.
Qed.

Local Opaque product.
Lemma derive_closed h t p h' :
  closed h -> derive h t p = Some h' ->
  closed h' /\ (forall x y, In (x, y) (hp h') <-> In (x, y) (hp h) \/ (x = t /\ y = p)).
Proof.
  intros [Hanc Hdesc Hacyc Hwf] D. unfold derive in D.
  destruct (tag_eqb t p) eqn:Etp; [discriminate|].
  destruct (is_ident p) eqn:Ep; simpl in D; [|discriminate].
  destruct (is_ident t || is_class t) eqn:Et; simpl in D; [|discriminate].
  destruct (tmem t (image (ha h) p)) eqn:Ecyc; [discriminate|].
  inversion D; subst h'; clear D. cbn [hp ha hd].
  apply tag_eqb_neq in Etp.
  assert (Ncyc : ~ In (p, t) (ha h)).
  { intros H. apply In_image in H. apply tmem_In in H. congruence. }
  assert (HP : forall x y, In (x, y) (radd t p (hp h)) <-> In (x, y) (hp h) \/ (x = t /\ y = p)).
  { intros x y. rewrite In_radd. split.
    - intros [E|H]; auto. inversion E. auto.
    - intros [H|[-> ->]]; auto. }
  assert (TC := tc_add_edge (R (hp h)) (R (radd t p (hp h))) t p HP).
  assert (InA : forall x, In x (t :: image (hd h) t) <-> x = t \/ clos_trans tag (R (hp h)) x t).
  { intros x. simpl. rewrite In_image, Hdesc, Hanc. split; intros [H|H]; auto. }
  assert (InB : forall y, In y (p :: image (ha h) p) <-> y = p \/ clos_trans tag (R (hp h)) p y).
  { intros y. simpl. rewrite In_image, Hanc. split; intros [H|H]; auto. }
  assert (NewA : forall x y, In (x, y) (runion (ha h) (product (t :: image (hd h) t) (p :: image (ha h) p)))
                             <-> clos_trans tag (R (radd t p (hp h))) x y).
  { intros x y. rewrite In_runion, In_product, InA, InB, TC, Hanc. tauto. }
  split; [|exact HP].
  constructor; cbn [hp ha hd].
  - exact NewA.
  - intros x y. rewrite !In_runion, !In_product, Hdesc. tauto.
  - intros x H. apply NewA in H. apply TC in H. destruct H as [H|[H1 H2]].
    + apply Hanc in H. eapply Hacyc; eauto.
    + apply Ncyc. apply Hanc.
      destruct H1 as [->|H1]; destruct H2 as [E|H2]; subst; try congruence; auto.
      eapply t_trans; eauto.
  - intros x y H. apply HP in H. destruct H as [H|[-> ->]]; auto.
Qed.

Local Transparent product.

Lemma derive_ok h t p :
  closed h -> t <> p -> is_ident p = true -> (is_ident t || is_class t) = true ->
  ~ clos_trans tag (R (hp h)) p t -> exists h', derive h t p = Some h'.
Proof.
  intros Hc Htp Hp Ht Hn. unfold derive.
  apply tag_eqb_neq in Htp. rewrite Htp, Hp, Ht. simpl.
  destruct (tmem t (image (ha h) p)) eqn:E.
  - apply tmem_In, In_image in E. apply (cl_anc _ Hc) in E. contradiction.
  - eauto.
Qed.

(** when derive fails *)
Lemma derive_none h t p :
  closed h -> derive h t p = None ->
  t = p \/ is_ident p = false \/ (is_ident t || is_class t) = false \/ clos_trans tag (R (hp h)) p t.
Proof.
  intros Hc. unfold derive.
  destruct (tag_eqb t p) eqn:Etp; [apply tag_eqb_eq in Etp; auto|].
  destruct (is_ident p); simpl; auto.
  destruct (is_ident t || is_class t); simpl; auto.
  destruct (tmem t (image (ha h) p)) eqn:E; [|discriminate].
  intros _. right. right. right. apply (cl_anc _ Hc). now apply In_image, tmem_In.
Qed.

(** * rebuilding (underive) *)
Definition acyclic (P : tag -> tag -> Prop) : Prop := forall x, ~ clos_trans tag P x x.
Definition wf_pairs (l : rel) : Prop :=
  forall x y, In (x, y) l -> is_ident y = true /\ (is_ident x || is_class x) = true.

Lemma rebuild_none l : rebuild l make_hierarchy = rebuild l make_hierarchy -> True.
Proof. auto. Qed.

Lemma fold_none (l : rel) :
  fold_left (fun acc q => match acc with
                          | Some h => derive h (fst q) (snd q)
                          | None => None
                          end) l None = None.
Proof. induction l; simpl; auto. Qed.

Lemma rebuild_closed l : forall h0,
  closed h0 -> wf_pairs l ->
  acyclic (fun x y => In (x, y) (hp h0) \/ In (x, y) l) ->
  exists h', rebuild l h0 = Some h' /\ closed h' /\
             (forall x y, In (x, y) (hp h') <-> In (x, y) (hp h0) \/ In (x, y) l).
Proof.
  induction l as [|[t p] l IH]; intros h0 Hc Hwf Hac.
  - exists h0. simpl. split; auto. split; auto. intros; tauto.
  - unfold rebuild. simpl.
    destruct (Hwf t p) as [Wp Wt]; [left; auto|].
    assert (E : clos_trans tag (fun x y => In (x, y) (hp h0) \/ In (x, y) ((t, p) :: l)) t p).
    { apply t_step. right. left. auto. }
    destruct (derive_ok h0 t p) as [h1 D]; auto.
    + intros ->. eapply Hac; eauto.
    + intros H. apply (Hac t). eapply t_trans; [exact E|].
      eapply clos_trans_mono; [|exact H]. unfold R. auto.
    + rewrite D. destruct (derive_closed _ _ _ _ Hc D) as [Hc1 Hp1].
      destruct (IH h1) as [h' [Rb [Hc' Hp']]]; auto.
      * intros x y H. apply Hwf. right. auto.
      * intros x H. apply (Hac x). eapply clos_trans_mono; [|exact H].
        simpl. intros a b [Hab|Hab]; auto. apply Hp1 in Hab. destruct Hab as [Hab|[-> ->]]; auto.
      * exists h'. split; [exact Rb|]. split; auto.
        intros x y. rewrite Hp', Hp1. simpl. split.
        -- intros [[H|[-> ->]]|H]; auto.
        -- intros [H|[H|H]]; auto. inversion H. auto.
Qed.

Lemma underive_closed h t p :
  closed h ->
  exists h', underive h t p = Some h' /\ closed h' /\
             (forall x y, In (x, y) (hp h') <-> In (x, y) (hp h) /\ (x, y) <> (t, p)).
Proof.
  intros Hc. unfold underive.
  set (l := filter (fun q => negb (pair_eqb (t, p) q)) (hp h)).
  assert (Hl : forall x y, In (x, y) l <-> In (x, y) (hp h) /\ (x, y) <> (t, p)).
  { intros x y. unfold l. rewrite filter_In, negb_true_iff. split; intros [H1 H2]; split; auto.
    - intros E. rewrite E in H2. assert (pair_eqb (t, p) (t, p) = true) by now apply pair_eqb_eq. congruence.
    - destruct (pair_eqb (t, p) (x, y)) eqn:E; auto. apply pair_eqb_eq in E. congruence. }
  destruct (rebuild_closed l make_hierarchy) as [h' [Rb [Hc' Hp']]].
  - apply closed_make.
  - intros x y H. apply Hl in H. apply (cl_wf _ Hc). tauto.
  - intros x H. apply (cl_acyc _ Hc x). apply (cl_anc _ Hc).
    eapply clos_trans_mono; [|exact H]. simpl. intros a b [[]|Hab]. apply Hl in Hab. unfold R. tauto.
  - exists h'. split; auto. split; auto. intros x y. rewrite Hp'. simpl. rewrite Hl. tauto.
Qed.

(** * histories of derive / underive *)
Inductive hop := HDerive (t p : tag) | HUnderive (t p : tag).

(** a failing operation throws and leaves the hierarchy reference unchanged *)
Definition hstep (h : hier) (o : hop) : hier :=
  match o with
  | HDerive t p => match derive h t p with Some h' => h' | None => h end
  | HUnderive t p => match underive h t p with Some h' => h' | None => h end
  end.

Lemma hstep_closed h o : closed h -> closed (hstep h o).
Proof.
  intros Hc. destruct o as [t p|t p]; simpl.
  - destruct (derive h t p) eqn:D; auto. now destruct (derive_closed _ _ _ _ Hc D).
  - destruct (underive_closed h t p Hc) as [h' [U [Hc' _]]]. now rewrite U.
Qed.

Theorem hierarchy_closed : forall ops, closed (fold_left hstep ops make_hierarchy).
Proof.
  intros ops. assert (G : forall h, closed h -> closed (fold_left hstep ops h)).
  { induction ops; simpl; auto. intros h Hc. apply IHops. now apply hstep_closed. }
  apply G, closed_make.
Qed.

Theorem hierarchy_closed_explicit : forall ops,
  let h := fold_left hstep ops make_hierarchy in
  (forall x y, In (x, y) (ha h) <-> clos_trans tag (fun a b => In (a, b) (hp h)) x y) /\
  (forall x y, In (x, y) (hd h) <-> In (y, x) (ha h)) /\
  (forall x, ~ In (x, x) (ha h)).
Proof.
  intros ops h. destruct (hierarchy_closed ops) as [A B C' _]. fold h in A, B, C'. auto.
Qed.

(** relations as sets *)
Lemma rel_incl_spec r1 r2 : rel_incl r1 r2 = true <-> forall x y, In (x, y) r1 -> In (x, y) r2.
Proof.
  unfold rel_incl. rewrite forallb_forall. split.
  - intros H x y Hi. apply rmem_In. apply (H (x, y) Hi).
  - intros H [x y] Hi. apply rmem_In. simpl. auto.
Qed.

Lemma rel_eqb_spec r1 r2 : rel_eqb r1 r2 = true <-> forall x y, In (x, y) r1 <-> In (x, y) r2.
Proof.
  unfold rel_eqb. rewrite andb_true_iff, !rel_incl_spec. split.
  - intros [A B] x y. split; auto.
  - intros H. split; intros x y; apply H.
Qed.
