(** C18: concrete witnesses (computed by vm_compute) over the class environment of the
    correspondence harness: refutations of the clauses the code violates today (F-18d), the
    historical refutations of the three repaired findings (on the pre-repair functions kept
    in Hierarchy.v / MultiFn.v), and non-vacuity examples for the guarded theorems. *)
From Coq Require Import List Bool NArith Permutation.
Import ListNotations.
From Verif Require Import C18.Base C18.Hierarchy C18.HierarchyProofs C18.MultiFn C18.Spec C18.Model
     C18.Corr C18.Proofs.
Local Open Scope N_scope.

Lemma c_sub_spec : forall a b, c_sub a b = true <-> a = b \/ In b (c_supers a).
Proof.
  intros a b. unfold c_sub. rewrite orb_true_iff, N.eqb_eq, existsb_exists. split.
  - intros [H|[x [H E]]]; auto. apply N.eqb_eq in E. subst. auto.
  - intros [H|H]; auto. right. exists b. split; auto. apply N.eqb_refl.
Qed.

Lemma c_supers_trans : forall a s s', In s (c_supers a) -> In s' (c_supers s) -> In s' (c_supers a).
Proof.
  intros a s s' H1 H2.
  destruct a as [|[[q|q|]|[q|q|]|]]; simpl in H1; try contradiction;
    repeat (destruct H1 as [H1|H1]; [subst s; simpl in H2|]); try contradiction;
    simpl; intuition.
Qed.

Definition kx := K 1.
Definition ka := K 2.
Definition kb := K 3.
Definition kc := K 4.
Definition kd := K 5.

Definition mk_hier (l : list hop) : hier := fold_left hstep l make_hierarchy.
Definition mk_mfn (h : hier) ms pf : mfn tag hier :=
  {| methods := ms; prefs := pf; cache := ms; cached_h := h; dflt := K 0 |}.

Notation c_isa := (isa c_supers c_sub).
Notation c_find := (find tag hier tag_eqb c_isa).
Notation c_find_legacy := (find_legacy tag hier tag_eqb c_isa).

(** ** F-18d (open): an exact key wins although a declared preference dominates it *)
Definition ops_f18d : list op :=
  [ODerive kx ka; OAdd ka 1; OAdd kx 2; OPrefer ka kx; OCall kx].

Lemma choice_refuted :
  exists ops d, fst (run c_supers c_sub id_shuffle (init d) ops) <> fst (s_run c_supers (s_init d) ops).
Proof. exists ops_f18d, (K 0). vm_compute. discriminate. Qed.

Lemma choice_refuted_detail :
  fst (run c_supers c_sub id_shuffle (init (K 0)) ops_f18d) = [SOk; SOk; SOk; SOk; SRes (RMethod 2)]
  /\ fst (s_run c_supers (s_init (K 0)) ops_f18d) = [SOk; SOk; SOk; SOk; SRes RAmbiguous]
  /\ s_guard_run c_supers (s_init (K 0)) ops_f18d = false.
Proof. vm_compute. auto. Qed.

(** the guard of [choice_partial] holds on histories with inheritance, preferences, ambiguity
    and classes *)
Definition ops_guarded : list op :=
  [ODerive kx ka; ODerive kx kb; OAdd ka 1; OAdd kb 2; OCall kx; OPrefer ka kb; OCall kx;
   ODerive (C 1) kc; OAdd kc 3; OCall (C 2); OUnderive kx ka; OCall kx; OCall kd].

Lemma choice_guard_nontrivial :
  s_guard_run c_supers (s_init (K 0)) ops_guarded = true
  /\ fst (s_run c_supers (s_init (K 0)) ops_guarded)
     = [SOk; SOk; SOk; SOk; SRes RAmbiguous; SOk; SRes (RMethod 1); SOk; SOk; SRes (RMethod 3);
        SOk; SRes (RMethod 2); SRes RNoMethod].
Proof. vm_compute. auto. Qed.

(** ** F-18b (repaired): the single pass of the pinned tree follows the table's order *)
Definition h_f18b := mk_hier [HDerive kx ka; HDerive kx kb; HDerive kx kc].
Definition pf_f18b := [(ka, kb); (kb, kc)].

Lemma legacy_single_pass_order_dependent :
  Permutation [(kc, 3); (kb, 2); (ka, 1)] [(ka, 1); (kb, 2); (kc, 3)]
  /\ c_find_legacy h_f18b (mk_mfn h_f18b [(kc, 3); (kb, 2); (ka, 1)] pf_f18b) kx = RMethod 1
  /\ c_find_legacy h_f18b (mk_mfn h_f18b [(ka, 1); (kb, 2); (kc, 3)] pf_f18b) kx = RAmbiguous
  /\ c_find h_f18b (mk_mfn h_f18b [(kc, 3); (kb, 2); (ka, 1)] pf_f18b) kx = RAmbiguous
  /\ c_find h_f18b (mk_mfn h_f18b [(ka, 1); (kb, 2); (kc, 3)] pf_f18b) kx = RAmbiguous.
Proof.
  split.
  - apply Permutation_sym. eapply perm_trans; [apply perm_swap|]. eapply perm_trans; [apply perm_skip, perm_swap|].
    eapply perm_trans; [apply perm_swap|]. apply Permutation_refl.
  - vm_compute. auto.
Qed.

(** a diamond without any preference: x < d < b, c with methods on b, c, d *)
Definition h_diamond := mk_hier [HDerive kx kd; HDerive kd kb; HDerive kd kc].

Lemma legacy_single_pass_diamond :
  c_find_legacy h_diamond (mk_mfn h_diamond [(kd, 3); (kb, 1); (kc, 2)] []) kx = RMethod 3
  /\ c_find_legacy h_diamond (mk_mfn h_diamond [(kb, 1); (kc, 2); (kd, 3)] []) kx = RAmbiguous
  /\ c_find h_diamond (mk_mfn h_diamond [(kb, 1); (kc, 2); (kd, 3)] []) kx = RMethod 3.
Proof. vm_compute. auto. Qed.

(** ** F-18a (repaired): isa? on vectors of different length *)
Lemma legacy_isa_vector_truncates :
  isa_legacy c_supers c_sub make_hierarchy (V [ka]) (V [ka; kb]) = true
  /\ isa_legacy c_supers c_sub make_hierarchy (V []) (V [ka]) = true
  /\ c_isa make_hierarchy (V [ka]) (V [ka; kb]) = false
  /\ c_isa make_hierarchy (V []) (V [ka]) = false.
Proof. vm_compute. auto. Qed.

(** ** F-18c (repaired): B subclasses A, A derives :a, but B was not isa? :a *)
Definition h_f18c := mk_hier [HDerive (C 1) ka].

Lemma legacy_class_isa_not_transitive :
  isa_legacy c_supers c_sub h_f18c (C 2) (C 1) = true
  /\ isa_legacy c_supers c_sub h_f18c (C 1) ka = true
  /\ isa_legacy c_supers c_sub h_f18c (C 2) ka = false
  /\ c_isa h_f18c (C 2) ka = true.
Proof. vm_compute. auto. Qed.
