(** C18 correspondence interface.  A case is a history over one multimethod with a private
    hierarchy; the observable is, per step, whether it raised / what the call ran, a probe
    call of every dispatch value of the universe (after every step, or only at the end),
    and at the end the hierarchy as seen through isa?, parents, ancestors, descendants. *)
From Coq Require Import List Bool NArith ZArith Uint63.
Import ListNotations.
From Verif Require Export C18.Base C18.Hierarchy C18.MultiFn C18.Model C18.Spec.

(** the classes the worker defines: 0 object, 1 A(object), 2 B(A), 3 D(object) *)
Definition c_supers (c : N) : list N :=
  match c with 1 => [0] | 2 => [1; 0] | 3 => [0] | _ => [] end%N.
Definition c_bases (c : N) : list N :=
  match c with 1 => [0] | 2 => [1] | 3 => [0] | _ => [] end%N.
Definition c_sub (a b : N) : bool := N.eqb a b || existsb (N.eqb b) (c_supers a).

Inductive case :=
| Case (dflt : tag) (every : bool) (univ : list tag) (ops : list op)
       (queries : list (tag * tag))     (* isa? questions asked at the end *)
       (tags : list tag).               (* tags whose parents/ancestors/descendants are read at the end *)

(** the universe, tag list and isa? questions the generator uses (so that case literals stay small) *)
Definition std_univ : list tag := [K 1; K 2; K 3; K 4; K 5; C 1; C 2; C 3]%N.
Definition std_tags : list tag := std_univ ++ [C 0; K 0]%N.
Definition std_qs : list (tag * tag) :=
  flat_map (fun a => map (fun b => (a, b)) (std_univ ++ [C 0]%N)) std_univ
  ++ [(V [K 1], V [K 1; K 2]); (V [K 1; K 2], V [K 1]); (V [], V [K 1]);
      (V [K 1; C 2], V [K 2; K 3]); (V [V [K 1]], V [V [K 2]]); (V [K 1], K 1);
      (K 1, V [K 1]); (V [C 2; K 1], V [C 1; K 1])]%N.

Record hdump := {
  d_isa : list bool;
  d_par : list (list tag);
  d_anc : list (list tag);
  d_desc : list (option (list tag))     (* None: TypeError (descendants of a class) *)
}.

Inductive out :=
| OOut (steps : list sres) (dump : hdump)   (* per step: its result, then (if probing) the probe calls *)
| OErr (n : N).                             (* the harness could not run the case *)

(** the history actually executed: a call of every dispatch value of the universe after
    every step (when [every]) and always at the end *)
Definition expand (every : bool) (univ : list tag) (ops : list op) : list op :=
  flat_map (fun o => o :: (if every then map OCall univ else [])) ops ++ map OCall univ.

(** ** compact transport of an implementation output (parsing long list literals dominates the
       cost of a correspondence run): step results as base-32 digits of one number, isa?
       answers as bits, sets of tags as bit masks over [std_all] (bit 10: some other tag) *)
Definition std_all : list tag := [K 0; K 1; K 2; K 3; K 4; K 5; C 0; C 1; C 2; C 3]%N.

Fixpoint digits (base : N) (n : nat) (v : N) : list N :=
  match n with
  | O => []
  | S n' => N.modulo v base :: digits base n' (N.div v base)
  end.

Definition dec_sres (x : N) : sres :=
  match x with
  | 0 => SOk | 1 => SErr | 2 => SBad
  | 3 => SRes RNoMethod | 4 => SRes RAmbiguous | 5 => SRes ROther
  | _ => SRes (RMethod (x - 6))
  end%N.

Fixpoint mask_from (i : N) (l : list tag) (m : N) : list tag :=
  match l with
  | [] => if N.testbit m i then [K 999%N] else []
  | t :: r => if N.testbit m i then t :: mask_from (N.succ i) r m else mask_from (N.succ i) r m
  end.
Definition dec_set (m : N) : list tag := mask_from 0 std_all m.

Fixpoint dec_desc (i : N) (none : N) (l : list N) : list (option (list tag)) :=
  match l with
  | [] => []
  | m :: r => (if N.testbit none i then None else Some (dec_set m)) :: dec_desc (N.succ i) none r
  end.

(** numbers are sent as primitive 63-bit integers (their literals are the only ones coqc parses
    quickly), in chunks: 12 base-32 digits, 60 bits, or 5 masks of 11 bits per integer *)
Definition int_to_N (x : int) : N := Z.to_N (Uint63.to_Z x).
Definition unchunk (base : N) (per : nat) (n : nat) (chunks : list int) : list N :=
  firstn n (flat_map (fun c => digits base per (int_to_N c)) chunks).

Definition unpack (n' : int) (steps : list int) (nq' : int) (isa : list int)
           (nt' : int) (sets : list int) (none : int) : out :=
  let n := N.to_nat (int_to_N n') in
  let nq := N.to_nat (int_to_N nq') in
  let nt := N.to_nat (int_to_N nt') in
  let ms := unchunk 2048 5 (3 * nt) sets in
  OOut (map dec_sres (unchunk 32 12 n steps))
       {| d_isa := map (N.eqb 1) (unchunk 2 60 nq isa);
          d_par := map dec_set (firstn nt ms);
          d_anc := map dec_set (firstn nt (skipn nt ms));
          d_desc := dec_desc 0 (int_to_N none) (skipn (2 * nt) ms) |}.

(** short names for the literals of generated cases *)
Definition k0 := K 0. Definition k1 := K 1. Definition k2 := K 2. Definition k3 := K 3.
Definition k4 := K 4. Definition k5 := K 5.
Definition c0 := C 0. Definition c1 := C 1. Definition c2 := C 2. Definition c3 := C 3.
Definition m0 := 0%N. Definition m1 := 1%N. Definition m2 := 2%N. Definition m3 := 3%N.
Definition m4 := 4%N. Definition m5 := 5%N. Definition m6 := 6%N. Definition m7 := 7%N.
Definition m8 := 8%N. Definition m9 := 9%N.

Definition set_incl (a b : list tag) : bool := forallb (fun x => tmem x b) a.
Definition set_eqb (a b : list tag) : bool := set_incl a b && set_incl b a.
Definition oset_eqb (a b : option (list tag)) : bool :=
  match a, b with
  | Some x, Some y => set_eqb x y
  | None, None => true
  | _, _ => false
  end.

Fixpoint list_eqb {A} (f : A -> A -> bool) (a b : list A) : bool :=
  match a, b with
  | [], [] => true
  | x :: a', y :: b' => f x y && list_eqb f a' b'
  | _, _ => false
  end.

Definition dump_eqb (a b : hdump) : bool :=
  list_eqb Bool.eqb (d_isa a) (d_isa b) && list_eqb set_eqb (d_par a) (d_par b)
  && list_eqb set_eqb (d_anc a) (d_anc b) && list_eqb oset_eqb (d_desc a) (d_desc b).

Definition out_eqb (a b : out) : bool :=
  match a, b with
  | OOut s1 d1, OOut s2 d2 => list_eqb sres_eqb s1 s2 && dump_eqb d1 d2
  | OErr x, OErr y => N.eqb x y
  | _, _ => false
  end.

(** ** the model of the code on a case (the table's iteration order does not matter:
       Proofs.order_independent, so the identity re-arrangement is used) *)
Definition id_shuffle (l : list (tag * N)) := l.

Definition model (c : case) : out :=
  match c with
  | Case d every univ ops qs tags =>
      let (steps, w) := run c_supers c_sub id_shuffle (init d) (expand every univ ops) in
      let h := w_hier w in
      OOut steps
           {| d_isa := map (fun q => isa c_supers c_sub h (fst q) (snd q)) qs;
              d_par := map (parents c_bases h) tags;
              d_anc := map (ancestors c_supers h) tags;
              d_desc := map (descendants h) tags |}
  end.

(** ** what the property prescribes *)
Definition op_tags (o : op) : list tag :=
  match o with
  | OAdd k _ | ORemove k | OCall k => [k]
  | ORemoveAll => []
  | OPrefer x y | ODerive x y | OUnderive x y => [x; y]
  end.

Definition spec_ok (c : case) (o : out) : bool :=
  match c, o with
  | Case d every univ ops qs tags, OOut steps dump =>
      let (ref, s) := s_run c_supers (s_init d) (expand every univ ops) in
      let P := sP s in
      let all := tags ++ univ ++ flat_map op_tags ops ++ [C 0; C 1; C 2; C 3]%N in
      list_eqb sres_eqb steps ref
      && list_eqb Bool.eqb (d_isa dump) (map (fun q => isa_ref_b c_supers P (fst q) (snd q)) qs)
      && list_eqb set_eqb (d_par dump) (map (parents_ref c_bases P) tags)
      && list_eqb set_eqb (d_anc dump) (map (ancestors_ref c_supers P all) tags)
      && list_eqb oset_eqb (d_desc dump)
                  (map (fun x => if is_class x then None else Some (descendants_ref P all x)) tags)
  | _, _ => false
  end.
