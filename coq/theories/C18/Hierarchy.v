(** C18 model, part 1: hierarchies of basilisp.core (core.lpy "Hierarchies" section):
    make-hierarchy, parents, ancestors, descendants, isa?, derive, underive, function by
    function as the code computes them (AFTER the two repairs fixes/C18-hierarchy-isa.patch:
    isa? compares the lengths of two vectors; ancestors of a class also contains what its
    superclasses were derived from).

    Tags: keywords/symbols [K id], Python classes [C id], vectors [V l].  The three maps of
    a hierarchy value {:parents :ancestors :descendants} (tag -> set of tags) are modelled as
    relations (lists of pairs); a map entry is never an empty set in the code (derive only
    conj-es, underive rebuilds), so a map and its set of pairs determine each other.

    Python's class relation is outside the repo's logic: [supers c] (the MRO of c without c),
    [bases c] (c.__bases__) and [sub a b] (issubclass) are Section variables. *)
From Coq Require Import List Bool NArith.
Import ListNotations.

From Verif Require Export C18.Base.

Record hier := { hp : rel; ha : rel; hd : rel }.

Definition make_hierarchy : hier := {| hp := []; ha := []; hd := [] |}.

(** (derive h tag parent); [None] = ExceptionInfo (same tag, bad tag/parent kind, cycle). *)
Definition derive (h : hier) (t p : tag) : option hier :=
  if tag_eqb t p then None
  else if negb (is_ident p) then None
  else if negb (is_ident t || is_class t) then None
  else
    let pa := image (ha h) p in          (* parent-ancestors *)
    let cd := image (hd h) t in          (* cur-descendants *)
    if tmem t pa then None               (* cyclic derivation *)
    else Some {| hp := radd t p (hp h);
                 ha := runion (ha h) (product (t :: cd) (p :: pa));
                 hd := runion (hd h) (product (p :: pa) (t :: cd)) |}.

(** (underive h tag parent): drop the pair from :parents and re-derive everything that is
    left into a fresh hierarchy (the iteration order of the map is immaterial: see
    HierarchyProofs.rebuild_closed). *)
Definition rebuild (l : rel) (h0 : hier) : option hier :=
  fold_left (fun acc q => match acc with
                          | Some h => derive h (fst q) (snd q)
                          | None => None
                          end) l (Some h0).

Definition underive (h : hier) (t p : tag) : option hier :=
  rebuild (filter (fun q => negb (pair_eqb (t, p) q)) (hp h)) make_hierarchy.

Section ClassEnv.
  Variable supers : N -> list N.
  Variable bases : N -> list N.
  Variable sub : N -> N -> bool.

  Definition parents (h : hier) (x : tag) : list tag :=
    image (hp h) x ++ match x with C c => map C (bases c) | _ => [] end.

  Definition ancestors (h : hier) (x : tag) : list tag :=
    image (ha h) x
    ++ match x with
       | C c => flat_map (fun s => C s :: image (ha h) (C s)) (supers c)
       | _ => []
       end.

  (** [None] = TypeError "Cannot get descendants of classes" *)
  Definition descendants (h : hier) (x : tag) : option (list tag) :=
    match x with C _ => None | _ => Some (image (hd h) x) end.

  Fixpoint isa (h : hier) (x y : tag) {struct x} : bool :=
    tag_eqb x y
    || match x, y with
       | V xs, V ys =>
           Nat.eqb (length xs) (length ys)
           && (fix go (xs ys : list tag) {struct xs} : bool :=
                 match xs, ys with
                 | a :: xs', b :: ys' => isa h a b && go xs' ys'
                 | _, _ => true
                 end) xs ys
       | _, _ => false
       end
    || tmem y (ancestors h x)
    || match x, y with C a, C b => sub a b | _, _ => false end.

  (** the code before fixes/C18-hierarchy-isa.patch (finding F-18a, F-18c), kept for the
      record: no length comparison, and a class only inherits its superclasses *)
  Definition ancestors_legacy (h : hier) (x : tag) : list tag :=
    image (ha h) x ++ match x with C c => map C (supers c) | _ => [] end.

  Fixpoint isa_legacy (h : hier) (x y : tag) {struct x} : bool :=
    tag_eqb x y
    || match x, y with
       | V xs, V ys =>
           (fix go (xs ys : list tag) {struct xs} : bool :=
              match xs, ys with
              | a :: xs', b :: ys' => isa_legacy h a b && go xs' ys'
              | _, _ => true
              end) xs ys
       | _, _ => false
       end
    || tmem y (ancestors_legacy h x)
    || match x, y with C a, C b => sub a b | _, _ => false end.
End ClassEnv.

(** value equality of two hierarchy maps (used by MultiFunction.get_method to notice that
    the hierarchy changed) *)
Definition rel_incl (r1 r2 : rel) : bool := forallb (fun q => rmem (fst q) (snd q) r2) r1.
Definition rel_eqb (r1 r2 : rel) : bool := rel_incl r1 r2 && rel_incl r2 r1.
Definition hier_eqb (h1 h2 : hier) : bool :=
  rel_eqb (hp h1) (hp h2) && rel_eqb (ha h1) (ha h2) && rel_eqb (hd h1) (hd h2).
