"""C04 translator items (fail closed): shape checks of the wrapper methods the quirk-bearing
lines of coq/theories/C04/Model.v are transcribed from.  Each item compares the normalised
(ast.unparse, docstrings / annotations / decorators removed) text of a few methods with the
text the model was written against and emits a small numeral; any other text is refused, which
breaks the named obligation C04_table_* and makes the check search harder.

* coll_vector_shape    1: PersistentVector.with_meta/cons/assoc/contains/val_at/nth/empty/peek/pop and
                          TransientVector.cons_transient/assoc_transient/contains_transient/val_at/nth/
                          pop_transient/to_persistent are the modelled text: indices go to pyrsistent
                          unguarded (quirk Q1 = finding F-04a), pop is the slice self[:-1] (drops meta)
* coll_nth_shape       1: runtime._nth_none/_nth_sequence/_nth_iindexed/_nth_iseq/_get_ilookup/
                          _contains_iassociative/_contains_itransientassociative/_assoc_iassociative/
                          _update_iassociative are the modelled dispatchers
* coll_with_meta_shape 1: core.lpy's with-meta is (fn* with-meta [o meta] (if meta (.with-meta o meta) o))
                          (quirk Q2 = finding F-04b)
* coll_list_pop_shape  1: PersistentList.pop returns PersistentList(self._inner.rest) (repair F-04c);
                          0: the old text `return cast(PersistentList, self.rest)` (an empty seq, not a list)
* coll_wrappers_pure   1: the five persistent wrapper classes declare __slots__ = ("_inner", "_meta") and
                          assign self._inner / self._meta nowhere but in __init__ (and nothing else on self)
"""
import ast
import re

from harness.tr.gen_tables import Refuse, _src, _find_fn
from harness.tr.tr_arity import _norm, _find_class

VECTOR = "src/basilisp/lang/vector.py"
RUNTIME = "src/basilisp/lang/runtime.py"


def _methods(rel, cls, names):
    c = _find_class(ast.parse(_src(rel)), cls)
    out = []
    for n in names:
        hit = [s for s in c.body if isinstance(s, ast.FunctionDef) and s.name == n]
        if len(hit) != 1:
            raise Refuse(f"{cls}.{n}: {len(hit)} definitions")
        hit[0].decorator_list = []
        out.append(_norm(hit[0]))
    return "\n".join(out)


PV_EXPECT = '''def with_meta(self, meta):
    return vector(self._inner, meta=meta)
def cons(self, *elems):
    e = self._inner.evolver()
    for elem in elems:
        e.append(elem)
    return PersistentVector(e.persistent(), meta=self.meta)
def assoc(self, *kvs):
    return PersistentVector(self._inner.mset(*kvs), meta=self._meta)
def contains(self, k):
    if not isinstance(k, int):
        return False
    return 0 <= k < len(self._inner)
def val_at(self, k, default=None):
    try:
        return self._inner[k]
    except (IndexError, TypeError):
        return default
def nth(self, k, notfound=IIndexed.NTH_SENTINEL):
    try:
        return self._inner[k]
    except IndexError:
        if notfound is not IIndexed.NTH_SENTINEL:
            return notfound
        raise
def empty(self):
    return EMPTY.with_meta(self._meta)
def peek(self):
    if len(self) == 0:
        return None
    return self[-1]
def pop(self):
    if len(self) == 0:
        raise IndexError('Cannot pop an empty vector')
    return self[:-1]
def to_transient(self):
    return TransientVector(self._inner.evolver())
def __getitem__(self, item):
    if isinstance(item, slice):
        return PersistentVector(self._inner[item])
    return self._inner[item]'''

TV_EXPECT = '''def cons_transient(self, *elems):
    for elem in elems:
        self._inner.append(elem)
    return self
def assoc_transient(self, *kvs):
    for t in cast('Sequence[tuple[int, T] | tuple[int]]', partition(kvs, 2)):
        if len(t) == 2:
            i, v = t
            self._inner.set(i, v)
        else:
            self._inner.set(t[0], None)
    return self
def contains_transient(self, k):
    return 0 <= k < len(self._inner)
def val_at(self, k, default=None):
    try:
        return self._inner[k]
    except IndexError:
        return default
def nth(self, k, notfound=IIndexed.NTH_SENTINEL):
    try:
        return self._inner[k]
    except IndexError:
        if notfound is not IIndexed.NTH_SENTINEL:
            return notfound
        raise
def pop_transient(self):
    if len(self) == 0:
        raise IndexError('Cannot pop an empty vector')
    del self._inner[-1]
    return self
def to_persistent(self):
    return PersistentVector(self._inner.persistent())'''


def item_vector_shape():
    pv = _methods(VECTOR, "PersistentVector",
                  ["with_meta", "cons", "assoc", "contains", "val_at", "nth", "empty", "peek", "pop",
                   "to_transient", "__getitem__"])
    if pv != PV_EXPECT:
        raise Refuse("PersistentVector methods no longer have the modelled shape:\n" + pv)
    tv = _methods(VECTOR, "TransientVector",
                  ["cons_transient", "assoc_transient", "contains_transient", "val_at", "nth", "pop_transient",
                   "to_persistent"])
    if tv != TV_EXPECT:
        raise Refuse("TransientVector methods no longer have the modelled shape:\n" + tv)
    return ("Definition coll_vector_shape : N := 1%N. (* 1 = val_at/nth/assoc/assoc! hand the index to "
            "pyrsistent unguarded; pop = self[:-1] *)\n")


RT_EXPECT = '''def _nth_none(_, i, notfound=IIndexed.NTH_SENTINEL):
    return notfound if notfound is not IIndexed.NTH_SENTINEL else None
def _nth_sequence(coll, i, notfound=IIndexed.NTH_SENTINEL):
    try:
        return coll[i]
    except IndexError:
        if notfound is not IIndexed.NTH_SENTINEL:
            return notfound
        raise
def _nth_iindexed(coll, i, notfound=IIndexed.NTH_SENTINEL):
    return coll.nth(i, notfound=notfound)
def _nth_iseq(coll, i, notfound=IIndexed.NTH_SENTINEL):
    for j, e in enumerate(coll):
        if i == j:
            return e
    if notfound is not IIndexed.NTH_SENTINEL:
        return notfound
    raise IndexError(f'Index {i} out of bounds')
def _get_ilookup(m, k, default=None):
    return m.val_at(k, default)
def _contains_iassociative(coll, k):
    return coll.contains(k)
def _contains_itransientassociative(coll, k):
    return coll.contains_transient(k)
def _assoc_iassociative(m, *kvs):
    return m.assoc(*kvs)
def _update_iassociative(m, k, f, *args):
    old_v = m.val_at(k)
    new_v = f(old_v, *args)
    return m.assoc(k, new_v)'''


def item_nth_shape():
    tree = ast.parse(_src(RUNTIME))
    out = []
    for n in ["_nth_none", "_nth_sequence", "_nth_iindexed", "_nth_iseq", "_get_ilookup",
              "_contains_iassociative", "_contains_itransientassociative", "_assoc_iassociative",
              "_update_iassociative"]:
        f = _find_fn(tree, n)
        f.decorator_list = []
        out.append(_norm(f))
    got = "\n".join(out)
    if got != RT_EXPECT:
        raise Refuse("runtime nth/get/contains/assoc/update dispatchers no longer have the modelled shape:\n" + got)
    return "Definition coll_nth_shape : N := 1%N. (* 1 = the dispatchers pass the index through *)\n"


def item_with_meta_shape():
    src = _src("src/basilisp/core.lpy")
    m = re.search(r"\(fn\* with-meta \[o meta\](.*?)\)\)\)\s*\n\s*\n", src, re.S)
    if not m:
        raise Refuse("with-meta not found in core.lpy")
    body = " ".join(m.group(1).split())
    if body != "(if meta (.with-meta o meta) o":
        raise Refuse("with-meta no longer has the modelled shape: " + body)
    return "Definition coll_with_meta_shape : N := 1%N. (* 1 = (if meta (.with-meta o meta) o) *)\n"


def item_list_pop_shape():
    got = _methods("src/basilisp/lang/list.py", "PersistentList", ["pop"])
    head = "def pop(self):\n    if self.is_empty:\n        raise IndexError('Cannot pop an empty list')\n"
    if got == head + "    return PersistentList(self._inner.rest)":
        v = 1
    elif got == head + "    return cast(PersistentList, self.rest)":
        v = 0
    else:
        raise Refuse("PersistentList.pop has neither modelled shape:\n" + got)
    return (f"Definition coll_list_pop_shape : N := {v}%N. (* 1 = pop returns a PersistentList "
            "(repair F-04c); 0 = the rest seq *)\n")


WRAPPERS = [("src/basilisp/lang/vector.py", "PersistentVector"), ("src/basilisp/lang/list.py", "PersistentList"),
            ("src/basilisp/lang/queue.py", "PersistentQueue"), ("src/basilisp/lang/map.py", "PersistentMap"),
            ("src/basilisp/lang/set.py", "PersistentSet")]


def item_wrappers_pure():
    for rel, cls in WRAPPERS:
        c = _find_class(ast.parse(_src(rel)), cls)
        slots = None
        for s in c.body:
            if isinstance(s, ast.Assign) and len(s.targets) == 1 and isinstance(s.targets[0], ast.Name) \
                    and s.targets[0].id == "__slots__":
                try:
                    slots = ast.literal_eval(s.value)
                except Exception:
                    raise Refuse(f"{cls}.__slots__ is not a literal")
        if slots != ("_inner", "_meta"):
            raise Refuse(f"{cls}.__slots__ = {slots!r}")
        for fn in c.body:
            if not isinstance(fn, ast.FunctionDef):
                continue
            for node in ast.walk(fn):
                targets = []
                if isinstance(node, ast.Assign):
                    targets = node.targets
                elif isinstance(node, (ast.AugAssign, ast.AnnAssign)):
                    targets = [node.target]
                elif isinstance(node, ast.Delete):
                    targets = node.targets
                for t in targets:
                    for sub in ast.walk(t):
                        if isinstance(sub, ast.Attribute) and isinstance(sub.value, ast.Name) \
                                and sub.value.id == "self":
                            if fn.name != "__init__":
                                raise Refuse(f"{cls}.{fn.name} assigns self.{sub.attr}")
                            if sub.attr not in ("_inner", "_meta"):
                                raise Refuse(f"{cls}.__init__ assigns self.{sub.attr}")
                if isinstance(node, ast.Call) and isinstance(node.func, ast.Name) \
                        and node.func.id in ("setattr", "delattr"):
                    raise Refuse(f"{cls}.{fn.name} calls {node.func.id}")
    return ("Definition coll_wrappers_pure : N := 1%N. (* 1 = __slots__ (_inner, _meta), assigned only in "
            "__init__ in the five persistent wrappers *)\n")


ITEMS = [
    ("coll_vector_shape", item_vector_shape),
    ("coll_nth_shape", item_nth_shape),
    ("coll_with_meta_shape", item_with_meta_shape),
    ("coll_list_pop_shape", item_list_pop_shape),
    ("coll_wrappers_pure", item_wrappers_pure),
]
