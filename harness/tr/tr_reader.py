"""Translator items for C16 (the reader): the data `basilisp/lang/reader.py` is driven by.

Everything is read from the source with `ast` (the harness process has not imported basilisp)
and emitted as Gallina tables; anything outside the tiny grammar of each item is refused
(fail closed).  The Unicode classes the reader's regexes / str methods rely on (`\\s`, `\\d`,
`str.isalnum`, `str.isnumeric`) are computed from the running CPython and cached per Unicode
database version."""
import ast
import json
import os
import platform
import re
import sys
import unicodedata

from harness.vlib import paths
from harness.tr.gen_tables import Refuse, gstr, _find_assign, _find_fn, _find_class_fn

READER = "src/basilisp/lang/reader.py"
RUNTIME = "src/basilisp/lang/runtime.py"


def _tree(rel=READER):
    return ast.parse(open(os.path.join(paths.REPO, rel), encoding="utf-8").read())


def _dict_node(name):
    node = _find_assign(_tree(), name)
    if not isinstance(node, ast.Dict):
        raise Refuse(f"{name} is not a dict literal")
    return node


def _char_key(k, name, allow_empty=False):
    if not (isinstance(k, ast.Constant) and isinstance(k.value, str)):
        raise Refuse(f"{name}: key {ast.dump(k)[:60]} is not a string literal")
    if len(k.value) != 1 and not (allow_empty and k.value == ""):
        raise Refuse(f"{name}: key {k.value!r} is not one character")
    return k.value


def _pairs(rows):
    return "[" + "; ".join(f"({a}, {b})" for a, b in rows) + "]%N"


def item_str_escapes():
    d = _dict_node("_STR_ESCAPE_CHARS")
    rows = []
    for k, v in zip(d.keys, d.values):
        c = _char_key(k, "_STR_ESCAPE_CHARS")
        if not (isinstance(v, ast.Constant) and isinstance(v.value, str) and len(v.value) == 1):
            raise Refuse("_STR_ESCAPE_CHARS: value is not a one-character string literal")
        rows.append((ord(c), ord(v.value)))
    return f"Definition rd_str_escapes : list (N * N) := {_pairs(rows)}.\n"


def item_bytes_escapes():
    d = _dict_node("_BYTES_ESCAPE_CHARS")
    rows = []
    for k, v in zip(d.keys, d.values):
        c = _char_key(k, "_BYTES_ESCAPE_CHARS")
        if not (isinstance(v, ast.Constant) and isinstance(v.value, bytes) and len(v.value) == 1):
            raise Refuse("_BYTES_ESCAPE_CHARS: value is not a one-byte bytes literal")
        rows.append((ord(c), v.value[0]))
    return f"Definition rd_bytes_escapes : list (N * N) := {_pairs(rows)}.\n"


def item_special_chars():
    d = _dict_node("_SPECIAL_CHARS")
    rows = []
    for k, v in zip(d.keys, d.values):
        if not (isinstance(k, ast.Constant) and isinstance(k.value, str) and k.value):
            raise Refuse("_SPECIAL_CHARS: key is not a non-empty string literal")
        if not (isinstance(v, ast.Constant) and isinstance(v.value, str) and len(v.value) == 1):
            raise Refuse("_SPECIAL_CHARS: value is not a one-character string literal")
        rows.append(f"({gstr(k.value)}, {ord(v.value)}%N)")
    return "Definition rd_special_chars : list (str * N) := [\n  " + ";\n  ".join(rows) + "\n].\n"


def item_numeric_constants():
    d = _dict_node("_NUMERIC_CONSTANTS")

    def kind(v):
        neg = False
        if isinstance(v, ast.UnaryOp) and isinstance(v.op, ast.USub):
            neg, v = True, v.operand
        if isinstance(v, ast.Attribute) and isinstance(v.value, ast.Name) and v.value.id == "math":
            if v.attr == "nan" and not neg:
                return 0
            if v.attr == "inf":
                return 2 if neg else 1
        raise Refuse(f"_NUMERIC_CONSTANTS: value {ast.unparse(v)} is not math.nan / math.inf / -math.inf")

    rows = []
    for k, v in zip(d.keys, d.values):
        if not (isinstance(k, ast.Constant) and isinstance(k.value, str) and k.value):
            raise Refuse("_NUMERIC_CONSTANTS: key is not a string literal")
        rows.append(f"({gstr(k.value)}, {kind(v)}%N)")
    return ("Definition rd_numeric_constants : list (str * N) := [\n  " + ";\n  ".join(rows)
            + "\n]. (* 0 NaN, 1 +Inf, 2 -Inf *)\n")


_DISPATCH_CODES = {
    "_read_list": 1, "_read_vector": 2, "_read_map": 3, "_read_str": 4, "_read_quoted": 5,
    "_read_character": 6, "_read_reader_macro": 7, "_read_meta": 8, "_read_comment": 9,
    "_read_syntax_quoted": 10, "_read_unquote": 11, "_read_deref": 12,
}
_MACRO_CODES = {
    "_read_set": 1, "_read_function": 2, "_read_namespaced_map": 3, "_read_var_macro": 4,
    "_read_regex": 5, "_read_comment_macro": 6, "_read_comment": 7,
    "_read_reader_conditional_macro": 8, "_read_numeric_constant": 9,
}


def _dispatch(name, codes, allow_eof):
    d = _dict_node(name)
    rows, eof = [], False
    for k, v in zip(d.keys, d.values):
        c = _char_key(k, name, allow_empty=allow_eof)
        if c == "":
            # "": lambda ctx: ctx.eof
            ok = (isinstance(v, ast.Lambda) and len(v.args.args) == 1
                  and isinstance(v.body, ast.Attribute) and v.body.attr == "eof"
                  and isinstance(v.body.value, ast.Name) and v.body.value.id == v.args.args[0].arg)
            if not ok:
                raise Refuse(f"{name}['']: not `lambda ctx: ctx.eof`")
            eof = True
            continue
        if isinstance(v, ast.Constant) and v.value is None:
            rows.append((ord(c), 0))
        elif isinstance(v, ast.Name) and v.id in codes:
            rows.append((ord(c), codes[v.id]))
        else:
            raise Refuse(f"{name}[{c!r}]: handler {ast.unparse(v)} outside the modelled set")
    if len({k for k, _ in rows}) != len(rows):
        raise Refuse(f"{name}: duplicate key")
    return rows, eof


def item_dispatch():
    rows, eof = _dispatch("_read_dispatch", _DISPATCH_CODES, True)
    if not eof:
        raise Refuse("_read_dispatch has no \"\" (end of input) entry")
    return (f"Definition rd_dispatch : list (N * N) := {_pairs(rows)}.\n"
            "(* the table also maps \"\" (end of input) to `lambda ctx: ctx.eof`; handler codes: 0 None; 1 list 2 vector 3 map 4 str 5 quoted 6 character 7 reader-macro 8 meta\n"
            "   9 comment 10 syntax-quoted 11 unquote 12 deref *)\n")


def item_macro_dispatch():
    rows, _ = _dispatch("_read_macro_dispatch", _MACRO_CODES, False)
    return (f"Definition rd_macro_dispatch : list (N * N) := {_pairs(rows)}.\n"
            "(* 1 set 2 function 3 namespaced-map 4 var 5 regex 6 comment-macro 7 comment 8 reader-cond 9 numeric-constant *)\n")


_REGEX_NAMES = ["begin_ns_name_chars", "identifier_literal", "begin_num_chars", "maybe_num_chars",
                "integer_literal", "float_literal", "complex_literal", "arbitrary_base_literal",
                "octal_literal", "hex_chars", "hex_literal", "ratio_literal",
                "scientific_notation_literal", "whitespace_chars", "newline_chars", "fn_macro_args",
                "unicode_char"]


def regex_sources():
    tree = _tree()
    out = []
    for name in _REGEX_NAMES:
        v = _find_assign(tree, name)
        ok = (isinstance(v, ast.Call) and isinstance(v.func, ast.Attribute) and v.func.attr == "compile"
              and isinstance(v.func.value, ast.Name) and v.func.value.id == "re"
              and len(v.args) == 1 and not v.keywords
              and isinstance(v.args[0], ast.Constant) and isinstance(v.args[0].value, str))
        if not ok:
            raise Refuse(f"{name} is not re.compile(<string literal>) without flags")
        out.append((name, v.args[0].value))
    return out


def item_regex_sources():
    rows = [f"({gstr(n)}, {gstr(s)})" for n, s in regex_sources()]
    return "Definition rd_regex_sources : list (str * str) := [\n  " + ";\n  ".join(rows) + "\n].\n"


def item_ns_term_exempt():
    """`char not in {"#", "'", "%"} and char in _read_dispatch` of _read_namespaced."""
    fn = _find_fn(_tree(), "_read_namespaced")
    found = []
    for n in ast.walk(fn):
        if (isinstance(n, ast.BoolOp) and isinstance(n.op, ast.And) and len(n.values) == 2
                and all(isinstance(v, ast.Compare) and len(v.ops) == 1 for v in n.values)):
            a, b = n.values
            if (isinstance(a.ops[0], ast.NotIn) and isinstance(a.comparators[0], ast.Set)
                    and isinstance(b.ops[0], ast.In) and isinstance(b.comparators[0], ast.Name)
                    and b.comparators[0].id == "_read_dispatch"):
                elts = a.comparators[0].elts
                if not all(isinstance(e, ast.Constant) and isinstance(e.value, str) and len(e.value) == 1
                           for e in elts):
                    raise Refuse("_read_namespaced: exemption set is not a set of characters")
                found.append(sorted(ord(e.value) for e in elts))
    if len(found) != 1:
        raise Refuse(f"_read_namespaced: expected one `c not in {{..}} and c in _read_dispatch`, found {len(found)}")
    return ("Definition rd_ns_term_exempt : list N := [" + "; ".join(str(c) for c in found[0])
            + "]%N. (* dispatch characters which do not end a symbol/keyword token *)\n")


def _stream_consts():
    tree = _tree()
    init = _find_class_fn(tree, "StreamReader", "__init__")
    depth = None
    args = init.args
    defaults = dict(zip([a.arg for a in args.args[-len(args.defaults):]], args.defaults)) if args.defaults else {}
    d = defaults.get("pushback_depth")
    if isinstance(d, ast.Constant) and isinstance(d.value, int):
        depth = d.value
    if depth is None:
        raise Refuse("StreamReader.__init__: pushback_depth default is not an int literal")
    idx = None
    for cls in tree.body:
        if isinstance(cls, ast.ClassDef) and cls.name == "StreamReader":
            for s in cls.body:
                if (isinstance(s, ast.Assign) and isinstance(s.targets[0], ast.Name)
                        and s.targets[0].id == "DEFAULT_INDEX"):
                    try:
                        idx = ast.literal_eval(s.value)
                    except Exception:
                        pass
    if not isinstance(idx, int) or idx >= 0:
        raise Refuse("StreamReader.DEFAULT_INDEX is not a negative int literal")
    # the unicode escape lengths: `len(unicode_hex) not in {4, 8}`
    fn = _find_fn(tree, "_read_unicode_escape_seq")
    lens = None
    for n in ast.walk(fn):
        if (isinstance(n, ast.Compare) and len(n.ops) == 1 and isinstance(n.ops[0], ast.NotIn)
                and isinstance(n.comparators[0], ast.Set)
                and isinstance(n.left, ast.Call) and isinstance(n.left.func, ast.Name) and n.left.func.id == "len"):
            try:
                lens = sorted(ast.literal_eval(n.comparators[0]))
            except Exception:
                raise Refuse("_read_unicode_escape_seq: length set is not literal")
    if not lens or not all(isinstance(x, int) for x in lens):
        raise Refuse("_read_unicode_escape_seq: `len(..) not in {..}` not found")
    return depth, -idx, lens


def item_pushback_depth():
    return f"Definition rd_pushback_depth : N := {_stream_consts()[0]}%N.\n"


def item_default_index():
    k = _stream_consts()[1]
    return f"Definition rd_default_index_neg : N := {k}%N. (* StreamReader.DEFAULT_INDEX = -{k} *)\n"


def item_unicode_lens():
    return ("Definition rd_unicode_lens : list N := ["
            + "; ".join(str(x) for x in _stream_consts()[2]) + "]%N.\n")


def _ranges(pred):
    out, start, prev = [], None, None
    for c in range(0x110000):
        if pred(chr(c)):
            if start is None:
                start = c
            prev = c
        elif start is not None:
            out.append((start, prev))
            start = None
    if start is not None:
        out.append((start, prev))
    return out


def uc_tables():
    key = f"uc_tables_{unicodedata.unidata_version}_{sys.version_info[0]}{sys.version_info[1]}.json"
    path = os.path.join(paths.CACHE, key)
    if os.path.exists(path):
        try:
            return json.load(open(path))
        except Exception:
            pass
    ws, dg = re.compile(r"\s"), re.compile(r"\d")
    t = {
        "space": _ranges(lambda ch: ws.match(ch) is not None),
        "digit": _ranges(lambda ch: dg.match(ch) is not None),
        "alnum": _ranges(str.isalnum),
        "numeric": _ranges(str.isnumeric),
    }
    tmp = path + f".{os.getpid()}.tmp"
    json.dump(t, open(tmp, "w"))
    os.replace(tmp, path)
    return t


def item_uc(name):
    def f():
        rows = "; ".join(f"({a}, {b})" for a, b in uc_tables()[name])
        return f"Definition rd_uc_{name} : list (N * N) := [{rows}]%N.\n"
    return f


def item_features():
    """READER_COND_DEFAULT_FEATURE_SET of runtime.py for the running interpreter/platform."""
    tree = _tree(RUNTIME)
    v = _find_assign(tree, "READER_COND_DEFAULT_FEATURE_SET")
    want = ("lset.s(READER_COND_BASILISP_FEATURE_KW, READER_COND_DEFAULT_FEATURE_KW, "
            "READER_COND_PLATFORM, *_supported_python_versions_features())")
    if ast.unparse(v) != want:
        raise Refuse("READER_COND_DEFAULT_FEATURE_SET no longer has the modelled shape")
    kws = {}
    for n in ("READER_COND_BASILISP_FEATURE_KW", "READER_COND_DEFAULT_FEATURE_KW"):
        k = _find_assign(tree, n)
        if not (isinstance(k, ast.Call) and ast.unparse(k.func) == "kw.keyword" and len(k.args) == 1
                and not k.keywords and isinstance(k.args[0], ast.Constant)):
            raise Refuse(f"{n} is not kw.keyword(<literal>)")
        kws[n] = k.args[0].value
    if ast.unparse(_find_assign(tree, "READER_COND_PLATFORM")) != "kw.keyword(platform.system().lower())":
        raise Refuse("READER_COND_PLATFORM changed")
    sup = _find_assign(tree, "SUPPORTED_PYTHON_VERSIONS")
    try:
        if not (isinstance(sup, ast.Call) and ast.unparse(sup.func) == "frozenset" and len(sup.args) == 1):
            raise ValueError("not frozenset({...})")
        versions = sorted(ast.literal_eval(sup.args[0]))
    except Exception as e:
        raise Refuse(f"SUPPORTED_PYTHON_VERSIONS not literal: {e}")
    fn = ast.unparse(_find_fn(tree, "_supported_python_versions_features"))
    if "if current <= version" not in fn or "if current >= version" not in fn:
        raise Refuse("_supported_python_versions_features changed")
    cur = (sys.version_info[0], sys.version_info[1])
    feats = [kws["READER_COND_BASILISP_FEATURE_KW"], kws["READER_COND_DEFAULT_FEATURE_KW"],
             platform.system().lower(), f"lpy{cur[0]}{cur[1]}"]
    for ver in versions:
        if cur <= tuple(ver):
            feats.append(f"lpy{ver[0]}{ver[1]}-")
        if cur >= tuple(ver):
            feats.append(f"lpy{ver[0]}{ver[1]}+")
    return "Definition rd_features : list str := [\n  " + ";\n  ".join(gstr(f) for f in feats) + "\n].\n"


ITEMS = [
    ("rd_str_escapes", item_str_escapes),
    ("rd_bytes_escapes", item_bytes_escapes),
    ("rd_special_chars", item_special_chars),
    ("rd_numeric_constants", item_numeric_constants),
    ("rd_dispatch", item_dispatch),
    ("rd_macro_dispatch", item_macro_dispatch),
    ("rd_regex_sources", item_regex_sources),
    ("rd_ns_term_exempt", item_ns_term_exempt),
    ("rd_pushback_depth", item_pushback_depth),
    ("rd_default_index_neg", item_default_index),
    ("rd_unicode_lens", item_unicode_lens),
    ("rd_uc_space", item_uc("space")),
    ("rd_uc_digit", item_uc("digit")),
    ("rd_uc_alnum", item_uc("alnum")),
    ("rd_uc_numeric", item_uc("numeric")),
    ("rd_features", item_features),
]
