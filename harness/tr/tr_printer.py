"""Translator items for C03 (the readable printer): the data `basilisp.lang.obj.lrepr` and the
`_lrepr` methods of the collection classes are driven by, read from the source with `ast`
(the harness process has not imported basilisp) and emitted as Gallina tables.  Fail closed:
anything outside the tiny grammar of an item is refused.

  pr_str_escapes     obj.py  _STR_ESCAPES = str.maketrans({<1 char>: <text>, ...})
  pr_delims          (start, end) of every collection printer: list/vector/set/queue/map `_lrepr`
                     and the `#py` printers of list/tuple/set/dict
  pr_fstrings        constant segments of the f-string returned by the scalar printers
  pr_special_floats  the three texts `_special_number_repr` returns when not human_readable
  pr_separators      SEQ_PRINT_SEPARATOR, MAP_PRINT_SEPARATOR
  pr_lrepr_types     every type with an `@lrepr.register(...)` overload (obj.py and map.py)
  pr_print_defaults  PRINT_DUP .. PRINT_READABLY (0 = False/None, 1 = True)
  pr_trunc_guards    for the four tests by which `seq_lrepr` / `map_lrepr` abbreviate their output
                     (print_level -> "#", print_length -> "..."): does the test start with the conjunct
                     `not print_dup`?  (true / false; any other shape of the test, or any other function
                     of src/basilisp using SURPASSED_PRINT_LEVEL / SURPASSED_PRINT_LENGTH, is refused)
"""
import ast
import os

from harness.vlib import paths
from harness.tr.gen_tables import Refuse, gstr, _find_assign, _find_fn, _find_class_fn

OBJ = "src/basilisp/lang/obj.py"
MAP = "src/basilisp/lang/map.py"


def _tree(rel):
    return ast.parse(open(os.path.join(paths.REPO, rel), encoding="utf-8").read())


def _const_str(node, what):
    if isinstance(node, ast.Constant) and isinstance(node.value, str):
        return node.value
    raise Refuse(f"{what}: {ast.dump(node)[:80]} is not a string literal")


def item_str_escapes():
    node = _find_assign(_tree(OBJ), "_STR_ESCAPES")
    if not (isinstance(node, ast.Call) and isinstance(node.func, ast.Attribute) and node.func.attr == "maketrans"
            and isinstance(node.func.value, ast.Name) and node.func.value.id == "str"
            and len(node.args) == 1 and not node.keywords and isinstance(node.args[0], ast.Dict)):
        raise Refuse("_STR_ESCAPES is not str.maketrans({...})")
    rows = []
    for k, v in zip(node.args[0].keys, node.args[0].values):
        ks, vs = _const_str(k, "_STR_ESCAPES key"), _const_str(v, "_STR_ESCAPES value")
        if len(ks) != 1:
            raise Refuse(f"_STR_ESCAPES: key {ks!r} is not one character")
        rows.append(f"({ord(ks)}%N, {gstr(vs)})")
    # the printer must call translate with this table and nothing else
    fn = _find_fn(_tree(OBJ), "_lrepr_str")
    ret = fn.body[-1]
    ok = (isinstance(ret, ast.Return) and isinstance(ret.value, ast.JoinedStr)
          and [type(x).__name__ for x in ret.value.values] == ["Constant", "FormattedValue", "Constant"]
          and ret.value.values[0].value == '"' and ret.value.values[2].value == '"')
    if ok:
        call = ret.value.values[1].value
        ok = (isinstance(call, ast.Call) and isinstance(call.func, ast.Attribute) and call.func.attr == "translate"
              and isinstance(call.func.value, ast.Name) and call.func.value.id == fn.args.args[0].arg
              and len(call.args) == 1 and isinstance(call.args[0], ast.Name) and call.args[0].id == "_STR_ESCAPES")
    if not ok:
        raise Refuse("_lrepr_str does not end with return f'\"{o.translate(_STR_ESCAPES)}\"'")
    return "Definition pr_str_escapes : list (N * str) := [" + "; ".join(rows) + "].\n"


def _seq_call(call, what):
    """<f>(x, START, END, ...) or <f>(x, start=START, end=END, ...) -> (START, END)"""
    if not isinstance(call, ast.Call):
        raise Refuse(f"{what}: not a call")
    name = call.func.id if isinstance(call.func, ast.Name) else None
    if name not in ("seq_lrepr", "_seq_lrepr", "map_lrepr"):
        raise Refuse(f"{what}: calls {ast.dump(call.func)[:60]}")
    kw = {k.arg: k.value for k in call.keywords if k.arg}
    if len(call.args) >= 3:
        return _const_str(call.args[1], what), _const_str(call.args[2], what)
    if "start" in kw and "end" in kw and len(call.args) == 1:
        return _const_str(kw["start"], what), _const_str(kw["end"], what)
    raise Refuse(f"{what}: start/end not found")


def _single_return(fn, what):
    body = [s for s in fn.body if not (isinstance(s, ast.Expr) and isinstance(s.value, ast.Constant))]
    if len(body) != 1 or not isinstance(body[0], ast.Return):
        raise Refuse(f"{what}: body is not a single return")
    return body[0].value


def item_delims():
    rows = []
    for rel, cls in (("src/basilisp/lang/list.py", "PersistentList"), ("src/basilisp/lang/vector.py", "PersistentVector"),
                     ("src/basilisp/lang/set.py", "PersistentSet"), ("src/basilisp/lang/queue.py", "PersistentQueue"),
                     (MAP, "PersistentMap")):
        fn = _find_class_fn(_tree(rel), cls, "_lrepr")
        s, e = _seq_call(_single_return(fn, cls), cls)
        rows.append((cls, s, e))
    for rel, name in ((OBJ, "_lrepr_py_list"), (OBJ, "_lrepr_py_tuple"), (OBJ, "_lrepr_py_set"), (MAP, "_lrepr_py_dict")):
        fn = _find_fn(_tree(rel), name)
        v = _single_return(fn, name)
        if not (isinstance(v, ast.JoinedStr) and len(v.values) == 2 and isinstance(v.values[0], ast.Constant)
                and isinstance(v.values[1], ast.FormattedValue)):
            raise Refuse(f"{name}: not f'<prefix>{{call}}'")
        s, e = _seq_call(v.values[1].value, name)
        rows.append((name, v.values[0].value + s, e))
    return ("Definition pr_delims : list (str * (str * str)) := [\n  "
            + ";\n  ".join(f"({gstr(n)}, ({gstr(s)}, {gstr(e)})) (* {n} *)" for n, s, e in rows) + "\n].\n")


def _segments(v, what):
    if not isinstance(v, ast.JoinedStr):
        raise Refuse(f"{what}: last return is not an f-string")
    segs, cur = [], ""
    for part in v.values:
        if isinstance(part, ast.Constant):
            cur += part.value
        elif isinstance(part, ast.FormattedValue):
            segs.append(cur)
            cur = ""
        else:
            raise Refuse(f"{what}: {type(part).__name__} in f-string")
    segs.append(cur)
    return segs


def item_fstrings():
    tree = _tree(OBJ)
    rows = []
    for name in ("_lrepr_bytes", "_lrepr_datetime", "_lrepr_uuid", "_lrepr_pattern", "_lrepr_fraction"):
        fn = _find_fn(tree, name)
        ret = fn.body[-1]
        if not isinstance(ret, ast.Return):
            raise Refuse(f"{name}: does not end with a return")
        rows.append((name, _segments(ret.value, name)))
    # _lrepr_decimal: `if print_dup: return f"{o!s}M"` then `return str(o)`
    fn = _find_fn(tree, "_lrepr_decimal")
    dup = [s for s in fn.body if isinstance(s, ast.If) and isinstance(s.test, ast.Name) and s.test.id == "print_dup"]
    if len(dup) != 1 or len(dup[0].body) != 1 or not isinstance(dup[0].body[0], ast.Return):
        raise Refuse("_lrepr_decimal: no `if print_dup: return ...`")
    rows.append(("_lrepr_decimal", _segments(dup[0].body[0].value, "_lrepr_decimal")))
    return ("Definition pr_fstrings : list (str * list str) := [\n  "
            + ";\n  ".join(f"({gstr(n)}, [{'; '.join(gstr(s) for s in segs)}]) (* {n} *)" for n, segs in rows)
            + "\n].\n")


def item_special_floats():
    fn = _find_fn(_tree(OBJ), "_special_number_repr")
    out = []
    rets = [n for n in ast.walk(fn) if isinstance(n, ast.Return) and isinstance(n.value, ast.IfExp)]
    for node in sorted(rets, key=lambda n: n.lineno):        # source order: +inf, -inf, nan
        t = node.value
        if not (isinstance(t.test, ast.Name) and t.test.id == "human_readable"):
            raise Refuse("_special_number_repr: conditional on something else")
        out.append(_const_str(t.orelse, "_special_number_repr"))
    if len(out) != 3:
        raise Refuse(f"_special_number_repr: {len(out)} conditional returns")
    return "Definition pr_special_floats : list str := [" + "; ".join(gstr(s) for s in out) + "]. (* +inf, -inf, nan *)\n"


def item_separators():
    tree = _tree(OBJ)
    a = _const_str(_find_assign(tree, "SEQ_PRINT_SEPARATOR"), "SEQ_PRINT_SEPARATOR")
    b = _const_str(_find_assign(tree, "MAP_PRINT_SEPARATOR"), "MAP_PRINT_SEPARATOR")
    return f"Definition pr_separators : str * str := ({gstr(a)}, {gstr(b)}).\n"


def item_lrepr_types():
    names = []
    for rel in (OBJ, MAP):
        for node in _tree(rel).body:
            if isinstance(node, ast.FunctionDef):
                for d in node.decorator_list:
                    if (isinstance(d, ast.Call) and isinstance(d.func, ast.Attribute) and d.func.attr == "register"
                            and isinstance(d.func.value, ast.Name) and d.func.value.id == "lrepr"):
                        if len(d.args) != 1:
                            raise Refuse("lrepr.register with several arguments")
                        names.append(ast.unparse(d.args[0]))
    if not names:
        raise Refuse("no lrepr.register decorator found")
    return ("Definition pr_lrepr_types : list str := [\n  "
            + ";\n  ".join(f"{gstr(n)} (* {n.replace('*)', '* )')} *)" for n in sorted(names)) + "\n].\n")


def item_print_defaults():
    tree = _tree(OBJ)
    rows = []
    for name in ("PRINT_DUP", "PRINT_LENGTH", "PRINT_LEVEL", "PRINT_META", "PRINT_NAMESPACE_MAPS", "PRINT_READABLY"):
        v = _find_assign(tree, name)
        if not (isinstance(v, ast.Constant) and (v.value is None or isinstance(v.value, bool))):
            raise Refuse(f"{name}: not True/False/None")
        rows.append(f"({gstr(name)}, {1 if v.value is True else 0}%N)")
    return "Definition pr_print_defaults : list (str * N) := [" + "; ".join(rows) + "].\n"


# ---- pr_trunc_guards -------------------------------------------------------------------
def _kwargs_get(node, key):
    """kwargs["<key>"]"""
    return (isinstance(node, ast.Subscript) and isinstance(node.value, ast.Name) and node.value.id == "kwargs"
            and isinstance(node.slice, ast.Constant) and node.slice.value == key)


def _is_name(node, name):
    return isinstance(node, ast.Name) and node.id == name


def _local_from_kwargs(fn, name, before):
    """`<name> = kwargs["<name>"]` is a top-level statement of fn above line `before`, and <name> has no
    other binding in fn."""
    stores = [n for n in ast.walk(fn) if isinstance(n, ast.Name) and n.id == name and isinstance(n.ctx, ast.Store)]
    tops = [s for s in fn.body if isinstance(s, ast.Assign) and len(s.targets) == 1 and _is_name(s.targets[0], name)
            and _kwargs_get(s.value, name) and s.lineno < before]
    return len(stores) == 1 and len(tops) == 1


def _dup_conjunct(fn, node, before):
    """`not print_dup` (a local read from kwargs) or `not kwargs["print_dup"]`"""
    if not (isinstance(node, ast.UnaryOp) and isinstance(node.op, ast.Not)):
        return False
    x = node.operand
    return _kwargs_get(x, "print_dup") or (_is_name(x, "print_dup") and _local_from_kwargs(fn, "print_dup", before))


def _isinstance_int(node, var):
    return (isinstance(node, ast.Call) and _is_name(node.func, "isinstance") and len(node.args) == 2
            and not node.keywords and _is_name(node.args[0], var) and _is_name(node.args[1], "int"))


def _mentions(node, names):
    for n in ast.walk(node):
        if isinstance(n, ast.Name) and n.id in names:
            return True
        if isinstance(n, ast.Constant) and n.value in names:
            return True
    return False


def _trunc_guard(fn, var, limit_tests, body_ok, what):
    """The one `if` of fn whose test mentions <var>: True when the test is
    `not print_dup and <limit tests>`, False when it is `<limit tests>`; anything else is refused."""
    ifs = [n for n in ast.walk(fn) if isinstance(n, (ast.If, ast.IfExp, ast.While)) and _mentions(n.test, {var})]
    tops = [s for s in fn.body if isinstance(s, ast.If) and _mentions(s.test, {var})]
    if len(tops) != 1:
        raise Refuse(f"{what}: {len(tops)} top-level `if` statements on {var}")
    st = tops[0]
    under = {id(n) for s in st.body for n in ast.walk(s)}      # conditionals governed by the test are fine
    if any(n is not st and id(n) not in under for n in ifs):
        raise Refuse(f"{what}: {var} is tested outside `if {ast.unparse(st.test)}`")
    if not _local_from_kwargs(fn, var, st.lineno):
        raise Refuse(f"{what}: {var} is not read once from kwargs above the test")
    if not body_ok(st):
        raise Refuse(f"{what}: the body of `if {ast.unparse(st.test)}` has another shape")
    t = st.test
    conj = t.values if isinstance(t, ast.BoolOp) and isinstance(t.op, ast.And) else [t]
    guarded = bool(conj) and _dup_conjunct(fn, conj[0], st.lineno)
    rest = conj[1:] if guarded else conj
    if len(rest) != len(limit_tests) or not all(p(x) for p, x in zip(limit_tests, rest)):
        raise Refuse(f"{what}: test `{ast.unparse(t)}` is neither `not print_dup and <limit test>` nor `<limit test>`")
    return guarded


def _level_body(st):
    return (len(st.body) == 1 and isinstance(st.body[0], ast.Return) and _is_name(st.body[0].value, "SURPASSED_PRINT_LEVEL")
            and not st.orelse)


def _length_body(st):
    marks = [n for n in ast.walk(st) if _is_name(n, "SURPASSED_PRINT_LENGTH")]
    in_body = [n for s in st.body for n in ast.walk(s) if _is_name(n, "SURPASSED_PRINT_LENGTH")]
    return len(marks) == 1 and len(in_body) == 1 and bool(st.orelse) and not _mentions(ast.Module(st.orelse, []), {"print_length"})


def _lt_one(var):
    return lambda n: (isinstance(n, ast.Compare) and _is_name(n.left, var) and len(n.ops) == 1 and isinstance(n.ops[0], ast.Lt)
                      and isinstance(n.comparators[0], ast.Constant) and n.comparators[0].value == 1
                      and type(n.comparators[0].value) is int)


def item_trunc_guards():
    rows = []
    for rel, name in ((OBJ, "seq_lrepr"), (MAP, "map_lrepr")):
        fn = _find_fn(_tree(rel), name)
        rows.append((f"{name}.print_level",
                     _trunc_guard(fn, "print_level", [lambda n: _isinstance_int(n, "print_level"), _lt_one("print_level")],
                                  _level_body, f"{name} print_level")))
        rows.append((f"{name}.print_length",
                     _trunc_guard(fn, "print_length", [lambda n: _isinstance_int(n, "print_length")],
                                  _length_body, f"{name} print_length")))
        marks = sorted(n.id for n in ast.walk(fn) if isinstance(n, ast.Name) and n.id.startswith("SURPASSED_PRINT_"))
        if marks != ["SURPASSED_PRINT_LENGTH", "SURPASSED_PRINT_LEVEL"]:
            raise Refuse(f"{name}: uses {marks}")
    # no other function of the package abbreviates: the two markers are used nowhere else
    root = os.path.join(paths.REPO, "src", "basilisp")
    for dp, dn, fns in os.walk(root):
        dn.sort()
        for f in sorted(fns):
            if not f.endswith((".py", ".lpy")):
                continue
            path = os.path.join(dp, f)
            text = open(path, encoding="utf-8").read()
            if "SURPASSED_PRINT" not in text and "SURPASSED-PRINT" not in text:
                continue
            rel = os.path.relpath(path, paths.REPO)
            if not f.endswith(".py"):
                raise Refuse(f"{rel} mentions SURPASSED_PRINT_*")
            allowed = {OBJ: "seq_lrepr", MAP: "map_lrepr"}.get(rel)
            tree = ast.parse(text)
            inside = set()
            if allowed:
                inside = {id(n) for n in ast.walk(_find_fn(tree, allowed))}
            for n in ast.walk(tree):
                used = (isinstance(n, ast.Name) and n.id.startswith("SURPASSED_PRINT_") and isinstance(n.ctx, ast.Load)) \
                    or (isinstance(n, ast.Attribute) and n.attr.startswith("SURPASSED_PRINT_"))
                if used and id(n) not in inside:
                    raise Refuse(f"{rel}:{n.lineno} uses a SURPASSED_PRINT_* marker outside seq_lrepr / map_lrepr")
    # the markers themselves
    tree = _tree(OBJ)
    if _const_str(_find_assign(tree, "SURPASSED_PRINT_LENGTH"), "SURPASSED_PRINT_LENGTH") != "..." or \
            _const_str(_find_assign(tree, "SURPASSED_PRINT_LEVEL"), "SURPASSED_PRINT_LEVEL") != "#":
        raise Refuse("SURPASSED_PRINT_LENGTH / SURPASSED_PRINT_LEVEL are not '...' / '#'")
    return ("Definition pr_trunc_guards : list (str * bool) := [\n  "
            + ";\n  ".join(f"({gstr(n)}, {'true' if g else 'false'}) (* {n}: {'not print_dup and <test>' if g else '<test> alone'} *)"
                           for n, g in rows) + "\n].\n")


ITEMS = [
    ("pr_str_escapes", item_str_escapes),
    ("pr_delims", item_delims),
    ("pr_fstrings", item_fstrings),
    ("pr_special_floats", item_special_floats),
    ("pr_separators", item_separators),
    ("pr_lrepr_types", item_lrepr_types),
    ("pr_print_defaults", item_print_defaults),
    ("pr_trunc_guards", item_trunc_guards),
]

if __name__ == "__main__":
    for n, f in ITEMS:
        try:
            print(f())
        except Refuse as e:
            print(f"(* {n}: REFUSED {e} *)")
