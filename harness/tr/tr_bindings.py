"""C11 translator items (fail closed): the exact statement shape of the functions the Coq
model C11/Bindings.v transcribes, re-read from /repo's working tree on every check.

* `push_thread_bindings_shape` : 0 = loop, then record the frame (a failure inside the loop
      leaves the Vars pushed so far bound: finding F-11); 1 = the same loop inside
      `try`, with `except BaseException: for var in bindings: var.pop_bindings(); raise`.
      Any other text is refused.
* `pop_thread_bindings_shape`  : 1 iff pop the frame (IndexError -> RuntimeException), then
      `for var in bindings: var.pop_bindings()`.
* `var_bindings_shape`         : 1 iff Var.push_bindings / pop_bindings / is_thread_bound /
      value / set_value, _VarBindings, _ThreadBindings (both `threading.local` subclasses) and
      get_thread_bindings have the modelled text.
* `binding_forms_shape`        : 1 iff core.lpy's `binding`, `with-bindings*`, `bound-fn*`,
      `future-call` have the modelled text (push, try body, finally pop; snapshot at creation)
      and runtime.bindings (context manager) is push, then try: yield, finally: pop.
String constants (error messages) and docstrings are ignored.
"""
import ast
import re

from harness.tr.gen_tables import Refuse, _src, _find_class_fn, _find_fn

RUNTIME = "src/basilisp/lang/runtime.py"
CORE = "src/basilisp/core.lpy"


class _NoStr(ast.NodeTransformer):
    def visit_Constant(self, node):
        if isinstance(node.value, str):
            return ast.copy_location(ast.Constant(value=""), node)
        return node


def _norm(fn):
    body = [s for s in fn.body if not (isinstance(s, ast.Expr) and isinstance(s.value, ast.Constant)
                                       and isinstance(s.value.value, str))]
    return "\n".join(ast.unparse(ast.fix_missing_locations(_NoStr().visit(s))) for s in body)


_LOOP = ("for var, val in m.items():\n    if not var.dynamic:\n        raise RuntimeException('')\n"
         "    var.push_bindings(val)\n    bindings.add(var)")


def _indent(text):
    return "\n".join("    " + line for line in text.split("\n"))


PUSH_SHAPES = {
    "bindings = set()\n" + _LOOP + "\n_THREAD_BINDINGS.push_bindings(lset.set(bindings))": 0,
    "bindings = set()\ntry:\n" + _indent(_LOOP) + "\nexcept BaseException:\n    for var in bindings:\n"
    "        var.pop_bindings()\n    raise\n_THREAD_BINDINGS.push_bindings(lset.set(bindings))": 1,
}

POP_SHAPE = ("try:\n    bindings = _THREAD_BINDINGS.pop_bindings()\nexcept IndexError as e:\n"
             "    raise RuntimeException('') from e\nfor var in bindings:\n    var.pop_bindings()")

GET_SHAPE = ("bindings = {}\nfor frame in _THREAD_BINDINGS.get_bindings():\n"
             "    bindings.update({var: var.value for var in frame})\nreturn lmap.map(bindings)")

METHOD_SHAPES = {
    ("Var", "push_bindings"): "if not self._dynamic or self._tl is None:\n    raise RuntimeException('')\n"
                              "self._validate(val)\nself._tl.bindings.append(val)",
    ("Var", "pop_bindings"): "if not self._dynamic or self._tl is None:\n    raise RuntimeException('')\n"
                             "return self._tl.bindings.pop()",
    ("Var", "is_thread_bound"): "return bool(self._dynamic and self._tl and self._tl.bindings)",
    ("Var", "value"): "with self._lock:\n    if self._dynamic:\n        assert self._tl is not None\n"
                      "        if len(self._tl.bindings) > 0:\n            return self._tl.bindings[-1]\n"
                      "    return self._root",
    ("Var", "set_value"): "with self._lock:\n    if self._dynamic:\n        assert self._tl is not None\n"
                          "        self._validate(v)\n        if len(self._tl.bindings) > 0:\n"
                          "            self._tl.bindings[-1] = v\n        else:\n            self.push_bindings(v)\n"
                          "        return\n    self._set_root(v)",
    ("_VarBindings", "__init__"): "self.bindings: list = []",
    ("_ThreadBindings", "__init__"): "self._bindings: FrameStack = vec.EMPTY",
    ("_ThreadBindings", "get_bindings"): "return self._bindings",
    ("_ThreadBindings", "push_bindings"): "self._bindings = self._bindings.cons(frame)",
    ("_ThreadBindings", "pop_bindings"): "frame = self._bindings.peek()\nself._bindings = self._bindings.pop()\n"
                                         "assert frame is not None\nreturn frame",
}


def _tree():
    return ast.parse(_src(RUNTIME))


def push_shape():
    got = _norm(_find_fn(_tree(), "push_thread_bindings"))
    if got not in PUSH_SHAPES:
        raise Refuse("push_thread_bindings has none of the modelled shapes:\n" + got)
    return PUSH_SHAPES[got]


def item_push_shape():
    return (f"Definition push_thread_bindings_shape : N := {push_shape()}%N. "
            "(* 0: frame recorded after the loop, nothing undone on failure; 1: failure undoes the pushes *)\n")


def item_pop_shape():
    got = _norm(_find_fn(_tree(), "pop_thread_bindings"))
    if got != POP_SHAPE:
        raise Refuse("pop_thread_bindings no longer has the modelled shape:\n" + got)
    return "Definition pop_thread_bindings_shape : N := 1%N. (* pop the frame, then pop each of its Vars *)\n"


def item_var_shape():
    tree = _tree()
    for (cls, fn), shape in METHOD_SHAPES.items():
        got = _norm(_find_class_fn(tree, cls, fn))
        if got != shape:
            raise Refuse(f"{cls}.{fn} no longer has the modelled shape:\n{got}")
    got = _norm(_find_fn(tree, "get_thread_bindings"))
    if got != GET_SHAPE:
        raise Refuse("get_thread_bindings no longer has the modelled shape:\n" + got)
    for node in tree.body:
        if isinstance(node, ast.ClassDef) and node.name in ("_VarBindings", "_ThreadBindings"):
            if [ast.unparse(b) for b in node.bases] != ["threading.local"]:
                raise Refuse(f"{node.name} is no longer a threading.local subclass")
    deco = [ast.unparse(d) for d in _find_class_fn(tree, "Var", "value").decorator_list]
    if deco != ["property"]:
        raise Refuse("Var.value is no longer a property")
    return ("Definition var_bindings_shape : N := 1%N. "
            "(* per-Var thread-local list, top = last; per-thread frame stack; value = top else root *)\n")


# ---- core.lpy forms ------------------------------------------------------------------
def _form_text(text, head):
    """Text of the top-level form starting with `head` at the beginning of a line."""
    m = re.search(r"^" + re.escape(head) + r"(?=\s)", text, re.M)
    if not m:
        raise Refuse(f"form {head} not found in core.lpy")
    i, depth, n = m.start(), 0, len(text)
    out = []
    while i < n:
        ch = text[i]
        if ch == ";":
            while i < n and text[i] != "\n":
                i += 1
            continue
        if ch == "\\":                       # character literal
            out.append(text[i:i + 2])
            i += 2
            continue
        if ch == '"':
            j = i + 1
            while j < n and text[j] != '"':
                j += 2 if text[j] == "\\" else 1
            out.append('""')                # docstrings and messages are ignored
            i = j + 1
            continue
        if ch in "([{":
            depth += 1
        elif ch in ")]}":
            depth -= 1
        out.append(ch)
        i += 1
        if depth == 0:
            break
    if depth != 0:
        raise Refuse(f"unbalanced form {head}")
    return re.sub(r"\s+", " ", "".join(out)).strip()


FORMS = {
    "(defmacro binding":
        '(defmacro binding "" [bindings & body] (when-not (and (vector? bindings) (even? (count bindings)) '
        '(pos? (count bindings))) (throw (ex-info "" {:bindings bindings}))) '
        "(let [var-bindings (reduce* (fn [v pair] (let [vvar (first pair) vval (second pair)] "
        "(conj v `(var ~vvar) vval))) [] (partition 2 bindings))] "
        "`(do (push-thread-bindings (hash-map ~@var-bindings)) (try ~@body (finally (pop-thread-bindings))))))",
    "(defn with-bindings*":
        '(defn with-bindings* "" [bindings-map f & args] (push-thread-bindings bindings-map) '
        "(try (apply f args) (finally (pop-thread-bindings))))",
    "(defn bound-fn*":
        '(defn bound-fn* "" [f] (let [current-bindings (get-thread-bindings)] '
        "(fn [& args] (apply with-bindings* current-bindings f args))))",
    "(defn future-call":
        '(defn future-call "" ([f] (future-call f *executor-pool*)) ([f pool] (.submit pool (bound-fn* f))))',
    "(defmacro future":
        '(defmacro future "" [& body] `(future-call (fn* [] ~@body)))',
}


BINDINGS_CM = ("m = lmap.map(bindings or {})\nlogger.debug(f'')\npush_thread_bindings(m)\ntry:\n    yield\n"
               "finally:\n    pop_thread_bindings()\n    logger.debug(f'')")


def _norm_cm(fn):
    """like _norm, with f-strings (log messages) blanked"""
    class _NoF(_NoStr):
        def visit_JoinedStr(self, node):
            return ast.copy_location(ast.JoinedStr(values=[]), node)
    body = [s for s in fn.body if not (isinstance(s, ast.Expr) and isinstance(s.value, ast.Constant))]
    return "\n".join(ast.unparse(ast.fix_missing_locations(_NoF().visit(s))) for s in body)


def item_forms_shape():
    got = _norm_cm(_find_fn(_tree(), "bindings"))
    if got != BINDINGS_CM:
        raise Refuse("runtime.bindings no longer has the modelled shape (push, try: yield, finally: pop):\n" + got)
    text = _src(CORE)
    for head, want in FORMS.items():
        got = _form_text(text, head)
        if got != want:
            raise Refuse(f"{head}...) no longer has the modelled text:\n{got}")
    return ("Definition binding_forms_shape : N := 1%N. "
            "(* binding / with-bindings*: push, try body, finally pop; bound-fn*: snapshot at creation *)\n")


ITEMS = [
    ("push_thread_bindings_shape", item_push_shape),
    ("pop_thread_bindings_shape", item_pop_shape),
    ("var_bindings_shape", item_var_shape),
    ("binding_forms_shape", item_forms_shape),
]
