"""Translator items for C14: src/basilisp/importer.py -> Gallina (fail-closed).

  importer_magic          MAGIC_NUMBER as bytes (the assignment is evaluated with a tiny
                          evaluator: int.to_bytes of a literal, bytes literals, `+`)
  importer_slices         the slices of cache_data that _get_basilisp_bytecode reads:
                          [(0,4); (4,8); (8,12); (12,0)]   ((a,0) = open ended `[a:]`, the payload)
  importer_header_checks  the `if/elif ...: raise Exc(...)` chain of _get_basilisp_bytecode, in
                          source order, as (check kind, exception class name):
                            1  <slice 0> != MAGIC_NUMBER        2  len(<slice 1>) != 4
                            3  _r_long(<slice 1>) != mtime      4  len(<slice 2>) != 4
                            5  _r_long(<slice 2>) != source_size
  importer_write_layout   the pieces _basilisp_bytecode concatenates: 1 magic, 2 _w_long(mtime),
                          3 _w_long(source_size), 4 marshal.dumps(code)
  importer_long_codec     [mask; width; writer little endian; reader little endian] of
                          _w_long / _r_long
  importer_caught         the classes of the `except (...)` clause of exec_module's cache path
  importer_exec_in_try    true iff that `try` body also *executes* the cached code (calls
                          compiler.compile_bytecode, directly or through a method of the class)

Not a table item (it would change Gen/Tables.v for every property): `stats_in_spec_shape(text)`
reads off importer.py WHO stats the source file -- exec_module at every execution (False, the
shape C14_reload_sees_current_source is stated for) or find_spec once, kept in the spec's
loader_state (True, the shape C14_reload_stale_when_stats_in_spec refutes).  It is evaluated by
the `shape` case of the C14 correspondence on every run.
"""
import ast

from harness.tr.gen_tables import Refuse, _src, _find_fn, _find_assign, _find_class_fn, gstr

REL = "src/basilisp/importer.py"


def _tree():
    return ast.parse(_src(REL))


def _nlist(bs):
    return "[" + "; ".join(f"{b}%N" for b in bs) + "]" if bs else "(@nil N)"


# ---- MAGIC_NUMBER ------------------------------------------------------------------------
def _eval_bytes(e):
    if isinstance(e, ast.Constant) and isinstance(e.value, bytes):
        return e.value
    if isinstance(e, ast.BinOp) and isinstance(e.op, ast.Add):
        return _eval_bytes(e.left) + _eval_bytes(e.right)
    if (isinstance(e, ast.Call) and isinstance(e.func, ast.Attribute) and e.func.attr == "to_bytes"
            and isinstance(e.func.value, ast.Constant) and isinstance(e.func.value.value, int)
            and not isinstance(e.func.value.value, bool) and not e.keywords and len(e.args) == 2
            and all(isinstance(a, ast.Constant) for a in e.args)
            and isinstance(e.args[0].value, int) and e.args[1].value in ("little", "big")):
        try:
            return e.func.value.value.to_bytes(e.args[0].value, e.args[1].value)
        except OverflowError as x:
            raise Refuse(f"MAGIC_NUMBER does not evaluate: {x}")
    raise Refuse(f"MAGIC_NUMBER: unsupported expression {ast.dump(e)[:120]}")


def item_magic():
    b = _eval_bytes(_find_assign(_tree(), "MAGIC_NUMBER"))
    return f"Definition importer_magic : list N := {_nlist(b)}.\n"


# ---- _get_basilisp_bytecode ---------------------------------------------------------------
def _const_int(e):
    if isinstance(e, ast.Constant) and isinstance(e.value, int) and not isinstance(e.value, bool) and e.value >= 0:
        return e.value
    raise Refuse(f"slice bound is not a non-negative int literal: {ast.dump(e)[:80]}")


def _slice_of(e, data_name):
    """cache_data[a:b] -> (a, b);  cache_data[a:] -> (a, 0);  cache_data[:b] -> (0, b)"""
    if not (isinstance(e, ast.Subscript) and isinstance(e.value, ast.Name) and e.value.id == data_name
            and isinstance(e.slice, ast.Slice) and e.slice.step is None):
        raise Refuse(f"not a plain slice of {data_name}: {ast.dump(e)[:100]}")
    lo = 0 if e.slice.lower is None else _const_int(e.slice.lower)
    hi = 0 if e.slice.upper is None else _const_int(e.slice.upper)
    if e.slice.upper is not None and hi <= lo:
        raise Refuse("empty or reversed slice")
    return lo, hi


def _get_parts():
    fn = _find_fn(_tree(), "_get_basilisp_bytecode")
    params = [a.arg for a in fn.args.args]
    if params != ["fullname", "mtime", "source_size", "cache_data"] or fn.args.vararg or fn.args.kwarg \
            or fn.args.kwonlyargs or fn.args.defaults:
        raise Refuse(f"_get_basilisp_bytecode has parameters {params}")
    body = [s for s in fn.body if not (isinstance(s, ast.Expr) and isinstance(s.value, ast.Constant))]
    slices, order = {}, []
    i = 0
    while i < len(body) and isinstance(body[i], ast.Assign):
        s = body[i]
        if len(s.targets) != 1 or not isinstance(s.targets[0], ast.Name):
            raise Refuse("unsupported assignment target")
        name = s.targets[0].id
        if isinstance(s.value, ast.Dict):       # exc_details = {"name": fullname}: no effect on control
            if not all(isinstance(k, ast.Constant) for k in s.value.keys) or \
                    not all(isinstance(v, (ast.Constant, ast.Name)) for v in s.value.values):
                raise Refuse("dict assignment with computed parts")
        else:
            slices[name] = _slice_of(s.value, "cache_data")
            order.append(name)
        i += 1
    if i + 2 != len(body) or not isinstance(body[i], ast.If) or not isinstance(body[i + 1], ast.Return):
        raise Refuse("_get_basilisp_bytecode is not: assignments; one if/elif chain; return")
    ret = body[i + 1].value
    if not (isinstance(ret, ast.Call) and isinstance(ret.func, ast.Attribute) and ret.func.attr == "loads"
            and isinstance(ret.func.value, ast.Name) and ret.func.value.id == "marshal"
            and len(ret.args) == 1 and not ret.keywords):
        raise Refuse("return is not marshal.loads(<slice>)")
    pay = _slice_of(ret.args[0], "cache_data")
    if pay[1] != 0:
        raise Refuse("payload slice is not open ended")
    # the chain
    checks = []
    node = body[i]
    while True:
        checks.append((_check_kind(node.test, slices, order), _raise_class(node.body)))
        if not node.orelse:
            break
        if len(node.orelse) == 1 and isinstance(node.orelse[0], ast.If):
            node = node.orelse[0]
        else:
            raise Refuse("the chain ends in an else branch")
    return [slices[n] for n in order] + [pay], checks


def _check_kind(t, slices, order):
    if not (isinstance(t, ast.Compare) and len(t.ops) == 1 and isinstance(t.ops[0], ast.NotEq)):
        raise Refuse(f"check is not `a != b`: {ast.unparse(t)}")
    l, r = t.left, t.comparators[0]
    if isinstance(l, ast.Name) and l.id in slices and isinstance(r, ast.Name) and r.id == "MAGIC_NUMBER":
        if order.index(l.id) != 0:
            raise Refuse("magic compared on another slice")
        return 1
    if isinstance(l, ast.Call) and isinstance(l.func, ast.Name) and len(l.args) == 1 and not l.keywords \
            and isinstance(l.args[0], ast.Name) and l.args[0].id in slices:
        idx = order.index(l.args[0].id)
        lo, hi = slices[l.args[0].id]
        if l.func.id == "len" and isinstance(r, ast.Constant) and r.value == hi - lo and idx in (1, 2):
            return 2 if idx == 1 else 4
        if l.func.id == "_r_long" and isinstance(r, ast.Name):
            if idx == 1 and r.id == "mtime":
                return 3
            if idx == 2 and r.id == "source_size":
                return 5
    raise Refuse(f"unrecognised header check: {ast.unparse(t)}")


def _raise_class(stmts):
    """body = (message = <f-string>)? (logger.debug(message))? raise Exc(message, ...)"""
    for s in stmts[:-1]:
        if isinstance(s, ast.Assign) and len(s.targets) == 1 and isinstance(s.targets[0], ast.Name) \
                and isinstance(s.value, (ast.JoinedStr, ast.Constant)):
            continue
        if isinstance(s, ast.Expr) and isinstance(s.value, ast.Call) and isinstance(s.value.func, ast.Attribute) \
                and isinstance(s.value.func.value, ast.Name) and s.value.func.value.id == "logger":
            continue
        raise Refuse(f"statement with possible effect before raise: {ast.unparse(s)[:80]}")
    last = stmts[-1]
    if not (isinstance(last, ast.Raise) and last.cause is None and isinstance(last.exc, ast.Call)
            and isinstance(last.exc.func, ast.Name)):
        raise Refuse("branch does not end in `raise Exc(...)`")
    return last.exc.func.id


def item_slices():
    sl, _ = _get_parts()
    return "Definition importer_slices : list (N * N) := [" + "; ".join(f"({a}%N, {b}%N)" for a, b in sl) + "].\n"


def item_checks():
    _, ch = _get_parts()
    return ("Definition importer_header_checks : list (N * str) := [\n  "
            + ";\n  ".join(f"({k}%N, {gstr(c)})" for k, c in ch) + "\n].\n")


# ---- _basilisp_bytecode, _w_long, _r_long: exact shapes ------------------------------------
def _body_text(fn):
    body = [s for s in fn.body if not (isinstance(s, ast.Expr) and isinstance(s.value, ast.Constant))]
    return "\n".join(ast.unparse(s) for s in body)


def item_write_layout():
    fn = _find_fn(_tree(), "_basilisp_bytecode")
    if [a.arg for a in fn.args.args] != ["mtime", "source_size", "code"]:
        raise Refuse("_basilisp_bytecode parameters changed")
    expected = ("data = bytearray(MAGIC_NUMBER)\n"
                "data.extend(_w_long(mtime))\n"
                "data.extend(_w_long(source_size))\n"
                "data.extend(marshal.dumps(code))\n"
                "return bytes(data)")
    got = _body_text(fn)
    if got != expected:
        raise Refuse("_basilisp_bytecode no longer has the modelled shape:\n" + got)
    return "Definition importer_write_layout : list N := [1%N; 2%N; 3%N; 4%N].\n"


def item_long_codec():
    t = _tree()
    w, r = _find_fn(t, "_w_long"), _find_fn(t, "_r_long")
    if len(w.args.args) != 1 or len(r.args.args) != 1:
        raise Refuse("_w_long/_r_long arity")
    x, b = w.args.args[0].arg, r.args.args[0].arg
    wb = [s for s in w.body if not (isinstance(s, ast.Expr) and isinstance(s.value, ast.Constant))]
    rb = [s for s in r.body if not (isinstance(s, ast.Expr) and isinstance(s.value, ast.Constant))]
    if len(wb) != 1 or len(rb) != 1 or not isinstance(wb[0], ast.Return) or not isinstance(rb[0], ast.Return):
        raise Refuse("_w_long/_r_long are not a single return")
    e = wb[0].value
    # (int(x) & MASK).to_bytes(W, "little")
    ok = (isinstance(e, ast.Call) and isinstance(e.func, ast.Attribute) and e.func.attr == "to_bytes"
          and len(e.args) == 2 and not e.keywords
          and isinstance(e.func.value, ast.BinOp) and isinstance(e.func.value.op, ast.BitAnd)
          and ast.unparse(e.func.value.left) == f"int({x})"
          and isinstance(e.func.value.right, ast.Constant) and isinstance(e.func.value.right.value, int)
          and isinstance(e.args[0], ast.Constant) and isinstance(e.args[0].value, int)
          and isinstance(e.args[1], ast.Constant) and e.args[1].value in ("little", "big"))
    if not ok:
        raise Refuse("_w_long is not (int(x) & MASK).to_bytes(W, order): " + ast.unparse(e))
    mask, width, wl = e.func.value.right.value, e.args[0].value, e.args[1].value == "little"
    f = rb[0].value
    ok = (isinstance(f, ast.Call) and ast.unparse(f.func) == "int.from_bytes" and len(f.args) == 2
          and not f.keywords and isinstance(f.args[0], ast.Name) and f.args[0].id == b
          and isinstance(f.args[1], ast.Constant) and f.args[1].value in ("little", "big"))
    if not ok:
        raise Refuse("_r_long is not int.from_bytes(b, order): " + ast.unparse(f))
    rl = f.args[1].value == "little"
    if mask < 0 or width < 0:
        raise Refuse("negative mask/width")
    return (f"Definition importer_long_codec : list N := [{mask}%N; {width}%N; "
            f"{1 if wl else 0}%N; {1 if rl else 0}%N].\n")


# ---- exec_module: the except clause of the cache path --------------------------------------
def _cache_try():
    t = _tree()
    fn = _find_class_fn(t, "BasilispImporter", "exec_module")
    tries = [n for n in ast.walk(fn) if isinstance(n, ast.Try)]
    if len(tries) != 1:
        raise Refuse(f"exec_module contains {len(tries)} try statements")
    tr = tries[0]
    if len(tr.handlers) != 1 or tr.finalbody:
        raise Refuse("the try of exec_module has several handlers or a finally")
    return t, tr


def _calls(nodes):
    for n in nodes:
        for c in ast.walk(n):
            if isinstance(c, ast.Call):
                yield c


def _is_compile_bytecode(c):
    return isinstance(c.func, ast.Attribute) and c.func.attr == "compile_bytecode"


def _self_methods(nodes):
    return [c.func.attr for c in _calls(nodes)
            if isinstance(c.func, ast.Attribute) and isinstance(c.func.value, ast.Name) and c.func.value.id == "self"]


def _executes(t, nodes, depth=2):
    """Do these statements reach compiler.compile_bytecode (through methods of the class)?"""
    if any(_is_compile_bytecode(c) for c in _calls(nodes)):
        return True
    if depth == 0:
        return False
    for m in _self_methods(nodes):
        try:
            f = _find_class_fn(t, "BasilispImporter", m)
        except Refuse:
            continue
        if _executes(t, f.body, depth - 1):
            return True
    return False


def item_caught():
    _, tr = _cache_try()
    ty = tr.handlers[0].type
    elts = ty.elts if isinstance(ty, ast.Tuple) else [ty]
    if not elts or not all(isinstance(e, ast.Name) for e in elts):
        raise Refuse("except clause is not a tuple of plain class names")
    # the handler must fall back to the from-source path and nothing else
    hb = tr.handlers[0].body
    if "_exec_module" not in _self_methods(hb) or any(isinstance(n, ast.Raise) for s in hb for n in ast.walk(s)):
        raise Refuse("the except handler does not (only) call self._exec_module")
    return ("Definition importer_caught : list str := [\n  " + ";\n  ".join(gstr(e.id) for e in elts) + "\n].\n")


def item_exec_in_try():
    t, tr = _cache_try()
    in_try = _executes(t, tr.body)
    after = _executes(t, tr.orelse)
    if not (in_try or after):
        raise Refuse("no call of compiler.compile_bytecode reachable from the cache path")
    if in_try and after:
        raise Refuse("cached code is executed both inside and after the try")
    return f"Definition importer_exec_in_try : bool := {'true' if in_try else 'false'}.\n"


# ---- who stats the source file: exec_module (every execution) or find_spec (once) ------------
def _is_loader_state(e, key, spec_name="spec"):
    """spec.loader_state["<key>"]"""
    return (isinstance(e, ast.Subscript) and isinstance(e.value, ast.Attribute) and e.value.attr == "loader_state"
            and isinstance(e.value.value, ast.Name) and e.value.value.id == spec_name
            and isinstance(e.slice, ast.Constant) and e.slice.value == key)


def _is_self_path_stats(e, arg):
    return (isinstance(e, ast.Call) and isinstance(e.func, ast.Attribute) and e.func.attr == "path_stats"
            and isinstance(e.func.value, ast.Name) and e.func.value.id == "self" and not e.keywords
            and len(e.args) == 1 and isinstance(e.args[0], ast.Name) and e.args[0].id == arg)


def _top_assigns(fn, name):
    """Assignments to the plain name `name` anywhere in fn; each must be a top-level statement."""
    tops = [s for s in fn.body if isinstance(s, ast.Assign) and len(s.targets) == 1
            and isinstance(s.targets[0], ast.Name) and s.targets[0].id == name]
    stores = [n for n in ast.walk(fn) if isinstance(n, ast.Name) and n.id == name and isinstance(n.ctx, ast.Store)]
    if len(stores) != len(tops):
        raise Refuse(f"`{name}` is also bound outside top-level assignments of {fn.name}")
    return tops


def stats_in_spec_shape(text):
    """False: exec_module does `filename = spec.loader_state["filename"]; path_stats =
    self.path_stats(filename)` itself and that value validates the cache and goes into
    every new cache file.  True: `path_stats = spec.loader_state["path_stats"]`, a key that
    find_spec fills with self.path_stats(filename).  Anything else: Refuse."""
    t = ast.parse(text)
    ps = _find_class_fn(t, "BasilispImporter", "path_stats")
    if [a.arg for a in ps.args.args] != ["self", "path"] or _body_text(ps) != \
            "stat = os.stat(path)\nreturn {'mtime': int(stat.st_mtime), 'size': stat.st_size}":
        raise Refuse("path_stats is not os.stat(path) -> {mtime: int(st_mtime), size: st_size}")
    fn = _find_class_fn(t, "BasilispImporter", "exec_module")
    assigns = _top_assigns(fn, "path_stats")
    if len(assigns) != 1:
        raise Refuse(f"exec_module assigns path_stats {len(assigns)} times")
    val = assigns[0].value
    # its uses: validation of the cache, and every from-source execution
    gets = [c for c in _calls(fn.body) if isinstance(c.func, ast.Name) and c.func.id == "_get_basilisp_bytecode"]
    if len(gets) != 1 or len(gets[0].args) != 4 or gets[0].keywords \
            or ast.unparse(gets[0].args[1]) != "path_stats['mtime']" or ast.unparse(gets[0].args[2]) != "path_stats['size']":
        raise Refuse("exec_module does not validate the cache with path_stats['mtime'], path_stats['size']")
    execs = [c for c in _calls(fn.body) if isinstance(c.func, ast.Attribute) and c.func.attr == "_exec_module"]
    if not execs or any(len(c.args) != 4 or c.keywords or ast.unparse(c.args[2]) != "path_stats" for c in execs):
        raise Refuse("a from-source execution does not receive path_stats")
    ex = _find_class_fn(t, "BasilispImporter", "_exec_module")
    if [a.arg for a in ex.args.args] != ["self", "fullname", "loader_state", "path_stats", "module"]:
        raise Refuse("_exec_module parameters changed")
    writes = [c for c in _calls(ex.body) if isinstance(c.func, ast.Name) and c.func.id == "_basilisp_bytecode"]
    if len(writes) != 1 or [ast.unparse(a) for a in writes[0].args[:2]] != ["path_stats['mtime']", "path_stats['size']"]:
        raise Refuse("_exec_module does not write the cache header from path_stats")
    if _top_assigns(ex, "path_stats"):
        raise Refuse("_exec_module rebinds path_stats")
    fs = _find_class_fn(t, "BasilispImporter", "find_spec")
    state_keys = {}
    for n in ast.walk(fs):
        if isinstance(n, ast.Dict) and any(isinstance(k, ast.Constant) and k.value == "cache_filename" for k in n.keys):
            for k, v in zip(n.keys, n.values):
                if not isinstance(k, ast.Constant):
                    raise Refuse("loader_state with a computed key")
                state_keys[k.value] = v
    if not state_keys:
        raise Refuse("the loader_state dict of find_spec was not found")
    if _is_self_path_stats(val, "filename"):
        fa = _top_assigns(fn, "filename")
        if len(fa) != 1 or not _is_loader_state(fa[0].value, "filename") or fa[0].lineno > assigns[0].lineno:
            raise Refuse("exec_module stats something else than spec.loader_state['filename']")
        return False
    if _is_loader_state(val, "path_stats"):
        if "path_stats" not in state_keys or not _is_self_path_stats(state_keys["path_stats"], "filename"):
            raise Refuse("loader_state['path_stats'] is not filled by find_spec with self.path_stats(filename)")
        return True
    raise Refuse("path_stats of exec_module is neither self.path_stats(filename) nor spec.loader_state['path_stats']: "
                 + ast.unparse(val)[:80])


ITEMS = [
    ("importer_magic", item_magic),
    ("importer_slices", item_slices),
    ("importer_header_checks", item_checks),
    ("importer_write_layout", item_write_layout),
    ("importer_long_codec", item_long_codec),
    ("importer_caught", item_caught),
    ("importer_exec_in_try", item_exec_in_try),
]
