"""C06 translator items (fail closed): rust/src/basilisp_native/seq.rs -> Gallina constants.

There is no Rust parser here, so the check is textual: line comments are removed, whitespace is
collapsed, and the text of `enum LazySeqState`, of `LazySeq::_compute_seq`, of `LazySeq::seq`, of
`Sequence::__call__`, `SeqIterator::__next__` and `to_seq` must be EXACTLY the text the Coq models
(coq/theories/C06/LazySeq.v, Machine.v) transcribe.  Anything else is refused (the constant then
falls back to Gen/Fallback.v and counts as an undischarged obligation; the check escalates).

  lazyseq_state_shape       : N    1 = the enum is Initialized(gen) | Computing | Computed(obj) | Realized(seq)
  lazyseq_restore_on_error  : bool which of the two transcribed texts _compute_seq has:
                                   false = `let obj = gen.call0(py)?;` (state left Computing on error; F-06b)
                                   true  = the error path stores Initialized(gen) again (repair)
  lazyseq_seq_shape         : N    1 = LazySeq::seq is the transcribed text (lock for the whole body, Realized
                                   fast path, _compute_seq, the unwrapping loop calling _compute_seq, Realized store)
  lazyseq_sequence_shape    : N    1 = Sequence::__call__, SeqIterator::__next__ and to_seq are the transcribed texts
  lazyseq_lock_keeps_gil    : bool true = seq.rs never releases the GIL (no allow_threads / detach / unsafe GIL
                                   juggling anywhere in the file) and takes the cell mutex with a blocking
                                   `self.lock.lock()`: the discipline Machine.v models (F-06)
"""
import re

from harness.tr.gen_tables import Refuse, _src

SEQ_RS = "rust/src/basilisp_native/seq.rs"


def _norm(text):
    text = re.sub(r"//[^\n]*", "", text)
    text = re.sub(r"/\*.*?\*/", "", text, flags=re.S)
    return re.sub(r"\s+", " ", text).strip()


def _block(src, header_re):
    """Text from the match of header_re up to the brace that closes its first `{`."""
    m = re.search(header_re, src)
    if not m:
        raise Refuse(f"{header_re!r} not found in {SEQ_RS}")
    i = src.index("{", m.start())
    depth, j = 0, i
    in_str = False
    while j < len(src):
        ch = src[j]
        if ch == '"' and src[j - 1] != "\\":
            in_str = not in_str
        elif not in_str:
            if ch == "{":
                depth += 1
            elif ch == "}":
                depth -= 1
                if depth == 0:
                    return src[m.start():j + 1]
        j += 1
    raise Refuse("unbalanced braces after " + header_re)


def _nocomment_src():
    src = _src(SEQ_RS)
    src = re.sub(r"//[^\n]*", "", src)
    return src


ENUM = "enum LazySeqState { Initialized(Py<PyAny>), Computing, Computed(Py<PyAny>), Realized(Py<PyAny>), }"

COMPUTE_HEAD = (
    "fn _compute_seq(&self, py: Python) -> PyResult<Py<PyAny>> { let mutex = self.lock.lock(); "
    "let state = mutex.borrow(); match state.deref() { LazySeqState::Computing => return Ok(py.None()), "
    "LazySeqState::Computed(obj) => { return Ok(obj.clone_ref(py)); } LazySeqState::Realized(seq) => { "
    "return Ok(seq.as_ref().clone_ref(py)); } _ => (), } drop(state); let mut state = mutex.borrow_mut(); "
    "let mut genfn: Option<Py<PyAny>> = None; if let LazySeqState::Initialized(gen) = state.deref() { "
    "genfn = Some(gen.clone_ref(py)); *state = LazySeqState::Computing; } drop(state); "
    "if let Some(gen) = genfn { ")
COMPUTE_TAIL = ' } else { panic!("Expected a reference to a generator function!"); } }'
COMPUTE_OLD = ("let obj = gen.call0(py)?; let mut state = mutex.borrow_mut(); "
               "*state = LazySeqState::Computed(obj.clone_ref(py)); Ok(obj.clone_ref(py))")
COMPUTE_NEW = ("match gen.call0(py) { Ok(obj) => { let mut state = mutex.borrow_mut(); "
               "*state = LazySeqState::Computed(obj.clone_ref(py)); Ok(obj.clone_ref(py)) } "
               "Err(e) => { let mut state = mutex.borrow_mut(); *state = LazySeqState::Initialized(gen); "
               "Err(e) } }")

SEQ = (
    "fn seq(&self, py: Python) -> PyResult<Py<PyAny>> { let mutex = self.lock.lock(); let state = mutex.borrow(); "
    "if let LazySeqState::Realized(seq) = state.deref() { return Ok(seq.as_ref().clone_ref(py)); } drop(state); "
    "self._compute_seq(py)?; let state = mutex.borrow(); match state.deref() { LazySeqState::Computed(obj) => { "
    "let mut wrapped = obj.clone_ref(py); let lazy_seq_tp = LAZY_SEQ_TYPE "
    ".get_or_init(py, || LazySeq::type_object(py).unbind()) .bind(py); drop(state); loop { "
    "if wrapped.bind(py).is_instance(lazy_seq_tp)? { "
    'wrapped = wrapped.call_method0(py, intern!(py, "_compute_seq"))?; } else { break; } } '
    "let mut state = mutex.borrow_mut(); let result = to_seq(py, wrapped.bind(py))?.unbind(); "
    "*state = LazySeqState::Realized(result.clone_ref(py)); Ok(result.clone_ref(py)) } _ => Ok(py.None()), } }")

SEQUENCE_CALL = (
    "fn __call__<'py>(slf: PyRef<'py, Self>, py: Python<'py>) -> PyResult<Bound<'py, PyAny>> { "
    "let mut it = slf.it.bind(py).clone(); match it.next() { Some(Ok(v)) => Ok(new_py_cons( py, v, "
    "Some(new_py_lazy_seq(py, slf.into_bound_py_any(py)?)?), None, )?), Some(Err(e)) => Err(e), "
    "None => Ok(empty_seq(py).clone()), } }")

SEQITER_NEXT = (
    "fn __next__(mut slf: PyRefMut<'_, Self>, py: Python) -> PyResult<Option<Py<PyAny>>> { "
    "if slf.cur.is_none(py) { return Ok(None); } "
    'let s = slf.cur.call_method0(py, intern!(py, "seq"))?; '
    'if s.is_none(py) || s.getattr(py, intern!(py, "is_empty"))? .cast_bound::<PyBool>(py)? .is_true() { '
    'return Ok(None); } let v = s.getattr(py, intern!(py, "first"))?; '
    'let r = s.getattr(py, intern!(py, "rest"))?; slf.cur = r; Ok(Some(v)) }')

TO_SEQ = (
    "pub fn to_seq<'py>(py: Python<'py>, s: &'py Bound<'py, PyAny>) -> PyResult<Bound<'py, PyAny>> { "
    "if s.is_none() { Ok(py.None().into_bound(py)) } else if s.is_instance( LAZY_SEQ_TYPE "
    ".get_or_init(py, || LazySeq::type_object(py).unbind()) .bind(py), )? { "
    's.call_method0(intern!(py, "seq")) } else if is_iseq(py, s)? { Ok(seq_or_nil(py, s)?) } '
    'else if is_iseqable(py, s)? { let seq = s.call_method0(intern!(py, "seq"))?.clone(); '
    "Ok(seq_or_nil(py, &seq)?) } else { Ok(seq_or_nil(py, &sequence(py, s.clone(), None)?)?) } }")


def _diff_hint(got, want):
    n = 0
    while n < min(len(got), len(want)) and got[n] == want[n]:
        n += 1
    return f"first difference at {n}: ...{got[max(0, n - 40):n + 60]!r}"


def item_state_shape():
    got = _norm(_block(_nocomment_src(), r"enum\s+LazySeqState\b"))
    if got != ENUM:
        raise Refuse("enum LazySeqState is not the transcribed four-state enum: " + got[:300])
    return ("Definition lazyseq_state_shape : N := 1%N. "
            "(* Initialized(gen) | Computing | Computed(obj) | Realized(seq) *)\n")


def item_restore():
    got = _norm(_block(_nocomment_src(), r"fn\s+_compute_seq\b"))
    if not (got.startswith(COMPUTE_HEAD) and got.endswith(COMPUTE_TAIL)):
        raise Refuse("_compute_seq is not the transcribed text; " + _diff_hint(got, COMPUTE_HEAD))
    mid = got[len(COMPUTE_HEAD):len(got) - len(COMPUTE_TAIL)].strip()
    if mid == COMPUTE_OLD:
        return ("Definition lazyseq_restore_on_error : bool := false. "
                "(* `gen.call0(py)?`: an error leaves the state Computing *)\n")
    if mid == COMPUTE_NEW:
        return ("Definition lazyseq_restore_on_error : bool := true. "
                "(* the error path stores Initialized(gen) again *)\n")
    raise Refuse("the generator call of _compute_seq is neither of the two transcribed texts: " + mid[:400])


def item_seq_shape():
    got = _norm(_block(_nocomment_src(), r"fn\s+seq\s*\(\s*&self"))
    if got != SEQ:
        raise Refuse("LazySeq::seq is not the transcribed text; " + _diff_hint(got, SEQ))
    return "Definition lazyseq_seq_shape : N := 1%N.\n"


def item_sequence_shape():
    src = _nocomment_src()
    for name, hdr, want in (("Sequence::__call__", r"fn\s+__call__\b", SEQUENCE_CALL),
                            ("SeqIterator::__next__", r"fn\s+__next__\b", SEQITER_NEXT),
                            ("to_seq", r"pub\s+fn\s+to_seq\b", TO_SEQ)):
        got = _norm(_block(src, hdr))
        if got != want:
            raise Refuse(f"{name} is not the transcribed text; " + _diff_hint(got, want))
    return "Definition lazyseq_sequence_shape : N := 1%N.\n"


def item_lock_keeps_gil():
    src = _nocomment_src()
    for bad in ("allow_threads", "detach", "PyEval_SaveThread", "with_gil", "attach", "try_lock", "unsafe"):
        if re.search(r"\b" + bad + r"\b", src):
            raise Refuse(f"seq.rs mentions `{bad}`: the GIL / mutex discipline is no longer the modelled one")
    n_lock = len(re.findall(r"self\.lock\.lock\(\)", src))
    n_mutex = len(re.findall(r"ReentrantMutex<RefCell<LazySeqState>>", src))
    if n_lock != 3 or n_mutex != 1:
        raise Refuse(f"expected 3 blocking self.lock.lock() calls (seq, _compute_seq, is_realized) on one "
                     f"ReentrantMutex<RefCell<LazySeqState>>; found {n_lock} / {n_mutex}")
    return ("Definition lazyseq_lock_keeps_gil : bool := true. "
            "(* blocking parking_lot lock() with the GIL held; no allow_threads in seq.rs *)\n")


ITEMS = [
    ("lazyseq_state_shape", item_state_shape),
    ("lazyseq_restore_on_error", item_restore),
    ("lazyseq_seq_shape", item_seq_shape),
    ("lazyseq_sequence_shape", item_sequence_shape),
    ("lazyseq_lock_keeps_gil", item_lock_keeps_gil),
]
